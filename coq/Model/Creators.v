(* M4 Content trees and the metafile creators of torrentfile/torrent.py:
     MetaFile.__init__ / sort_meta, TorrentFile.assemble, TorrentFileV2, TorrentFileHybrid,
     TorrentAssembler (assemble + _traverse), and utils._filelist_total.
   Executable and total; all proofs are in Proofs/CreatorsProofs*.v.

   Modelling assumptions
   * A payload is a [node]: a file (its bytes) or a directory (its entries AS ENUMERATED by the
     operating system: the order of the [entries] list is the order in which os.listdir /
     Path.iterdir returned them).  "Any enumeration order" is therefore "any tree related by
     [node_perm]".  Symlinks, special files and unreadable entries are outside the model.
   * Names are raw bytes: a Python str is collapsed to its UTF-8 encoding.  Python sorts str by
     code point, which is the byte order of the UTF-8 encodings; [bytes_ltb] is that order.
     `sorted` is stable; so is the insertion sort [sort_names].
   * Path strings: str(Path(root) / a / b) is modelled as root ++ "/" ++ a ++ "/" ++ b (true for
     a normalised root other than "/"), and os.path.relpath(path, self.path).split(os.sep) of a
     path produced that way as the component list [a; b] (["."] for the root itself).  Reading
     the file at a path string yields the data of the node it was generated from (path strings
     of a well-formed tree are pairwise distinct: CreatorsProofs.flt_paths_NoDup).
   * `self.name`, the piece length and the clock are inputs (name derivation from the path
     string, piece length selection and normalisation are modelled elsewhere).
   * Python dicts are ordered association lists (Model/Bencode.v [dict]): `d[k] = v` is
     [update] (replace in place or append).  `info = self.meta["info"]` is an alias; the model
     keeps [info] beside [meta] and stores it back at its (fixed, third) position with
     [close_meta].
   * Progress bars, logging, callbacks and the unused `self.hashes`/`self.total` are omitted;
     the v2-capable constructors also call filelist_total, but only for the progress bar.
   * The Dir branches of the three `_traverse` methods are textually identical; they are one
     generic [traverse] here, instantiated with the three file branches ([v2_leaf],
     [hybrid_leaf], [asm_leaf]).  The recursive call is turned into a closure BEFORE the names
     are sorted (so that the recursion is structural); the closures are then run in sorted name
     order, threading the mutable attributes (piece_layers, files, pieces) as explicit state.
   * Python exceptions: Hasher([]) (a directory without any file) raises IndexError; the model
     is total there (no pieces).  Every theorem assumes at least one file. *)
From TF Require Import Lib.Base Lib.Lex Lib.Decimal Lib.Chunks Spec.Bep52
                       Model.Bencode Model.Hasher Model.HasherV2.
From Coq Require Import Permutation.
From Coq Require String.
Import String.StringSyntax.

(* ------------------------------------------------------------------------------------------ *)
(* String constants                                                                            *)
(* ------------------------------------------------------------------------------------------ *)

Definition bs (s : String.string) : bytes := String.list_ascii_of_string s.
Arguments bs s%string_scope.

Definition slash : ascii := "/"%char.
Definition k_empty : bytes := [].
Definition k_created_by : bytes := Eval compute in bs "created by".
Definition k_creation_date : bytes := Eval compute in bs "creation date".
Definition k_info : bytes := Eval compute in bs "info".
Definition k_announce : bytes := Eval compute in bs "announce".
Definition k_announce_list : bytes := Eval compute in bs "announce-list".
Definition k_comment : bytes := Eval compute in bs "comment".
Definition k_private : bytes := Eval compute in bs "private".
Definition k_source : bytes := Eval compute in bs "source".
Definition k_url_list : bytes := Eval compute in bs "url-list".
Definition k_httpseeds : bytes := Eval compute in bs "httpseeds".
Definition k_piece_length : bytes := Eval compute in bs "piece length".
Definition k_name : bytes := Eval compute in bs "name".
Definition k_length : bytes := Eval compute in bs "length".
Definition k_files : bytes := Eval compute in bs "files".
Definition k_path : bytes := Eval compute in bs "path".
Definition k_attr : bytes := Eval compute in bs "attr".
Definition k_pieces : bytes := Eval compute in bs "pieces".
Definition k_pieces_root : bytes := Eval compute in bs "pieces root".
Definition k_file_tree : bytes := Eval compute in bs "file tree".
Definition k_meta_version : bytes := Eval compute in bs "meta version".
Definition k_piece_layers : bytes := Eval compute in bs "piece layers".
Definition s_p : bytes := Eval compute in bs "p".
Definition s_pad : bytes := Eval compute in bs ".pad".
Definition s_dot : bytes := Eval compute in bs ".".

(* ------------------------------------------------------------------------------------------ *)
(* Content trees                                                                               *)
(* ------------------------------------------------------------------------------------------ *)

Inductive node : Type :=
| File (data : bytes)
| Dir (entries : list (bytes * node)).     (* (name, child) in ENUMERATION order *)

Definition is_file (t : node) : bool := match t with File _ => true | Dir _ => false end.

Definition name_ok (n : bytes) : Prop := n <> [] /\ ~ In slash n.

(* a property of the name list of every directory of the tree *)
Fixpoint node_all (P : list bytes -> Prop) (t : node) : Prop :=
  match t with
  | File _ => True
  | Dir es =>
      P (map fst es) /\
      (fix all (l : list (bytes * node)) : Prop :=
         match l with
         | [] => True
         | e :: l' => node_all P (snd e) /\ all l'
         end) es
  end.

(* in every directory the names are pairwise distinct, non-empty and free of "/" *)
Definition names_ok (ns : list bytes) : Prop := NoDup ns /\ Forall name_ok ns.
Definition wf_node : node -> Prop := node_all names_ok.

(* executable check of wf_node (sound: CreatorsProofs.wf_nodeb_sound) *)
Fixpoint nodup_namesb (ns : list bytes) : bool :=
  match ns with
  | [] => true
  | n :: ns' => negb (existsb (bytes_eqb n) ns') && nodup_namesb ns'
  end.
Definition name_okb (n : bytes) : bool :=
  match n with [] => false | _ :: _ => negb (existsb (Ascii.eqb slash) n) end.
Fixpoint wf_nodeb (t : node) : bool :=
  match t with
  | File _ => true
  | Dir es =>
      nodup_namesb (map fst es) && forallb name_okb (map fst es) &&
      (fix all (l : list (bytes * node)) : bool :=
         match l with
         | [] => true
         | e :: l' => wf_nodeb (snd e) && all l'
         end) es
  end.

(* every file under the tree, once, with its relative component list: plain recursion in the
   order of the [entries] lists *)
Fixpoint files_of (rel : list bytes) (t : node) : list (list bytes * bytes) :=
  match t with
  | File d => [(rel, d)]
  | Dir es => flat_map (fun e => files_of (rel ++ [fst e]) (snd e)) es
  end.

Definition has_file (t : node) : Prop := files_of [] t <> [].

(* the same tree, enumerated differently: the entries of every directory permuted *)
Inductive node_perm : node -> node -> Prop :=
| np_file d : node_perm (File d) (File d)
| np_dir es es' es'' :
    entries_perm es es' -> Permutation es' es'' -> node_perm (Dir es) (Dir es'')
with entries_perm : list (bytes * node) -> list (bytes * node) -> Prop :=
| ep_nil : entries_perm [] []
| ep_cons n c c' es es' :
    node_perm c c' -> entries_perm es es' -> entries_perm ((n, c) :: es) ((n, c') :: es').

(* ------------------------------------------------------------------------------------------ *)
(* sorted(...) on names / path strings: stable insertion sort on the first component           *)
(* ------------------------------------------------------------------------------------------ *)

Section SortNames.
Context {A : Type}.

Fixpoint insert_name (e : bytes * A) (l : list (bytes * A)) : list (bytes * A) :=
  match l with
  | [] => [e]
  | e' :: l' => if bytes_ltb (fst e') (fst e) then e' :: insert_name e l' else e :: l
  end.

Fixpoint sort_names (l : list (bytes * A)) : list (bytes * A) :=
  match l with
  | [] => []
  | e :: l' => insert_name e (sort_names l')
  end.
End SortNames.

(* ------------------------------------------------------------------------------------------ *)
(* utils._filelist_total                                                                       *)
(*   if path.is_file(): return getsize(path), [str(path)]                                      *)
(*   total = 0; filelist = []                                                                  *)
(*   if path.is_dir():                                                                         *)
(*       for item in path.iterdir():                                                           *)
(*           size, paths = filelist_total(item); total += size; filelist.extend(paths)         *)
(*   return total, sorted(filelist)                                                            *)
(* Each path string carries the (relative components, data) that the creator later obtains     *)
(* from it with os.path.relpath(...).split(os.sep) and open(...).                              *)
(* ------------------------------------------------------------------------------------------ *)

Definition flt_item := (bytes * (list bytes * bytes))%type.   (* (path string, (rel, data)) *)

Fixpoint flt (path : bytes) (rel : list bytes) (t : node) : nat * list flt_item :=
  match t with
  | File d => (length d, [(path, (rel, d))])
  | Dir es =>
      let rs := map (fun e => flt (path ++ slash :: fst e) (rel ++ [fst e]) (snd e)) es in
      (list_sum (map fst rs), sort_names (concat (map snd rs)))
  end.

(* (total size, [(relative components, data)] in the order of the sorted path strings) *)
Definition filelist_total (root : bytes) (t : node) : nat * list (list bytes * bytes) :=
  let r := flt root [] t in (fst r, map snd (snd r)).

(* ------------------------------------------------------------------------------------------ *)
(* MetaFile.__init__ (the part that fills self.meta) and sort_meta                             *)
(* ------------------------------------------------------------------------------------------ *)

Record options := mk_options {
  o_created_by : bytes;          (* f"torrentfile_v{version}" *)
  o_creation_date : Z;           (* int(datetime.timestamp(datetime.now())) *)
  o_announce : list bytes;       (* None / "" / [] = [];  a str = a one element list *)
  o_comment : bytes;             (* None and "" are both falsy: [] *)
  o_private : bool;
  o_source : bytes;
  o_url_list : list bytes;
  o_httpseeds : list bytes
}.

Definition truthy {A} (l : list A) : bool := match l with [] => false | _ :: _ => true end.

Definition meta_init (o : options) (name : bytes) (pl : nat) : dict * dict :=
  let meta : dict :=
    [(k_created_by, BStr (o_created_by o));
     (k_creation_date, BInt (o_creation_date o));
     (k_info, BDict [])] in
  let info : dict := [] in
  (* if not announce: "", [[""]]  elif str: a, [[a]]  elif Sequence: announce[0], [announce] *)
  let announce := match o_announce o with [] => [] | a0 :: _ => a0 end in
  let announce_list := match o_announce o with [] => [[ [] ]] | _ :: _ => [o_announce o] end in
  let meta :=
    if truthy announce then
      update k_announce_list (BList (map (fun tier => BList (map BStr tier)) announce_list))
        (update k_announce (BStr announce) meta)
    else meta in
  let info := if truthy (o_comment o) then update k_comment (BStr (o_comment o)) info else info in
  let info := if o_private o then update k_private (BInt 1) info else info in
  let info := if truthy (o_source o) then update k_source (BStr (o_source o)) info else info in
  let meta :=
    if truthy (o_url_list o) then update k_url_list (BList (map BStr (o_url_list o))) meta
    else meta in
  let meta :=
    if truthy (o_httpseeds o) then update k_httpseeds (BList (map BStr (o_httpseeds o))) meta
    else meta in
  let info := update k_piece_length (BInt (Z.of_nat pl)) info in
  let info := update k_name (BStr name) info in
  (meta, info).

(* self.meta["info"] is the (mutated) info dictionary *)
Definition close_meta (meta info : dict) : dict := update k_info (BDict info) meta.

(* sort_meta:
     meta["info"] = dict(sorted(list(meta["info"].items())))
     if "piece layers" in meta: meta["piece layers"] = dict(sorted(list(layers.items())))
     meta = dict(sorted(list(meta.items())))
   (a non-dictionary under either key would raise AttributeError; the model leaves it alone) *)
Definition sort_meta (meta : dict) : dict :=
  let meta :=
    match lookup k_info meta with
    | Some (BDict i) => update k_info (BDict (sort_keys i)) meta
    | _ => meta
    end in
  let meta :=
    match lookup k_piece_layers meta with
    | Some (BDict l) => update k_piece_layers (BDict (sort_keys l)) meta
    | _ => meta
    end in
  sort_keys meta.

(* the dictionaries of info["files"] *)
Definition file_entry (rel : list bytes) (size : nat) : value :=
  BDict [(k_length, BInt (Z.of_nat size)); (k_path, BList (map BStr rel))].

Definition pad_entry (n : nat) : value :=
  BDict [(k_attr, BStr s_p); (k_length, BInt (Z.of_nat n));
         (k_path, BList [BStr s_pad; BStr (dec_of_nat n)])].

(* the dictionaries returned by _traverse for a file *)
Definition leaf_empty (size : nat) : dict :=
  [(k_empty, BDict [(k_length, BInt (Z.of_nat size))])].
Definition leaf_dict (size : nat) (root : bytes) : dict :=
  [(k_empty, BDict [(k_length, BInt (Z.of_nat size)); (k_pieces_root, BStr root)])].

(* ------------------------------------------------------------------------------------------ *)
(* _traverse, generic in the file branch and in the mutable state                              *)
(*   tree = {}                                                                                 *)
(*   if os.path.isdir(path):                                                                   *)
(*       for name in sorted(os.listdir(path)):                                                 *)
(*           tree[name] = self._traverse(os.path.join(path, name))                             *)
(*   return tree                                                                               *)
(* ------------------------------------------------------------------------------------------ *)

Section Traverse.
Variable St : Type.
Definition trav := list bytes -> St -> dict * St.     (* relative components -> state -> ... *)
Variable leaf : bytes -> trav.

Fixpoint run_entries (rel : list bytes) (es : list (bytes * trav)) (tree : dict) (st : St)
  : dict * St :=
  match es with
  | [] => (tree, st)
  | e :: es' =>
      let r := snd e (rel ++ [fst e]) st in
      run_entries rel es' (update (fst e) (BDict (fst r)) tree) (snd r)
  end.

Fixpoint traverse (t : node) : trav :=
  match t with
  | File d => leaf d
  | Dir es =>
      fun rel st =>
        run_entries rel (sort_names (map (fun e => (fst e, traverse (snd e))) es)) [] st
  end.
End Traverse.

(* os.path.relpath(self.path, self.path) = "." *)
Definition root_rel (t : node) : list bytes := if is_file t then [s_dot] else [].

Section Creators.
Variable H1 : bytes -> bytes.       (* sha1(x).digest() *)
Variable H256 : bytes -> bytes.     (* sha256(x).digest() *)
Variable B : nat.                   (* BLOCK_SIZE *)

(* ------------------------------------------------------------------------------------------ *)
(* TorrentFile.assemble (v1)                                                                   *)
(* ------------------------------------------------------------------------------------------ *)

(* body of `for path in filelist` in the align branch *)
Definition v1_aligned_entries (pl : nat) (f : list bytes * bytes) : list value :=
  let filesize := length (snd f) in
  let remainder := neg_mod filesize pl in                    (* -filesize % piece_length *)
  file_entry (fst f) filesize :: (if remainder =? 0 then [] else [pad_entry remainder]).

Definition create_v1_raw (align : bool) (o : options) (root name : bytes) (pl : nat) (t : node)
  : dict :=
  let '(meta, info) := meta_init o name pl in
  let '(size, filelist) := filelist_total root t in
  let '(info, align') :=
    if is_file t then (update k_length (BInt (Z.of_nat size)) info, false)
    else if negb align then
      (update k_files
         (BList (map (fun f => file_entry (fst f) (length (snd f))) filelist)) info, align)
    else
      (update k_files (BList (flat_map (v1_aligned_entries pl) filelist)) info, align) in
  let pieces := concat (hasher_pieces H1 align' pl (map snd filelist)) in
  let info := update k_pieces (BStr pieces) info in
  close_meta meta info.

(* ------------------------------------------------------------------------------------------ *)
(* TorrentFileV2                                                                               *)
(* ------------------------------------------------------------------------------------------ *)

(* state: self.piece_layers *)
Definition v2_leaf (pl : nat) (d : bytes) : trav dict :=
  fun _ layers =>
    let size := length d in
    if size =? 0 then (leaf_empty size, layers)
    else
      let fhash := hasher_v2 H256 B pl d in
      let layers :=
        if pl <? size then update (fst fhash) (BStr (concat (snd fhash))) layers else layers in
      (leaf_dict size (fst fhash), layers).

Definition create_v2_class_raw (o : options) (name : bytes) (pl : nat) (t : node) : dict :=
  let '(meta, info) := meta_init o name pl in
  let '(tree, layers) := traverse dict (v2_leaf pl) t (root_rel t) [] in
  let info :=
    match t with
    | File d =>
        update k_length (BInt (Z.of_nat (length d)))
          (update k_file_tree (BDict [(name, BDict tree)]) info)
    | Dir _ => update k_file_tree (BDict tree) info
    end in
  let info := update k_meta_version (BInt 2) info in
  let meta := update k_piece_layers (BDict layers) meta in
  close_meta meta info.

(* ------------------------------------------------------------------------------------------ *)
(* TorrentFileHybrid                                                                           *)
(* ------------------------------------------------------------------------------------------ *)

Record hy_state := mk_hy {
  hy_layers : dict;             (* self.piece_layers *)
  hy_files : list value;        (* self.files *)
  hy_pieces : list bytes        (* self.pieces: a list of digests *)
}.

Definition hybrid_leaf (padding : bool) (pl : nat) (d : bytes) : trav hy_state :=
  fun rel st =>
    let file_size := length d in
    let files := hy_files st ++ [file_entry rel file_size] in
    if file_size =? 0 then (leaf_empty file_size, mk_hy (hy_layers st) files (hy_pieces st))
    else
      let '(root, piece_layer, inputs, padding_file) := hasher_hybrid H256 B padding pl d in
      let layers :=
        if pl <? file_size then update root (BStr (concat piece_layer)) (hy_layers st)
        else hy_layers st in
      let pieces := hy_pieces st ++ map H1 inputs in
      let files :=
        match padding_file with Some n => files ++ [pad_entry n] | None => files end in
      (leaf_dict file_size root, mk_hy layers files pieces).

Definition create_hybrid_class_raw (o : options) (name : bytes) (pl : nat) (t : node) : dict :=
  let '(meta, info) := meta_init o name pl in
  let padding := negb (is_file t) in
  let info := update k_meta_version (BInt 2) info in
  let '(tree, st) := traverse hy_state (hybrid_leaf padding pl) t (root_rel t) (mk_hy [] [] []) in
  let info :=
    match t with
    | File d =>
        update k_length (BInt (Z.of_nat (length d)))
          (update k_file_tree (BDict [(name, BDict tree)]) info)
    | Dir _ => update k_files (BList (hy_files st)) (update k_file_tree (BDict tree) info)
    end in
  let info := update k_pieces (BStr (concat (hy_pieces st))) info in
  let meta := update k_piece_layers (BDict (hy_layers st)) meta in
  close_meta meta info.

(* ------------------------------------------------------------------------------------------ *)
(* TorrentAssembler (hybrid = (str(meta_version) == "3"))                                      *)
(* ------------------------------------------------------------------------------------------ *)

Record as_state := mk_as {
  as_layers : dict;             (* self.piece_layers *)
  as_files : list value;        (* self.files *)
  as_pieces : bytes             (* self.pieces: a bytearray *)
}.

Definition asm_leaf (hybrid padding : bool) (pl : nat) (d : bytes) : trav as_state :=
  fun rel st =>
    let file_size := length d in
    let files := if hybrid then as_files st ++ [file_entry rel file_size] else as_files st in
    if file_size =? 0 then (leaf_empty file_size, mk_as (as_layers st) files (as_pieces st))
    else
      let r := file_hasher_run H256 B hybrid padding pl d in      (* for result in hasher *)
      let pieces :=
        if hybrid then as_pieces st ++ concat (map H1 (fhr_yielded_pieces r)) else as_pieces st in
      let layers_bytes := concat (fhr_yielded_layers r) in
      let root := match fhr_root r with Some x => x | None => [] end in
      let layers :=
        if pl <? file_size then update root (BStr layers_bytes) (as_layers st)
        else as_layers st in
      let files :=
        if hybrid then
          match fhr_padding_file r with Some n => files ++ [pad_entry n] | None => files end
        else files in
      (leaf_dict file_size root, mk_as layers files pieces).

Definition create_assembler_raw (hybrid : bool) (o : options) (name : bytes) (pl : nat)
           (t : node) : dict :=
  let '(meta, info) := meta_init o name pl in
  let padding := negb (is_file t) in
  let info := update k_meta_version (BInt 2) info in
  let '(tree, st) :=
    traverse as_state (asm_leaf hybrid padding pl) t (root_rel t) (mk_as [] [] []) in
  let info :=
    match t with
    | File d =>
        update k_length (BInt (Z.of_nat (length d)))
          (update k_file_tree (BDict [(name, BDict tree)]) info)
    | Dir _ =>
        let info := update k_file_tree (BDict tree) info in
        if hybrid then update k_files (BList (as_files st)) info else info
    end in
  let info := if hybrid then update k_pieces (BStr (as_pieces st)) info else info in
  let meta := update k_piece_layers (BDict (as_layers st)) meta in
  close_meta meta info.

(* ------------------------------------------------------------------------------------------ *)
(* what write() hands to pyben.dump: the metafile after sort_meta                              *)
(* ------------------------------------------------------------------------------------------ *)

Definition create_v1 (align : bool) o root name pl t : value :=
  BDict (sort_meta (create_v1_raw align o root name pl t)).
Definition create_v2_class o name pl t : value :=
  BDict (sort_meta (create_v2_class_raw o name pl t)).
Definition create_hybrid_class o name pl t : value :=
  BDict (sort_meta (create_hybrid_class_raw o name pl t)).
Definition create_assembler (hybrid : bool) o name pl t : value :=
  BDict (sort_meta (create_assembler_raw hybrid o name pl t)).

End Creators.

(* ------------------------------------------------------------------------------------------ *)
(* Examples: toy hashes, B = 2, k = 1 (pl = 4)                                                 *)
(* ------------------------------------------------------------------------------------------ *)
Module CreatorsExamples.
Local Open Scope char_scope.

Definition T1 (x : bytes) : bytes := "<" :: x ++ [">"].             (* toy "sha1" *)
Definition T256 (x : bytes) : bytes := "[" :: x ++ ["]"].           (* toy "sha256" *)

(* a.txt sorts before the directory a as a NAME ("a" is a prefix of "a.txt" ... no: "a" < "a.txt")
   but the path string "r/a/z" sorts AFTER "r/a.txt" because "." < "/" *)
Definition ex_tree : node :=
  Dir [ (bs "b", File (bs "0123456789"));
        (bs "a.txt", File (bs "xyz"));
        (bs "a", Dir [(bs "z", File (bs "hello")); (bs "e", File [])]) ].

Definition ex_tree' : node :=           (* the same tree, enumerated differently *)
  Dir [ (bs "a", Dir [(bs "e", File []); (bs "z", File (bs "hello"))]);
        (bs "b", File (bs "0123456789"));
        (bs "a.txt", File (bs "xyz")) ].

Definition ex_opts : options :=
  mk_options (bs "torrentfile_v0.9.2") 1700000000 [bs "http://t/a"; bs "http://u/a"]
             (bs "hi") true [] [bs "http://w/"] [].

Example ex_wf : wf_nodeb ex_tree = true /\ wf_nodeb ex_tree' = true.
Proof. split; vm_compute; reflexivity. Qed.

(* filelist_total sorts whole path strings: a.txt before a/e, a/z *)
Example ex_filelist :
  filelist_total (bs "r") ex_tree =
  (18, [([bs "a.txt"], bs "xyz"); ([bs "a"; bs "e"], []); ([bs "a"; bs "z"], bs "hello");
        ([bs "b"], bs "0123456789")]).
Proof. vm_compute. reflexivity. Qed.

Example ex_filelist_perm :
  filelist_total (bs "r") ex_tree' = filelist_total (bs "r") ex_tree.
Proof. vm_compute. reflexivity. Qed.

(* _traverse sorts names per directory: a (e, z), a.txt, b *)
Example ex_traverse_order :
  hy_files (snd (traverse hy_state (hybrid_leaf T1 T256 2 true 4) ex_tree [] (mk_hy [] [] [])))
  = [file_entry [bs "a"; bs "e"] 0; file_entry [bs "a"; bs "z"] 5; pad_entry 3;
     file_entry [bs "a.txt"] 3; pad_entry 1; file_entry [bs "b"] 10; pad_entry 2].
Proof. vm_compute. reflexivity. Qed.

Example ex_v1_perm :
  create_v1 T1 false ex_opts (bs "r") (bs "r") 4 ex_tree' = create_v1 T1 false ex_opts (bs "r") (bs "r") 4 ex_tree.
Proof. vm_compute. reflexivity. Qed.

Example ex_v1_canon : canonb (create_v1 T1 true ex_opts (bs "r") (bs "r") 4 ex_tree) = true.
Proof. vm_compute. reflexivity. Qed.

Example ex_assembler_v2 :
  create_assembler T1 T256 2 false ex_opts (bs "r") 4 ex_tree = create_v2_class T256 2 ex_opts (bs "r") 4 ex_tree.
Proof. vm_compute. reflexivity. Qed.

Example ex_assembler_hybrid :
  create_assembler T1 T256 2 true ex_opts (bs "r") 4 ex_tree' = create_hybrid_class T1 T256 2 ex_opts (bs "r") 4 ex_tree.
Proof. vm_compute. reflexivity. Qed.

Example ex_hybrid_canon :
  canonb (create_assembler T1 T256 2 true ex_opts (bs "r") 4 ex_tree) = true.
Proof. vm_compute. reflexivity. Qed.

(* before sort_meta the metafile is NOT canonical (insertion order) *)
Example ex_raw_not_canon :
  canonb (BDict (create_assembler_raw T1 T256 2 true ex_opts (bs "r") 4 ex_tree)) = false.
Proof. vm_compute. reflexivity. Qed.

(* single file *)
Example ex_single :
  create_assembler T1 T256 2 true ex_opts (bs "f") 4 (File (bs "01234")) =
  create_hybrid_class T1 T256 2 ex_opts (bs "f") 4 (File (bs "01234")).
Proof. vm_compute. reflexivity. Qed.

End CreatorsExamples.
