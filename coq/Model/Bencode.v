(* M1 Bencode: values, the encoder and the LENIENT decoder of pyben 0.3.2
   (/venv/lib/python3.12/site-packages/pyben/bencode.py), and a STRICT decoder/recogniser of
   canonical bencoding.  Executable and total; all lemmas are in Proofs/BencodeProofs.v.

   Modelling assumptions (see DESIGN.md section 7):
   * Python `str` and `bytes` are collapsed to raw bytes (a `str` is its UTF-8 encoding; pyben
     decodes valid UTF-8 to `str` and re-encodes it to the same bytes).
   * Only string keys are modelled: where Python would accept an `int` dictionary key the model
     returns None.  (list/dict keys raise TypeError in Python as well.)
   * Python >= 3.11 refuses int<->str conversions above 4300 digits (ValueError); not modelled.
   * `bool` (pyben prints `iTruee`), float, tuple and None are outside `value`.
   * A Python exception of any kind is `None`. *)
From TF Require Import Lib.Base Lib.Lex Lib.Decimal.
From Coq Require Import NArith Sorted.

Local Open Scope char_scope.

Inductive value : Type :=
| BInt (z : Z)
| BStr (s : bytes)
| BList (l : list value)
| BDict (d : list (bytes * value)).   (* ORDERED association list = Python dict insertion order *)

Definition dict := list (bytes * value).

(* ------------------------------------------------------------------------------------------ *)
(* Dictionaries as ordered association lists                                                   *)
(* ------------------------------------------------------------------------------------------ *)

(* d.get(k) *)
Fixpoint lookup (k : bytes) (d : dict) : option value :=
  match d with
  | [] => None
  | (k', v) :: d' => if bytes_eqb k' k then Some v else lookup k d'
  end.

(* d[k] = v : replace in place if present, else append at the end *)
Fixpoint update (k : bytes) (v : value) (d : dict) : dict :=
  match d with
  | [] => [(k, v)]
  | (k', v') :: d' => if bytes_eqb k' k then (k', v) :: d' else (k', v') :: update k v d'
  end.

(* del d[k] / d.pop(k, None) *)
Fixpoint remove (k : bytes) (d : dict) : dict :=
  match d with
  | [] => []
  | (k', v') :: d' => if bytes_eqb k' k then remove k d' else (k', v') :: remove k d'
  end.

Definition key_ltb (a b : bytes * value) : bool := bytes_ltb (fst a) (fst b).
Definition key_lt (a b : bytes * value) : Prop := key_ltb a b = true.

(* dict(sorted(d.items())) for duplicate-free keys: stable insertion sort on the key *)
Fixpoint insert_key (kv : bytes * value) (d : dict) : dict :=
  match d with
  | [] => [kv]
  | kv' :: d' => if key_ltb kv' kv then kv' :: insert_key kv d' else kv :: d
  end.

Fixpoint sort_keys (d : dict) : dict :=
  match d with
  | [] => []
  | kv :: d' => insert_key kv (sort_keys d')
  end.

(* strictly ascending keys (adjacent check) *)
Fixpoint sorted_keysb (d : dict) : bool :=
  match d with
  | [] => true
  | kv :: d' =>
      match d' with
      | [] => true
      | kv' :: _ => key_ltb kv kv' && sorted_keysb d'
      end
  end.

(* the dict built by `dic = {}; for k, v in pairs: dic[k] = v` *)
Definition dict_of_pairs (ps : dict) : dict :=
  fold_left (fun acc kv => update (fst kv) (snd kv) acc) ps [].

(* ------------------------------------------------------------------------------------------ *)
(* Well-formedness predicates                                                                  *)
(* ------------------------------------------------------------------------------------------ *)

(* every dictionary at every depth has strictly ascending keys (raw byte order) *)
Inductive canon : value -> Prop :=
| canon_int z : canon (BInt z)
| canon_str s : canon (BStr s)
| canon_list l : Forall canon l -> canon (BList l)
| canon_dict d :
    StronglySorted key_lt d -> Forall (fun kv => canon (snd kv)) d -> canon (BDict d).

Fixpoint canonb (v : value) : bool :=
  match v with
  | BInt _ | BStr _ => true
  | BList l => forallb canonb l
  | BDict d => sorted_keysb d && forallb (fun kv : bytes * value => let (_, v') := kv in canonb v') d
  end.

(* at every depth no dictionary has two equal keys (what a Python dict guarantees) *)
Inductive nodup_keys : value -> Prop :=
| nodup_int z : nodup_keys (BInt z)
| nodup_str s : nodup_keys (BStr s)
| nodup_list l : Forall nodup_keys l -> nodup_keys (BList l)
| nodup_dict d :
    NoDup (map fst d) -> Forall (fun kv => nodup_keys (snd kv)) d -> nodup_keys (BDict d).

Fixpoint nodupb (ks : list bytes) : bool :=
  match ks with
  | [] => true
  | k :: ks' => negb (existsb (bytes_eqb k) ks') && nodupb ks'
  end.

Fixpoint nodup_keysb (v : value) : bool :=
  match v with
  | BInt _ | BStr _ => true
  | BList l => forallb nodup_keysb l
  | BDict d => nodupb (map fst d) && forallb (fun kv : bytes * value => let (_, v') := kv in nodup_keysb v') d
  end.

(* ------------------------------------------------------------------------------------------ *)
(* Encoder: pyben.benencode                                                                    *)
(* ------------------------------------------------------------------------------------------ *)

(* bencode_str / bencode_bytes: str(len(text)) + ":" + text *)
Definition enc_str (s : bytes) : bytes := dec_of_nat (length s) ++ ":" :: s.

(* bencode_int: "i" + str(i) + "e" *)
Definition enc_int (z : Z) : bytes := "i" :: dec_of_Z z ++ ["e"].

Fixpoint encode (v : value) : bytes :=
  match v with
  | BInt z => enc_int z
  | BStr s => enc_str s
  | BList l => "l" :: concat (map encode l) ++ ["e"]                 (* bencode_list *)
  | BDict d =>                                                        (* bencode_dict: items() order *)
      "d" :: concat (map (fun kv : bytes * value => let (k, v') := kv in enc_str k ++ encode v') d) ++ ["e"]
  end.

Definition enc_list (l : list value) : bytes := concat (map encode l).
Definition enc_pairs (d : dict) : bytes :=
  concat (map (fun kv : bytes * value => let (k, v') := kv in enc_str k ++ encode v') d).

(* ------------------------------------------------------------------------------------------ *)
(* Decoders.  One fuelled fixpoint, [strict = false] is pyben.bendecode statement by statement,*)
(* [strict = true] adds the canonical-form checks.                                             *)
(* ------------------------------------------------------------------------------------------ *)

(* units[start:end] and the rest: (firstn n l, skipn n l) with a binary counter, so that an
   absurd declared length costs nothing (Python's slice silently returns fewer bytes). *)
Fixpoint splitN (n : N) (l : bytes) : bytes * bytes :=
  match l with
  | [] => ([], [])
  | x :: l' =>
      if N.eqb n 0 then ([], l)
      else let (a, b) := splitN (N.pred n) l' in (x :: a, b)
  end.

(* bendecode_int on the bytes AFTER the leading "i":  re.match(rb"i(-?\d+)e"), int(group(1)).
   strict: additionally no leading zero and no "-0". *)
Definition split_sign (rest : bytes) : bool * bytes :=       (* the regex fragment -? *)
  match rest with
  | c :: r => if Ascii.eqb c "-" then (true, r) else (false, rest)
  | [] => (false, [])
  end.

Definition decode_int (strict : bool) (rest : bytes) : option (value * bytes) :=
  let '(neg, rest1) := split_sign rest in
  let '(ds, rest2) := span_digits rest1 in
  match ds, rest2 with
  | _ :: _, c :: r =>
      if Ascii.eqb c "e" then
        if strict && negb (canonical_dec ds && negb (neg && N.eqb (N_of_dec ds) 0)) then None
        else Some (BInt (Z_of_dec neg ds), r)
      else None
  | _, _ => None
  end.

(* bendecode_str on the whole input:  re.match(rb"(\d+):"), text = units[start:start+len].
   strict: additionally no leading zero in the length and the length must be available.
   The Python function returns the offset `end`, possibly beyond len(units); every caller only
   ever uses bits[end:], which is then empty -- that is what the second component is. *)
Definition decode_str (strict : bool) (bs : bytes) : option (value * bytes) :=
  let '(ds, rest) := span_digits bs in
  match ds, rest with
  | _ :: _, c :: body =>
      if Ascii.eqb c ":" then
        let n := N_of_dec ds in
        if strict && negb (canonical_dec ds && (n <=? N.of_nat (length body))%N) then None
        else let '(s, r) := splitN n body in Some (BStr s, r)
      else None
  | _, _ => None
  end.

(* bendecode_list loop: `while not bits[feed:].startswith(b"e"): match, rest = bendecode(...);
   lst.append(match)`; [n] bounds the number of iterations; running out of input is None
   (Python: IndexError in bendecode(b"")). *)
Fixpoint list_loop (rec : bytes -> option (value * bytes)) (n : nat) (bs : bytes)
  : option (list value * bytes) :=
  match n with
  | O => None
  | S n' =>
      match bs with
      | [] => None
      | c :: r =>
          if Ascii.eqb c "e" then Some ([], r)
          else match rec bs with
               | None => None
               | Some (v, r1) =>
                   match list_loop rec n' r1 with
                   | None => None
                   | Some (vs, r2) => Some (v :: vs, r2)
                   end
               end
      end
  end.

(* bendecode_dict loop: decodes key then value; returns the (key, value) pairs in file order.
   The assignment `dic[match1] = match2` is applied afterwards by [dict_of_pairs] (it has no
   influence on decoding).  A non-string key is None (modelling assumption above). *)
Fixpoint pairs_loop (rec : bytes -> option (value * bytes)) (n : nat) (bs : bytes)
  : option (dict * bytes) :=
  match n with
  | O => None
  | S n' =>
      match bs with
      | [] => None
      | c :: r =>
          if Ascii.eqb c "e" then Some ([], r)
          else match rec bs with
               | Some (BStr k, r1) =>
                   match rec r1 with
                   | None => None
                   | Some (v, r2) =>
                       match pairs_loop rec n' r2 with
                       | None => None
                       | Some (ps, r3) => Some ((k, v) :: ps, r3)
                       end
                   end
               | _ => None
               end
      end
  end.

(* lenient: later duplicates overwrite the value and keep the first position; any key order.
   strict: keys must already be strictly ascending (hence duplicate-free). *)
Definition finish_dict (strict : bool) (ps : dict) : option value :=
  if strict then (if sorted_keysb ps then Some (BDict ps) else None)
  else Some (BDict (dict_of_pairs ps)).

(* bendecode: dispatch on the first byte.  Result: decoded value and the unread remainder
   bits[feed:].  (chr(b).isdigit() is also true for the bytes B2 B3 B9, but then the ASCII-only
   regex of bendecode_str fails and Python raises: None here as well.) *)
Fixpoint decode_gen (strict : bool) (fuel : nat) (bs : bytes) {struct fuel}
  : option (value * bytes) :=
  match fuel with
  | O => None
  | S f =>
      match bs with
      | [] => None                                             (* bits[0]: IndexError *)
      | c :: rest =>
          if Ascii.eqb c "i" then decode_int strict rest
          else if is_digit c then decode_str strict bs
          else if Ascii.eqb c "l" then
            match list_loop (decode_gen strict f) f rest with
            | Some (vs, r) => Some (BList vs, r)
            | None => None
            end
          else if Ascii.eqb c "d" then
            match pairs_loop (decode_gen strict f) f rest with
            | Some (ps, r) =>
                match finish_dict strict ps with
                | Some v => Some (v, r)
                | None => None
                end
            | None => None
            end
          else None                                            (* raise DecodeError(bits) *)
      end
  end.

(* pyben.bendecode.  Fuel [S (length bs)] always suffices (BencodeProofs.pydecode_fuel). *)
Definition pydecode (fuel : nat) (bs : bytes) : option (value * bytes) :=
  decode_gen false fuel bs.

(* pyben.loads: `decoded, _ = bendecode(data)` -- trailing bytes are ignored *)
Definition pyloads (bs : bytes) : option value :=
  match pydecode (S (length bs)) bs with
  | Some (v, _) => Some v
  | None => None
  end.

(* Strict decoder: canonical form only, and nothing after the top-level value *)
Definition strict_decode (bs : bytes) : option value :=
  match decode_gen true (S (length bs)) bs with
  | Some (v, []) => Some v
  | _ => None
  end.

Definition canonical_bytes (bs : bytes) : bool :=
  match strict_decode bs with Some _ => true | None => false end.
