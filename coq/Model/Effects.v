(* Effects of commands (C18, C14): an over-approximate call graph with the direct filesystem
   effects of every function is GENERATED from /repo (Gen/GenEffects.v); here are the executable
   closure, the checker `readonly_cmd`, and small operational models of the writability probe
   (utils.check_path_writable) and of commands.rename.  No proofs in this file. *)
From Coq Require Import List Arith Bool. Import ListNotations.
From TF Require Import Lib.Base.

Inductive effect := ERead | EWrite | ERemove | ERename | EMkdir | ECopy | EChmod | EUnknown.

Definition is_read (e : effect) : bool := match e with ERead => true | _ => false end.

Definition graph := list (nat * list nat).

Definition succs (g : graph) (n : nat) : list nat :=
  match find (fun p => fst p =? n) g with Some p => snd p | None => [] end.

Definition mem (n : nat) (l : list nat) : bool := existsb (Nat.eqb n) l.

Definition add_new (l acc : list nat) : list nat :=
  fold_left (fun a x => if mem x a then a else x :: a) l acc.

Fixpoint reach_iter (fuel : nat) (g : graph) (s : list nat) : list nat :=
  match fuel with
  | O => s
  | S f => reach_iter f g (add_new (flat_map (succs g) s) s)
  end.

(* the closure is computed on fuel; that it IS closed is checked, not assumed *)
Definition reach (g : graph) (roots : list nat) : list nat := reach_iter (length g) g (add_new roots []).

Definition closed_b (g : graph) (s : list nat) : bool :=
  forallb (fun n => forallb (fun m => mem m s) (succs g n)) s.

Definition covers (roots s : list nat) : bool := forallb (fun r => mem r s) roots.

Definition effs (pr : list (nat * list effect)) (n : nat) : list effect :=
  match find (fun p => fst p =? n) pr with Some p => snd p | None => [] end.

Definition effects_of (pr : list (nat * list effect)) (s : list nat) : list effect := flat_map (effs pr) s.

Definition readonly_cmd (g : graph) (pr : list (nat * list effect)) (roots : list nat) : bool :=
  let s := reach g roots in
  closed_b g s && covers roots s && forallb is_read (effects_of pr s).

(* allowed-effects variant: every effect of every reachable function is in `allowed` *)
Definition effect_eqb (a b : effect) : bool :=
  match a, b with
  | ERead, ERead | EWrite, EWrite | ERemove, ERemove | ERename, ERename
  | EMkdir, EMkdir | ECopy, ECopy | EChmod, EChmod | EUnknown, EUnknown => true
  | _, _ => false
  end.

Definition only_effects (allowed : list effect) (g : graph) (pr : list (nat * list effect)) (roots : list nat) : bool :=
  let s := reach g roots in
  closed_b g s && covers roots s &&
  forallb (fun e => existsb (effect_eqb e) allowed) (effects_of pr s).

(* ---- abstract filesystem and events ------------------------------------------------ *)
Definition fsT := nat -> option bytes.      (* path id -> content (None = absent) *)
Definition upd (f : fsT) (p : nat) (v : option bytes) : fsT := fun q => if q =? p then v else f q.

Inductive event :=
 | EvRead (p : nat)
 | EvWrite (p : nat) (c : bytes)
 | EvRemove (p : nat)
 | EvRename (p q : nat)
 | EvMkdir (p : nat)
 | EvCopy (p q : nat)
 | EvChmod (p : nat)
 | EvUnknown (f : fsT -> fsT).

Definition kind_of (e : event) : effect :=
  match e with
  | EvRead _ => ERead | EvWrite _ _ => EWrite | EvRemove _ => ERemove | EvRename _ _ => ERename
  | EvMkdir _ => EMkdir | EvCopy _ _ => ECopy | EvChmod _ => EChmod | EvUnknown _ => EUnknown
  end.

Definition apply_event (f : fsT) (e : event) : fsT :=
  match e with
  | EvRead _ => f
  | EvWrite p c => upd f p (Some c)
  | EvRemove p => upd f p None
  | EvRename p q => upd (upd f q (f p)) p None
  | EvMkdir p => upd f p (Some [])
  | EvCopy p q => upd f q (f p)
  | EvChmod _ => f
  | EvUnknown g => g f
  end.

Definition run_events (tr : list event) (f : fsT) : fsT := fold_left apply_event tr f.

(* ---- the writability probe (utils.check_path_writable) on its path P ------------------- *)
Inductive probe_op := PExistsBind | POpenAppend | PClose | PRemoveIfNew | PRemove | PUnknown.

(* state: content at P, and the value bound to `existed` *)
Definition probe_step (st : option bytes * bool) (o : probe_op) : option (option bytes * bool) :=
  let '(c, existed) := st in
  match o with
  | PExistsBind => Some (c, match c with Some _ => true | None => false end)
  | POpenAppend => Some (Some (match c with Some d => d | None => [] end), existed)
  | PClose => Some (c, existed)
  | PRemoveIfNew => Some (if existed then c else None, existed)
  | PRemove => Some (None, existed)
  | PUnknown => None
  end.

Fixpoint probe_run (ops : list probe_op) (st : option bytes * bool) : option (option bytes * bool) :=
  match ops with
  | [] => Some st
  | o :: r => match probe_step st o with Some st' => probe_run r st' | None => None end
  end.

(* content at P after the probe, started on content c *)
Definition probe_final (ops : list probe_op) (c : option bytes) : option (option bytes) :=
  option_map fst (probe_run ops (c, false)).

(* create = probe on P, then write the metafile to OUT *)
Definition create_fs (ops : list probe_op) (f : fsT) (P OUT : nat) (meta : bytes) : option fsT :=
  match probe_final ops (f P) with
  | Some c => Some (upd (upd f P c) OUT (Some meta))
  | None => None
  end.

(* ---- commands.rename -------------------------------------------------------------------- *)
Inductive rename_op := RRaiseUnlessExistsT | RLoadT | RRaiseIfExistsN | RRenameTN | RUnknown.
Inductive rres := Raised (f : fsT) | Done (f : fsT) | Unmodelled.

Fixpoint rename_run (ops : list rename_op) (f : fsT) (T N : nat) : rres :=
  match ops with
  | [] => Done f
  | o :: r =>
    match o with
    | RRaiseUnlessExistsT => match f T with None => Raised f | Some _ => rename_run r f T N end
    | RLoadT => match f T with None => Raised f | Some _ => rename_run r f T N end
    | RRaiseIfExistsN => match f N with Some _ => Raised f | None => rename_run r f T N end
    | RRenameTN => match f T with
                   | None => Raised f
                   | Some _ => rename_run r (apply_event f (EvRename T N)) T N   (* os.rename replaces an existing N silently *)
                   end
    | RUnknown => Unmodelled
    end
  end.
