(* C19 -- path elements taken from a metafile, the validator `Metadata._check_parts` of
   /repo/torrentfile/rebuild.py, and lexical POSIX path resolution.

   Strings are Coq.Strings.String.string (sequences of bytes: a Python str is its UTF-8
   encoding; the bytes "/" and NUL never occur inside a multi-byte UTF-8 sequence, so the
   tests below mean the same on both sides). *)
From Coq Require Import List String Ascii Bool.
Import ListNotations.
Open Scope string_scope.
Open Scope list_scope.

Definition slash : ascii := "/"%char.
Definition nul : ascii := Ascii.zero.

(* `a in s` for a one-character a *)
Fixpoint contains (a : ascii) (s : string) : bool :=
  match s with
  | EmptyString => false
  | String c rest => Ascii.eqb c a || contains a rest
  end.

(* _check_parts, one str element (os.sep is "/" on POSIX):
     if (not isinstance(part, str) or part in ("", ".", "..")
             or "/" in part or os.sep in part or "\0" in part): raise ValueError
   true = the element is let through.  Non-str elements are always refused. *)
Definition safe_comp (c : string) : bool :=
  negb (String.eqb c "") && negb (String.eqb c ".") && negb (String.eqb c "..")
  && negb (contains slash c) && negb (contains nul c).

(* _check_parts on a list of str elements: true = no ValueError *)
Definition check_parts_model (parts : list string) : bool := forallb safe_comp parts.

(** * Lexical resolution: os.path.join of the components, then normalisation.
    A path is resolved to the list of names leading to it from the starting directory,
    which is treated as the root: ".." there stays there. *)

(* split a text at every "/":  "a//b" -> ["a"; ""; "b"],  "" -> [""] *)
Fixpoint split_slash (s : string) : list string :=
  match s with
  | EmptyString => [EmptyString]
  | String c rest =>
      if Ascii.eqb c slash then EmptyString :: split_slash rest
      else match split_slash rest with
           | [] => [String c EmptyString]
           | h :: t => String c h :: t
           end
  end.

(* one name of a joined path: "" and "." are dropped, ".." pops one level *)
Definition step (stack : list string) (name : string) : list string :=
  if String.eqb name "" then stack
  else if String.eqb name "." then stack
  else if String.eqb name ".." then removelast stack
  else stack ++ [name].

Definition starts_with_slash (s : string) : bool :=
  match s with
  | String c _ => Ascii.eqb c slash
  | EmptyString => false
  end.

(* os.path.join(stack, c): a component starting with "/" discards everything before it;
   embedded "/" separate sub-components *)
Definition join_comp (stack : list string) (c : string) : list string :=
  fold_left step (split_slash c) (if starts_with_slash c then [] else stack).

Definition resolve (cs : list string) : list string := fold_left join_comp cs [].

(* p is a prefix of l: l is p itself or lies under p *)
Definition prefix (p l : list string) : Prop := exists rest, l = p ++ rest.

Fixpoint prefixb (p l : list string) : bool :=
  match p, l with
  | [], _ => true
  | x :: p', y :: l' => String.eqb x y && prefixb p' l'
  | _ :: _, [] => false
  end.

(* where rebuild copies a file to: os.path.join(dest, os.path.join(name, *path)) after
   _check_parts([name]) and _check_parts(path); None = ValueError, nothing is written *)
Definition checked_target (dest : list string) (name : string) (path : list string)
  : option (list string) :=
  if check_parts_model [name] && check_parts_model path
  then Some (resolve (dest ++ name :: path))
  else None.

(* ... and without the validator (the original code, D16) *)
Definition unchecked_target (dest : list string) (name : string) (path : list string)
  : list string := resolve (dest ++ name :: path).
