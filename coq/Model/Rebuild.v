(* Hand model of torrentfile/rebuild.py (current working tree):
     PathNode.get_part, Metadata._map_pieces, PieceNode._find_matches / find_matches,
     Metadata._match_v1 (the `copied` bookkeeping).
   Statement-by-statement; mutable cursors are explicit state; the inner `while` runs on fuel.
   No proofs here (see Proofs/MapPieces.v and Proofs/RebuildMatch.v). *)
From TF Require Import Lib.Base.
From Coq Require String.

(* ------------------------------------------------------------------------------------------ *)
(* PathNode.get_part                                                                           *)
(* ------------------------------------------------------------------------------------------ *)

(* `stop : option nat` : None stands for Python's -1 ("read to the end of the file").
     with open(path, "rb") as fd:
         if self.start: fd.seek(self.start)
         if self.stop != -1: partial = fd.read(self.stop - self.start)
         else:               partial = fd.read()
   `fd.read(n)` with n < 0 reads to the end of the file; seek beyond the end then read gives b"". *)
Definition get_part (content : bytes) (start : nat) (stop : option nat) : bytes :=
  let after_seek := if start =? 0 then content else skipn start content in
  match stop with
  | Some e => if e <? start then after_seek else firstn (e - start) after_seek
  | None => after_seek
  end.

(* A PathNode of _map_pieces seen as (index of `current` in self.files, start, stop). *)
Definition range : Type := (nat * nat * option nat)%type.
Definition r_file (r : range) : nat := fst (fst r).
Definition r_start (r : range) : nat := snd (fst r).
Definition r_stop (r : range) : option nat := snd r.

Definition slice (files : list bytes) (r : range) : bytes :=
  get_part (nth (r_file r) files []) (r_start r) (r_stop r).

(* ------------------------------------------------------------------------------------------ *)
(* Metadata._map_pieces                                                                        *)
(* ------------------------------------------------------------------------------------------ *)

(* Loop state carried from one piece to the next: (remainder, file_index, current).
   `current` is the dict self.files[k]; it is represented by k.  Python starts with
   `current = {}`; it is only read (current["length"], **current) when remainder <> 0, which
   can only happen after `current = self.files[file_index]` has been executed, so the initial
   value 0 is never observed. *)
Definition mp_state : Type := (nat * nat * nat)%type.

(*  while target > 0 and file_index < len(self.files):
        start = 0
        current = self.files[file_index]
        size = current["length"]
        if size <= target: stop = -1; target -= size; file_index += 1
        else:              stop = target; remainder = size - target; target = 0
        piece.append(PathNode(start, stop, **current))                                        *)
Fixpoint mp_while (fuel : nat) (lens : list nat) (target remainder file_index current : nat)
  : list range * mp_state :=
  match fuel with
  | O => ([], (remainder, file_index, current))
  | S fuel' =>
      if (0 <? target) && (file_index <? length lens) then
        let current := file_index in
        let size := nth file_index lens 0 in
        if size <=? target then
          let '(rs, st) := mp_while fuel' lens (target - size) remainder (S file_index) current in
          ((current, 0, None) :: rs, st)
        else
          let '(rs, st) := mp_while fuel' lens 0 (size - target) file_index current in
          ((current, 0, Some target) :: rs, st)
      else ([], (remainder, file_index, current))
  end.

(* Body of `for i in range(total_pieces)`: the PathNodes of one piece and the next state.
   Every iteration of the while either advances file_index or sets target to 0, so
   len(files) + 1 iterations always suffice. *)
Definition mp_piece (pl : nat) (lens : list nat) (st : mp_state) : list range * mp_state :=
  let '(remainder, file_index, current) := st in
  let target := pl in
  let fuel := S (length lens) in
  if negb (remainder =? 0) then
    let start := nth current lens 0 - remainder in
    if remainder <=? target then
      let '(rs, st') := mp_while fuel lens (target - remainder) 0 (S file_index) current in
      ((current, start, None) :: rs, st')
    else
      let '(rs, st') :=
        mp_while fuel lens (target - target) (remainder - target) file_index current in
      ((current, start, Some (start + target)) :: rs, st')
  else mp_while fuel lens target remainder file_index current.

Fixpoint mp_loop (n : nat) (pl : nat) (lens : list nat) (st : mp_state) : list (list range) :=
  match n with
  | O => []
  | S n' => let '(rs, st') := mp_piece pl lens st in rs :: mp_loop n' pl lens st'
  end.

(* piece_nodes[i].paths as ranges; `remainder = file_index = 0`. *)
Definition map_pieces (pl : nat) (lens : list nat) (total_pieces : nat) : list (list range) :=
  mp_loop total_pieces pl lens (0, 0, 0).

(* ------------------------------------------------------------------------------------------ *)
(* PieceNode._find_matches / find_matches                                                      *)
(* ------------------------------------------------------------------------------------------ *)

Definition loc : Type := String.string.

Record pathnode : Type := mkPathNode {
  pn_filename : String.string;   (* basename: the key into filemap *)
  pn_full : String.string;       (* path relative to dest *)
  pn_length : nat;               (* len(pathnode) = the file's length in the metafile *)
  pn_start : nat;
  pn_stop : option nat           (* None = -1 *)
}.

(* filemap: filename -> [(loc, size)].  The candidate's content stands next to its location;
   size = length content (os.path.getsize at indexing time). *)
Definition candidate : Type := (loc * bytes)%type.
Definition filemap : Type := list (String.string * list candidate).

Fixpoint fm_lookup (fm : filemap) (name : String.string) : option (list candidate) :=
  match fm with
  | [] => None
  | (k, v) :: fm' => if String.eqb k name then Some v else fm_lookup fm' name
  end.

Fixpoint bytes_eqb (a b : bytes) : bool :=
  match a, b with
  | [], [] => true
  | x :: a', y :: b' => Ascii.eqb x y && bytes_eqb a' b'
  | _, _ => false
  end.

(* copypath(loc, os.path.join(dest, full)) recorded as (loc, full), in execution order. *)
Definition copy : Type := (loc * String.string)%type.

Section FindMatches.
Variable H1 : bytes -> bytes.
Variable fm : filemap.
Variable piece : bytes.          (* self.piece: the recorded SHA1 digest *)

(*  for loc, size in filemap[filename]:
        if size != len(pathnode): continue
        partial = pathnode.get_part(loc)
        val = self._find_matches(filemap, paths[1:], data + partial)
        if val: copypath(loc, join(self.dest, pathnode.full)); return val
    return False
   `k` is the recursive call on paths[1:].  Copies made inside a failing recursive call are kept
   in the trace (that there are none is a theorem, not a modelling decision). *)
Fixpoint fm_loop (pn : pathnode) (k : bytes -> bool * list copy) (data : bytes)
         (cands : list candidate) : bool * list copy :=
  match cands with
  | [] => (false, [])
  | (l, content) :: cands' =>
      if negb (length content =? pn_length pn) then fm_loop pn k data cands'
      else
        let partial := get_part content (pn_start pn) (pn_stop pn) in
        let '(val, copies) := k (data ++ partial) in
        if val then (true, copies ++ [(l, pn_full pn)])
        else let '(val', copies') := fm_loop pn k data cands' in (val', copies ++ copies')
  end.

Fixpoint find_matches_rec (paths : list pathnode) (data : bytes) {struct paths}
  : bool * list copy :=
  match paths with
  | [] => (bytes_eqb (H1 data) piece, [])
  | pn :: paths' =>
      match fm_lookup fm (pn_filename pn) with
      | None => (false, [])
      | Some cands => fm_loop pn (find_matches_rec paths') data cands
      end
  end.

Definition find_matches (paths : list pathnode) : bool * list copy :=
  find_matches_rec paths [].

End FindMatches.

(* ------------------------------------------------------------------------------------------ *)
(* Metadata._match_v1: which pieces are skipped, which are searched                            *)
(* ------------------------------------------------------------------------------------------ *)

Definition mem_string (s : String.string) (l : list String.string) : bool :=
  existsb (String.eqb s) l.

(*  for pathnode in paths:
        if pathnode.full not in copied: copied.append(pathnode.full)                           *)
Fixpoint v1_mark (paths : list pathnode) (copied : list String.string) : list String.string :=
  match paths with
  | [] => copied
  | pn :: paths' =>
      if mem_string (pn_full pn) copied then v1_mark paths' copied
      else v1_mark paths' (copied ++ [pn_full pn])
  end.

Inductive v1_outcome : Type :=
| Skipped                 (* len(paths) == 1 and paths[0].full in copied: continue *)
| Searched (ok : bool).   (* piece_node.find_matches(filemap, dest) was run *)

(*  if len(paths) == 1 and paths[0].full in copied: self._update(); continue               *)
Definition v1_skip (paths : list pathnode) (copied : list String.string) : bool :=
  match paths with
  | [pn] => mem_string (pn_full pn) copied
  | _ => false
  end.

Section MatchV1.
Variable H1 : bytes -> bytes.
Variable fm : filemap.

(* piece_nodes as (recorded digest, paths).  Result: per-piece outcome, final `copied`,
   trace of copypath calls. *)
Fixpoint match_v1_loop (nodes : list (bytes * list pathnode)) (copied : list String.string)
         (trace : list copy) : list v1_outcome * list String.string * list copy :=
  match nodes with
  | [] => ([], copied, trace)
  | (piece, paths) :: nodes' =>
      if v1_skip paths copied then
        let '(os, c, t) := match_v1_loop nodes' copied trace in (Skipped :: os, c, t)
      else
        let '(ok, copies) := find_matches H1 fm piece paths in
        let copied' := if ok then v1_mark paths copied else copied in
        let '(os, c, t) := match_v1_loop nodes' copied' (trace ++ copies) in
        (Searched ok :: os, c, t)
  end.

Definition match_v1 (nodes : list (bytes * list pathnode)) :=
  match_v1_loop nodes [] [].

End MatchV1.
