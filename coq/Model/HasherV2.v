(* Hand model of torrentfile/hasher.py: merkle_root, HasherV2, HasherHybrid, FileHasher
   and of utils.next_power_2 (on nat), statement by statement.  No proofs here.

   Conventions
   * H256 / H1 are arbitrary functions (sha256 / sha1 digests).  The v1 results carry the
     bytes FED to sha1 per piece (the `piece.update(...)` arguments concatenated), not the
     digests, so theorems can speak about what is hashed; the digest is H1 of it.
   * B is BLOCK_SIZE, zero32 is bytes(HASH_SIZE) = bytes(32).
   * a file object is its remaining content `cur : bytes`; `fd.readinto(buf)` with
     len(buf) = B yields `firstn B cur` (size = its length) and leaves `skipn B cur`.
   * `self.cb(...)`, progress bars, logging have no effect on the results and are omitted.
   * `piece_layer = b"".join(layer_hashes)` is kept as the list (concat gives the bytes). *)
From TF Require Import Lib.Base Lib.Chunks Spec.Bep52.

Section Model.
Variable H256 : bytes -> bytes.
Variable B : nat.

(* ---------- utils.next_power_2 ----------
     if not value & (value - 1) and value: return value
     start = 1
     while start < value: start <<= 1
     return start                                             *)
Fixpoint next_power_2_loop (fuel start value : nat) : nat :=
  match fuel with
  | O => start
  | S f => if start <? value then next_power_2_loop f (Nat.shiftl start 1) value else start
  end.

Definition next_power_2_nat (value : nat) : nat :=
  if (Nat.land value (value - 1) =? 0) && negb (value =? 0) then value
  else next_power_2_loop value 1 value.

(* ---------- merkle_root ----------
     [sha256(x + y) for x, y in zip( *[iter(blocks)] * 2 )]
   consumes the list two at a time; an odd last element is dropped. *)
Fixpoint pair_up (l : list bytes) : list bytes :=
  match l with
  | x :: y :: r => H256 (x ++ y) :: pair_up r
  | _ => []
  end.

(* while len(blocks) > 1: blocks = pair_up blocks *)
Fixpoint merkle_loop (fuel : nat) (blocks : list bytes) : list bytes :=
  match fuel with
  | O => blocks
  | S f => if 1 <? length blocks then merkle_loop f (pair_up blocks) else blocks
  end.

(* `if blocks: ...; return blocks[0]` else `return blocks` (the empty list, modelled as []) *)
Definition merkle_root (blocks : list bytes) : bytes :=
  match blocks with
  | [] => []
  | _ :: _ => match merkle_loop (length blocks) blocks with x :: _ => x | [] => [] end
  end.

(* ---------- HasherV2 ---------- *)

(* for _ in range(num_blocks): size = fd.readinto(leaf); if not size: break;
                               blocks.append(sha256(leaf[:size])) *)
Fixpoint v2_read_blocks (n : nat) (cur : bytes) (blocks : list bytes) : list bytes * bytes :=
  match n with
  | O => (blocks, cur)
  | S n' =>
    let leaf := firstn B cur in
    let size := length leaf in
    if size =? 0 then (blocks, cur)
    else v2_read_blocks n' (skipn B cur) (blocks ++ [H256 leaf])
  end.

(* if len(blocks) != num_blocks:
       remaining = num_blocks - len(blocks)
       if not self.layer_hashes: remaining = next_power_2(len(blocks)) - len(blocks)
       blocks.extend([bytes(32)] * remaining)                                          *)
Definition v2_pad_blocks (num_blocks : nat) (layer_hashes blocks : list bytes) : list bytes :=
  if negb (length blocks =? num_blocks) then
    let remaining := num_blocks - length blocks in
    let remaining :=
      match layer_hashes with
      | [] => next_power_2_nat (length blocks) - length blocks
      | _ :: _ => remaining
      end in
    blocks ++ repeat zero32 remaining
  else blocks.

(* process_file: outer `while True` *)
Fixpoint v2_loop (fuel num_blocks : nat) (cur : bytes) (layer_hashes : list bytes) : list bytes :=
  match fuel with
  | O => layer_hashes
  | S f =>
    let '(blocks, cur') := v2_read_blocks num_blocks cur [] in
    match blocks with
    | [] => layer_hashes                                     (* if not blocks: break *)
    | _ :: _ =>
      let blocks' := v2_pad_blocks num_blocks layer_hashes blocks in
      let layer_hash := merkle_root blocks' in
      v2_loop f num_blocks cur' (layer_hashes ++ [layer_hash])
    end
  end.

(* _calculate_root: returns (root, piece_layer) *)
Definition v2_calculate_root (num_blocks : nat) (layer_hashes : list bytes) : bytes * list bytes :=
  let piece_layer := layer_hashes in
  let hashes := length layer_hashes in
  let layer_hashes' :=
    if 1 <? hashes then
      let pow2 := next_power_2_nat hashes in
      let remainder := pow2 - hashes in
      let pad_piece := repeat zero32 num_blocks in
      layer_hashes ++ repeat (merkle_root pad_piece) remainder
    else layer_hashes in
  (merkle_root layer_hashes', piece_layer).

Definition hasher_v2 (pl : nat) (data : bytes) : bytes * list bytes :=
  let num_blocks := pl / B in
  v2_calculate_root num_blocks (v2_loop (S (length data)) num_blocks data []).

(* ---------- HasherHybrid ---------- *)

(* _pad_remaining *)
Definition pad_remaining (amount : nat) (layer_hashes : list bytes) (block_count : nat) : list bytes :=
  let remaining := amount - block_count in
  let remaining :=
    match layer_hashes with
    | [] => next_power_2_nat block_count - block_count
    | _ :: _ => remaining
    end in
  repeat zero32 remaining.

(* the inner for loop of HasherHybrid.process_file and FileHasher.__next__.
   `piece` accumulates the sha1 input (only when `hybrid`; HasherHybrid always does),
   `plength -= size`, and the last component says whether a read returned 0 bytes
   (FileHasher sets self.end there; HasherHybrid ignores it).  `total` is never read. *)
Fixpoint hy_read_blocks (hybrid : bool) (n : nat) (cur : bytes) (blocks : list bytes)
         (piece : bytes) (plength : nat) : list bytes * bytes * nat * bytes * bool :=
  match n with
  | O => (blocks, piece, plength, cur, false)
  | S n' =>
    let block := firstn B cur in
    let size := length block in
    if size =? 0 then (blocks, piece, plength, cur, true)
    else hy_read_blocks hybrid n' (skipn B cur) (blocks ++ [H256 block])
           (if hybrid then piece ++ block else piece) (plength - size)
  end.

(* state: remaining file, layer_hashes, pieces (sha1 inputs), padding_file length *)
Fixpoint hy_loop (fuel : nat) (padding : bool) (pl amount : nat) (cur : bytes)
         (layer_hashes pieces : list bytes) (padding_file : option nat)
  : list bytes * list bytes * option nat :=
  match fuel with
  | O => (layer_hashes, pieces, padding_file)
  | S f =>
    let '(blocks, piece, plength, cur', _) := hy_read_blocks true amount cur [] [] pl in
    match blocks with
    | [] => (layer_hashes, pieces, padding_file)
    | _ :: _ =>
      let blocks' :=
        if negb (length blocks =? amount)
        then blocks ++ pad_remaining amount layer_hashes (length blocks)
        else blocks in
      let layer_hash := merkle_root blocks' in
      let layer_hashes' := layer_hashes ++ [layer_hash] in
      if (0 <? plength) && padding
      then hy_loop f padding pl amount cur' layer_hashes'
                   (pieces ++ [piece ++ zeros plength]) (Some plength)
      else hy_loop f padding pl amount cur' layer_hashes' (pieces ++ [piece]) padding_file
    end
  end.

(* HasherHybrid._calculate_root / FileHasher._calculate_root:
   returns (root, piece_layer, layer_hashes after `+=`) *)
Definition hy_calculate_root (amount : nat) (layer_hashes : list bytes)
  : bytes * list bytes * list bytes :=
  let piece_layer := layer_hashes in
  let layer_hashes' :=
    if 1 <? length layer_hashes then
      let pad_piece := merkle_root (repeat zero32 amount) in
      let pow2 := next_power_2_nat (length layer_hashes) in
      let remainder := pow2 - length layer_hashes in
      layer_hashes ++ repeat pad_piece remainder
    else layer_hashes in
  (merkle_root layer_hashes', piece_layer, layer_hashes').

Definition hasher_hybrid (padding : bool) (pl : nat) (data : bytes)
  : bytes * list bytes * list bytes * option nat :=
  let amount := pl / B in
  let '(layer_hashes, pieces, padding_file) :=
    hy_loop (S (length data)) padding pl amount data [] [] None in
  let '(root, piece_layer, _) := hy_calculate_root amount layer_hashes in
  (root, piece_layer, pieces, padding_file).

(* ---------- FileHasher (iterator) ---------- *)

Record fh_state := mk_fh {
  fh_cur : bytes;                       (* self.current, remaining content *)
  fh_layer_hashes : list bytes;
  fh_pieces : list bytes;               (* sha1 inputs *)
  fh_padding_file : option nat;
  fh_end : bool;
  fh_root : option bytes;               (* None = Python None *)
  fh_piece_layer : option (list bytes)
}.

Definition fh_init (data : bytes) : fh_state := mk_fh data [] [] None false None None.

Inductive fh_out :=
| FhStop                                                   (* raise StopIteration *)
| FhYield (layer_hash : bytes) (piece : option bytes).     (* layer_hash | (layer_hash, piece) *)

Definition fh_do_calculate_root (amount : nat) (st : fh_state) : fh_state :=
  let '(root, piece_layer, layer_hashes') := hy_calculate_root amount (fh_layer_hashes st) in
  mk_fh (fh_cur st) layer_hashes' (fh_pieces st) (fh_padding_file st) (fh_end st)
        (Some root) (Some piece_layer).

Definition fh_next (hybrid padding : bool) (pl amount : nat) (st : fh_state) : fh_out * fh_state :=
  if fh_end st then
    (FhStop, mk_fh (fh_cur st) (fh_layer_hashes st) (fh_pieces st) (fh_padding_file st) false
                   (fh_root st) (fh_piece_layer st))
  else
    let '(blocks, piece, plength, cur', hit_eof) :=
      hy_read_blocks hybrid amount (fh_cur st) [] [] pl in
    (* self.end = True inside the loop; the file cursor has moved *)
    let st1 := mk_fh cur' (fh_layer_hashes st) (fh_pieces st) (fh_padding_file st)
                     (if hit_eof then true else fh_end st) (fh_root st) (fh_piece_layer st) in
    match blocks with
    | [] => (FhStop, fh_do_calculate_root amount st1)
    | _ :: _ =>
      let blocks' :=
        if negb (length blocks =? amount)
        then blocks ++ pad_remaining amount (fh_layer_hashes st1) (length blocks)
        else blocks in
      let layer_hash := merkle_root blocks' in
      let st2 := mk_fh (fh_cur st1) (fh_layer_hashes st1 ++ [layer_hash]) (fh_pieces st1)
                       (fh_padding_file st1) (fh_end st1) (fh_root st1) (fh_piece_layer st1) in
      let st3 := if fh_end st2 then fh_do_calculate_root amount st2 else st2 in
      if hybrid then
        let '(piece', padding_file') :=
          if (0 <? plength) && padding
          then (piece ++ zeros plength, Some plength)
          else (piece, fh_padding_file st3) in
        (FhYield layer_hash (Some piece'),
         mk_fh (fh_cur st3) (fh_layer_hashes st3) (fh_pieces st3 ++ [piece']) padding_file'
               (fh_end st3) (fh_root st3) (fh_piece_layer st3))
      else (FhYield layer_hash None, st3)
    end.

(* `for result in hasher:` -- call __next__ until the first StopIteration, collecting what
   is yielded *)
Fixpoint fh_drive (fuel : nat) (hybrid padding : bool) (pl amount : nat) (st : fh_state)
         (yl yp : list bytes) : fh_state * list bytes * list bytes :=
  match fuel with
  | O => (st, yl, yp)
  | S f =>
    match fh_next hybrid padding pl amount st with
    | (FhStop, st') => (st', yl, yp)
    | (FhYield lh piece, st') =>
      fh_drive f hybrid padding pl amount st' (yl ++ [lh])
               (match piece with Some p => yp ++ [p] | None => yp end)
    end
  end.

(* everything a caller can observe after the for loop *)
Record fh_result := mk_fhr {
  fhr_root : option bytes;
  fhr_piece_layer : option (list bytes);
  fhr_pieces : list bytes;              (* self.pieces *)
  fhr_padding_file : option nat;
  fhr_yielded_layers : list bytes;
  fhr_yielded_pieces : list bytes;
  fhr_end : bool
}.

Definition file_hasher_run (hybrid padding : bool) (pl : nat) (data : bytes) : fh_result :=
  let amount := pl / B in
  let '(st, yl, yp) := fh_drive (length data + 2) hybrid padding pl amount (fh_init data) [] [] in
  mk_fhr (fh_root st) (fh_piece_layer st) (fh_pieces st) (fh_padding_file st) yl yp (fh_end st).

Definition file_hasher (hybrid padding : bool) (pl : nat) (data : bytes)
  : bytes * list bytes * list bytes * option nat :=
  let r := file_hasher_run hybrid padding pl data in
  (match fhr_root r with Some x => x | None => [] end,
   match fhr_piece_layer r with Some l => l | None => [] end,
   fhr_pieces r, fhr_padding_file r).

End Model.
