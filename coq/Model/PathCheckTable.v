(* The element test of rebuild.Metadata._check_parts as a TABLE (what gen/gen_pathcheck.py reads from the source):
   an element is let through iff it equals none of the `exact` strings and contains none of the `chars`.
   `table_ok` is a certified checker: when it accepts a table, the table's test IS Model/PathSafe.safe_comp, the
   predicate every theorem of C19 is about. *)
From Coq Require Import String Ascii List Bool.
From TF Require Import Model.PathSafe.
Import ListNotations.
Open Scope string_scope.

Definition table_safe_comp (exact : list string) (chars : list ascii) (c : string) : bool :=
  negb (existsb (String.eqb c) exact) && negb (existsb (fun a => contains a c) chars).

Definition mem_s (s : string) (l : list string) : bool := existsb (String.eqb s) l.
Definition mem_a (a : ascii) (l : list ascii) : bool := existsb (Ascii.eqb a) l.

Definition exact_std : list string := [""; "."; ".."].
Definition chars_std : list ascii := [slash; nul].

(* the table lists exactly "", ".", ".." and exactly the separator and NUL (in any order, repetitions allowed) *)
Definition table_ok (exact : list string) (chars : list ascii) : bool :=
  forallb (fun s => mem_s s exact) exact_std && forallb (fun s => mem_s s exact_std) exact
  && forallb (fun a => mem_a a chars) chars_std && forallb (fun a => mem_a a chars_std) chars.
