(* M10 (part 1) -- an executable model of the slice of argparse that the option table of
   `torrentfile create` uses.  Driven by a table of `argspec` records (GENERATED from
   /repo/torrentfile/cli.py into Gen/GenCli.v); nothing here mentions a concrete flag.

   The slice: tokens are matched against the option strings EXACTLY (no prefix abbreviations,
   no `--flag=value`, no glued or combined short flags, no `--`, no negative numbers); a token
   that begins with "-" and is not an exact option string puts the model into `Outside`.
   Inside the slice the model follows argparse.ArgumentParser._parse_known_args:
   - `store_true` sets the dest to True;
   - `store` with nargs=None needs the next token to be an argument (not "-"-initial);
   - `store` with nargs="+" consumes every following token up to the next "-"-initial token
     (pattern `A+` is greedy: that is why a content path written after `-a url` is swallowed),
     at least one;
   - the single positional (nargs="?" optional, or nargs=None required) takes the first argument
     token that no option consumed; a second such token is "unrecognized arguments" (error); a
     required positional that got no token is an error;
   - a dest that occurs twice keeps the last value; absent dests keep their defaults.
   The parser is a token-at-a-time state machine, so that it composes over `++`. *)
From Coq Require Import String List Bool Ascii Arith.
Import ListNotations.
Open Scope string_scope.

Inductive value :=
| VNone
| VBool (b : bool)
| VStr (s : string)
| VInt (n : nat)
| VList (l : list string).

Inductive action := ActStore | ActStoreTrue.
Inductive nargs := NNone | NPlus | NOpt | NStar.

Record argspec := mk_arg {
  a_flags : list string;          (* option strings; for a positional: [name] *)
  a_dest : string;
  a_action : action;
  a_nargs : nargs;
  a_default : value;              (* the effective default (False for store_true) *)
  a_const : option value;
  a_choices : option (list string);
  a_positional : bool }.

Definition namespace := list (string * value).

Fixpoint lookup (ns : namespace) (d : string) : option value :=
  match ns with
  | [] => None
  | (d', v) :: t => if d' =? d then Some v else lookup t d
  end.

(* dict assignment: replace in place, else append (insertion order as in Python) *)
Fixpoint set (d : string) (v : value) (ns : namespace) : namespace :=
  match ns with
  | [] => [(d, v)]
  | (d', v') :: t => if d' =? d then (d, v) :: t else (d', v') :: set d v t
  end.

Definition mem_str (s : string) (l : list string) : bool := existsb (String.eqb s) l.

Definition is_flag (tok : string) : bool :=
  match tok with
  | String c _ => Ascii.eqb c "-"%char
  | EmptyString => false
  end.

(* argparse: `if not hasattr(namespace, action.dest): setattr(namespace, dest, default)` *)
Definition add_default (ns : namespace) (a : argspec) : namespace :=
  match lookup ns (a_dest a) with
  | Some _ => ns
  | None => set (a_dest a) (a_default a) ns
  end.

Definition defaults (table : list argspec) : namespace := fold_left add_default table [].

Definition find_flag (table : list argspec) (f : string) : option argspec :=
  find (fun a => negb (a_positional a) && mem_str f (a_flags a)) table.

(* THE positional, when the table has exactly one and it is `store` with nargs="?" (optional) or
   nargs=None (required): (dest, required) *)
Definition positional_spec (table : list argspec) : option (string * bool) :=
  match filter a_positional table with
  | [a] => match a_action a, a_nargs a with
           | ActStore, NOpt => Some (a_dest a, false)
           | ActStore, NNone => Some (a_dest a, true)
           | _, _ => None
           end
  | _ => None
  end.

Definition positional_dest (table : list argspec) : option string :=
  match positional_spec table with Some (d, _) => Some d | None => None end.

Definition positional_required (table : list argspec) : bool :=
  match positional_spec table with Some (_, r) => r | None => false end.

Definition choice_ok (a : argspec) (tok : string) : bool :=
  match a_choices a with
  | None => true
  | Some l => mem_str tok l
  end.

Inductive mode :=
| Idle
| NeedOne (a : argspec)                       (* `store`, nargs=None: one argument expected *)
| Collect (a : argspec) (acc : list string).  (* nargs="+": arguments so far, reversed *)

Inductive pstate :=
| St (ns : namespace) (m : mode) (used : bool)  (* used: the positional has been consumed *)
| Err                                           (* argparse calls parser.error (exit status 2) *)
| Outside.                                      (* the argv left the modelled slice *)

(* what argparse does when the arguments of the current option end *)
Definition close (ns : namespace) (m : mode) : option namespace :=
  match m with
  | Idle => Some ns
  | NeedOne _ => None                            (* expected one argument *)
  | Collect _ [] => None                         (* expected at least one argument *)
  | Collect a acc => Some (set (a_dest a) (VList (rev acc)) ns)
  end.

Definition step (table : list argspec) (st : pstate) (tok : string) : pstate :=
  match st with
  | St ns m used =>
      if is_flag tok then
        match find_flag table tok with
        | None => Outside
        | Some a =>
            match close ns m with
            | None => Err
            | Some ns' =>
                match a_action a, a_nargs a with
                | ActStoreTrue, _ => St (set (a_dest a) (VBool true) ns') Idle used
                | ActStore, NNone => St ns' (NeedOne a) used
                | ActStore, NPlus => St ns' (Collect a []) used
                | ActStore, _ => Outside
                end
            end
        end
      else
        match m with
        | NeedOne a =>
            if choice_ok a tok then St (set (a_dest a) (VStr tok) ns) Idle used else Err
        | Collect a acc =>
            if choice_ok a tok then St ns (Collect a (tok :: acc)) used else Err
        | Idle =>
            match positional_dest table with
            | Some d => if used then Err else St (set d (VStr tok) ns) Idle true
            | None => Outside
            end
        end
  | Err => Err
  | Outside => Outside
  end.

Inductive presult :=
| PR_ok (ns : namespace)
| PR_error
| PR_outside.

Definition run (table : list argspec) (toks : list string) : pstate :=
  fold_left (step table) toks (St (defaults table) Idle false).

Definition finish (st : pstate) : presult :=
  match st with
  | St ns m _ => match close ns m with Some ns' => PR_ok ns' | None => PR_error end
  | Err => PR_error
  | Outside => PR_outside
  end.

(* parse_args of the sub-parser on the tokens that follow `create` *)
Definition parse (table : list argspec) (toks : list string) : presult :=
  match run table toks with
  | St ns m used =>
      (* "the following arguments are required" *)
      if positional_required table && negb used then PR_error else finish (St ns m used)
  | st => finish st
  end.
