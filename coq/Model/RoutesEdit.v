(* The command-line route of `torrentfile edit` (C07): argparse model (Model/ArgParse.v) on the
   GENERATED edit table, then commands.edit's dict `editargs` (GENERATED as `edit_map`:
   (key, namespace attribute, `or None`)), then the request type of Model/Edit.v.
   Documented side (flags, namespace attributes, request keys) written by hand from the manual. *)
From Coq Require Import String List Bool Ascii.
From TF Require Import Model.Edit Model.ArgParse Model.Routes.
Import ListNotations.
Open Scope string_scope.

Definition bytes_of (s : string) : list ascii := list_ascii_of_string s.

(* `args.<attr>` / `args.<attr> or None` *)
Definition mapped (or_none : bool) (v : value) : value :=
  if or_none then (if truthy v then v else VNone) else v.

(* one entry of the dict literal; None: AttributeError *)
Definition edit_value (ns : namespace) (e : string * string * bool) : option (string * value) :=
  let '(k, attr, orn) := e in
  match lookup ns attr with
  | Some v => Some (k, mapped orn v)
  | None => None
  end.

Fixpoint edit_args_of (map : list (string * string * bool)) (ns : namespace) : option namespace :=
  match map with
  | [] => Some []
  | e :: rest =>
      match edit_value ns e, edit_args_of rest ns with
      | Some kv, Some t => Some (kv :: t)
      | _, _ => None
      end
  end.

(* how edit_torrent / filter_empty read one value: None -> Keep, "" -> Clear, str, list; a bool
   is only understood for `private` (neither None nor "": info["private"] = 1) *)
Definition fieldreq_of_value (is_private : bool) (v : value) : option fieldreq :=
  match v with
  | VNone => Some Keep
  | VStr s => Some (if s =? "" then Clear else SetStr (bytes_of s))
  | VList l => Some (SetList (map bytes_of l))
  | VBool _ | VInt _ => if is_private then Some (SetStr (bytes_of "1")) else None
  end.

Definition field_of_args (ea : namespace) (key : string) (is_private : bool) : option fieldreq :=
  match lookup ea key with
  | None => Some Keep                       (* the key is absent from args *)
  | Some v => fieldreq_of_value is_private v
  end.

Definition request_of_args (ea : namespace) : option request :=
  match field_of_args ea "comment" false, field_of_args ea "source" false,
        field_of_args ea "private" true, field_of_args ea "announce" false,
        field_of_args ea "url-list" false, field_of_args ea "httpseeds" false with
  | Some c, Some s, Some p, Some a, Some u, Some h => Some (mkReq c s p a u h)
  | _, _, _, _, _, _ => None
  end.

Inductive eresult :=
| ER_ok (metafile : value) (editargs : namespace)   (* edit_torrent(metafile, editargs) *)
| ER_error                                           (* argparse exits with status 2 *)
| ER_outside.                                        (* outside the modelled slice *)

Definition edit_parse (table : list argspec) (emap : list (string * string * bool)) (mattr : string)
  (argv : list string) : eresult :=
  match parse table argv with
  | PR_ok ns =>
      match lookup ns mattr, edit_args_of emap ns with
      | Some m, Some ea => ER_ok m ea
      | _, _ => ER_outside
      end
  | PR_error => ER_error
  | PR_outside => ER_outside
  end.

Definition edit_request_of (table : list argspec) (emap : list (string * string * bool))
  (mattr : string) (argv : list string) : option request :=
  match edit_parse table emap mattr argv with
  | ER_ok _ ea => request_of_args ea
  | _ => None
  end.

(* ------------------------------------------------------------------ documented side *)
Inductive efield := FComment | FSource | FPrivate | FAnnounce | FUrlList | FHttpSeeds.

Definition all_efields : list efield := [FComment; FSource; FPrivate; FAnnounce; FUrlList; FHttpSeeds].

Definition efield_eqb (a b : efield) : bool :=
  match a, b with
  | FComment, FComment | FSource, FSource | FPrivate, FPrivate | FAnnounce, FAnnounce
  | FUrlList, FUrlList | FHttpSeeds, FHttpSeeds => true
  | _, _ => false
  end.

Definition e_flag (f : efield) : string :=
  match f with
  | FComment => "--comment" | FSource => "--source" | FPrivate => "--private"
  | FAnnounce => "--tracker" | FUrlList => "--web-seed" | FHttpSeeds => "--http-seed"
  end.

(* namespace attribute *)
Definition e_dest (f : efield) : string :=
  match f with
  | FComment => "comment" | FSource => "source" | FPrivate => "private"
  | FAnnounce => "announce" | FUrlList => "url_list" | FHttpSeeds => "httpseeds"
  end.

(* key of the request dict = metafile key *)
Definition e_key (f : efield) : string :=
  match f with
  | FComment => "comment" | FSource => "source" | FPrivate => "private"
  | FAnnounce => "announce" | FUrlList => "url-list" | FHttpSeeds => "httpseeds"
  end.

Definition rq_of (f : efield) (r : request) : fieldreq :=
  match f with
  | FComment => rq_comment r | FSource => rq_source r | FPrivate => rq_private r
  | FAnnounce => rq_announce r | FUrlList => rq_url_list r | FHttpSeeds => rq_httpseeds r
  end.

(* one flag with its value(s) on the command line *)
Inductive eitem :=
| IComment (s : string) | ISource (s : string) | IPrivate
| ITracker (l : list string) | IWebSeed (l : list string) | IHttpSeed (l : list string).

Definition item_field (it : eitem) : efield :=
  match it with
  | IComment _ => FComment | ISource _ => FSource | IPrivate => FPrivate
  | ITracker _ => FAnnounce | IWebSeed _ => FUrlList | IHttpSeed _ => FHttpSeeds
  end.

Definition item_values (it : eitem) : list string :=
  match it with
  | IComment s | ISource s => [s]
  | IPrivate => []
  | ITracker l | IWebSeed l | IHttpSeed l => l
  end.

Definition item_list (it : eitem) : bool :=
  match it with ITracker _ | IWebSeed _ | IHttpSeed _ => true | _ => false end.

Definition item_tokens (it : eitem) : list string := e_flag (item_field it) :: item_values it.

(* what the request must carry for this item *)
Definition item_req (it : eitem) : fieldreq :=
  match it with
  | IComment s | ISource s => if s =? "" then Clear else SetStr (bytes_of s)
  | IPrivate => SetStr (bytes_of "1")
  | ITracker l | IWebSeed l | IHttpSeed l => SetList (map bytes_of l)
  end.

(* the tokens after `torrentfile edit`: the metafile path after the first `pos` items *)
Definition render_edit (items : list eitem) (pos : nat) (mf : string) : list string :=
  concat (map item_tokens (firstn pos items)) ++ [mf] ++ concat (map item_tokens (skipn pos items)).

(* the last item that names field f *)
Definition last_item (f : efield) (items : list eitem) : option eitem :=
  fold_left (fun acc it => if efield_eqb (item_field it) f then Some it else acc) items None.

Definition item_ok (it : eitem) : bool :=
  forallb nonflag (item_values it)
  && (negb (item_list it) || match item_values it with [] => false | _ => true end).

(* values do not look like flags; list flags have at least one value; the metafile path does not
   directly follow a list-valued flag (argparse would take it as one more value, and then fail
   because the positional is required) *)
Definition edit_argv_ok (items : list eitem) (pos : nat) (mf : string) : bool :=
  nonflag mf && forallb item_ok items
  && match pos with
     | 0 => true
     | S p => match nth_error items p with Some it => negb (item_list it) | None => false end
     end.
