(* Model of torrentfile/recheck.py: FeedChecker (v1), the bookkeeping of Checker.iter_hashes, and
   HashChecker (v2 / hybrid) with its inner Padder.  No proofs here: see Proofs/RecheckV1.v,
   Proofs/RecheckResult.v, Proofs/RecheckV2.v.

   Generators are modelled by the LIST of values they yield.  Progress bars, logging and the
   `path` component of the yielded tuples are not modelled.

   File reads.  `current.readinto(part)` with len(part) = n on a regular file opened "rb" (a
   BufferedReader) fills `part` up to EOF: the bytes obtained are `firstn n rest`, where `rest`
   is the unread remainder of the file, and the new remainder is `skipn n rest`.

   ALIASING OF THE SHARED bytearray (FeedChecker).  iter_pieces passes its `partial` object to
   extract / _gen_padding, which extend that very object in place (`partial.extend`).  The
   generators therefore return a pair

        (list of yielded values, final content of the object that was passed in as `partial`)

   and the caller's loop (`drain`) starts from that final content instead of from the old value.
   Why that is all there is to it:
   * a generator mutates an object only until it yields it; right after a yield of a FULL piece
     it re-binds its local to a fresh bytearray(0) and the caller re-binds its own variable to a
     fresh bytearray(); a NON-full piece is only ever yielded as the last value of a generator
     (extract: `yield partial; break` with read == length, so no padding follows;
     _gen_padding: the else branch sets read = length, which ends the loop), so nothing is
     mutated after the consumer has seen it.  FeedChecker.__next__ hashes a piece before it asks
     for the next one, so a yielded value can be recorded as an immutable list;
   * the caller reads its `partial` variable only after the generator is exhausted (at the next
     file, or at the end); if anything was yielded the variable was re-bound by the last yield
     (`drain` ignores its start value then); if nothing was yielded it still names the object
     passed in, whose final content is the second component.
   For every disk state with `disk_within` (no file longer than recorded) the second component
   equals the incoming partial whenever nothing is yielded (extract_loop_spec in
   Proofs/RecheckV1.v), i.e. the purely functional reading "keep the old partial" is faithful.
   It is NOT faithful for a file that is LONGER than recorded and still fits into the open piece:
   extract then appends the file's bytes to the caller's object and yields nothing (see
   aliasing_overlong_example in Proofs/RecheckV1.v). *)
From TF Require Import Lib.Base Lib.Chunks Spec.RecheckSpec.

(* ------------------------------------------------------------------------------------------ *)
(* FeedChecker                                                                                *)
(* ------------------------------------------------------------------------------------------ *)

(* FeedChecker._gen_padding(partial, length, read):
     while read < length:
         left = self.piece_length - len(partial)
         if length - read > left:
             padding = bytearray(left); partial.extend(padding); yield partial
             read += left; partial = bytearray(0)
         else:
             partial.extend(bytearray(length - read)); read = length; yield partial
   Result: (yielded values, final content of the object passed in as `partial`).
   Every iteration but a possible first one with len(partial) = pl advances `read` by
   left >= 1, so fuel = S length always suffices (gen_padding_spec needs length - read only).
   len(partial) > pl would make `bytearray(left)` raise ValueError; it does not occur (callers
   pass fewer than pl bytes) and nat subtraction makes the model total there. *)
Fixpoint gen_padding (fuel pl : nat) (partial : bytes) (length_ read : nat) {struct fuel}
  : list bytes * bytes :=
  match fuel with
  | O => ([], partial)
  | S f =>
      if read <? length_ then
        let left := pl - length partial in
        if left <? length_ - read then
          let partial1 := partial ++ zeros left in
          (partial1 :: fst (gen_padding f pl [] length_ (read + left)), partial1)
        else
          let partial1 := partial ++ zeros (length_ - read) in
          ([partial1], partial1)
      else ([], partial)
  end.

(* The `while True` loop of FeedChecker.extract together with the statement after it:
     while True:
         bitlength = self.piece_length - len(partial)
         part = bytearray(bitlength); amount = current.readinto(part)
         read += amount
         partial.extend(part[:amount])
         if amount < bitlength:
             if amount > 0 and read == length: yield partial
             break
         yield partial
         partial = bytearray(0)
     if length != read:
         yield from self._gen_padding(partial, length, read)
   cur = the local `partial`, rest = unread remainder of the file.  The loop has a single exit
   (the break), so the statement after the loop is placed there.
   Result: (yielded values, final content of the object that was `partial` on entry). *)
Fixpoint extract_loop (fuel pl length_ : nat) (cur : bytes) (read : nat) (rest : bytes)
  {struct fuel} : list bytes * bytes :=
  match fuel with
  | O => ([], cur)
  | S f =>
      let bitlength := pl - length cur in
      let part := firstn bitlength rest in          (* part[:amount] *)
      let amount := length part in
      let read1 := read + amount in
      let cur1 := cur ++ part in
      if amount <? bitlength then
        let ys1 := if (0 <? amount) && (read1 =? length_) then [cur1] else [] in
        if negb (length_ =? read1) then
          let g := gen_padding (S length_) pl cur1 length_ read1 in
          (ys1 ++ fst g, snd g)
        else (ys1, cur1)
      else
        (cur1 :: fst (extract_loop f pl length_ [] read1 (skipn bitlength rest)), cur1)
  end.

(* FeedChecker.extract(path, partial); length_ = fileinfo[index]["length"], content = the bytes
   of the file at `path`.
     read = 0
     partial = bytearray() if len(partial) == self.piece_length else partial
   (a re-binding of the local only: the caller's object is then not touched).
   Every loop iteration that does not break consumes bitlength >= 1 bytes of the file. *)
Definition extract (pl length_ : nat) (content partial : bytes) : list bytes * bytes :=
  if length partial =? pl then
    (fst (extract_loop (S (length content)) pl length_ [] 0 content), partial)
  else
    extract_loop (S (length content)) pl length_ partial 0 content.

(* The body shared by both branches of FeedChecker.iter_pieces:
     for piece in <generator>:
         if len(piece) == self.piece_length: yield piece; partial = bytearray()
         else: partial = piece
   Result: (pieces yielded to FeedChecker.__next__, the caller's `partial` afterwards). *)
Fixpoint drain (pl : nat) (ys : list bytes) (partial : bytes) : list bytes * bytes :=
  match ys with
  | [] => ([], partial)
  | piece :: ys' =>
      if length piece =? pl then
        (piece :: fst (drain pl ys' []), snd (drain pl ys' []))
      else drain pl ys' piece
  end.

(* FeedChecker.iter_pieces, the loop over the files from file i on; `partial` is the caller's
   variable.  od = None <-> not os.path.exists(path).
     for i, path in enumerate(self.paths): ...
     if partial: yield partial *)
Fixpoint iter_pieces_from (pl : nat) (lens : list nat) (disk : list (option bytes))
  (partial : bytes) : list bytes :=
  match lens, disk with
  | length_ :: lens', od :: disk' =>
      let g := match od with
               | Some content => extract pl length_ content partial
               | None => gen_padding (S length_) pl partial length_ 0
               end in
      let r := drain pl (fst g) (snd g) in
      fst r ++ iter_pieces_from pl lens' disk' (snd r)
  | _, _ => match partial with [] => [] | _ :: _ => [partial] end
  end.

(* FeedChecker.iter_pieces:  partial = bytearray(); ... *)
Definition feed_pieces (pl : nat) (lens : list nat) (disk : list (option bytes)) : list bytes :=
  iter_pieces_from pl lens disk [].

Section Feed.
Variable H1 : bytes -> bytes.   (* sha1(...).digest() *)

(* FeedChecker.__next__ over the whole iteration: the n-th yielded piece is hashed and paired
   with self.pieces[n*20 : n*20+20]; size = len(partial).  (pair_recorded is in the Spec file
   because the specification pairs in the same way.) *)
Definition feed_trace (pl : nat) (lens : list nat) (disk : list (option bytes))
  (recorded : list bytes) : list entry :=
  pair_recorded H1 recorded 0 (feed_pieces pl lens disk).

End Feed.

(* ------------------------------------------------------------------------------------------ *)
(* Checker.iter_hashes                                                                        *)
(* ------------------------------------------------------------------------------------------ *)

(* matched = consumed = 0
   for chunk, piece, path, size in checker(self):
       consumed += size
       if chunk == piece: matched += size
   over the verdict trace (chunk == piece, size); returns (matched, consumed). *)
Fixpoint iter_hashes_loop (tr : list (bool * nat)) (matched consumed : nat) : nat * nat :=
  match tr with
  | [] => (matched, consumed)
  | (verdict, size) :: tr' =>
      let consumed1 := consumed + size in
      let matched1 := if verdict then matched + size else matched in
      iter_hashes_loop tr' matched1 consumed1
  end.

Definition iter_hashes (tr : list entry) : nat * nat := iter_hashes_loop (verdicts tr) 0 0.
Definition matched (tr : list entry) : nat := fst (iter_hashes tr).
Definition consumed (tr : list entry) : nat := snd (iter_hashes tr).

(* ------------------------------------------------------------------------------------------ *)
(* HashChecker                                                                                *)
(* ------------------------------------------------------------------------------------------ *)

Section Hash.
Variable H256 : bytes -> bytes.   (* sha256(...).digest() *)

(* self.hasher: a FileHasher (the layer hashes it has not yielded yet) or a Padder (its own
   self.length) *)
Inductive hasher : Type :=
| FileHasherOf (rest : list bytes)
| PadderOf (len : nat).

(* self.length, self.pieces (cut into 32-byte hashes), self.count, self.hasher *)
Record cur_file := { c_length : nat; c_pieces : list bytes; c_count : nat; c_hasher : hasher }.

(* Padder.__next__: Some (hash, new self.length) or None = StopIteration
     if self.length >= self.piece_length: self.length -= self.piece_length; return self.pad
     if self.length > 0: pad = sha256(bytearray(self.length)).digest(); self.length -= self.length; return pad
     raise StopIteration *)
Definition padder_next (pl len : nat) : option (bytes * nat) :=
  if pl <=? len then Some (H256 (zeros pl), len - pl)
  else if 0 <? len then Some (H256 (zeros len), len - len)
  else None.

(* next(self.hasher) *)
Definition hasher_next (pl : nat) (h : hasher) : option (bytes * hasher) :=
  match h with
  | FileHasherOf [] => None
  | FileHasherOf (x :: rest) => Some (x, FileHasherOf rest)
  | PadderOf len =>
      match padder_next pl len with
      | Some (x, len') => Some (x, PadderOf len')
      | None => None
      end
  end.

(* HashChecker.advance: returns (piece, size) and the new state
     start = self.count * SHA256; piece = self.pieces[start:start+SHA256]; self.count += 1
     if self.length >= self.piece_length: self.length -= self.piece_length; size = self.piece_length
     else: size = self.length; self.length -= self.length *)
Definition advance (pl : nat) (c : cur_file) : (bytes * nat) * cur_file :=
  let piece := nth (c_count c) (c_pieces c) [] in
  let count1 := S (c_count c) in
  if pl <=? c_length c then
    ((piece, pl), {| c_length := c_length c - pl; c_pieces := c_pieces c; c_count := count1;
                     c_hasher := c_hasher c |})
  else
    ((piece, c_length c), {| c_length := c_length c - c_length c; c_pieces := c_pieces c;
                             c_count := count1; c_hasher := c_hasher c |}).

Definition set_hasher (c : cur_file) (h : hasher) : cur_file :=
  {| c_length := c_length c; c_pieces := c_pieces c; c_count := c_count c; c_hasher := h |}.

(* HashChecker.process_current: None = StopIteration
     try:
         layer = next(self.hasher); piece, size = self.advance(); return layer, piece, ..., size
     except StopIteration:
         if self.length > 0 and self.count * SHA256 < len(self.pieces):
             self.hasher = self.Padder(self.length, self.piece_length)
             piece, size = self.advance(); layer = next(self.hasher); return ...
         raise StopIteration
   (`count * 32 < len(pieces)` in bytes is `count < number of 32-byte hashes`; the Padder is
   built from self.length BEFORE advance lowers it.) *)
Definition process_current (pl : nat) (c : cur_file) : option (entry * cur_file) :=
  match hasher_next pl (c_hasher c) with
  | Some (layer, h') =>
      let a := advance pl (set_hasher c h') in
      Some ((layer, fst (fst a), snd (fst a)), snd a)
  | None =>
      if (0 <? c_length c) && (c_count c <? length (c_pieces c)) then
        let a := advance pl (set_hasher c (PadderOf (c_length c))) in
        match hasher_next pl (c_hasher (snd a)) with
        | Some (layer, h') => Some ((layer, fst (fst a), snd (fst a)), set_hasher (snd a) h')
        | None => None   (* the StopIteration of a Padder with nothing to pad; not reachable as length > 0 *)
        end
      else None
  end.

(* HashChecker.next_file, the part that sets up a file (index < len(paths)):
     self.length, self.pieces, self.count = 0,
     self.hasher = FileHasher(path, ...) if os.path.exists(path) else Padder(length, piece_length) *)
Definition open_file (f : v2_file) : cur_file :=
  {| c_length := v2_len f; c_pieces := v2_pieces f; c_count := 0;
     c_hasher := match v2_disk f with
                 | Some hs => FileHasherOf hs
                 | None => PadderOf (v2_len f)
                 end |}.

(* The loop of HashChecker.__next__; `later` = the files paths[index+1:]:
     while True:
         try: return self.process_current()
         except StopIteration:
             if not self.next_file(): raise StopIteration
   next_file() returns False exactly when no file is left. *)
Fixpoint next_loop (pl : nat) (c : cur_file) (later : list v2_file)
  : option (entry * (cur_file * list v2_file)) :=
  match process_current pl c with
  | Some (e, c') => Some (e, (c', later))
  | None =>
      match later with
      | [] => None
      | f :: later' => next_loop pl (open_file f) later'
      end
  end.

(* HashChecker.__next__; state = (self.current-and-friends or None before the first call, later
   files).  `if self.current is None: self.next_file()` with an empty path list raises
   IndexError in Python (a metafile without files); the model ends the iteration there. *)
Definition hash_next (pl : nat) (st : option cur_file * list v2_file)
  : option (entry * (option cur_file * list v2_file)) :=
  let start := match fst st with
               | Some c => Some (c, snd st)
               | None => match snd st with
                         | [] => None
                         | f :: later => Some (open_file f, later)
                         end
               end in
  match start with
  | None => None
  | Some (c, later) =>
      match next_loop pl c later with
      | Some (e, (c', later')) => Some (e, (Some c', later'))
      | None => None
      end
  end.

(* `for chunk, piece, path, size in checker(self)` : call __next__ until StopIteration *)
Fixpoint hash_iter (fuel pl : nat) (st : option cur_file * list v2_file) : list entry :=
  match fuel with
  | O => []
  | S f =>
      match hash_next pl st with
      | None => []
      | Some (e, st') => e :: hash_iter f pl st'
      end
  end.

(* every successful __next__ uses up a layer hash of the file hasher or at least one byte of
   recorded length (Padder) *)
Definition hash_fuel (files : list v2_file) : nat :=
  S (sum_nat (map (fun f => v2_len f + length (v2_disk_hashes (v2_disk f))) files)).

Definition hash_trace (pl : nat) (files : list v2_file) : list entry :=
  hash_iter (hash_fuel files) pl (None, files).

End Hash.
