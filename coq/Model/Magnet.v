(* M8 Magnet: `commands.magnet` (commands.py:367-432) statement by statement on the decoded
   metafile `meta = pyben.load(metafile)`.

   Modelling assumptions
   * `str`/`bytes` collapsed to raw bytes as in Model/Bencode.v; `pyben.dumps(info_dict)` of the
     decoded info dictionary is `encode`.
   * The hash functions are Section variables: [sha1hex b] = `sha1(b).hexdigest()`,
     [sha256hex b] = `sha256(b).hexdigest()` (as bytes).
   * Python exceptions are None: no "info" (KeyError), info not a dictionary (TypeError at the
     membership test or at `info_dict["name"]`), no "name" or a name that is not a string.
   * Shapes Python would iterate differently are None as well (outside the model): an
     "announce-list" that is not a list of lists of strings (Python iterates a string character
     by character), an "announce" that is not a string, a "url-list" that is neither a string nor
     a list of strings.
   * File existence check, logging and the write to stdout are not modelled; the result is the
     returned string. *)
From TF Require Import Lib.Base Lib.Lex Model.Bencode Model.Uri.
From Coq Require String.

Module MagnetKeys.
  Import String.
  Local Open Scope string_scope.
  Definition b (s : string) : bytes := list_ascii_of_string s.
  Definition mk_info : bytes := Eval compute in b "info".
  Definition mk_name : bytes := Eval compute in b "name".
  Definition mk_meta_version : bytes := Eval compute in b "meta version".
  Definition mk_pieces : bytes := Eval compute in b "pieces".
  Definition mk_announce : bytes := Eval compute in b "announce".
  Definition mk_announce_list : bytes := Eval compute in b "announce-list".
  Definition mk_url_list : bytes := Eval compute in b "url-list".
  Definition s_magnet : bytes := Eval compute in b "magnet:?".
  Definition s_xt : bytes := Eval compute in b "xt".
  Definition s_dn : bytes := Eval compute in b "dn".
  Definition s_tr : bytes := Eval compute in b "tr".
  Definition s_ws : bytes := Eval compute in b "ws".
  Definition s_btih : bytes := Eval compute in b "urn:btih:".
  Definition s_btmh : bytes := Eval compute in b "urn:btmh:1220".
  Definition s_xt_btih : bytes := Eval compute in b "xt=urn:btih:".
  Definition s_xt_btmh : bytes := Eval compute in b "xt=urn:btmh:1220".
  Definition s_amp : bytes := Eval compute in b "&".
  Definition s_amp_dn : bytes := Eval compute in b "&dn=".
  Definition s_amp_tr : bytes := Eval compute in b "&tr=".
  Definition s_amp_ws : bytes := Eval compute in b "&ws=".
End MagnetKeys.
Export MagnetKeys.

(* `k in d` *)
Definition has_key (k : bytes) (d : dict) : bool :=
  match lookup k d with Some _ => true | None => false end.

(* a list of strings *)
Fixpoint strs_of (l : list value) : option (list bytes) :=
  match l with
  | [] => Some []
  | BStr s :: l' => match strs_of l' with Some r => Some (s :: r) | None => None end
  | _ :: _ => None
  end.

(* [url for urllist in v for url in urllist] *)
Fixpoint flatten_tiers (l : list value) : option (list bytes) :=
  match l with
  | [] => Some []
  | BList t :: l' =>
      match strs_of t, flatten_tiers l' with
      | Some a, Some r => Some (a ++ r)
      | _, _ => None
      end
  | _ :: _ => None
  end.

(* the URLs that become "&tr=" parameters:
     announce_args = [""]
     if "announce-list" in meta: [... for urllist in meta["announce-list"] for url in urllist]
     elif "announce" in meta:    [meta["announce"]]                                         *)
Definition trackers_of (meta : dict) : option (list bytes) :=
  match lookup mk_announce_list meta with
  | Some (BList tiers) => flatten_tiers tiers
  | Some _ => None
  | None =>
      match lookup mk_announce meta with
      | Some (BStr s) => Some [s]
      | Some _ => None
      | None => Some []
      end
  end.

(* the URLs that become "&ws=" parameters:
     if "url-list" in meta: url_list = meta["url-list"];
        if isinstance(url_list, (str, bytes)): url_list = [url_list]                         *)
Definition webseeds_of (meta : dict) : option (list bytes) :=
  match lookup mk_url_list meta with
  | Some (BStr s) => Some [s]
  | Some (BList l) => strs_of l
  | Some _ => None
  | None => Some []
  end.

(* "".join(["&tr=" + quote_plus(url) for url in urls])   ("" for the default [""]) *)
Definition params (prefix : bytes) (urls : list bytes) : bytes :=
  concat (map (fun u => prefix ++ quote_plus u) urls).

(* magnet += trackers if trackers != "&tr=" else ""     (same for "&ws=") *)
Definition odd_rule (prefix : bytes) (joined : bytes) : bytes :=
  if bytes_eqb joined prefix then [] else joined.

Section Magnet.
  Variables sha1hex sha256hex : bytes -> bytes.

  (* bencoded_info = pyben.dumps(meta["info"]) : the bytes that get hashed *)
  Definition magnet_hash_input (meta : dict) : option bytes :=
    match lookup mk_info meta with
    | Some v => Some (encode v)
    | None => None
    end.

  (* "meta version" not in info_dict or (version in [1, 3, 0] and "pieces" in info_dict) *)
  Definition v1_test (info : dict) (version : Z) : bool :=
    negb (has_key mk_meta_version info)
    || ((Z.eqb version 1 || Z.eqb version 3 || Z.eqb version 0) && has_key mk_pieces info).

  (* "meta version" in info_dict and version != 1 *)
  Definition v2_test (info : dict) (version : Z) : bool :=
    has_key mk_meta_version info && negb (Z.eqb version 1).

  (* what the two `if` blocks append to "magnet:?" *)
  Definition xt_part (info : dict) (version : Z) (bencoded : bytes) : bytes :=
    let v1 := v1_test info version in
    let m := if v1 then s_xt_btih ++ sha1hex bencoded else [] in
    if v2_test info version
    then (if v1 then m ++ s_amp else m) ++ s_xt_btmh ++ sha256hex bencoded
    else m.

  Definition magnet (meta : dict) (version : Z) : option bytes :=
    match lookup mk_info meta with                                  (* info_dict = meta["info"] *)
    | Some (BDict info) =>
        let bencoded := encode (BDict info) in                      (* pyben.dumps(info_dict) *)
        let m := s_magnet ++ xt_part info version bencoded in
        match lookup mk_name info with
        | Some (BStr name) =>
            let m := m ++ s_amp_dn ++ quote_plus name in            (* "&dn=" + quote_plus(name) *)
            match trackers_of meta with
            | None => None
            | Some urls =>
                let m := m ++ odd_rule s_amp_tr (params s_amp_tr urls) in
                match webseeds_of meta with
                | None => None
                | Some ws => Some (m ++ odd_rule s_amp_ws (params s_amp_ws ws))
                end
            end
        | _ => None
        end
    | _ => None
    end.
End Magnet.
