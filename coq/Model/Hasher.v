(* Model of torrentfile/hasher.py class Hasher (v1 piece hasher) and of the file-entry list
   built by torrentfile/torrent.py TorrentFile.assemble.  No proofs here: see
   Proofs/HasherCorrect.v.

   State of the Python iterator:
     self.current (an open file at some position)  ~~>  cur  : the UNREAD remainder of that file
     self.paths[self.index+1:]                      ~~>  rest : contents of the later files
   `self.current.readinto(buf)` with len(buf) = n on a regular file opened "rb" fills buf up to
   EOF:  data = firstn n cur, size = length data, new position = skipn n cur.
   self.index itself is not represented: it is only compared with len(self.paths), and
   `rest = []` is exactly `self.index + 1 >= len(self.paths)` (the index keeps growing on failed
   next_file() calls; that is unobservable).  Progress bars / logging are not modelled. *)
From TF Require Import Lib.Base.

Section Hasher.
Variable H1 : bytes -> bytes.   (* sha1(...).digest() *)

Definition state := (bytes * list bytes)%type.   (* (cur, rest) *)

(* Hasher.__init__: index = 0, current = open(paths[0]).  Precondition files <> []
   (paths[0] raises IndexError otherwise); the model is made total with hd []. *)
Definition init_state (files : list bytes) : state := (hd [] files, tl files).

(* Hasher.next_file: index += 1; if index < len(paths): close, open paths[index], True;
   else False -- and then self.current stays the (exhausted) file that was open. *)
Definition next_file (st : state) : option state :=
  match snd st with
  | [] => None
  | f :: rest' => Some (f, rest')
  end.

(* Hasher._handle_partial, non-align branch:
     while len(arr) < self.piece_length and self.next_file():
         target = self.piece_length - len(arr)
         temp = bytearray(target); size = self.current.readinto(temp)
         arr.extend(temp[:size])
         if size == target: break
     return sha1(arr)
   Structural recursion on rest; the `match rest` is next_file inlined (see
   handle_partial_loop_eq in Proofs/HasherCorrect.v for the statement in terms of next_file).
   `and` short-circuits: next_file() is only called when len(arr) < piece_length. When it
   returns False the state keeps the old current file. An empty next file gives
   size = 0 <> target, so the loop goes on to the file after it. *)
Fixpoint handle_partial_loop (pl : nat) (rest : list bytes) (cur arr : bytes) {struct rest}
  : bytes * state :=
  if length arr <? pl then
    match rest with
    | [] => (arr, (cur, []))                       (* next_file() = False: loop ends *)
    | f :: rest' =>                                (* next_file() = True: current = f *)
        let target := pl - length arr in
        let temp := firstn target f in             (* temp[:size] *)
        let cur' := skipn target f in
        let size := length temp in
        let arr' := arr ++ temp in
        if size =? target then (arr', (cur', rest'))          (* break *)
        else handle_partial_loop pl rest' cur' arr'
    end
  else (arr, (cur, rest)).

(* Hasher._handle_partial: returns the bytes that get hashed and the new state.
   align: target = pl - len(arr); arr.extend(bytearray(target)); state untouched. *)
Definition handle_partial (align : bool) (pl : nat) (arr : bytes) (st : state) : bytes * state :=
  if align then (arr ++ zeros (pl - length arr), st)
  else handle_partial_loop pl (snd st) (fst st) arr.

(* Hasher.__next__:
     while True:
         piece = bytearray(pl); size = self.current.readinto(piece)
         if size == 0:
             if not self.next_file(): raise StopIteration
         elif size < pl: return self._handle_partial(piece[:size])
         else: return sha1(piece)
   None = StopIteration.  Structural recursion on rest for the size == 0 branch (the
   `match rest` is next_file inlined, see next_loop_eq in Proofs/HasherCorrect.v). *)
Fixpoint next_loop (align : bool) (pl : nat) (rest : list bytes) (cur : bytes) {struct rest}
  : option (bytes * state) :=
  let piece := firstn pl cur in                    (* piece[:size] *)
  let cur' := skipn pl cur in
  let size := length piece in
  if size =? 0 then
    match rest with
    | [] => None                                   (* next_file() = False: StopIteration *)
    | f :: rest' => next_loop align pl rest' f     (* next_file() = True: loop again *)
    end
  else if size <? pl then Some (handle_partial align pl piece (cur', rest))
  else Some (piece, (cur', rest)).

Definition next (align : bool) (pl : nat) (st : state) : option (bytes * state) :=
  next_loop align pl (snd st) (fst st).

(* `for piece in feeder`: call __next__ until StopIteration. *)
Fixpoint hasher_iter (fuel : nat) (align : bool) (pl : nat) (st : state) : list bytes :=
  match fuel with
  | O => []
  | S fuel' =>
      match next align pl st with
      | None => []
      | Some (b, st') => b :: hasher_iter fuel' align pl st'
      end
  end.

(* All byte strings that get hashed, in order. *)
Definition hasher_inputs (align : bool) (pl : nat) (files : list bytes) : list bytes :=
  hasher_iter (length (concat files) + length files + 1) align pl (init_state files).

(* The digests yielded by the iterator. *)
Definition hasher_pieces (align : bool) (pl : nat) (files : list bytes) : list bytes :=
  map H1 (hasher_inputs align pl files).

(* ---- TorrentFile.assemble: info["files"] lengths/pad flags and info["pieces"] ---- *)

(* Python `-n % pl` for pl > 0 *)
Definition neg_mod (n pl : nat) : nat := (pl - n mod pl) mod pl.

Definition entry := (bool * nat)%type.   (* (is_pad i.e. "attr": "p", "length") *)

(* body of the `for path in filelist` loop in the align branch *)
Definition v1_file_entries_aligned (pl : nat) (filesize : nat) : list entry :=
  let remainder := neg_mod filesize pl in
  (false, filesize) :: (if remainder =? 0 then [] else [(true, remainder)]).

(* info["files"] for a directory *)
Definition v1_entries (align : bool) (pl : nat) (lens : list nat) : list entry :=
  if align then flat_map (v1_file_entries_aligned pl) lens
  else map (fun filesize => (false, filesize)) lens.

(* assemble: a single file has info["length"], no entry list, and kws["align"] = False;
   info["pieces"] is the concatenation of the digests. *)
Definition v1_assemble (isfile align : bool) (pl : nat) (files : list bytes)
  : option (list entry) * bytes :=
  if isfile then (None, concat (hasher_pieces false pl files))
  else (Some (v1_entries align pl (map (@length ascii) files)), concat (hasher_pieces align pl files)).

End Hasher.
