(* C09: process-lifetime state cells and per-operation summaries (GENERATED instance in
   Gen/GenState.v); the executable checker `check_flows`.  No proofs here. *)
From Coq Require Import List Arith Bool String. Import ListNotations.

Record opsum := { op_name : string; op_writes : list nat; op_flows : list nat }.

Definition memn (n : nat) (l : list nat) : bool := existsb (Nat.eqb n) l.

(* no cell whose value may flow into some operation's result is written by any operation *)
Definition check_flows (ops : list opsum) : bool :=
  forallb (fun o => forallb (fun c => negb (existsb (fun o' => memn c (op_writes o')) ops)) (op_flows o)) ops.
