(* C14 -- `utils.copypath(source, dest)` of /repo/torrentfile/utils.py on an abstract
   filesystem, statement by statement, including the ways it can raise.

   A path is the tuple `pathlib.Path(p).parts` (for an absolute path the first part is "/").
   Paths are assumed to be lexically normal (no "..", no symbolic links): the filesystem is a
   map from such tuples to nodes.  The empty tuple is the starting directory. *)
From Coq Require Import List String Ascii Bool Arith.
From TF Require Import Lib.Base.
Import ListNotations.
Open Scope list_scope.

Definition path := list string.

Inductive node :=
 | File (data : bytes)
 | Dir.

Definition fs := path -> option node.      (* None: nothing there *)

Fixpoint path_eqb (p q : path) : bool :=
  match p, q with
  | [], [] => true
  | x :: p', y :: q' => String.eqb x y && path_eqb p' q'
  | _, _ => false
  end.

Definition upd (f : fs) (p : path) (n : node) : fs :=
  fun q => if path_eqb q p then Some n else f q.

(* every read goes through [lookup]: the starting directory always exists *)
Definition lookup (f : fs) (p : path) : option node :=
  match p with [] => Some Dir | _ => f p end.

Definition exists_b (f : fs) (p : path) : bool :=          (* os.path.exists *)
  match lookup f p with Some _ => true | None => false end.

Definition is_dir_b (f : fs) (p : path) : bool :=          (* os.path.isdir *)
  match lookup f p with Some Dir => true | _ => false end.

(* os.path.getsize; dsize is what the operating system reports for a directory
   (4096 on ext4).  Only evaluated on existing paths. *)
Definition node_size (dsize : nat) (n : node) : nat :=
  match n with File d => length d | Dir => dsize end.

Definition getsize (dsize : nat) (f : fs) (p : path) : nat :=
  match lookup f p with Some n => node_size dsize n | None => 0 end.

(* a Python call either returns or raises; in both cases the filesystem it leaves is known *)
Inductive result :=
 | Ok (f : fs)
 | Raised (f : fs).

Definition fs_of (r : result) : fs := match r with Ok f | Raised f => f end.

Definition parent (p : path) : path := removelast p.
Definition basename (p : path) : string := last p EmptyString.

(* os.mkdir(p) *)
Definition mkdir (p : path) (f : fs) : result :=
  if exists_b f p then Raised f                       (* FileExistsError *)
  else if is_dir_b f (parent p) then Ok (upd f p Dir)
  else Raised f.                                      (* FileNotFoundError, NotADirectoryError *)

(* if not os.path.exists(p): os.mkdir(p) *)
Definition ensure_dir (p : path) (f : fs) : result :=
  if exists_b f p then Ok f else mkdir p f.

(* for part in path_parts: path = os.path.join(root, part); <ensure_dir path>; root = path *)
Fixpoint mkdir_loop (root : path) (parts : list string) (f : fs) : result :=
  match parts with
  | [] => Ok f
  | part :: rest =>
      let p := root ++ [part] in
      match ensure_dir p f with
      | Ok f' => mkdir_loop p rest f'
      | Raised f' => Raised f'
      end
  end.

(* where shutil.copy(source, dest) writes: INTO dest if dest is an existing directory *)
Definition copy_target (f : fs) (source dest : path) : path :=
  if is_dir_b f dest then dest ++ [basename source] else dest.

(* shutil.copy(source, dest): overwrites an existing file *)
Definition shutil_copy (source dest : path) (f : fs) : result :=
  let target := copy_target f source dest in
  match lookup f source with
  | Some (File data) =>
      if path_eqb source target then Raised f               (* SameFileError *)
      else if is_dir_b f target then Raised f               (* IsADirectoryError *)
      else if is_dir_b f (parent target) then Ok (upd f target (File data))
      else Raised f                                         (* FileNotFoundError, NotADirectoryError *)
  | _ => Raised f                                           (* IsADirectoryError *)
  end.

(* if len(path_parts) > 1: root = path_parts[0]; path_parts = path_parts[1:-1];
   <ensure_dir root>; <loop>          -- a dest of at most one part has no ancestors to make *)
Definition make_ancestors (dest : path) (f : fs) : result :=
  match dest with                                           (* path_parts = Path(dest).parts *)
  | root_part :: ((_ :: _) as tl) =>                        (* if len(path_parts) > 1: *)
      let root := [root_part] in                            (*   root = path_parts[0] *)
      let middle := removelast tl in                        (*   path_parts = path_parts[1:-1] *)
      match ensure_dir root f with                          (*   if not exists(root): mkdir(root) *)
      | Raised f1 => Raised f1
      | Ok f1 => mkdir_loop root middle f1                  (*   for part in path_parts: ... *)
      end
  | _ => Ok f
  end.

(* the guard of the first statement: true = return without doing anything.
     if not os.path.exists(source) or os.path.isdir(dest) or (
             os.path.exists(dest) and os.path.getsize(source) <= os.path.getsize(dest)): return
   (the isdir test was added by the repair ff51958) *)
Definition skip_test (dsize : nat) (source dest : path) (f : fs) : bool :=
  negb (exists_b f source)
  || is_dir_b f dest
  || (exists_b f dest && (getsize dsize f source <=? getsize dsize f dest)).

(* copypath, with the filesystem it leaves behind also when it raises.  Current code:
   guard with the isdir test (ff51958); shutil.copy OUTSIDE the `if len(path_parts) > 1`
   (b5b5a4c).  The empty tuple stands for "." (Path(".").parts = ()); the empty STRING, which
   is not a path and for which shutil.copy raises, is outside the model. *)
Definition copypath_run (dsize : nat) (source dest : path) (f : fs) : result :=
  if skip_test dsize source dest f then Ok f                (* return *)
  else
    match make_ancestors dest f with
    | Raised f2 => Raised f2
    | Ok f2 => shutil_copy source dest f2                   (* shutil.copy(source, dest) *)
    end.

(* Earlier versions of the code, kept only for the refutations in Proofs/CopyPathProofs.v. *)

(* the guard before ff51958: no isdir test *)
Definition skip_test_old (dsize : nat) (source dest : path) (f : fs) : bool :=
  negb (exists_b f source)
  || (exists_b f dest && (getsize dsize f source <=? getsize dsize f dest)).

(* between b5b5a4c and ff51958: a destination occupied by a directory smaller (as reported
   by the OS) than the source was copied INTO *)
Definition copypath_run_old_dir (dsize : nat) (source dest : path) (f : fs) : result :=
  if skip_test_old dsize source dest f then Ok f
  else
    match make_ancestors dest f with
    | Raised f2 => Raised f2
    | Ok f2 => shutil_copy source dest f2
    end.

(* before b5b5a4c: shutil.copy was inside the `if`, so a dest of one part was never written *)
Definition copypath_run_old (dsize : nat) (source dest : path) (f : fs) : result :=
  if skip_test_old dsize source dest f then Ok f
  else
    match dest with
    | _ :: _ :: _ =>
        match make_ancestors dest f with
        | Raised f2 => Raised f2
        | Ok f2 => shutil_copy source dest f2
        end
    | _ => Ok f
    end.

Definition copypath (dsize : nat) (source dest : path) (f : fs) : fs :=
  fs_of (copypath_run dsize source dest f).

(* vocabulary of the theorems *)
Definition prefix (p l : path) : Prop := exists rest, l = p ++ rest.
Definition proper_prefix (p l : path) : Prop := exists rest, rest <> [] /\ l = p ++ rest.

(* an ancestor directory of dest that did not exist in f *)
Definition is_new_ancestor (f : fs) (p dest : path) : Prop :=
  p <> [] /\ proper_prefix p dest /\ f p = None.

(* a small filesystem for examples: association list, first match wins *)
Fixpoint fs_of_list (l : list (path * node)) : fs :=
  match l with
  | [] => fun _ => None
  | (p, n) :: rest => upd (fs_of_list rest) p n
  end.
