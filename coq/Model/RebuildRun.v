(* C13 / C14 -- a whole rebuild ON THE FILESYSTEM: the matcher models (Model/Rebuild.v match_v1,
   Model/RebuildMeta.v match_v2) composed with the copypath model (Model/CopyPath.v).

   rebuild.py (current working tree):
     PieceNode._find_matches   ... if val: dest_path = os.path.join(self.dest, pathnode.full)
                                            copypath(loc, dest_path); return val
     Metadata._match_v2        ... if root == hasher.root: dest_path = os.path.join(dest, entry["full"])
                                            copypath(path, dest_path); self._update(); self.cb(path, dest_path, ..); break
     Metadata._match_v1        ... self.cb(pathnode.path, os.path.join(dest, pathnode.full), ..)   once per newly marked file
     Assembler.assemble_torrents   for metafile in self.metafiles: metafile.rebuild(self.filemap, self.dest)

   The matcher models return the copypath calls in execution order as (candidate location, text of
   `full`).  Here every such call is executed, in that order, on the abstract filesystem of
   Model/CopyPath.v.  A copypath call that raises (an ancestor of the target is a file, the target
   is the source itself, ...) is not caught anywhere in rebuild.py: the exception leaves
   Assembler.assemble_torrents, so the run STOPS there ([run_steps] returns Raised with the
   filesystem as it is at that moment).

   Reads and writes are interleaved in the real run: _find_matches reads candidates
   (PathNode.get_part) and HasherV2 hashes candidates between copypath calls, whereas the matcher
   models read every candidate's bytes from the filemap, where the content stands next to the
   location.  The two agree as long as the candidates keep their bytes during the run, which is
   theorem [run_prefix_reflects] of Proofs/RebuildRunProofs.v: under [dest_disjoint] every prefix of
   the trace leaves [filemap_reflects] intact.  [filemap_reflects] itself is what _index_contents
   establishes at start: it walks the search paths (os.listdir recursively), and for every regular
   file whose os.path.basename is one of the wanted names appends (path, os.path.getsize(path))
   under that name -- so every candidate location is an existing regular file with that basename,
   and the `size` kept in the filemap is the length of the bytes it holds (no concurrent writer). *)
From Coq Require Import List String Ascii Bool Arith.
From TF Require Import Lib.Base Lib.Chunks Model.CopyPath Model.Rebuild.
From TF Require Model.PathSafe Model.Bencode Model.RebuildMeta.
Import ListNotations.
Open Scope list_scope.

(* ------------------------------------------------------------------------------------------ *)
(* texts to paths                                                                              *)
(* ------------------------------------------------------------------------------------------ *)

(* pathlib.PurePosixPath(s).parts: split at "/", drop "" and "." names, a leading "/" becomes the
   root part "/".  (Exactly two leading slashes, which POSIX keeps apart as "//", and ".." names --
   which pathlib keeps and the filesystem of Model/CopyPath.v does not interpret -- are outside the
   model: the paths are lexically normal.) *)
Definition plain_name (c : string) : bool :=
  negb (String.eqb c "") && negb (String.eqb c ".").

Definition parts_of (s : string) : path :=
  let names := filter plain_name (PathSafe.split_slash s) in
  if PathSafe.starts_with_slash s then "/"%string :: names else names.

(* Path(os.path.join(dest, full)).parts with dest given by its parts: an absolute `full` discards
   dest (os.path.join), a relative one is appended *)
Definition join_parts (dest : path) (full : string) : path :=
  if PathSafe.starts_with_slash full then parts_of full else dest ++ parts_of full.

(* one recorded copypath(loc, os.path.join(dest, full)) as (source, target) *)
Definition resolve_copy (dest : path) (c : copy) : path * path :=
  (parts_of (fst c), join_parts dest (snd c)).

(* ------------------------------------------------------------------------------------------ *)
(* executing the calls                                                                         *)
(* ------------------------------------------------------------------------------------------ *)

(* copypath(s1, t1); copypath(s2, t2); ... -- the first call that raises ends the run *)
Fixpoint run_steps (dsize : nat) (steps : list (path * path)) (f : fs) : result :=
  match steps with
  | [] => Ok f
  | (s, t) :: rest =>
      match copypath_run dsize s t f with
      | Ok f1 => run_steps dsize rest f1
      | Raised f1 => Raised f1
      end
  end.

Definition run_copies_run (dsize : nat) (dest : path) (trace : list copy) (f : fs) : result :=
  run_steps dsize (map (resolve_copy dest) trace) f.

Definition run_copies (dsize : nat) (dest : path) (trace : list copy) (f : fs) : fs :=
  fs_of (run_copies_run dsize dest trace f).

(* ------------------------------------------------------------------------------------------ *)
(* the filemap against the filesystem                                                          *)
(* ------------------------------------------------------------------------------------------ *)

(* c is listed in the filemap under `name` *)
Definition indexed (fm : filemap) (name : string) (c : candidate) : Prop :=
  exists cands, fm_lookup fm name = Some cands /\ In c cands.

(* what _index_contents has established (see the head of the file): every candidate is a regular
   file at its location, holding the bytes the filemap shows, and named like its key *)
Definition filemap_reflects (f : fs) (fm : filemap) : Prop :=
  forall name l data, indexed fm name (l, data) ->
    lookup f (parts_of l) = Some (File data) /\ basename (parts_of l) = name.

(* the destination does not contain a search path: no candidate lies in or under dest *)
Definition dest_disjoint (dest : path) (fm : filemap) : Prop :=
  forall name l data, indexed fm name (l, data) -> ~ prefix dest (parts_of l).

(* ------------------------------------------------------------------------------------------ *)
(* the v1 route                                                                                *)
(* ------------------------------------------------------------------------------------------ *)

(* one dictionary of Metadata.files as the v1 route uses it: filename, full (text), length *)
Record v1_file : Type := mk_v1_file { vf_filename : string; vf_full : string; vf_length : nat }.

(* PathNode(start=start, stop=stop, **current) with current = self.files[k] *)
Definition range_node (files : list v1_file) (r : range) : pathnode :=
  let cur := nth (r_file r) files (mk_v1_file EmptyString EmptyString 0) in
  mkPathNode (vf_filename cur) (vf_full cur) (vf_length cur) (r_start r) (r_stop r).

(* self.piece_nodes after _map_pieces(): `digests` are the len(self.pieces) // 20 successive
   20-byte slices of self.pieces *)
Definition v1_nodes (pl : nat) (files : list v1_file) (digests : list bytes)
  : list (bytes * list pathnode) :=
  combine digests
          (map (map (range_node files)) (map_pieces pl (map vf_length files) (length digests))).

Definition v1_trace (H1 : bytes -> bytes) (fm : filemap) (nodes : list (bytes * list pathnode))
  : list copy :=
  snd (match_v1 H1 fm nodes).

(* Metadata.rebuild, v1 route, with its effect on the filesystem *)
Definition rebuild_v1_run (dsize : nat) (H1 : bytes -> bytes) (fm : filemap) (dest : path)
           (nodes : list (bytes * list pathnode)) (f : fs) : result :=
  run_copies_run dsize dest (v1_trace H1 fm nodes) f.

Definition rebuild_v1_fs (dsize : nat) (H1 : bytes -> bytes) (fm : filemap) (dest : path)
           (nodes : list (bytes * list pathnode)) (f : fs) : fs :=
  fs_of (rebuild_v1_run dsize H1 fm dest nodes f).

(* the (pathnode.path, dest_path) pairs handed to self.cb by _match_v1: one per file newly put
   into `copied`, i.e. the final `copied` list; only dest_path is kept *)
Definition v1_reported (H1 : bytes -> bytes) (fm : filemap) (dest : path)
           (nodes : list (bytes * list pathnode)) : list path :=
  map (join_parts dest) (snd (fst (match_v1 H1 fm nodes))).

(* ------------------------------------------------------------------------------------------ *)
(* the v2 route                                                                                *)
(* ------------------------------------------------------------------------------------------ *)

Definition v2_trace (H256 : bytes -> bytes) (B pl : nat) (fm : filemap)
           (entries : list RebuildMeta.entry) : list copy :=
  fst (RebuildMeta.match_v2 H256 B pl fm entries).

Definition rebuild_v2_run (dsize : nat) (H256 : bytes -> bytes) (B pl : nat) (fm : filemap)
           (dest : path) (entries : list RebuildMeta.entry) (f : fs) : result :=
  run_copies_run dsize dest (v2_trace H256 B pl fm entries) f.

Definition rebuild_v2_fs (dsize : nat) (H256 : bytes -> bytes) (B pl : nat) (fm : filemap)
           (dest : path) (entries : list RebuildMeta.entry) (f : fs) : fs :=
  fs_of (rebuild_v2_run dsize H256 B pl fm dest entries f).

(* every copypath call of _match_v2 is followed by self.cb(path, dest_path, ..): the reported
   (source, dest_path) pairs are the resolved trace *)
Definition v2_reported (H256 : bytes -> bytes) (B pl : nat) (fm : filemap) (dest : path)
           (entries : list RebuildMeta.entry) : list (path * path) :=
  map (resolve_copy dest) (v2_trace H256 B pl fm entries).

(* ------------------------------------------------------------------------------------------ *)
(* Assembler.assemble_torrents: the metafiles one after the other, ONE filemap, ONE destination *)
(* ------------------------------------------------------------------------------------------ *)

Inductive job : Type :=
| JobV1 (nodes : list (bytes * list pathnode))                  (* meta_version != 2 *)
| JobV2 (pl : nat) (entries : list RebuildMeta.entry).          (* meta_version == 2 *)

Definition job_trace (H1 H256 : bytes -> bytes) (B : nat) (fm : filemap) (j : job) : list copy :=
  match j with
  | JobV1 nodes => v1_trace H1 fm nodes
  | JobV2 pl entries => v2_trace H256 B pl fm entries
  end.

(* for metafile in self.metafiles: metafile.rebuild(self.filemap, self.dest) *)
Fixpoint assemble_run (dsize : nat) (H1 H256 : bytes -> bytes) (B : nat) (fm : filemap)
         (dest : path) (jobs : list job) (f : fs) : result :=
  match jobs with
  | [] => Ok f
  | j :: rest =>
      match run_copies_run dsize dest (job_trace H1 H256 B fm j) f with
      | Ok f1 => assemble_run dsize H1 H256 B fm dest rest f1
      | Raised f1 => Raised f1
      end
  end.

Definition assemble_fs (dsize : nat) (H1 H256 : bytes -> bytes) (B : nat) (fm : filemap)
           (dest : path) (jobs : list job) (f : fs) : fs :=
  fs_of (assemble_run dsize H1 H256 B fm dest jobs f).

(* ------------------------------------------------------------------------------------------ *)
(* Metadata(path).rebuild(filemap, dest), from the decoded metafile                            *)
(* ------------------------------------------------------------------------------------------ *)

(* info["piece length"] as the loops use it.  None = outside the model: not an int (HasherV2 /
   `target = self.piece_length` then fail or misbehave in ways that are not followed here), or an
   int <= 0 (no piece ever gets a path node; nothing is copied). *)
Definition pl_of (v : Bencode.value) : option nat :=
  match v with
  | Bencode.BInt z => if (0 <? z)%Z then Some (Z.to_nat z) else None
  | _ => None
  end.

(* entry["length"] as _map_pieces uses it (negative lengths are outside the model) *)
Definition len_of (z : Z) : option nat := if (0 <=? z)%Z then Some (Z.to_nat z) else None.

(* self.files[k] as the v1 route reads it: filename, full (the "/"-joined text), length *)
Fixpoint v1_files_of_entries (es : list RebuildMeta.entry) : option (list v1_file) :=
  match es with
  | [] => Some []
  | e :: rest =>
      match len_of (RebuildMeta.e_length e), v1_files_of_entries rest with
      | Some n, Some r =>
          Some (mk_v1_file (RebuildMeta.text (RebuildMeta.e_filename e)) (RebuildMeta.full_text e) n :: r)
      | _, _ => None
      end
  end.

(* total_pieces = len(self.pieces) // SHA1; piece i is self.pieces[20*i : 20*i+20] *)
Definition digests_of (pieces : bytes) : list bytes := firstn (length pieces / 20) (chunks 20 pieces).

(* Metadata(path) then .rebuild(filemap, dest): None = no Metadata object comes into being
   (RebuildMeta.metadata_init) or the metafile is outside the model (see pl_of, len_of; `pieces`
   that is not a byte string); otherwise the dispatch of Metadata.rebuild on meta_version == 2:
   _match_v2 over self.files, or _map_pieces + _match_v1 *)
Definition rebuild_of_metafile (H1 H256 : bytes -> bytes) (B dsize : nat) (dest : path) (fm : filemap)
           (meta : Bencode.value) (f : fs) : option result :=
  match RebuildMeta.metadata_init meta with
  | None => None
  | Some x =>
      match pl_of (RebuildMeta.x_piece_length x) with
      | None => None
      | Some pl =>
          if RebuildMeta.x_is_v2 x
          then Some (rebuild_v2_run dsize H256 B pl fm dest (RebuildMeta.x_files x) f)
          else
            match RebuildMeta.x_pieces x, v1_files_of_entries (RebuildMeta.x_files x) with
            | Bencode.BStr s, Some files =>
                Some (rebuild_v1_run dsize H1 fm dest (v1_nodes pl files (digests_of s)) f)
            | _, _ => None
            end
      end
  end.
