(* M10 (part 2) -- the three routes by which a `create` option reaches MetaFile.__init__:
   command line (Model/ArgParse.v on the generated table), configuration file
   (commands.parse_config_file, GENERATED as `cfg_route`), keyword arguments.
   Everything that comes from /repo is a field of `tables` (instantiated from Gen/GenCli.v and
   Gen/GenConfig.v in Model/RoutesRun.v); the documented side (flags, configuration keys,
   keywords, metafile fields) is written here by hand from the manual -- it is the specification.

   Hand-modelled, statement by statement, from torrent.py MetaFile.__init__: binding of keyword
   arguments to the (generated) parameter list, `if content: path = content`, the recovery chain
   `if not path: if announce and len(announce) > 1 and os.path.exists(announce[-1]) ... elif ...`
   (the chain itself is GENERATED data: `t_recovery`), the announce normalisation, and the
   `if x: self.meta[...] = x` landings (GENERATED data: `t_landings`).
   From commands.create: `kwargs = vars(args)`, parse_config_file overrides, the class dispatch on
   `args.meta_version == "1"` (GENERATED data: `t_dispatch`); from TorrentAssembler.__init__:
   `self.hybrid = str(self.meta_version) == "3"` (GENERATED data: `t_hybrid`). *)
From Coq Require Import String List Bool Ascii Arith DecimalString.
From TF Require Import Model.ArgParse.
Import ListNotations.
Open Scope string_scope.

(* ------------------------------------------------------------------ generated-table types *)
Inductive cfg_transform :=
| TVerbatim        (* kwargs[k] = val *)
| TLines           (* kwargs[k] = [i for i in val.split("\n") if i] *)
| TBoolTrue.       (* kwargs[k] = val.lower() == "true" *)

Record landing := mk_landing {
  l_param : string;      (* `if <param>:` *)
  l_info : bool;         (* self.meta["info"][key] (true) or self.meta[key] (false) *)
  l_key : string;
  l_one : bool }.        (* `= 1` (true) or `= <param>` (false) *)

Record tables := mk_tables {
  t_cli : list argspec;                          (* create sub-parser *)
  t_cfg : string -> string * cfg_transform;      (* parse_config_file on key.lower() *)
  t_interp_none : bool;                          (* ConfigParser(interpolation=None) *)
  t_params : list (string * value);              (* MetaFile.__init__ parameters, defaults *)
  t_varkw : bool;                                (* has a var-keyword parameter *)
  t_alias : list string;                         (* `if x: path = x`, in order *)
  t_recovery : list (string * bool);             (* (list parameter, needs len > 1) *)
  t_landings : list landing;
  t_dispatch : string * string * string * string;(* (attr, literal, class if ==, class else) *)
  t_hybrid : string * bool }.                    (* (literal, compared through str()) *)

(* ------------------------------------------------------------------ strings *)
Definition nl : ascii := "010"%char.

Definition lower_ascii (c : ascii) : ascii :=
  let n := nat_of_ascii c in
  if Nat.leb 65 n && Nat.leb n 90 then ascii_of_nat (n + 32) else c.

Fixpoint lower (s : string) : string :=
  match s with
  | EmptyString => EmptyString
  | String c r => String (lower_ascii c) (lower r)
  end.

(* str.split("\n") *)
Fixpoint split_nl (s : string) : list string :=
  match s with
  | EmptyString => [""]
  | String c r =>
      if Ascii.eqb c nl then "" :: split_nl r
      else match split_nl r with
           | h :: t => String c h :: t
           | [] => [String c ""]
           end
  end.

Fixpoint join_nl (l : list string) : string :=
  match l with
  | [] => ""
  | [x] => x
  | x :: t => x ++ String nl (join_nl t)
  end.

Definition nonempty (s : string) : bool := negb (s =? "").

Fixpoint contains_char (c : ascii) (s : string) : bool :=
  match s with
  | EmptyString => false
  | String c' r => Ascii.eqb c c' || contains_char c r
  end.

(* ------------------------------------------------------------------ the options (documented) *)
Record optrec := mk_opt {
  o_announce : list string;
  o_webseed : list string;
  o_httpseed : list string;
  o_private : bool;
  o_source : option string;
  o_comment : option string;
  o_piece_length : option string;
  o_meta_version : option string;
  o_out : option string;
  o_align : bool;
  o_content : string }.

Inductive okey :=
| KAnnounce | KWebSeed | KHttpSeed | KPrivate | KSource | KComment
| KPieceLength | KMetaVersion | KOut | KAlign.

Definition all_keys : list okey :=
  [KAnnounce; KWebSeed; KHttpSeed; KPrivate; KSource; KComment; KPieceLength; KMetaVersion; KOut; KAlign].

Inductive shape := ShList | ShBool | ShStr.

Definition doc_shape (k : okey) : shape :=
  match k with
  | KAnnounce | KWebSeed | KHttpSeed => ShList
  | KPrivate | KAlign => ShBool
  | _ => ShStr
  end.

(* the manual: every documented spelling of the flag *)
Definition doc_flags (k : okey) : list string :=
  match k with
  | KAnnounce => ["-a"; "--announce"; "--tracker"]
  | KWebSeed => ["--web-seed"]
  | KHttpSeed => ["--http-seed"]
  | KPrivate => ["-p"; "--private"]
  | KSource => ["-s"; "--source"]
  | KComment => ["-c"; "--comment"]
  | KPieceLength => ["--piece-length"]
  | KMetaVersion => ["--meta-version"]
  | KOut => ["-o"; "--out"]
  | KAlign => ["--align"]
  end.

(* the manual: key in the [config] section *)
Definition doc_cfg_key (k : okey) : string :=
  match k with
  | KAnnounce => "announce" | KWebSeed => "web-seed" | KHttpSeed => "http-seed"
  | KPrivate => "private" | KSource => "source" | KComment => "comment"
  | KPieceLength => "piece-length" | KMetaVersion => "meta-version" | KOut => "out"
  | KAlign => "align"
  end.

(* the docstring of MetaFile: keyword argument *)
Definition doc_kw (k : okey) : string :=
  match k with
  | KAnnounce => "announce" | KWebSeed => "url_list" | KHttpSeed => "httpseeds"
  | KPrivate => "private" | KSource => "source" | KComment => "comment"
  | KPieceLength => "piece_length" | KMetaVersion => "meta_version" | KOut => "outfile"
  | KAlign => "align"
  end.

Definition doc_versions : list string := ["1"; "2"; "3"].

(* value of option k in o; None = not supplied *)
Definition lv (l : list string) : option value :=
  match l with [] => None | _ => Some (VList l) end.
Definition bv (b : bool) : option value := if b then Some (VBool true) else None.
Definition sv (s : option string) : option value :=
  match s with Some x => Some (VStr x) | None => None end.

Definition opt_value (o : optrec) (k : okey) : option value :=
  match k with
  | KAnnounce => lv (o_announce o)
  | KWebSeed => lv (o_webseed o)
  | KHttpSeed => lv (o_httpseed o)
  | KPrivate => bv (o_private o)
  | KSource => sv (o_source o)
  | KComment => sv (o_comment o)
  | KPieceLength => sv (o_piece_length o)
  | KMetaVersion => sv (o_meta_version o)
  | KOut => sv (o_out o)
  | KAlign => bv (o_align o)
  end.

(* ------------------------------------------------------------------ renderers *)
(* sel k picks one of the documented spellings of the flag of k *)
Definition flag_of (sel : okey -> nat) (k : okey) : string :=
  nth (sel k) (doc_flags k) (hd "" (doc_flags k)).

Definition render_opt (o : optrec) (sel : okey -> nat) (k : okey) : list string :=
  match opt_value o k with
  | None => []
  | Some (VBool _) => [flag_of sel k]
  | Some (VStr s) => [flag_of sel k; s]
  | Some (VList l) => flag_of sel k :: l
  | Some _ => []
  end.

Definition render_groups (o : optrec) (sel : okey -> nat) (ks : list okey) : list string :=
  concat (map (render_opt o sel) ks).

(* the tokens after `torrentfile create`: the options in the given order, the content path after
   the first `pos` of them *)
Definition render_argv (o : optrec) (sel : okey -> nat) (order : list okey) (pos : nat) : list string :=
  render_groups o sel (firstn pos order) ++ [o_content o] ++ render_groups o sel (skipn pos order).

(* the (key, value) pairs config["config"].items() delivers: lists one per line, booleans
   true/false (explicit_false: whether an unset boolean is written as `key = false`) *)
Definition ini_opt (o : optrec) (explicit_false : bool) (k : okey) : list (string * string) :=
  match doc_shape k, opt_value o k with
  | ShBool, Some _ => [(doc_cfg_key k, "true")]
  | ShBool, None => if explicit_false then [(doc_cfg_key k, "false")] else []
  | _, Some (VStr s) => [(doc_cfg_key k, s)]
  | _, Some (VList l) => [(doc_cfg_key k, join_nl l)]
  | _, _ => []
  end.

Definition render_ini (o : optrec) (explicit_false : bool) (order : list okey) : list (string * string) :=
  concat (map (ini_opt o explicit_false) order).

Definition kw_opt (o : optrec) (k : okey) : namespace :=
  match opt_value o k with Some v => [(doc_kw k, v)] | None => [] end.

(* TorrentFile(path=..., announce=[...], ...) *)
Definition kwargs_of (o : optrec) : namespace :=
  ("path", VStr (o_content o)) :: concat (map (kw_opt o) all_keys).

(* ------------------------------------------------------------------ configuration route *)
Definition cfg_value (tr : cfg_transform) (v : string) : value :=
  match tr with
  | TVerbatim => VStr v
  | TLines => VList (filter nonempty (split_nl v))
  | TBoolTrue => VBool (lower v =? "true")
  end.

Definition cfg_step (T : tables) (ns : namespace) (kv : string * string) : namespace :=
  let (kw, tr) := t_cfg T (lower (fst kv)) in set kw (cfg_value tr (snd kv)) ns.

(* commands.create: kwargs = vars(args); parse_config_file(path, kwargs).  None: reading a value
   raised (BasicInterpolation rejects or rewrites values containing "%"). *)
Definition apply_cfg (T : tables) (pairs : list (string * string)) (ns : namespace) : option namespace :=
  if t_interp_none T || forallb (fun kv => negb (contains_char "%"%char (snd kv))) pairs
  then Some (fold_left (cfg_step T) pairs ns)
  else None.

(* ------------------------------------------------------------------ MetaFile.__init__ *)
Definition truthy (v : value) : bool :=
  match v with
  | VNone => false
  | VBool b => b
  | VStr s => nonempty s
  | VInt n => negb (Nat.eqb n 0)
  | VList l => match l with [] => false | _ => true end
  end.

Definition getv (ns : namespace) (d : string) : value :=
  match lookup ns d with Some v => v | None => VNone end.

Inductive iresult (A : Type) :=
| IOk (a : A)
| IMissingPath          (* raise MissingPathError *)
| IOutside.             (* TypeError / a value of a type the model does not cover *)
Arguments IOk {A} a.
Arguments IMissingPath {A}.
Arguments IOutside {A}.

Record params := mk_params {
  p_path : string;
  p_announce : string;                     (* self.announce *)
  p_announce_list : list (list string);    (* self.announce_list *)
  p_url_list : list string;                (* [] when falsy *)
  p_httpseeds : list string;
  p_comment : string;                      (* "" when falsy *)
  p_source : string;
  p_private : bool;                        (* truth value *)
  p_piece_length : value;                  (* VNone when falsy, else the raw argument *)
  p_outfile : string;
  p_align : bool;
  p_hybrid : bool }.                       (* TorrentAssembler.hybrid *)

Definition str_of_value (v : value) : string :=
  match v with
  | VNone => "None"
  | VBool true => "True"
  | VBool false => "False"
  | VStr s => s
  | VInt n => NilEmpty.string_of_uint (Nat.to_uint n)
  | VList _ => "[...]"
  end.

Definition norm_list (v : value) : option (list string) :=
  match v with
  | VList l => Some l
  | _ => if truthy v then None else Some []
  end.

Definition norm_str (v : value) : option string :=
  match v with
  | VStr s => Some s
  | _ => if truthy v then None else Some ""
  end.

Section Init.
Variable exists_ : string -> bool.      (* os.path.exists *)
Variable T : tables.

(* the parameter names the hand-written part below refers to *)
Definition used_params : list string :=
  ["path"; "announce"; "comment"; "align"; "piece_length"; "private"; "outfile"; "source";
   "httpseeds"; "url_list"; "meta_version"]
  ++ t_alias T ++ map fst (t_recovery T) ++ map l_param (t_landings T).

Definition sig_ok : bool :=
  forallb (fun n => mem_str n (map fst (t_params T))) used_params.

Definition kw_ok (ns : namespace) : bool :=
  t_varkw T || forallb (fun kv => mem_str (fst kv) (map fst (t_params T))) ns.

(* binding: keyword if given, else the default of the signature *)
Definition arg (ns : namespace) (pd : string * value) : string * value :=
  (fst pd, match lookup ns (fst pd) with Some v => v | None => snd pd end).

Definition locals (ns : namespace) : namespace := map (arg ns) (t_params T).

Definition alias_step (loc : namespace) (n : string) : namespace :=
  if truthy (getv loc n) then set "path" (getv loc n) loc else loc.

Fixpoint recover (chain : list (string * bool)) (loc : namespace) : iresult namespace :=
  match chain with
  | [] => IMissingPath
  | (n, need2) :: rest =>
      match getv loc n with
      | VList [] => recover rest loc
      | VList l =>
          if (negb need2 || (Nat.ltb 1 (length l))) && exists_ (last l "")
          then IOk (set "path" (VStr (last l "")) (set n (VList (removelast l)) loc))
          else recover rest loc
      | v => if truthy v then IOutside else recover rest loc
      end
  end.

Definition init_locals (ns : namespace) : iresult namespace :=
  if negb sig_ok || negb (kw_ok ns) then IOutside
  else
    let loc := fold_left alias_step (t_alias T) (locals ns) in
    if truthy (getv loc "path") then IOk loc else recover (t_recovery T) loc.

Definition hybrid_of (v : value) : bool :=
  let (lit, through_str) := t_hybrid T in
  if through_str then str_of_value v =? lit
  else match v with VStr s => s =? lit | _ => false end.

Definition norm_announce (v : value) : option (string * list (list string)) :=
  match v with
  | VList (a :: l) => Some (a, [a :: l])
  | VStr s => if nonempty s then Some (s, [[s]]) else Some ("", [[""]])
  | _ => if truthy v then None else Some ("", [[""]])
  end.

Definition params_of_locals (loc : namespace) : iresult params :=
  match getv loc "path", norm_announce (getv loc "announce"),
        norm_list (getv loc "url_list"), norm_list (getv loc "httpseeds"),
        norm_str (getv loc "comment"), norm_str (getv loc "source"),
        norm_str (getv loc "outfile") with
  | VStr path, Some (a, al), Some ul, Some hs, Some c, Some s, Some out =>
      IOk {| p_path := path; p_announce := a; p_announce_list := al;
             p_url_list := ul; p_httpseeds := hs; p_comment := c; p_source := s;
             p_private := truthy (getv loc "private");
             p_piece_length := (let v := getv loc "piece_length" in if truthy v then v else VNone);
             p_outfile := out;
             p_align := truthy (getv loc "align");
             p_hybrid := hybrid_of (getv loc "meta_version") |}
  | _, _, _, _, _, _, _ => IOutside
  end.

Definition init_params (ns : namespace) : iresult params :=
  match init_locals ns with
  | IOk loc => params_of_locals loc
  | IMissingPath => IMissingPath
  | IOutside => IOutside
  end.

(* commands.create: `if args.<attr> == "<lit>": torrent = A(kwargs...) else: torrent = B(kwargs...)` *)
Definition dispatch (ns : namespace) : string :=
  let '(attr, lit, c1, c2) := t_dispatch T in
  match getv ns attr with
  | VStr s => if s =? lit then c1 else c2
  | _ => c2
  end.

(* ---------------------------------------------------------------- landing in the metafile *)
Inductive mvalue := MVal (v : value) | MLL (ll : list (list string)).
Definition meta := list (string * mvalue).

Fixpoint mfield (m : meta) (f : string) : option mvalue :=
  match m with
  | [] => None
  | (f', v) :: t => if f' =? f then Some v else mfield t f
  end.

Fixpoint mset (f : string) (v : mvalue) (m : meta) : meta :=
  match m with
  | [] => [(f, v)]
  | (f', v') :: t => if f' =? f then (f, v) :: t else (f', v') :: mset f v t
  end.

Definition strv (s : string) : value := if nonempty s then VStr s else VNone.
Definition listv (l : list string) : value := match l with [] => VNone | _ => VList l end.

(* the local variable <name> as far as its truth value and (when true) its value go *)
Definition pget (p : params) (name : string) : value :=
  if name =? "comment" then strv (p_comment p)
  else if name =? "source" then strv (p_source p)
  else if name =? "private" then VBool (p_private p)
  else if name =? "url_list" then listv (p_url_list p)
  else if name =? "httpseeds" then listv (p_httpseeds p)
  else if name =? "outfile" then strv (p_outfile p)
  else if name =? "align" then VBool (p_align p)
  else if name =? "piece_length" then p_piece_length p
  else if name =? "path" then VStr (p_path p)
  else VNone.

Definition field_name (l : landing) : string :=
  if l_info l then "info." ++ l_key l else l_key l.

Definition apply_landing (p : params) (m : meta) (l : landing) : meta :=
  let v := pget p (l_param l) in
  if truthy v then mset (field_name l) (MVal (if l_one l then VInt 1 else v)) m else m.

Variable normalize_pl : value -> nat.   (* utils.normalize_piece_length (C12) *)
Variable path_pl : string -> nat.       (* utils.path_piece_length *)

(* the option-bearing part of self.meta after __init__ (info keys are written "info.<key>") *)
Definition meta_of (p : params) : meta :=
  let m1 := if nonempty (p_announce p)
            then mset "announce-list" (MLL (p_announce_list p))
                   (mset "announce" (MVal (VStr (p_announce p))) [])
            else [] in
  let m2 := fold_left (apply_landing p) (t_landings T) m1 in
  mset "info.piece length"
    (MVal (VInt (match p_piece_length p with
                 | VNone => path_pl (p_path p)
                 | v => normalize_pl v
                 end))) m2.

End Init.

(* ------------------------------------------------------------------ what the manual promises *)
Definition dflt (s : option string) : string := match s with Some x => x | None => "" end.

Definition params_of (o : optrec) : params :=
  {| p_path := o_content o;
     p_announce := hd "" (o_announce o);
     p_announce_list := match o_announce o with [] => [[""]] | a :: l => [a :: l] end;
     p_url_list := o_webseed o;
     p_httpseeds := o_httpseed o;
     p_comment := dflt (o_comment o);
     p_source := dflt (o_source o);
     p_private := o_private o;
     p_piece_length := strv (dflt (o_piece_length o));
     p_outfile := dflt (o_out o);
     p_align := o_align o;
     p_hybrid := dflt (o_meta_version o) =? "3" |}.

(* documented metafile field of each option (None: the key is absent) *)
Definition doc_fields (normalize_pl : value -> nat) (path_pl : string -> nat) (o : optrec)
  : list (string * option mvalue) :=
  [ ("announce", match o_announce o with a :: _ => if nonempty a then Some (MVal (VStr a)) else None | [] => None end);
    ("announce-list", match o_announce o with a :: l => if nonempty a then Some (MLL [a :: l]) else None | [] => None end);
    ("url-list", match o_webseed o with [] => None | l => Some (MVal (VList l)) end);
    ("httpseeds", match o_httpseed o with [] => None | l => Some (MVal (VList l)) end);
    ("info.comment", match o_comment o with Some s => if nonempty s then Some (MVal (VStr s)) else None | None => None end);
    ("info.source", match o_source o with Some s => if nonempty s then Some (MVal (VStr s)) else None | None => None end);
    ("info.private", if o_private o then Some (MVal (VInt 1)) else None);
    ("info.piece length",
       Some (MVal (VInt (match o_piece_length o with
                         | Some s => if nonempty s then normalize_pl (VStr s) else path_pl (o_content o)
                         | None => path_pl (o_content o)
                         end)))) ].

(* class chosen by commands.create *)
Definition doc_class (o : optrec) : string :=
  match o_meta_version o with
  | None => "TorrentFile"
  | Some s => if s =? "1" then "TorrentFile" else "TorrentAssembler"
  end.

(* ------------------------------------------------------------------ side conditions (visible in C20) *)
Definition nonflag (s : string) : bool := negb (is_flag s).

Definition urls (o : optrec) : list string := o_announce o ++ o_webseed o ++ o_httpseed o.

Definition str_opts (o : optrec) : list string :=
  flat_map (fun s => match s with Some x => [x] | None => [] end)
    [o_source o; o_comment o; o_piece_length o; o_meta_version o; o_out o].

Definition version_ok (o : optrec) : bool :=
  match o_meta_version o with Some s => mem_str s doc_versions | None => true end.

(* command line: no value looks like a flag; the content path is a non-empty existing path; no
   URL is an existing path; --meta-version is one of the documented choices *)
Definition cli_values_ok (exists_ : string -> bool) (o : optrec) : bool :=
  nonflag (o_content o) && nonempty (o_content o) && exists_ (o_content o)
  && forallb nonflag (urls o) && forallb (fun u => negb (exists_ u)) (urls o)
  && forallb nonflag (str_opts o) && version_ok o.

(* configuration file: a URL is a non-empty line (no newline inside); the content path is non-empty *)
Definition cfg_values_ok (o : optrec) : bool :=
  nonempty (o_content o)
  && forallb (fun u => nonempty u && negb (contains_char nl u)) (urls o).

(* keyword arguments: the content path is non-empty *)
Definition kw_values_ok (o : optrec) : bool := nonempty (o_content o).

(* documented defaults of the command line *)
Definition doc_default (k : okey) : value :=
  match k with
  | KAnnounce => VList []
  | KPrivate | KAlign => VBool false
  | KMetaVersion => VStr "1"
  | _ => VNone
  end.
