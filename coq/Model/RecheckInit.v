(* M5c Recheck: how the two piece checkers of torrentfile/recheck.py derive their inputs from the
   decoded metafile and from Checker.fileinfo -- FeedChecker.__init__ (+ the reads of
   self.fileinfo / os.path.exists / open in iter_pieces and extract) and HashChecker.__init__ /
   next_file -- and the whole of `Checker(metafile, path).results()` as one function of the decoded
   metafile and the file system:  recheck_model.  Executable and total; proofs about it are in
   Proofs/OwnMetafiles.v.

   It joins Model/CheckPaths.v (Checker.__init__: meta version, find_root, check_paths ->
   (root, fileinfo, total)) to Model/Recheck.v (feed_trace / hash_trace over lens, disk, recorded
   digests and iter_hashes), which until now took those lists as inputs.

   Modelling assumptions (beyond those of the two files it joins)
   * The file system is four oracles: exists / isfile / listdir as in CheckPaths.v and [fs_read]
     = the bytes `open(path, "rb")` delivers (None: open raises, e.g. IsADirectoryError).
   * Python exceptions of any kind are None.  Integers that must be lengths and are negative are
     outside the model (None).
   * str / bytes collapsed (Model/Bencode.v): `self.pieces.encode("utf-8")` of recheck.py
     (in FeedChecker.__init__ and HashChecker.next_file, the repair of D37) is the identity here.
   * `self.pieces[start:end]` with start = count * N, end = start + N is the count-th element of
     [chunks N pieces] and b"" beyond it (nth .. []): OwnMetafiles.nth_chunks_slice.
   * FileHasher(path, piece_length, progress=2, progress_bar=..) is hybrid=False, padding=True
     (the defaults, hasher.py 448-456); what HashChecker takes from it is the list of layer hashes it
     yields: [fhr_yielded_layers (file_hasher_run H256 B false true pl d)]. *)
From TF Require Import Lib.Base Lib.Lex Lib.Chunks Spec.RecheckSpec Model.Bencode Model.CheckPaths
                       Model.HasherV2 Model.Recheck Model.Creators.
From Coq Require String.

Module RIKeys.
  Import String.
  Local Open Scope string_scope.
  Definition rk_piece_length : bytes := Eval compute in CPKeys.b "piece length".
  Definition rk_piece_layers : bytes := Eval compute in CPKeys.b "piece layers".
End RIKeys.
Export RIKeys.

Definition SHA1_LEN : nat := 20.      (* recheck.py: SHA1 = 20 *)
Definition SHA256_LEN : nat := 32.    (* recheck.py: SHA256 = 32 *)

Record fsys := mk_fsys {
  fs_exists : cpath -> bool;                    (* os.path.exists *)
  fs_isfile : cpath -> bool;                    (* os.path.isfile *)
  fs_listdir : cpath -> option (list bytes);    (* os.listdir; None = raises *)
  fs_read : cpath -> option bytes               (* the bytes open(path, "rb") delivers; None = raises *)
}.

Fixpoint all_some {A} (l : list (option A)) : option (list A) :=
  match l with
  | [] => Some []
  | Some x :: l' => match all_some l' with Some r => Some (x :: r) | None => None end
  | None :: _ => None
  end.

(* an integer used as a length *)
Definition nat_of_len (z : Z) : option nat := if (z <? 0)%Z then None else Some (Z.to_nat z).

(* self.piece_length = self.info["piece length"]            (Checker.__init__, line 97) *)
Definition piece_length_of (info : dict) : option nat :=
  match lookup rk_piece_length info with
  | Some (BInt z) => nat_of_len z
  | _ => None
  end.

(* what a piece checker finds at a listed path:
     if os.path.exists(path): ... open(path, "rb") ...   else: padding
   (FeedChecker.iter_pieces / extract; HashChecker.next_file).
   Some None = absent, Some (Some d) = present with content d, None = open raises *)
Definition disk_entry (fs : fsys) (p : cpath) : option (option bytes) :=
  if fs_exists fs p then
    match fs_read fs p with Some d => Some (Some d) | None => None end
  else Some None.

Section Init.
Variable H1 : bytes -> bytes.        (* sha1(x).digest() *)
Variable H256 : bytes -> bytes.      (* sha256(x).digest() *)
Variable B : nat.                    (* BLOCK_SIZE of hasher.py *)

(* FeedChecker.__init__ and the per-file reads of iter_pieces / extract:
     self.piece_length = checker.piece_length
     self.paths = checker.paths ; self.fileinfo = checker.fileinfo
     self.pieces = checker.info["pieces"]
   -> (piece length, fileinfo[i]["length"] for every i, what iter_pieces reads for entry i,
       self.pieces cut into SHA1-sized slices).
   iter_pieces (after the repair of D39):
       padding = "p" in str(self.fileinfo[i].get("attr") or "")
       if os.path.exists(path) and not padding: ... self.extract(path, partial) ...
       else: ... self._gen_padding(partial, length) ...
   a padding entry is zeros whatever the disk holds at its path: it is handed to Model/Recheck.v as an absent
   file (None), which is how feed_trace / spec_trace_v1 model "missing = zeros". *)
Definition feed_entry (fs : fsys) (fi : fileinfo) : option (option bytes) :=
  if fi_padding fi then Some None else disk_entry fs (fi_path fi).

Definition feed_init (fs : fsys) (info : dict) (fis : list fileinfo)
  : option (nat * list nat * list (option bytes) * list bytes) :=
  match piece_length_of info, lookup ck_pieces info,
        all_some (map (fun fi => nat_of_len (fi_length fi)) fis),
        all_some (map (feed_entry fs) fis) with
  | Some pl, Some (BStr pieces), Some lens, Some disk => Some (pl, lens, disk, chunks SHA1_LEN pieces)
  | _, _, _, _ => None
  end.

(* HashChecker.next_file for one index:
     self.length = self.fileinfo[self.index]["length"]
     self.root_hash = self.fileinfo[self.index]["pieces root"]
     if self.length > self.piece_length: self.pieces = self.piece_layers[self.root_hash]
     else: self.pieces = self.root_hash
     ...
     if os.path.exists(self.current): self.hasher = FileHasher(path, self.piece_length, ...)
     else: self.hasher = self.Padder(self.length, self.piece_length)
   root_hash None (walk_file_tree records None for an empty file; check_paths `leaf.get`):
   `self.piece_layers[None]` is a KeyError; `self.pieces = None` makes every later
   `self.pieces[a:b]` / `len(self.pieces)` a TypeError -- they are reached unless the recorded length
   is 0 and the file on disk is absent or empty (process_current: StopIteration from the
   hasher, then `self.length > 0` is False). *)
Definition hash_file (fs : fsys) (layers : dict) (pl : nat) (fi : fileinfo) : option v2_file :=
  match nat_of_len (fi_length fi), disk_entry fs (fi_path fi) with
  | Some L, Some od =>
      let pieces : option (list bytes) :=
        if pl <? L then
          match fi_root fi with
          | Some r =>
              match lookup r layers with
              | Some (BStr s) => Some (chunks SHA256_LEN s)
              | _ => None                                   (* KeyError / not a string *)
              end
          | None => None                                    (* KeyError: None *)
          end
        else
          match fi_root fi with
          | Some r => Some (chunks SHA256_LEN r)
          | None =>
              if L =? 0 then
                match od with
                | Some (_ :: _) => None                     (* TypeError in advance() *)
                | _ => Some []
                end
              else None                                     (* TypeError *)
          end in
      match pieces with
      | Some ps =>
          Some {| v2_len := L; v2_pieces := ps;
                  v2_disk := option_map
                               (fun d => fhr_yielded_layers (file_hasher_run H256 B false true pl d)) od |}
      | None => None
      end
  | _, _ => None
  end.

(* HashChecker.__init__:  self.piece_layers = checker.meta["piece layers"]  + next_file
   for every index *)
Definition hash_init (fs : fsys) (meta info : dict) (fis : list fileinfo)
  : option (nat * list v2_file) :=
  match piece_length_of info, lookup rk_piece_layers meta with
  | Some pl, Some (BDict layers) =>
      match all_some (map (hash_file fs layers pl) fis) with
      | Some files => Some (pl, files)
      | None => None
      end
  | _, _ => None
  end.

(* Checker(metafile, path) followed by iter_hashes to exhaustion (what results() does):
     (self.total, matched, consumed);  self._result = (matched / consumed) * 100 if consumed > 0 else 0
   piece_checker(): FeedChecker if self.meta_version == 1 else HashChecker. *)
Definition recheck_v1_model (fs : fsys) (info : dict) (fis : list fileinfo) : option (nat * nat) :=
  match feed_init fs info fis with
  | Some (pl, lens, disk, recorded) => Some (iter_hashes (feed_trace H1 pl lens disk recorded))
  | None => None
  end.

Definition recheck_v2_model (fs : fsys) (meta info : dict) (fis : list fileinfo) : option (nat * nat) :=
  match hash_init fs meta info fis with
  | Some (pl, files) => Some (iter_hashes (hash_trace H256 pl files))
  | None => None
  end.

Definition recheck_model (fs : fsys) (m : value) (path : cpath) : option (Z * nat * nat) :=
  match m with
  | BDict meta =>
      match checker_init (fs_exists fs) (fs_isfile fs) (fs_listdir fs) meta path,
            lookup ck_info meta with
      | Some (_, fis, total), Some (BDict info) =>
          match (if meta_version_of info =? 1 then recheck_v1_model fs info fis
                 else recheck_v2_model fs meta info fis) with
          | Some (mt, cs) => Some (total, mt, cs)
          | None => None
          end
      | _, _ => None
      end
  | _ => None                                    (* self.meta["info"] on a non-dictionary *)
  end.

End Init.

(* ------------------------------------------------------------------------------------------ *)
(* The file system that holds a content tree (Model/Creators.v [node]) at a location            *)
(* ------------------------------------------------------------------------------------------ *)

Fixpoint find_entry (n : bytes) (es : list (bytes * node)) : option node :=
  match es with
  | [] => None
  | e :: es' => if Lex.bytes_eqb (fst e) n then Some (snd e) else find_entry n es'
  end.

(* the node at a relative component list *)
Fixpoint node_at (t : node) (p : cpath) : option node :=
  match p with
  | [] => Some t
  | c :: p' =>
      match t with
      | File _ => None
      | Dir es => match find_entry c es with Some ch => node_at ch p' | None => None end
      end
  end.

Fixpoint strip_prefix (base p : cpath) : option cpath :=
  match base, p with
  | [], _ => Some p
  | b :: base', c :: p' => if Lex.bytes_eqb b c then strip_prefix base' p' else None
  | _ :: _, [] => None
  end.

(* nothing but the tree t, at [base] (the ancestors of base are not modelled: the checker is
   handed [base] itself) *)
Definition tree_lookup (base : cpath) (t : node) (p : cpath) : option node :=
  match strip_prefix base p with Some rel => node_at t rel | None => None end.

Definition disk_of (base : cpath) (t : node) : fsys :=
  {| fs_exists := fun p => match tree_lookup base t p with Some _ => true | None => false end;
     fs_isfile := fun p => match tree_lookup base t p with Some (File _) => true | _ => false end;
     fs_listdir := fun p => match tree_lookup base t p with
                            | Some (Dir es) => Some (map fst es)
                            | _ => None
                            end;
     fs_read := fun p => match tree_lookup base t p with Some (File d) => Some d | _ => None end |}.

(* ------------------------------------------------------------------------------------------ *)
(* Examples: toy hashes of the right lengths, B = 2, pl = 4                                    *)
(* ------------------------------------------------------------------------------------------ *)
Module RecheckInitExamples.
Import CreatorsExamples.
Import String.StringSyntax.

Definition X1 (x : bytes) : bytes := firstn 20 (x ++ zeros 20).
Definition X256 (x : bytes) : bytes := firstn 32 (x ++ zeros 32).

Definition ex_base : cpath := [bs "w"; bs "r"].

Example ex_recheck_v1 :
  recheck_model X1 X256 2 (disk_of ex_base ex_tree)
    (create_v1 X1 false ex_opts (bs "r") (bs "r") 4 ex_tree) ex_base = Some (18%Z, 18, 18).
Proof. vm_compute. reflexivity. Qed.

Example ex_recheck_v1_aligned :
  recheck_model X1 X256 2 (disk_of ex_base ex_tree)
    (create_v1 X1 true ex_opts (bs "r") (bs "r") 4 ex_tree) ex_base = Some (24%Z, 24, 24).
Proof. vm_compute. reflexivity. Qed.

Example ex_recheck_v2 :
  recheck_model X1 X256 2 (disk_of ex_base ex_tree)
    (create_v2_class X256 2 ex_opts (bs "r") 4 ex_tree) ex_base = Some (18%Z, 18, 18).
Proof. vm_compute. reflexivity. Qed.

Example ex_recheck_hybrid :
  recheck_model X1 X256 2 (disk_of ex_base ex_tree)
    (create_assembler X1 X256 2 true ex_opts (bs "r") 4 ex_tree) ex_base = Some (18%Z, 18, 18).
Proof. vm_compute. reflexivity. Qed.

(* single files *)
Example ex_recheck_single :
  let t := File (bs "0123456789") in
  recheck_model X1 X256 2 (disk_of [bs "f"] t) (create_v1 X1 true ex_opts (bs "f") (bs "f") 4 t) [bs "f"]
    = Some (10%Z, 10, 10) /\
  recheck_model X1 X256 2 (disk_of [bs "f"] t) (create_v2_class X256 2 ex_opts (bs "f") 4 t) [bs "f"]
    = Some (10%Z, 10, 10) /\
  recheck_model X1 X256 2 (disk_of [bs "f"] t) (create_hybrid_class X1 X256 2 ex_opts (bs "f") 4 t) [bs "f"]
    = Some (10%Z, 10, 10).
Proof. vm_compute. repeat split. Qed.

(* one byte of a/z changed: 4 of the 18 bytes (one piece) no longer match *)
Definition ex_tree_damaged : node :=
  Dir [ (bs "b", File (bs "0123456789"));
        (bs "a.txt", File (bs "xyz"));
        (bs "a", Dir [(bs "z", File (bs "hellO")); (bs "e", File [])]) ].

Example ex_recheck_v1_damaged :
  recheck_model X1 X256 2 (disk_of ex_base ex_tree_damaged)
    (create_v1 X1 false ex_opts (bs "r") (bs "r") 4 ex_tree) ex_base = Some (18%Z, 14, 18).
Proof. vm_compute. reflexivity. Qed.

(* the payload of D39: it has a file of its own at a pad path (.pad/1 = "x"; a = pl - 1 bytes, so a's pad entry is
   .pad/1 too).  The pad entry is zeros whatever is on disk: everything matches (before the repair: 4 of 8) *)
Definition ex_tree_d39 : node :=
  Dir [ (bs ".pad", Dir [(bs "1", File (bs "x"))]); (bs "a", File (bs "AAA")) ].

Example ex_recheck_d39 :
  recheck_model X1 X256 2 (disk_of ex_base ex_tree_d39)
    (create_v1 X1 true ex_opts (bs "r") (bs "r") 4 ex_tree_d39) ex_base = Some (8%Z, 8, 8).
Proof. vm_compute. reflexivity. Qed.

End RecheckInitExamples.
