(* Hand model of how torrentfile/rebuild.py READS a metafile and of the v2 matching loop
   (current working tree):
     Metadata.__init__ / Metadata.extract     [metadata_init] / [extract]
     Metadata._parse_tree                     [parse_val] (one iteration, nested fixpoint over the
                                              decoded value) / [parse_tree] (the loop)
     Metadata._check_parts on one element     [safe_b] (= PathSafe.safe_comp on the element's text,
                                              and the element must be a Python str)
     Metadata._match_v2                       [match_v2] with the HasherV2 model of Model/HasherV2.v
   Statement by statement; executable and total; all lemmas are in Proofs/RebuildMetaProofs.v.

   Conventions and modelling assumptions
   * The decoded metafile is a [value] of Model/Bencode.v (what pyben.load returns: dictionaries in
     insertion order, Python `str` and `bytes` collapsed to raw bytes).  pyben turns a byte string
     into a `str` exactly when it is valid UTF-8 ([utf8_valid], the strict decoder of CPython:
     no overlong forms, no surrogates, nothing above U+10FFFF) and leaves it `bytes` otherwise;
     `isinstance(part, str)` in _check_parts is therefore [utf8_valid].  Iterating a `str`
     yields its characters ([utf8_chars]: the UTF-8 sequences of the code points).
   * A Python exception of ANY kind raised by Metadata(path) -- KeyError, TypeError, IndexError,
     AttributeError and the ValueError of _check_parts -- is None: no Metadata object exists and
     nothing is ever copied for this metafile.
   * Paths are lists of components.  `os.path.join(name, *path)`, `Path(x).parent`, `Path(a) / b`
     are taken on component lists: join = concatenation, parent = removelast.  This is what the
     real functions compute when no component is empty, ".", "..", or contains "/" -- which
     _check_parts has established for every component at the point where the join is made (theorem
     extract_validates_everything).  An accepted entry's `path` / `full` are the pathlib parts of
     entry["path"] / entry["full"]; the single-file forms have `path` = Path(name).parent = "."
     whose parts are ().
   * Shapes.  Every value shape the decoder can produce is followed through the code as Python
     would (a `files` value that is an empty dict or empty str is an empty loop; a `path` given
     as a str is iterated character by character; `"" in val` on a non-dict ends in an exception
     in every case; lengths must be int because `self.length += length` starts from the int 0).
     [x_piece_length], [x_meta_version], [x_pieces], [e_root] keep the decoded value as it is
     (any type): the code only stores them.  OUTSIDE the model: metafiles nested deeper than
     Python's recursion limit (RecursionError), integers beyond the int<->str digit limit (see
     Model/Bencode.v), and everything outside [value] (pyben never produces it).
   * [match_v2] takes the piece length as a nat (HasherV2 computes `piece_length // BLOCK_SIZE`;
     a non-integer or negative `piece length` is outside the model) and the block size B.
     A candidate is (location, content); `size` is the content's length (os.path.getsize at
     indexing time; no concurrent writer).  HasherV2(path).root of an EMPTY file is the empty
     Python LIST (merkle_root([]) returns its argument), which equals no `bytes` and not None:
     see [root_matches].  copypath(path, os.path.join(dest, entry["full"])) is recorded as
     (location, "/"-joined full), `self._update(); self.cb(...)` as the count. *)
From TF Require Import Lib.Base Lib.Lex Model.Bencode Model.HasherV2.
From TF Require Model.PathSafe Model.Rebuild.
From Coq Require String.

Module RMKeys.
  Import String.
  Local Open Scope string_scope.
  Definition b (s : string) : bytes := list_ascii_of_string s.
  Definition rk_info : bytes := Eval compute in b "info".
  Definition rk_name : bytes := Eval compute in b "name".
  Definition rk_piece_length : bytes := Eval compute in b "piece length".
  Definition rk_meta_version : bytes := Eval compute in b "meta version".
  Definition rk_pieces : bytes := Eval compute in b "pieces".
  Definition rk_file_tree : bytes := Eval compute in b "file tree".
  Definition rk_length : bytes := Eval compute in b "length".
  Definition rk_files : bytes := Eval compute in b "files".
  Definition rk_path : bytes := Eval compute in b "path".
  Definition rk_pieces_root : bytes := Eval compute in b "pieces root".
  Definition rk_empty : bytes := [].
End RMKeys.
Export RMKeys.

(* ------------------------------------------------------------------------------------------ *)
(* str or bytes: the strict UTF-8 decoder                                                      *)
(* ------------------------------------------------------------------------------------------ *)

Definition code (c : ascii) : nat := nat_of_ascii c.
Definition in_range (lo hi : nat) (c : ascii) : bool := (lo <=? code c) && (code c <=? hi).
Definition cont (c : ascii) : bool := in_range 128 191 c.

(* bytes.decode("utf-8") seen as the list of the characters' byte sequences; None = UnicodeDecodeError
   (Unicode Standard table 3-7, well-formed UTF-8 byte sequences) *)
Fixpoint utf8_chars (s : bytes) : option (list bytes) :=
  match s with
  | [] => Some []
  | a :: r =>
      if code a <=? 127 then option_map (cons [a]) (utf8_chars r)
      else if in_range 194 223 a then
        match r with
        | b :: r' => if cont b then option_map (cons [a; b]) (utf8_chars r') else None
        | _ => None
        end
      else if in_range 224 239 a then
        match r with
        | b :: c :: r' =>
            if (if code a =? 224 then in_range 160 191 b
                else if code a =? 237 then in_range 128 159 b else cont b) && cont c
            then option_map (cons [a; b; c]) (utf8_chars r') else None
        | _ => None
        end
      else if in_range 240 244 a then
        match r with
        | b :: c :: d :: r' =>
            if (if code a =? 240 then in_range 144 191 b
                else if code a =? 244 then in_range 128 143 b else cont b) && cont c && cont d
            then option_map (cons [a; b; c; d]) (utf8_chars r') else None
        | _ => None
        end
      else None
  end.

(* pyben hands the byte string over as a `str` *)
Definition utf8_valid (s : bytes) : bool :=
  match utf8_chars s with Some _ => true | None => false end.

(* ------------------------------------------------------------------------------------------ *)
(* Metadata._check_parts                                                                       *)
(* ------------------------------------------------------------------------------------------ *)

Definition text (c : bytes) : String.string := String.string_of_list_ascii c.

(*  if (not isinstance(part, str) or part in ("", ".", "..")
            or "/" in part or os.sep in part or "\0" in part): raise ValueError
    on one element given by its raw bytes; true = let through *)
Definition safe_b (c : bytes) : bool := utf8_valid c && PathSafe.safe_comp (text c).

(* _check_parts(parts) on elements that are byte strings: true = no ValueError *)
Definition check_parts_b (parts : list bytes) : bool := forallb safe_b parts.

(* ------------------------------------------------------------------------------------------ *)
(* entries of Metadata.files                                                                   *)
(* ------------------------------------------------------------------------------------------ *)

Record entry := mk_entry {
  e_path : list bytes;          (* parts of entry["path"]: the parent directory *)
  e_full : list bytes;          (* parts of entry["full"]: the path below the destination *)
  e_filename : bytes;           (* entry["filename"]: the key into the filemap *)
  e_length : Z;                 (* entry["length"] *)
  e_root : option value         (* entry.get("root"): None = no such key (v1) or Python None *)
}.

Record extracted := mk_x {
  x_name : bytes;
  x_piece_length : value;       (* info["piece length"], whatever it is *)
  x_meta_version : value;       (* info.get("meta version", 1) *)
  x_pieces : value;             (* info.get("pieces", bytes()) *)
  x_is_file : bool;             (* self.is_file was set (it is set to True only) *)
  x_files : list entry
}.

(* `self.meta_version == 2` *)
Definition is_two (v : value) : bool := match v with BInt z => Z.eqb z 2 | _ => false end.
Definition x_is_v2 (x : extracted) : bool := is_two (x_meta_version x).

(*  length = val[""]["length"]; root = val[""].get("pieces root"); self.length += length
    (leaf = val[""]; a leaf that is not a dict: TypeError; no "length": KeyError; a length that is
    not an int: TypeError in `+=`) *)
Definition leaf_fields (leaf : value) : option (Z * option value) :=
  match leaf with
  | BDict l =>
      match lookup rk_length l with
      | Some (BInt n) => Some (n, lookup rk_pieces_root l)
      | _ => None
      end
  | _ => None
  end.

(* Metadata._parse_tree(tree, partials):
     for key, val in tree.items():
         self._check_parts([key])
         if "" in val:
             path = Path(os.path.join( *partials)); full = Path(os.path.join(path, key))
             length = val[""]["length"]; root = val[""].get("pieces root")
             self.files.append({path, full, filename: key, length, root}); self.length += length
         else:
             self._parse_tree(val, partials + [key])
   [parse_val partials key val] is one iteration of the loop, [parse_tree] the loop.
   `"" in val` with val a str / list / int / bytes: either TypeError at once, or True followed by
   val[""] -> TypeError, or False followed by val.items() -> AttributeError: None in every case. *)
Fixpoint parse_val (partials : list bytes) (key : bytes) (val : value) {struct val} : option (list entry) :=
  if negb (safe_b key) then None
  else
    match val with
    | BDict d =>
        match lookup rk_empty d with
        | Some leaf =>
            match leaf_fields leaf with
            | Some (n, r) => Some [mk_entry partials (partials ++ [key]) key n r]
            | None => None
            end
        | None =>
            (fix parse_pairs (ps : list (bytes * value)) : option (list entry) :=
               match ps with
               | [] => Some []
               | (k, v) :: rest =>
                   match parse_val (partials ++ [key]) k v, parse_pairs rest with
                   | Some a, Some b => Some (a ++ b)
                   | _, _ => None
                   end
               end) d
        end
    | _ => None
    end.

Fixpoint parse_tree (partials : list bytes) (tree : dict) : option (list entry) :=
  match tree with
  | [] => Some []
  | (k, v) :: rest =>
      match parse_val partials k v, parse_tree partials rest with
      | Some a, Some b => Some (a ++ b)
      | _, _ => None
      end
  end.

(* the elements `for part in path` / `*path` yield.  A list: its items (an item that is not a
   byte string is not a str: refused).  A str: its characters.  bytes: ints (refused).  A dict
   passes the loop over its keys but `path[-1]` raises KeyError; an int is not iterable. *)
Fixpoint items_bytes (l : list value) : option (list bytes) :=
  match l with
  | [] => Some []
  | BStr s :: l' => match items_bytes l' with Some r => Some (s :: r) | None => None end
  | _ :: _ => None
  end.

Definition path_parts (p : value) : option (list bytes) :=
  match p with
  | BList l => items_bytes l
  | BStr s => utf8_chars s
  | _ => None
  end.

(* one iteration of the v1 loop:
     path = f["path"]; self._check_parts(path); full = os.path.join(self.name, *path)
     self.files.append({"path": Path(full).parent, "filename": path[-1], "full": full,
                        "length": f["length"]}); self.length += f["length"]
   NOTHING but "path" and "length" is read from the entry dictionary.
   An empty path passes the validator and raises IndexError at path[-1]. *)
Definition v1_entry (name : bytes) (f : value) : option entry :=
  match f with
  | BDict d =>
      match lookup rk_path d with
      | Some p =>
          match path_parts p with
          | Some (c :: cs) =>
              if check_parts_b (c :: cs) then
                match lookup rk_length d with
                | Some (BInt n) =>
                    let full := name :: c :: cs in
                    Some (mk_entry (removelast full) full (last (c :: cs) []) n None)
                | _ => None
                end
              else None
          | _ => None
          end
      | None => None
      end
  | _ => None
  end.

Fixpoint v1_entries (name : bytes) (items : list value) : option (list entry) :=
  match items with
  | [] => Some []
  | f :: rest =>
      match v1_entry name f, v1_entries name rest with
      | Some e, Some r => Some (e :: r)
      | _, _ => None
      end
  end.

(* `for f in info["files"]`: a list; an empty dict or str is an empty loop; a non-empty one yields
   str (or int) items on which f["path"] raises TypeError; an int is not iterable *)
Definition files_items (v : value) : option (list value) :=
  match v with
  | BList l => Some l
  | BDict [] => Some []
  | BStr [] => Some []
  | _ => None
  end.

(* `list(tree) == [self.name] and "" in tree[self.name]`: Some leaf = the test is true and
   leaf = tree[self.name][""].  (A single key equal to the name whose value is not a dict ends
   in an exception on either branch; [parse_tree] returns None for it.) *)
Definition single_leaf (name : bytes) (tree : dict) : option value :=
  match tree with
  | [(k, BDict d)] => if bytes_eqb k name then lookup rk_empty d else None
  | _ => None
  end.

(* the branch `if self.meta_version == 2` after tree = info["file tree"]: (is_file, files)
     single file: {"path": Path(self.name).parent, "filename": self.name, "full": self.name,
                   "length": leaf["length"], "root": leaf.get("pieces root")}; self.length += ...
     else: self._parse_tree(tree, [self.name])                                                 *)
Definition v2_files (name : bytes) (tree : dict) : option (bool * list entry) :=
  match single_leaf name tree with
  | Some leaf =>
      match leaf_fields leaf with
      | Some (n, r) => Some (true, [mk_entry [] [name] name n r])
      | None => None
      end
  | None =>
      match parse_tree [name] tree with
      | Some es => Some (false, es)
      | None => None
      end
  end.

(* the branches `elif "length" in info` / `elif "files" in info` (and neither) *)
Definition v1_files (name : bytes) (info : dict) : option (bool * list entry) :=
  match lookup rk_length info with
  | Some (BInt n) => Some (true, [mk_entry [] [name] name n None])
  | Some _ => None                                   (* self.length += <not an int> *)
  | None =>
      match lookup rk_files info with
      | Some fv =>
          match files_items fv with
          | Some items =>
              match v1_entries name items with
              | Some es => Some (false, es)
              | None => None
              end
          | None => None
          end
      | None => Some (false, [])
      end
  end.

Definition info_files (name : bytes) (mv : value) (info : dict) : option (bool * list entry) :=
  if is_two mv then
    match lookup rk_file_tree info with
    | Some (BDict tree) => v2_files name tree
    | _ => None                  (* KeyError; list(tree) / tree.items() on other shapes raise *)
    end
  else v1_files name info.

(* Metadata.extract after `meta = pyben.load(self.path)` *)
Definition extract (meta : value) : option extracted :=
  match meta with
  | BDict m =>
      match lookup rk_info m with
      | Some (BDict info) =>
          match lookup rk_piece_length info, lookup rk_name info with
          | Some plv, Some (BStr name) =>
              if negb (safe_b name) then None                       (* self._check_parts([self.name]) *)
              else
                let mv := match lookup rk_meta_version info with Some v => v | None => BInt 1 end in
                let pieces := match lookup rk_pieces info with Some v => v | None => BStr [] end in
                match info_files name mv info with
                | Some (is_file, files) => Some (mk_x name plv mv pieces is_file files)
                | None => None
                end
          | _, _ => None       (* KeyError "piece length" / "name"; a name that is not a byte string: ValueError *)
          end
      | _ => None              (* KeyError "info"; info["piece length"] on a non-dict: TypeError *)
      end
  | _ => None                  (* meta["info"] on a non-dict: TypeError *)
  end.

(* Metadata.__init__: extract(), then
     if self.meta_version == 2: self.num_pieces = len(self.filenames)
     else: self.num_pieces = math.ceil(len(self.pieces) / SHA1)        -- len(int): TypeError *)
Definition metadata_init (meta : value) : option extracted :=
  match extract meta with
  | Some x =>
      if x_is_v2 x then Some x
      else match x_pieces x with BInt _ => None | _ => Some x end
  | None => None
  end.

(* the whole constructor from the bytes of the metafile *)
Definition metadata_of_bytes (file : bytes) : option extracted :=
  match pyloads file with
  | Some meta => metadata_init meta
  | None => None
  end.

(* ------------------------------------------------------------------------------------------ *)
(* Metadata._match_v2                                                                          *)
(* ------------------------------------------------------------------------------------------ *)

(* os.path.join of the components (all plain): the text the copy is recorded under *)
Definition full_text (e : entry) : String.string :=
  String.concat (String.String "/" String.EmptyString) (map text (e_full e)).

Section MatchV2.
Variable H256 : bytes -> bytes.
Variable B : nat.
Variable pl : nat.
Variable fm : Rebuild.filemap.

(*  hasher = HasherV2(path, self.piece_length, True); root = entry["root"]
    if isinstance(root, str): root = root.encode("utf-8")
    if root == hasher.root: ...
   hasher.root is `bytes` for a file with content and the empty LIST for an empty file; a root that
   is None, an int or a dict equals neither; a list equals the empty list iff it is empty. *)
Definition root_matches (root : option value) (content : bytes) : bool :=
  match content with
  | [] => match root with Some (BList []) => true | _ => false end
  | _ :: _ =>
      match root with
      | Some (BStr r) => bytes_eqb r (fst (hasher_v2 H256 B pl content))
      | _ => false
      end
  end.

(*  for path, size in paths:
        if size == length:
            ... if root == hasher.root: copypath(path, join(dest, entry["full"])); ...; break   *)
Fixpoint v2_candidates (e : entry) (cands : list Rebuild.candidate) : list Rebuild.copy :=
  match cands with
  | [] => []
  | (l, content) :: cands' =>
      if Z.eqb (Z.of_nat (length content)) (e_length e) && root_matches (e_root e) content
      then [(l, full_text e)]
      else v2_candidates e cands'
  end.

(*  filename = entry["filename"]; if filename not in filemap: continue; paths = filemap[filename] *)
Definition v2_entry (e : entry) : list Rebuild.copy :=
  match Rebuild.fm_lookup fm (text (e_filename e)) with
  | None => []
  | Some cands => v2_candidates e cands
  end.

(* the copypath calls in execution order and the number of _update()/cb() calls *)
Fixpoint match_v2 (entries : list entry) : list Rebuild.copy * nat :=
  match entries with
  | [] => ([], 0)
  | e :: rest =>
      let here := v2_entry e in
      let '(copies, count) := match_v2 rest in
      (here ++ copies, length here + count)
  end.

End MatchV2.

(* Metadata.rebuild dispatches on meta_version == 2; the v1 route is Model/Rebuild.v match_v1 *)
Definition rebuild_v2 (H256 : bytes -> bytes) (B pl : nat) (fm : Rebuild.filemap) (x : extracted)
  : option (list Rebuild.copy * nat) :=
  if x_is_v2 x then Some (match_v2 H256 B pl fm (x_files x)) else None.
