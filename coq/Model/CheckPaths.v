(* M5b Recheck: how the checker maps a metafile onto the disk -- Checker.__init__ (meta_version),
   Checker.find_root, Checker.check_paths and Checker.walk_file_tree of torrentfile/recheck.py,
   statement by statement.  Executable and total; all lemmas are in Proofs/CheckPathsProofs.v.

   Modelling assumptions
   * A path is the list of its components (pathlib parts without the anchor); `Path(path).name` is
     the last component, `root / name` appends one.  The content path handed to the checker is
     normalised (no ".", "..", empty component); so are the path elements recorded in the metafile
     (hostile elements are C19's subject; os.path.join would treat an absolute element differently).
   * The file system is consulted through three oracles only: [exists_] (os.path.exists), [isfile]
     (os.path.isfile) and [listdir] (os.listdir; None = it raises, e.g. NotADirectoryError).  In
     particular NO FILE SIZE is an input: every recorded length comes from the metafile.
   * The decoded metafile is a [value] of Model/Bencode.v (str/bytes collapsed, dictionaries in file
     order).  A Python exception of any kind (KeyError, TypeError, FileNotFoundError ...) is None.
     Lengths must be integers (BInt); other shapes are outside the model (None).
   * Logging and the `paths` list (a projection of `fileinfo`) are omitted.
   * `"attr": item.get("attr")` of a v1 multi-file entry (the repair of D39) is recorded as [fi_attr]: None when the key
     is absent, Some s for a string; an "attr" of another shape (int, list, dict: what str(...) of it contains is pyben's and
     Python's business) is outside the model (None for the whole result).  [fi_padding] is FeedChecker's
     `"p" in str(self.fileinfo[i].get("attr") or "")`; single-file and v2 / hybrid entries carry no "attr" key (None). *)
From TF Require Import Lib.Base Lib.Lex Model.Bencode.
From Coq Require String.

Module CPKeys.
  Import String.
  Local Open Scope string_scope.
  Definition b (s : string) : bytes := list_ascii_of_string s.
  Definition ck_length : bytes := Eval compute in b "length".
  Definition ck_files : bytes := Eval compute in b "files".
  Definition ck_path : bytes := Eval compute in b "path".
  Definition ck_file_tree : bytes := Eval compute in b "file tree".
  Definition ck_pieces_root : bytes := Eval compute in b "pieces root".
  Definition ck_meta_version : bytes := Eval compute in b "meta version".
  Definition ck_pieces : bytes := Eval compute in b "pieces".
  Definition ck_name : bytes := Eval compute in b "name".
  Definition ck_empty : bytes := [].
  Definition ck_info : bytes := Eval compute in b "info".
  Definition ck_attr : bytes := Eval compute in b "attr".
End CPKeys.
Export CPKeys.

Definition cpath := list bytes.

Fixpoint cpath_eqb (a b : cpath) : bool :=
  match a, b with
  | [], [] => true
  | x :: a', y :: b' => bytes_eqb x y && cpath_eqb a' b'
  | _, _ => false
  end.

(* a finite description of the three oracles, for examples and for the correspondence driver: the existing paths with
   their kind (true = regular file) and, for directories, their entries in enumeration order *)
Definition fs_table := list (cpath * bool * list bytes).
Fixpoint tbl_find (t : fs_table) (p : cpath) : option (bool * list bytes) :=
  match t with
  | [] => None
  | (q, f, es) :: t' => if cpath_eqb q p then Some (f, es) else tbl_find t' p
  end.
Definition tbl_exists (t : fs_table) (p : cpath) : bool := match tbl_find t p with Some _ => true | None => false end.
Definition tbl_isfile (t : fs_table) (p : cpath) : bool := match tbl_find t p with Some (f, _) => f | None => false end.
Definition tbl_listdir (t : fs_table) (p : cpath) : option (list bytes) :=
  match tbl_find t p with Some (false, es) => Some es | _ => None end.

(* one entry of Checker.fileinfo: {"path": ..., "length": ..., "pieces root": ..., "attr": ...} *)
Record fileinfo := mk_fi {
  fi_path : cpath;
  fi_length : Z;
  fi_root : option bytes;       (* None: no "pieces root" key / roothash None (v1, empty file) *)
  fi_attr : option bytes        (* None: no "attr" key in the entry, or item.get("attr") is None (no such key in the item) *)
}.

(* FeedChecker.iter_pieces:  padding = "p" in str(self.fileinfo[i].get("attr") or "") *)
Definition fi_padding (fi : fileinfo) : bool :=
  match fi_attr fi with
  | Some s => existsb (Ascii.eqb "p"%char) s
  | None => false
  end.

(* item.get("attr"): Some None = no such key; Some (Some s) = a string; None = another shape (outside the model) *)
Definition attr_of (item : dict) : option (option bytes) :=
  match lookup ck_attr item with
  | None => Some None
  | Some (BStr s) => Some (Some s)
  | Some _ => None
  end.

(* `k in d` *)
Definition has (k : bytes) (d : dict) : bool :=
  match lookup k d with Some _ => true | None => false end.

(*  if "meta version" in self.info:
        if "pieces" in self.info: self.meta_version = 3
        else: self.meta_version = 2
    else: self.meta_version = 1                                                                 *)
Definition meta_version_of (info : dict) : nat :=
  if has ck_meta_version info then (if has ck_pieces info then 3 else 2) else 1.

Section Disk.
  Variable exists_ : cpath -> bool.
  Variable isfile : cpath -> bool.
  Variable listdir : cpath -> option (list bytes).

  (* Checker.find_root
       if not os.path.exists(path): raise FileNotFoundError(path)
       root = Path(path)
       if root.name == self.name: return root
       if self.name in os.listdir(root): return root / self.name
       raise FileNotFoundError(root)                                                            *)
  Definition find_root (name : bytes) (path : cpath) : option cpath :=
    if negb (exists_ path) then None
    else if bytes_eqb (last path []) name then Some path
    else match listdir path with
         | None => None
         | Some entries => if existsb (bytes_eqb name) entries then Some (path ++ [name]) else None
         end.
End Disk.

(* a list of strings (item["path"]) *)
Fixpoint comps_of (l : list value) : option (list bytes) :=
  match l with
  | [] => Some []
  | BStr s :: l' => match comps_of l' with Some r => Some (s :: r) | None => None end
  | _ :: _ => None
  end.

(* the v1 loop of check_paths:
     for i, item in enumerate(self.info["files"]):
         self.total += item["length"]
         base = os.path.join( *item["path"])
         self.fileinfo[i] = {"path": str(self.root / base), "length": item["length"],
                             "attr": item.get("attr")}                                           *)
Fixpoint v1_files (root : cpath) (items : list value) : option (list fileinfo) :=
  match items with
  | [] => Some []
  | BDict item :: rest =>
      match lookup ck_length item, lookup ck_path item with
      | Some (BInt n), Some (BList p) =>
          match comps_of p, attr_of item, v1_files root rest with
          | Some (c :: cs), Some a, Some r => Some (mk_fi (root ++ c :: cs) n None a :: r)
          | _, _, _ => None                      (* os.path.join() without arguments: TypeError *)
          end
      | _, _ => None
      end
  | _ :: _ => None
  end.

(* a leaf of the file tree: val[""] = {"length": n, "pieces root": r}
     length = val[""]["length"]
     roothash = None if not length else val[""]["pieces root"]                                   *)
Definition leaf_info (full : cpath) (leaf : value) : option fileinfo :=
  match leaf with
  | BDict l =>
      match lookup ck_length l with
      | Some (BInt n) =>
          if Z.eqb n 0 then Some (mk_fi full n None None)
          else match lookup ck_pieces_root l with
               | Some (BStr r) => Some (mk_fi full n (Some r) None)
               | _ => None
               end
      | _ => None
      end
  | _ => None
  end.

(* Checker.walk_file_tree(tree, partials):
     for key, val in tree.items():
         if "" in val:   base = os.path.join( *partials, key) ... one entry
         else:           self.walk_file_tree(val, partials + [key])
   [walk_val root partials key val] is one iteration of the loop; [walk_pairs] the loop. *)
Fixpoint walk_val (root partials : cpath) (key : bytes) (val : value) {struct val} : option (list fileinfo) :=
  match val with
  | BDict d =>
      match lookup ck_empty d with
      | Some leaf =>
          match leaf_info (root ++ partials ++ [key]) leaf with
          | Some fi => Some [fi]
          | None => None
          end
      | None =>
          (fix walk_pairs (ps : list (bytes * value)) : option (list fileinfo) :=
             match ps with
             | [] => Some []
             | (k, v) :: r =>
                 match walk_val root (partials ++ [key]) k v, walk_pairs r with
                 | Some a, Some b => Some (a ++ b)
                 | _, _ => None
                 end
             end) d
      end
  | _ => None                                   (* `"" in val` on an int raises TypeError *)
  end.

Fixpoint walk_tree (root partials : cpath) (ps : dict) : option (list fileinfo) :=
  match ps with
  | [] => Some []
  | (k, v) :: r =>
      match walk_val root partials k v, walk_tree root partials r with
      | Some a, Some b => Some (a ++ b)
      | _, _ => None
      end
  end.

Definition sum_lengths (fis : list fileinfo) : Z := fold_right (fun fi acc => fi_length fi + acc)%Z 0%Z fis.

(* the single-file length that check_paths settles on:
     length = self.info.get("length")
     if length is None and self.meta_version == 2:
         tree = self.info["file tree"]
         if list(tree) == [self.name] and "" in tree[self.name]:
             if os.path.isfile(self.root): length = tree[self.name][""]["length"]
   result: None = exception; Some None = "more than one file"; Some (Some v) = single file of length v *)
Definition single_length (info : dict) (name : bytes) (root_is_file : bool) : option (option value) :=
  match lookup ck_length info with
  | Some v => Some (Some v)
  | None =>
      if Nat.eqb (meta_version_of info) 2 then
        match lookup ck_file_tree info with
        | Some (BDict [(k, v)]) =>
            if bytes_eqb k name then
              match v with
              | BDict sub =>
                  match lookup ck_empty sub with
                  | Some (BDict leaf) =>
                      if root_is_file then
                        match lookup ck_length leaf with
                        | Some len => Some (Some len)
                        | None => None                              (* KeyError *)
                        end
                      else Some None
                  | Some _ => if root_is_file then None else Some None   (* tree[name][""]["length"] on a non-dict *)
                  | None => Some None
                  end
              | _ => None                           (* `"" in tree[name]` on another shape: outside the model *)
              end
            else Some None
        | Some (BDict _) => Some None
        | Some _ => None                          (* outside the model: list(tree) on another shape *)
        | None => None                            (* KeyError "file tree" *)
        end
      else Some None
  end.

(* Checker.check_paths: (fileinfo entries in index order, self.total) *)
Definition check_paths (info : dict) (name : bytes) (root : cpath) (root_is_file : bool)
  : option (list fileinfo * Z) :=
  let mv := meta_version_of info in
  match single_length info name root_is_file with
  | None => None
  | Some (Some (BInt n)) =>
      if Nat.ltb 1 mv then
        (* leaf = self.info["file tree"][self.name][""];  finfo[0]["pieces root"] = leaf.get("pieces root") *)
        match lookup ck_file_tree info with
        | Some (BDict tree) =>
            match lookup name tree with
            | Some (BDict sub) =>
                match lookup ck_empty sub with
                | Some (BDict leaf) =>
                    match lookup ck_pieces_root leaf with
                    | Some (BStr r) => Some ([mk_fi root n (Some r) None], n)
                    | None => Some ([mk_fi root n None None], n)
                    | Some _ => None
                    end
                | _ => None
                end
            | _ => None
            end
        | _ => None
        end
      else Some ([mk_fi root n None None], n)
  | Some (Some _) => None                          (* a length that is not an integer: outside *)
  | Some None =>
      if Nat.eqb mv 1 then
        match lookup ck_files info with
        | Some (BList items) =>
            match v1_files root items with
            | Some fis => Some (fis, sum_lengths fis)
            | None => None
            end
        | _ => None
        end
      else
        match lookup ck_file_tree info with
        | Some (BDict tree) =>
            match walk_tree root [] tree with
            | Some fis => Some (fis, sum_lengths fis)
            | None => None
            end
        | _ => None
        end
  end.

(* Checker.__init__ from the decoded metafile to (root, fileinfo, total) *)
Definition checker_init (exists_ isfile : cpath -> bool) (listdir : cpath -> option (list bytes))
    (meta : dict) (path : cpath) : option (cpath * list fileinfo * Z) :=
  match lookup ck_info meta with
  | Some (BDict info) =>
      match lookup ck_name info with
      | Some (BStr name) =>
          match find_root exists_ listdir name path with
          | Some root =>
              match check_paths info name root (isfile root) with
              | Some (fis, total) => Some (root, fis, total)
              | None => None
              end
          | None => None
          end
      | _ => None
      end
  | _ => None
  end.
