(* M8 URI: Python's urllib.parse.quote_plus / unquote_plus on bytes, and a query parser.

   quote_plus(s) for a `str` s: UTF-8 encode; every byte in the always-safe set
   [A-Za-z0-9_.~-] stays, the space becomes "+", every other byte becomes "%XX" with UPPER-case
   hex digits.  (For a `bytes` argument the result is the same.)  With the modelling assumption of
   Model/Bencode.v (a `str` is its UTF-8 bytes) this is a function on bytes.

   unquote_plus: "+" -> space, then "%XY" with X, Y hex digits of either case -> that byte; a "%"
   not followed by two hex digits is kept.  This is `urllib.parse.unquote_to_bytes` after the
   "+" replacement (the `str` version additionally decodes the bytes as UTF-8 with
   errors="replace", which is the identity on the UTF-8 strings of the model).  Python splits on
   "%" and treats each piece; the single left-to-right pass below computes the same function (a
   "%" that cannot start an escape is emitted and scanning resumes right after it).

   parse_query: the part after "magnet:?" split on "&", empty pieces dropped (as
   urllib.parse.parse_qsl does), each piece split on its FIRST "="; a piece without "=" has an
   empty value.  No unquoting inside: the caller unquotes the values. *)
From TF Require Import Lib.Base Lib.Lex.

Local Open Scope char_scope.

(* ---------- hex digits, on the bits of the byte (Ascii b0 .. b7, b0 least significant) ---------- *)

Definition hex_of_nibble (b0 b1 b2 b3 : bool) : ascii :=
  match b3, b2, b1, b0 with
  | false, false, false, false => "0"
  | false, false, false, true => "1"
  | false, false, true, false => "2"
  | false, false, true, true => "3"
  | false, true, false, false => "4"
  | false, true, false, true => "5"
  | false, true, true, false => "6"
  | false, true, true, true => "7"
  | true, false, false, false => "8"
  | true, false, false, true => "9"
  | true, false, true, false => "A"
  | true, false, true, true => "B"
  | true, true, false, false => "C"
  | true, true, false, true => "D"
  | true, true, true, false => "E"
  | true, true, true, true => "F"
  end.

(* (b0, b1, b2, b3) *)
Definition nibble_of_hex (c : ascii) : option (bool * bool * bool * bool) :=
  match c with
  | "0" => Some (false, false, false, false)
  | "1" => Some (true, false, false, false)
  | "2" => Some (false, true, false, false)
  | "3" => Some (true, true, false, false)
  | "4" => Some (false, false, true, false)
  | "5" => Some (true, false, true, false)
  | "6" => Some (false, true, true, false)
  | "7" => Some (true, true, true, false)
  | "8" => Some (false, false, false, true)
  | "9" => Some (true, false, false, true)
  | "A" | "a" => Some (false, true, false, true)
  | "B" | "b" => Some (true, true, false, true)
  | "C" | "c" => Some (false, false, true, true)
  | "D" | "d" => Some (true, false, true, true)
  | "E" | "e" => Some (false, true, true, true)
  | "F" | "f" => Some (true, true, true, true)
  | _ => None
  end.

(* bytes.fromhex(h ++ l) *)
Definition byte_of_hex (h l : ascii) : option ascii :=
  match nibble_of_hex h, nibble_of_hex l with
  | Some (h0, h1, h2, h3), Some (l0, l1, l2, l3) => Some (Ascii l0 l1 l2 l3 h0 h1 h2 h3)
  | _, _ => None
  end.

(* ---------- quote_plus ---------- *)

(* _ALWAYS_SAFE = A-Z a-z 0-9 "_.-~" *)
Definition is_safe (c : ascii) : bool :=
  let n := nat_of_ascii c in
  (((65 <=? n) && (n <=? 90)) || ((97 <=? n) && (n <=? 122)) || ((48 <=? n) && (n <=? 57))
   || (n =? 95) || (n =? 46) || (n =? 45) || (n =? 126))%nat.

Definition quote_byte (c : ascii) : bytes :=
  if is_safe c then [c]
  else if Ascii.eqb c " " then ["+"]
  else match c with
       | Ascii b0 b1 b2 b3 b4 b5 b6 b7 => ["%"; hex_of_nibble b4 b5 b6 b7; hex_of_nibble b0 b1 b2 b3]
       end.

Fixpoint quote_plus (s : bytes) : bytes :=
  match s with
  | [] => []
  | c :: r => quote_byte c ++ quote_plus r
  end.

(* ---------- unquote_plus ---------- *)

Fixpoint unquote_plus (s : bytes) : bytes :=
  match s with
  | [] => []
  | c :: r =>
      if Ascii.eqb c "%" then
        match r with
        | h :: l :: r' =>
            match byte_of_hex h l with
            | Some x => x :: unquote_plus r'
            | None => "%" :: unquote_plus r
            end
        | _ => "%" :: unquote_plus r
        end
      else (if Ascii.eqb c "+" then " " else c) :: unquote_plus r
  end.

(* ---------- parse_query ---------- *)

(* s.split(sep): always at least one piece *)
Fixpoint split_on (sep : ascii) (s : bytes) : list bytes :=
  match s with
  | [] => [[]]
  | c :: r =>
      if Ascii.eqb c sep then [] :: split_on sep r
      else match split_on sep r with
           | p :: ps => (c :: p) :: ps
           | [] => [[c]]                      (* never happens *)
           end
  end.

(* piece.split("=", 1), with an empty value when there is no "=" *)
Fixpoint break_eq (s : bytes) : bytes * bytes :=
  match s with
  | [] => ([], [])
  | c :: r =>
      if Ascii.eqb c "=" then ([], r)
      else let (a, b) := break_eq r in (c :: a, b)
  end.

Definition nonempty (s : bytes) : bool := match s with [] => false | _ => true end.

Definition parse_query (s : bytes) : list (bytes * bytes) :=
  map break_eq (filter nonempty (split_on "&" s)).

(* all values of parameter k, in order of appearance, still quoted *)
Definition values_of (k : bytes) (ps : list (bytes * bytes)) : list bytes :=
  map snd (filter (fun kv => bytes_eqb (fst kv) k) ps).

(* "&".join(l) *)
Fixpoint join_amp (l : list bytes) : bytes :=
  match l with
  | [] => []
  | x :: l' => match l' with [] => x | _ => x ++ "&" :: join_amp l' end
  end.
