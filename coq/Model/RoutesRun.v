(* M10 (part 3) -- the models instantiated on the GENERATED tables, as closed executable
   functions for `Eval vm_compute` in generated cases_c20.v files (harness/props/c20.py). *)
From Coq Require Import String List Bool.
From TF Require Import Model.Edit Model.ArgParse Model.Routes Model.RoutesEdit Gen.GenCli Gen.GenConfig.
Import ListNotations.
Open Scope string_scope.

Definition T_gen : tables := gen_tables create_args.

(* argv = the tokens after `torrentfile create`.  PR_ok ns: vars(args) restricted to the dests of
   the create sub-parser, in table order; PR_error: argparse exits with status 2; PR_outside:
   the argv is outside the modelled slice (abbreviation, --flag=value, glued short flags, ...) *)
Definition run_parse (argv : list string) : presult := parse create_args argv.

(* parse_config_file on one key (already lower-cased): (keyword, transform) *)
Definition run_cfg_route (key : string) : string * cfg_transform := cfg_route key.

(* kwargs after `kwargs = vars(args); parse_config_file(path, kwargs)` where
   config["config"].items() = pairs.  None: argparse failed, or a value could not be read. *)
Definition run_cfg (pairs : list (string * string)) (argv : list string) : option namespace :=
  match run_parse argv with
  | PR_ok ns => apply_cfg T_gen pairs ns
  | _ => None
  end.

(* MetaFile.__init__ on the keywords ns where os.path.exists holds exactly for the members of `existing` *)
Definition run_init (existing : list string) (ns : namespace) : iresult params :=
  init_params (fun p => mem_str p existing) T_gen ns.

(* class chosen by commands.create *)
Definition run_dispatch (ns : namespace) : string := dispatch T_gen ns.

(* the whole command-line route / configuration route *)
Definition run_cli (existing : list string) (argv : list string) : option (string * iresult params) :=
  match run_parse argv with
  | PR_ok ns => Some (run_dispatch ns, run_init existing ns)
  | _ => None
  end.

Definition run_config (existing : list string) (pairs : list (string * string)) (argv : list string)
  : option (string * iresult params) :=
  match run_cfg pairs argv with
  | Some ns => Some (run_dispatch ns, run_init existing ns)
  | None => None
  end.

Definition run_kwargs (existing : list string) (kwargs : namespace) : iresult params :=
  run_init existing kwargs.

(* `torrentfile edit`: argv = the tokens after `edit`.  ER_ok m ea: commands.edit calls
   edit_torrent(m, ea) with ea in the order of the dict literal; ER_error: exit status 2 *)
Definition run_edit_parse (argv : list string) : eresult :=
  edit_parse edit_args edit_map edit_metafile_attr argv.

(* the same as a request of Model/Edit.v (None: no call, or a value the request type cannot hold) *)
Definition run_edit_request (argv : list string) : option request :=
  edit_request_of edit_args edit_map edit_metafile_attr argv.
