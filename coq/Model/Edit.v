(* M: edit.  `torrentfile/edit.py` (`_sort_key`, `filter_empty`, `edit_torrent`) statement by
   statement on the decoded metafile (an ORDERED dictionary, Model/Bencode.v).  The file effects
   of edit_torrent (tempfile, os.replace) are in Gen/GenEditOps.v / Proofs/EditCrash.v; here the
   result is the dictionary that is handed to `pyben.dumps`.

   Modelling assumptions
   * Python `str` values are their UTF-8 bytes (as in Model/Bencode.v).
   * A request value is `None` (Keep), `""` (Clear), a non-empty `str` (SetStr) or a `list` of
     `str` (SetList).  `SetStr []` denotes the same Python value as Clear and is treated as Clear
     everywhere ([is_clear]).  Other Python types (int, bool, ...) are outside the model; for
     `private`, `commands.edit` passes `args.private or None`, i.e. Keep or True, and edit_torrent
     only tests membership: any non-empty request sets `info["private"] = 1`.
   * `str.split()` is modelled on bytes: it splits on runs of the ASCII bytes for which
     `str.isspace` holds: 9,10,11,12,13,32 and the separators 28,29,30,31.  (Python's
     `str.split()` also splits on U+0085, U+00A0 and the other non-ASCII Unicode spaces, which are
     multi-byte in UTF-8; a URL string containing those is outside the model.)
   * filter_empty iterates `args.items()`; the order is the literal order of the dictionary built
     in `commands.edit`: url-list, httpseeds, announce, source, private, comment.
   * `meta["info"]` that is missing or not a dictionary, and `vallist[0]`/`val[0]` on an empty
     list (IndexError), are Python exceptions: None.  Nothing is written in that case.
   * `sorted(d.items(), key=_sort_key)` on a duplicate-free dict = Bencode.sort_keys (raw key bytes,
     stable). *)
From TF Require Import Lib.Base Lib.Lex Model.Bencode.
From Coq Require String.

Module EditKeys.
  Import String.
  Local Open Scope string_scope.
  Definition b (s : string) : bytes := list_ascii_of_string s.
  Definition k_info : bytes := Eval compute in b "info".
  Definition k_comment : bytes := Eval compute in b "comment".
  Definition k_source : bytes := Eval compute in b "source".
  Definition k_private : bytes := Eval compute in b "private".
  Definition k_announce : bytes := Eval compute in b "announce".
  Definition k_announce_list : bytes := Eval compute in b "announce-list".
  Definition k_url_list : bytes := Eval compute in b "url-list".
  Definition k_httpseeds : bytes := Eval compute in b "httpseeds".
End EditKeys.
Export EditKeys.

(* ------------------------------------------------------------------------------------------ *)
(* Requests                                                                                    *)
(* ------------------------------------------------------------------------------------------ *)

Inductive fieldreq : Type :=
| Keep                          (* None, or the key is absent from args *)
| Clear                         (* "" *)
| SetStr (s : bytes)            (* a str *)
| SetList (l : list bytes).     (* a list of str *)

Record request : Type := mkReq {
  rq_comment : fieldreq;
  rq_source : fieldreq;
  rq_private : fieldreq;
  rq_announce : fieldreq;
  rq_url_list : fieldreq;
  rq_httpseeds : fieldreq }.

(* `val is None` *)
Definition is_keep (r : fieldreq) : bool := match r with Keep => true | _ => false end.

(* `val == ""` *)
Definition is_clear (r : fieldreq) : bool :=
  match r with Clear | SetStr [] => true | _ => false end.

(* `key in args` after filter_empty *)
Definition is_set (r : fieldreq) : bool := negb (is_keep r) && negb (is_clear r).

(* ------------------------------------------------------------------------------------------ *)
(* str.split()                                                                                 *)
(* ------------------------------------------------------------------------------------------ *)

Definition is_space (c : ascii) : bool :=
  let n := nat_of_ascii c in ((9 <=? n) && (n <=? 13)) || ((28 <=? n) && (n <=? 32)).

(* [cur] is the current word, reversed *)
Fixpoint split_ws_aux (cur : bytes) (s : bytes) : list bytes :=
  match s with
  | [] => match cur with [] => [] | _ => [rev cur] end
  | c :: s' =>
      if is_space c then
        match cur with [] => split_ws_aux [] s' | _ => rev cur :: split_ws_aux [] s' end
      else split_ws_aux (c :: cur) s'
  end.

Definition split_ws (s : bytes) : list bytes := split_ws_aux [] s.

(* ------------------------------------------------------------------------------------------ *)
(* filter_empty                                                                                *)
(* ------------------------------------------------------------------------------------------ *)

(* `k in d` *)
Definition mem (k : bytes) (d : dict) : bool :=
  match lookup k d with Some _ => true | None => false end.

(* one iteration of the loop, on the state (meta, info).  The deletions from `args` are kept
   implicitly: afterwards `key in args` is [is_set]. *)
Definition filter_one (k : bytes) (r : fieldreq) (st : dict * dict) : dict * dict :=
  if is_clear r then                                   (* val == "" *)
    if mem k (fst st) then (remove k (fst st), snd st)       (* if key in meta: del meta[key] *)
    else if mem k (snd st) then (fst st, remove k (snd st))  (* elif key in info: del info[key] *)
    else st
  else st.                                             (* None: continue; a value: nothing *)

Definition filter_empty (req : request) (st : dict * dict) : dict * dict :=
  let st := filter_one k_url_list (rq_url_list req) st in
  let st := filter_one k_httpseeds (rq_httpseeds req) st in
  let st := filter_one k_announce (rq_announce req) st in
  let st := filter_one k_source (rq_source req) st in
  let st := filter_one k_private (rq_private req) st in
  filter_one k_comment (rq_comment req) st.

(* ------------------------------------------------------------------------------------------ *)
(* edit_torrent                                                                                *)
(* ------------------------------------------------------------------------------------------ *)

(* the value stored by `info[k] = args[k]` when k is (still) in args *)
Definition set_value (r : fieldreq) : option value :=
  match r with
  | SetStr (c :: s) => Some (BStr (c :: s))
  | SetList l => Some (BList (map BStr l))
  | _ => None
  end.

(* `val.split()` for a str, `val` for a list, when k is (still) in args *)
Definition set_words (r : fieldreq) : option (list bytes) :=
  match r with
  | SetStr (c :: s) => Some (split_ws (c :: s))
  | SetList l => Some l
  | _ => None
  end.

(* if "comment" in args: info["comment"] = args["comment"]   (same for source) *)
Definition set_info_field (k : bytes) (r : fieldreq) (info : dict) : dict :=
  match set_value r with
  | Some v => update k v info
  | None => info
  end.

(* if "private" in args: info["private"] = 1 *)
Definition set_private (r : fieldreq) (info : dict) : dict :=
  if is_set r then update k_private (BInt 1) info else info.

(* if "announce" in args: ... meta["announce"] = vallist[0]; meta["announce-list"] = [vallist] *)
Definition set_announce (r : fieldreq) (meta : dict) : option dict :=
  match set_words r with
  | None => Some meta
  | Some [] => None                                                     (* IndexError *)
  | Some (x :: ws) =>
      Some (update k_announce_list (BList [BList (map BStr (x :: ws))])
              (update k_announce (BStr x) meta))
  end.

(* if "url-list" in args: meta["url-list"] = val.split() / val   (same for httpseeds) *)
Definition set_words_field (k : bytes) (r : fieldreq) (meta : dict) : dict :=
  match set_words r with
  | Some ws => update k (BList (map BStr ws)) meta
  | None => meta
  end.

(* info_edit = any(args.get(key) is not None for key in ("comment", "source", "private")) *)
Definition info_edit (req : request) : bool :=
  negb (is_keep (rq_comment req)) || negb (is_keep (rq_source req))
  || negb (is_keep (rq_private req)).

(* The dictionary given to pyben.dumps (and returned) by edit_torrent *)
Definition edit_torrent (req : request) (meta : dict) : option dict :=
  match lookup k_info meta with                                  (* info = meta["info"] *)
  | Some (BDict info) =>
      let ie := info_edit req in
      let st := filter_empty req (meta, info) in
      let meta := fst st in
      let info := snd st in
      let info := set_info_field k_comment (rq_comment req) info in
      let info := set_info_field k_source (rq_source req) info in
      let info := set_private (rq_private req) info in
      match set_announce (rq_announce req) meta with
      | None => None
      | Some meta =>
          let meta := set_words_field k_url_list (rq_url_list req) meta in
          let meta := set_words_field k_httpseeds (rq_httpseeds req) meta in
          let info := if ie then sort_keys info else info in     (* if info_edit: sorted(info) *)
          let meta := update k_info (BDict info) meta in         (* meta["info"] = info *)
          Some (sort_keys meta)                                  (* meta = sorted(meta) *)
      end
  | _ => None
  end.

(* a sequence of edits of the same file, left to right; an exception stops everything *)
Definition edit_seq (reqs : list request) (meta : dict) : option dict :=
  fold_left (fun acc r => match acc with Some m => edit_torrent r m | None => None end)
            reqs (Some meta).

(* ------------------------------------------------------------------------------------------ *)
(* Vocabulary of the claims C07 / C06 (computed from the request only)                         *)
(* ------------------------------------------------------------------------------------------ *)

Definition keep_all : request := mkReq Keep Keep Keep Keep Keep Keep.

(* info of a metafile ([] when absent or not a dictionary) *)
Definition info_of (m : dict) : dict :=
  match lookup k_info m with Some (BDict i) => i | _ => [] end.

Definition touched_top (req : request) : list bytes :=
  (if is_keep (rq_announce req) then [] else [k_announce; k_announce_list])
  ++ (if is_keep (rq_url_list req) then [] else [k_url_list])
  ++ (if is_keep (rq_httpseeds req) then [] else [k_httpseeds])
  ++ [k_info].

Definition touched_info (req : request) : list bytes :=
  (if is_keep (rq_comment req) then [] else [k_comment])
  ++ (if is_keep (rq_source req) then [] else [k_source])
  ++ (if is_keep (rq_private req) then [] else [k_private]).

(* the layout this tool writes: the info fields are not at top level, the top fields not in info *)
Definition layout_top_ok (m : dict) : Prop :=
  lookup k_comment m = None /\ lookup k_source m = None /\ lookup k_private m = None.
Definition layout_info_ok (i : dict) : Prop :=
  lookup k_announce i = None /\ lookup k_url_list i = None /\ lookup k_httpseeds i = None
  /\ lookup k_announce_list i = None.
Definition layout_ok (m : dict) : Prop := layout_top_ok m /\ layout_info_ok (info_of m).

Definition layout_okb (m : dict) : bool :=
  negb (mem k_comment m) && negb (mem k_source m) && negb (mem k_private m)
  && negb (mem k_announce (info_of m)) && negb (mem k_url_list (info_of m))
  && negb (mem k_httpseeds (info_of m)) && negb (mem k_announce_list (info_of m)).

(* per field, the last request that is not Keep *)
Definition merge_field (a b : fieldreq) : fieldreq := if is_keep b then a else b.
Definition merge_req (a b : request) : request :=
  mkReq (merge_field (rq_comment a) (rq_comment b)) (merge_field (rq_source a) (rq_source b))
        (merge_field (rq_private a) (rq_private b)) (merge_field (rq_announce a) (rq_announce b))
        (merge_field (rq_url_list a) (rq_url_list b))
        (merge_field (rq_httpseeds a) (rq_httpseeds b)).
Definition last_writes (reqs : list request) : request := fold_left merge_req reqs keep_all.
