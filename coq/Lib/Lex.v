(* Raw byte-string order (lexicographic on unsigned byte values) and boolean equality.
   This is the order BEP 3 / BEP 52 require for dictionary keys, and the order Python uses for
   `bytes` (and, through UTF-8 monotonicity, for `str` compared by code point). *)
From TF Require Import Lib.Base.
From Coq Require Import Sorted Permutation RelationClasses.

(* ---------- boolean equality ---------- *)

Fixpoint bytes_eqb (a b : bytes) : bool :=
  match a, b with
  | [], [] => true
  | x :: a', y :: b' => Ascii.eqb x y && bytes_eqb a' b'
  | _, _ => false
  end.

Lemma bytes_eqb_eq a b : bytes_eqb a b = true <-> a = b.
Proof.
  revert b; induction a as [|x a IH]; intros [|y b]; cbn [bytes_eqb]; try (split; congruence).
  rewrite andb_true_iff, Ascii.eqb_eq, IH. split.
  - intros [-> ->]; reflexivity.
  - intros E; injection E; auto.
Qed.

Lemma bytes_eqb_refl a : bytes_eqb a a = true.
Proof. apply bytes_eqb_eq; reflexivity. Qed.

Lemma bytes_eqb_neq a b : bytes_eqb a b = false <-> a <> b.
Proof.
  split.
  - intros E ->. rewrite bytes_eqb_refl in E; discriminate.
  - intros N. destruct (bytes_eqb a b) eqn:E; [|reflexivity].
    apply bytes_eqb_eq in E; contradiction.
Qed.

Lemma bytes_eqb_spec a b : reflect (a = b) (bytes_eqb a b).
Proof.
  destruct (bytes_eqb a b) eqn:E; constructor.
  - apply bytes_eqb_eq; exact E.
  - apply bytes_eqb_neq; exact E.
Qed.

Lemma bytes_eqb_sym a b : bytes_eqb a b = bytes_eqb b a.
Proof.
  destruct (bytes_eqb_spec a b) as [->|N].
  - symmetry; apply bytes_eqb_refl.
  - symmetry; apply bytes_eqb_neq; congruence.
Qed.

Definition bytes_eq_dec (a b : bytes) : {a = b} + {a <> b}.
Proof. destruct (bytes_eqb_spec a b); [left|right]; assumption. Defined.

(* ---------- strict lexicographic order ---------- *)

Fixpoint bytes_ltb (a b : bytes) : bool :=
  match a, b with
  | _, [] => false
  | [], _ :: _ => true
  | x :: a', y :: b' =>
      (nat_of_ascii x <? nat_of_ascii y)
      || ((nat_of_ascii x =? nat_of_ascii y) && bytes_ltb a' b')
  end.

Definition bytes_lt (a b : bytes) : Prop := bytes_ltb a b = true.

Lemma nat_of_ascii_inj x y : nat_of_ascii x = nat_of_ascii y -> x = y.
Proof.
  intros E. rewrite <- (ascii_nat_embedding x), <- (ascii_nat_embedding y), E. reflexivity.
Qed.

Lemma bytes_ltb_cons x a y b :
  bytes_ltb (x :: a) (y :: b) = true <->
  nat_of_ascii x < nat_of_ascii y \/ (x = y /\ bytes_ltb a b = true).
Proof.
  cbn [bytes_ltb]. rewrite orb_true_iff, andb_true_iff, Nat.ltb_lt, Nat.eqb_eq. split.
  - intros [H|[H1 H2]]; [left; exact H|right; split; [apply nat_of_ascii_inj; exact H1|exact H2]].
  - intros [H|[-> H2]]; [left; exact H|right; split; [reflexivity|exact H2]].
Qed.

Lemma bytes_ltb_irrefl a : bytes_ltb a a = false.
Proof.
  induction a as [|x a IH]; [reflexivity|].
  destruct (bytes_ltb (x :: a) (x :: a)) eqn:E; [|reflexivity].
  apply bytes_ltb_cons in E. destruct E as [E|[_ E]]; [lia|congruence].
Qed.

Lemma bytes_ltb_trans a b c :
  bytes_ltb a b = true -> bytes_ltb b c = true -> bytes_ltb a c = true.
Proof.
  revert b c; induction a as [|x a IH]; intros [|y b] [|z c] H1 H2;
    try discriminate; try reflexivity.
  apply bytes_ltb_cons in H1. apply bytes_ltb_cons in H2. apply bytes_ltb_cons.
  destruct H1 as [H1|[-> H1]], H2 as [H2|[-> H2]].
  - left; lia.
  - left; exact H1.
  - left; exact H2.
  - right; split; [reflexivity|]. eapply IH; eassumption.
Qed.

Lemma bytes_ltb_trichotomy a b :
  {bytes_ltb a b = true} + {a = b} + {bytes_ltb b a = true}.
Proof.
  revert b; induction a as [|x a IH]; intros [|y b].
  - left; right; reflexivity.
  - left; left; reflexivity.
  - right; reflexivity.
  - destruct (lt_eq_lt_dec (nat_of_ascii x) (nat_of_ascii y)) as [[L|E]|G].
    + left; left. apply bytes_ltb_cons; left; exact L.
    + apply nat_of_ascii_inj in E; subst y.
      destruct (IH b) as [[L|E]|G].
      * left; left. apply bytes_ltb_cons; right; split; [reflexivity|exact L].
      * left; right. subst b; reflexivity.
      * right. apply bytes_ltb_cons; right; split; [reflexivity|exact G].
    + right. apply bytes_ltb_cons; left; exact G.
Qed.

Lemma bytes_ltb_neq a b : bytes_ltb a b = true -> a <> b.
Proof. intros H ->. rewrite bytes_ltb_irrefl in H; discriminate. Qed.

Lemma bytes_ltb_asym a b : bytes_ltb a b = true -> bytes_ltb b a = false.
Proof.
  intros H. destruct (bytes_ltb b a) eqn:E; [|reflexivity].
  pose proof (bytes_ltb_trans _ _ _ H E) as C. rewrite bytes_ltb_irrefl in C; discriminate.
Qed.

Lemma bytes_ltb_false_iff a b : bytes_ltb a b = false <-> a = b \/ bytes_ltb b a = true.
Proof.
  split.
  - intros H. destruct (bytes_ltb_trichotomy a b) as [[L|E]|G]; [congruence|left; exact E|right; exact G].
  - intros [->|H]; [apply bytes_ltb_irrefl|apply bytes_ltb_asym; exact H].
Qed.

Lemma bytes_ltb_eqb_false a b : bytes_ltb a b = true -> bytes_eqb a b = false.
Proof. intros H. apply bytes_eqb_neq, bytes_ltb_neq, H. Qed.

Global Instance bytes_lt_strict : StrictOrder bytes_lt.
Proof.
  split.
  - intros a H. unfold bytes_lt in H. rewrite bytes_ltb_irrefl in H; discriminate.
  - intros a b c. apply bytes_ltb_trans.
Qed.

(* ---------- sorted lists under a strict order: permutation-unique ---------- *)

Section SortedUnique.
  Context {A : Type} (lt : A -> A -> Prop).
  Hypothesis lt_irrefl : forall a, ~ lt a a.
  Hypothesis lt_trans : forall a b c, lt a b -> lt b c -> lt a c.

  Lemma StronglySorted_perm_eq (l l' : list A) :
    StronglySorted lt l -> StronglySorted lt l' -> Permutation l l' -> l = l'.
  Proof.
    revert l'; induction l as [|a l IH]; intros l' Hs Hs' Hp.
    - apply Permutation_nil in Hp; subst; reflexivity.
    - destruct l' as [|b l'].
      + apply Permutation_sym, Permutation_nil in Hp; discriminate.
      + apply StronglySorted_inv in Hs; destruct Hs as [Hs Ha].
        apply StronglySorted_inv in Hs'; destruct Hs' as [Hs' Hb].
        assert (a = b) as ->.
        { assert (In a (b :: l')) as Ia by (eapply Permutation_in; [exact Hp|left; reflexivity]).
          assert (In b (a :: l)) as Ib
              by (eapply Permutation_in; [apply Permutation_sym; exact Hp|left; reflexivity]).
          destruct Ia as [E|Ia]; [symmetry; exact E|].
          destruct Ib as [E|Ib]; [exact E|].
          rewrite Forall_forall in Ha, Hb.
          exfalso. apply (lt_irrefl a). eapply lt_trans; [apply Ha, Ib|apply Hb, Ia]. }
        f_equal. apply IH; [exact Hs|exact Hs'|]. eapply Permutation_cons_inv; exact Hp.
  Qed.

  Lemma Sorted_StronglySorted' (l : list A) : Sorted lt l -> StronglySorted lt l.
  Proof. apply Sorted_StronglySorted. intros a b c; apply lt_trans. Qed.
End SortedUnique.
