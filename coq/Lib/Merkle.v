(* Code-independent lemmas used by the merkle-tree proofs: powers of two on nat, log2_up of
   grouped counts, and how `chunks` interacts with padding, `repeat` and nested cutting. *)
From TF Require Import Lib.Base Lib.Chunks.

(* ---------- powers of two, log2_up ---------- *)

Lemma pow2_pos k : 0 < 2 ^ k.
Proof. pose proof (Nat.pow_nonzero 2 k). lia. Qed.

Lemma pow2_S k : 2 ^ S k = 2 ^ k + 2 ^ k.
Proof. rewrite Nat.pow_succ_r'. lia. Qed.

Lemma pow2_gt_lin k : k < 2 ^ k.
Proof. apply Nat.pow_gt_lin_r. lia. Qed.

(* Nat.log2_up n is the least h with n <= 2^h *)
Lemma log2_up_least n : 0 < n ->
  n <= 2 ^ Nat.log2_up n /\ forall h, n <= 2 ^ h -> Nat.log2_up n <= h.
Proof.
  intros Hn. split.
  - apply Nat.log2_up_le_pow2; [assumption|apply Nat.le_refl].
  - intros h Hh. apply Nat.log2_up_le_pow2; assumption.
Qed.

Lemma log2_up_le_pow2_exp n k : 0 < n -> n <= 2 ^ k -> 2 ^ Nat.log2_up n <= 2 ^ k.
Proof.
  intros Hn Hk. apply Nat.pow_le_mono_r; [lia|]. apply Nat.log2_up_le_pow2; assumption.
Qed.

(* (vi) of DESIGN A.3: m groups of c = 2^k cover n items, more than one group *)
Lemma log2_up_groups k m n :
  1 < m -> (m - 1) * 2 ^ k < n -> n <= m * 2 ^ k ->
  Nat.log2_up n = Nat.log2_up m + k.
Proof.
  intros Hm Hlo Hhi.
  pose proof (Nat.log2_up_spec m Hm) as [Ha1 Ha2].
  pose proof (Nat.log2_up_pos m Hm) as Hapos.
  set (a := Nat.log2_up m) in *.
  pose proof (pow2_pos k) as Hc. set (c := 2 ^ k) in *.
  apply Nat.log2_up_unique; [lia|].
  replace (Nat.pred (a + k)) with (Nat.pred a + k) by lia.
  rewrite !Nat.pow_add_r. fold c. split.
  - assert (H1 : 2 ^ Nat.pred a <= m - 1) by lia.
    assert (H2 : 2 ^ Nat.pred a * c <= (m - 1) * c) by (apply Nat.mul_le_mono_r; exact H1).
    lia.
  - assert (H2 : m * c <= 2 ^ a * c) by (apply Nat.mul_le_mono_r; exact Ha2).
    lia.
Qed.

(* the bit test  v & (v - 1) == 0  on nat: soundness direction *)
Lemma nat_land_odd_even a b : Nat.land (2 * a + 1) (2 * b) = 2 * Nat.land a b.
Proof.
  apply Nat.bits_inj. intro i. rewrite Nat.land_spec. destruct i as [|i].
  - rewrite Nat.testbit_odd_0, !Nat.testbit_even_0. reflexivity.
  - rewrite Nat.testbit_odd_succ, !Nat.testbit_even_succ by lia.
    rewrite Nat.land_spec. reflexivity.
Qed.

Lemma nat_land_even_odd a b : Nat.land (2 * a) (2 * b + 1) = 2 * Nat.land a b.
Proof. rewrite Nat.land_comm, nat_land_odd_even, Nat.land_comm. reflexivity. Qed.

Lemma nat_pow2_bit_test v : v <> 0 -> Nat.land v (v - 1) = 0 -> exists j, v = 2 ^ j.
Proof.
  induction v as [v IH] using lt_wf_ind. intros Hv Hl.
  destruct (Nat.Even_or_Odd v) as [[a Ea]|[a Ea]].
  - assert (Ha : a <> 0) by lia.
    replace (v - 1) with (2 * (a - 1) + 1) in Hl by lia.
    rewrite Ea in Hl at 1. rewrite nat_land_even_odd in Hl.
    assert (Hl' : Nat.land a (a - 1) = 0) by lia.
    destruct (IH a ltac:(lia) Ha Hl') as [j Ej].
    exists (S j). rewrite Nat.pow_succ_r'. lia.
  - replace (v - 1) with (2 * a) in Hl by lia.
    rewrite Ea in Hl at 1. rewrite nat_land_odd_even, Nat.land_diag in Hl.
    exists 0. simpl. lia.
Qed.

(* ---------- lists ---------- *)

Lemma firstn_app_exact {A} n (a b : list A) : length a = n -> firstn n (a ++ b) = a.
Proof.
  intros <-. rewrite firstn_app, Nat.sub_diag, firstn_O, app_nil_r. apply firstn_all.
Qed.

Lemma skipn_app_exact {A} n (a b : list A) : length a = n -> skipn n (a ++ b) = b.
Proof.
  intros <-. rewrite skipn_app, Nat.sub_diag, skipn_O, skipn_all. reflexivity.
Qed.

Lemma skipn_skipn' {A} a b (l : list A) : skipn a (skipn b l) = skipn (b + a) l.
Proof.
  revert l. induction b as [|b IH]; intros l; [reflexivity|].
  destruct l as [|x l]; [rewrite !skipn_nil; reflexivity|]. cbn [Nat.add skipn]. apply IH.
Qed.

Lemma map_id_Forall {A} (f : A -> A) (P : A -> Prop) l :
  (forall x, P x -> f x = x) -> Forall P l -> map f l = l.
Proof.
  intros Hf HP. induction HP as [|x l Hx _ IH]; [reflexivity|].
  cbn [map]. rewrite Hf by assumption. rewrite IH. reflexivity.
Qed.

Section ChunksMore.
Context {A : Type}.

Lemma chunks_nonempty c (l : list A) : 0 < c -> l <> [] -> chunks c l <> [].
Proof. intros Hc Hl. rewrite chunks_cons by assumption. discriminate. Qed.

Lemma length_chunks_exact c m (l : list A) : 0 < c -> length l = m * c -> length (chunks c l) = m.
Proof.
  intros Hc Hl. rewrite length_chunks by assumption. unfold ceil_div. rewrite Hl.
  replace (m * c + c - 1) with (m * c + (c - 1)) by lia.
  rewrite Nat.div_add_l by lia. rewrite Nat.div_small by lia. lia.
Qed.

(* m = number of chunks: (m - 1) * c < length l <= m * c *)
Lemma length_chunks_bounds c (l : list A) : 0 < c -> l <> [] ->
  1 <= length (chunks c l) /\
  (length (chunks c l) - 1) * c < length l /\ length l <= length (chunks c l) * c.
Proof.
  intros Hc Hl. rewrite length_chunks by assumption. unfold ceil_div.
  assert (Hn : 0 < length l) by (destruct l; [congruence|cbn [length]; lia]).
  pose proof (Nat.div_mod (length l + c - 1) c ltac:(lia)) as E.
  pose proof (Nat.mod_upper_bound (length l + c - 1) c ltac:(lia)) as Hr.
  set (q := (length l + c - 1) / c) in *. set (r := (length l + c - 1) mod c) in *.
  assert (Hq : 1 <= q).
  { destruct q as [|q]; [|lia]. rewrite Nat.mul_0_r in E. lia. }
  split; [exact Hq|].
  replace ((q - 1) * c) with (c * q - c) by (rewrite Nat.mul_sub_distr_r; lia).
  rewrite (Nat.mul_comm q c). lia.
Qed.

Lemma length_chunks_le c m (l : list A) : 0 < c -> length l <= m * c -> length (chunks c l) <= m.
Proof.
  intros Hc Hl. destruct l as [|x l0] eqn:El; [rewrite chunks_nil; cbn [length]; lia|].
  rewrite <- El in *. assert (Hne : l <> []) by (subst l; discriminate).
  destruct (length_chunks_bounds c l Hc Hne) as [H1 [H2 _]].
  set (q := length (chunks c l)) in *.
  destruct (le_lt_dec q m) as [|Hlt]; [assumption|exfalso].
  assert (m * c <= (q - 1) * c) by (apply Nat.mul_le_mono_r; lia). lia.
Qed.

(* all chunks have at most c elements *)
Lemma chunks_length_le c (l : list A) : 0 < c -> Forall (fun p => length p <= c) (chunks c l).
Proof.
  intros Hc. destruct (chunks_full_or_last c l Hc) as [ps [r [E [F [Hr _]]]]].
  rewrite E. apply Forall_app. split.
  - eapply Forall_impl; [|exact F]. cbn beta. intros p Hp. lia.
  - destruct r; constructor; [lia|constructor].
Qed.

Lemma chunks_repeat c t (z : A) : 0 < c -> chunks c (repeat z (t * c)) = repeat (repeat z c) t.
Proof.
  intros Hc. induction t as [|t IH]; [reflexivity|].
  replace (S t * c) with (c + t * c) by lia.
  rewrite repeat_app, chunks_app_exact by (assumption || apply repeat_length).
  rewrite IH. reflexivity.
Qed.

(* padding a list up to t full chunks: every chunk is padded to c, then whole padding chunks *)
Lemma chunks_pad c (z : A) t : 0 < c -> forall l, length l <= t * c ->
  chunks c (l ++ repeat z (t * c - length l)) =
  map (fun g => g ++ repeat z (c - length g)) (chunks c l)
  ++ repeat (repeat z c) (t - length (chunks c l)).
Proof.
  intros Hc. induction t as [|t IH]; intros l Hl.
  - destruct l as [|x l]; [reflexivity|cbn [length] in Hl; lia].
  - destruct l as [|x l0] eqn:El.
    + rewrite chunks_nil. cbn [app length map]. rewrite !Nat.sub_0_r.
      apply chunks_repeat. assumption.
    + rewrite <- El in *. assert (Hne : l <> []) by (subst l; discriminate).
      destruct (le_lt_dec (length l) c) as [Hle|Hgt].
      * rewrite (chunks_short c l) by assumption. cbn [map length app].
        replace (S t * c - length l) with ((c - length l) + t * c) by lia.
        rewrite repeat_app, app_assoc.
        rewrite chunks_app_exact by (try assumption; rewrite app_length, repeat_length; lia).
        rewrite chunks_repeat by assumption. replace (S t - 1) with t by lia. reflexivity.
      * rewrite (chunks_cons c l) by assumption. cbn [map length app].
        assert (Hf : length (firstn c l) = c) by (rewrite firstn_length; lia).
        assert (Hs : length (skipn c l) = length l - c) by apply skipn_length.
        rewrite Hf, Nat.sub_diag. cbn [repeat]. rewrite app_nil_r.
        rewrite <- (firstn_skipn c l) at 1. rewrite <- app_assoc.
        rewrite chunks_app_exact by assumption.
        replace (S t * c - length l) with (t * c - length (skipn c l)) by lia.
        rewrite IH by lia. reflexivity.
Qed.

(* cutting into blocks of b and grouping the blocks by m = cutting into pieces of b*m and
   cutting every piece into blocks *)
Lemma chunks_chunks b m (l : list A) : 0 < b -> 0 < m ->
  chunks m (chunks b l) = map (chunks b) (chunks (b * m) l).
Proof.
  intros Hb Hm. assert (Hbm : 0 < b * m) by (apply Nat.mul_pos_pos; assumption).
  remember (length l) as n eqn:Hn. revert l Hn.
  induction n as [n IH] using lt_wf_ind. intros l Hn.
  destruct l as [|x l0] eqn:El; [reflexivity|]. rewrite <- El in *.
  assert (Hne : l <> []) by (subst l; discriminate).
  destruct (le_lt_dec (length l) (b * m)) as [Hle|Hgt].
  - rewrite (chunks_short (b * m) l) by assumption. cbn [map].
    apply chunks_short; [assumption|apply chunks_nonempty; assumption|].
    apply length_chunks_le; [assumption|lia].
  - rewrite (chunks_cons (b * m) l) by assumption. cbn [map].
    assert (Hf : length (firstn (b * m) l) = m * b) by (rewrite firstn_length; lia).
    rewrite <- (firstn_skipn (b * m) l) at 1.
    rewrite chunks_app_multiple by (try assumption; exists m; exact Hf).
    rewrite chunks_app_exact by (try assumption; apply length_chunks_exact; assumption).
    f_equal. apply (IH (length (skipn (b * m) l))); [|reflexivity].
    rewrite skipn_length. lia.
Qed.

End ChunksMore.
