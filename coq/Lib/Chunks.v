(* chunks n l : the successive n-slices of l (last one possibly short, none for []).
   This is the specification-level cutting used by BEP 3 (pieces) and BEP 52 (blocks). *)
From TF Require Import Lib.Base.

Section Chunks.
Context {A : Type}.

Fixpoint chunks_fuel (fuel n : nat) (l : list A) : list (list A) :=
  match fuel with
  | O => []
  | S f => match l with
           | [] => []
           | _ :: _ => firstn n l :: chunks_fuel f n (skipn n l)
           end
  end.

Definition chunks (n : nat) (l : list A) : list (list A) := chunks_fuel (length l) n l.

Lemma chunks_nil n : chunks n [] = [].
Proof. reflexivity. Qed.

Lemma chunks_fuel_enough n : 0 < n -> forall f l, length l <= f -> chunks_fuel f n l = chunks n l.
Proof.
  intros Hn. unfold chunks.
  assert (H : forall f g l, length l <= f -> length l <= g -> chunks_fuel f n l = chunks_fuel g n l).
  { induction f as [|f IH]; intros g l Hf Hg.
    - destruct l; [|simpl in Hf; lia]. destruct g; reflexivity.
    - destruct g as [|g].
      + destruct l; [reflexivity|simpl in Hg; lia].
      + destruct l as [|a l]; [reflexivity|]. cbn [chunks_fuel]. f_equal.
        apply IH; rewrite skipn_length; cbn [length] in *; lia. }
  intros f l Hl. apply H; lia.
Qed.

Lemma chunks_cons n l : 0 < n -> l <> [] -> chunks n l = firstn n l :: chunks n (skipn n l).
Proof.
  intros Hn Hl. destruct l as [|a l]; [congruence|].
  unfold chunks at 1. cbn [length chunks_fuel]. f_equal.
  apply chunks_fuel_enough; [assumption|]. rewrite skipn_length. cbn [length]. lia.
Qed.

Lemma chunks_app_exact n a b : 0 < n -> length a = n -> chunks n (a ++ b) = a :: chunks n b.
Proof.
  intros Hn Ha. rewrite chunks_cons; [|assumption|destruct a; [simpl in Ha; lia|discriminate]].
  rewrite firstn_app, skipn_app, Ha, Nat.sub_diag, firstn_O, skipn_O, app_nil_r.
  rewrite <- Ha at 1. rewrite firstn_all. rewrite <- Ha, skipn_all. reflexivity.
Qed.

Lemma chunks_short n r : 0 < n -> r <> [] -> length r <= n -> chunks n r = [r].
Proof.
  intros Hn Hr Hl. rewrite chunks_cons by assumption.
  rewrite firstn_all2 by assumption. rewrite skipn_all2 by assumption. reflexivity.
Qed.

(* A.1 of DESIGN.md: any decomposition into full pieces plus a short rest IS the chunking *)
Lemma chunks_unique n ps r :
  0 < n -> Forall (fun p => length p = n) ps -> length r < n ->
  chunks n (concat ps ++ r) = ps ++ (match r with [] => [] | _ => [r] end).
Proof.
  intros Hn Hps Hr. induction Hps as [|p ps Hp Hps IH].
  - simpl. destruct r as [|x r]; [reflexivity|]. apply chunks_short; [assumption|discriminate|lia].
  - simpl. rewrite <- app_assoc. rewrite chunks_app_exact by assumption. f_equal. exact IH.
Qed.

Lemma chunks_all_full n ps : 0 < n -> Forall (fun p => length p = n) ps -> chunks n (concat ps) = ps.
Proof.
  intros Hn H. pose proof (chunks_unique n ps [] Hn H Hn) as E.
  rewrite !app_nil_r in E. exact E.
Qed.

Lemma concat_chunks n l : 0 < n -> concat (chunks n l) = l.
Proof.
  intros Hn. remember (length l) as k eqn:Hk. revert l Hk.
  induction k as [k IH] using lt_wf_ind. intros l Hk.
  destruct l as [|a l]; [reflexivity|].
  rewrite chunks_cons by (assumption || discriminate). cbn [concat].
  rewrite (IH (length (skipn n (a :: l)))).
  - apply firstn_skipn.
  - rewrite skipn_length. subst k. cbn [length]. lia.
  - reflexivity.
Qed.

Lemma chunks_full_or_last n l : 0 < n ->
  exists ps r, chunks n l = ps ++ (match r with [] => [] | _ => [r] end) /\
               Forall (fun p => length p = n) ps /\ length r < n /\ l = concat ps ++ r.
Proof.
  intros Hn. remember (length l) as k eqn:Hk. revert l Hk.
  induction k as [k IH] using lt_wf_ind. intros l Hk.
  destruct (le_lt_dec n (length l)) as [Hge|Hlt].
  - destruct l as [|a l0] eqn:El; [simpl in Hge; lia|]. rewrite <- El in *.
    destruct (IH (length (skipn n l))) with (l := skipn n l) as [ps [r [E [F [Hr C]]]]].
    + rewrite skipn_length. lia.
    + reflexivity.
    + exists (firstn n l :: ps), r. rewrite chunks_cons by (assumption || (subst l; discriminate)).
      rewrite E. split; [reflexivity|]. split.
      * constructor; [rewrite firstn_length; lia|assumption].
      * split; [assumption|]. simpl. rewrite <- app_assoc, <- C. symmetry. apply firstn_skipn.
  - exists [], l. split.
    + simpl. destruct l as [|a l0]; [reflexivity|]. apply chunks_short; [assumption|discriminate|lia].
    + split; [constructor|]. split; [assumption|reflexivity].
Qed.

Lemma chunks_app_multiple n a b : 0 < n -> (exists k, length a = k * n) ->
  chunks n (a ++ b) = chunks n a ++ chunks n b.
Proof.
  intros Hn [k Hk]. revert a Hk. induction k as [|k IH]; intros a Hk.
  - destruct a; [reflexivity|simpl in Hk; lia].
  - assert (Hl : n <= length a) by (rewrite Hk; simpl; lia).
    assert (Hf : length (firstn n a) = n) by (rewrite firstn_length; lia).
    assert (Hs : length (skipn n a) = k * n) by (rewrite skipn_length, Hk; simpl; lia).
    rewrite <- (firstn_skipn n a). set (x := firstn n a) in *. set (y := skipn n a) in *.
    rewrite <- app_assoc.
    rewrite (chunks_app_exact n x (y ++ b)) by assumption.
    rewrite (chunks_app_exact n x y) by assumption.
    rewrite IH by assumption. reflexivity.
Qed.

Lemma length_chunks n l : 0 < n -> length (chunks n l) = ceil_div (length l) n.
Proof.
  intros Hn. unfold ceil_div.
  destruct (chunks_full_or_last n l Hn) as [ps [r [E [F [Hr C]]]]].
  rewrite E, C. rewrite !app_length.
  assert (Hc : length (concat ps) = length ps * n).
  { clear -F. induction F as [|p ps Hp _ IH]; [reflexivity|]. simpl. rewrite app_length, IH, Hp. lia. }
  rewrite Hc. destruct r as [|x r].
  - simpl. rewrite Nat.add_0_r, Nat.add_0_r.
    replace (length ps * n + n - 1) with (length ps * n + (n - 1)) by lia.
    rewrite Nat.div_add_l by lia. rewrite Nat.div_small by lia. lia.
  - cbn [length]. cbn [length] in Hr.
    replace (length ps * n + S (length r) + n - 1) with ((length ps + 1) * n + length r) by lia.
    rewrite Nat.div_add_l by lia. rewrite (Nat.div_small (length r)) by lia. lia.
Qed.

End Chunks.

Lemma map_chunks {A B} (f : A -> B) n (l : list A) : 0 < n -> chunks n (map f l) = map (map f) (chunks n l).
Proof.
  intros Hn. remember (length l) as k eqn:Hk. revert l Hk.
  induction k as [k IH] using lt_wf_ind. intros l Hk.
  destruct l as [|a l0] eqn:El; [reflexivity|]. rewrite <- El in *.
  assert (Hne : l <> []) by (subst l; discriminate).
  assert (Hne' : map f l <> []) by (subst l; discriminate).
  assert (Hlen : length (skipn n l) < k) by (rewrite skipn_length; subst l k; cbn [length]; lia).
  rewrite (chunks_cons n (map f l)) by assumption.
  rewrite (chunks_cons n l) by assumption.
  change (map (map f) (firstn n l :: chunks n (skipn n l)))
    with (map f (firstn n l) :: map (map f) (chunks n (skipn n l))).
  rewrite firstn_map. f_equal. rewrite skipn_map.
  apply (IH (length (skipn n l)) Hlen). reflexivity.
Qed.
