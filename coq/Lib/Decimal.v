(* Decimal printing / parsing of naturals and integers as Python does it:
     dec_of_Z z  = str(z).encode()      (no leading zeros, "-" for negatives, "0" for zero)
     N_of_dec ds = int(ds)  for ds a string of ASCII digits (leading zeros accepted)
   Built on the standard library's Decimal.uint (Pos.to_uint / Pos.of_uint), whose round-trip
   lemmas DecimalN.Unsigned.of_to / to_of are reused.  Binary N is used internally so that the
   functions stay cheap when extracted. *)
From TF Require Import Lib.Base.
From Coq Require Import Decimal DecimalFacts DecimalString DecimalPos DecimalN NArith.

Local Open Scope char_scope.

(* ---------- digits ---------- *)

Definition is_digit (c : ascii) : bool :=
  match c with
  | "0" | "1" | "2" | "3" | "4" | "5" | "6" | "7" | "8" | "9" => true
  | _ => false
  end.

Fixpoint bytes_of_uint (d : uint) : bytes :=
  match d with
  | Nil => []
  | D0 d => "0" :: bytes_of_uint d
  | D1 d => "1" :: bytes_of_uint d
  | D2 d => "2" :: bytes_of_uint d
  | D3 d => "3" :: bytes_of_uint d
  | D4 d => "4" :: bytes_of_uint d
  | D5 d => "5" :: bytes_of_uint d
  | D6 d => "6" :: bytes_of_uint d
  | D7 d => "7" :: bytes_of_uint d
  | D8 d => "8" :: bytes_of_uint d
  | D9 d => "9" :: bytes_of_uint d
  end.

(* [uint_of_char] is DecimalString's: digit character -> constructor, anything else -> None *)
Fixpoint uint_of_bytes (bs : bytes) : option uint :=
  match bs with
  | [] => Some Nil
  | c :: r => uint_of_char c (uint_of_bytes r)
  end.

(* ---------- printing and parsing ---------- *)

Definition dec_of_N (n : N) : bytes := bytes_of_uint (N.to_uint n).
Definition dec_of_nat (n : nat) : bytes := dec_of_N (N.of_nat n).
Definition dec_of_Z (z : Z) : bytes :=
  match z with
  | Zneg p => "-" :: dec_of_N (Npos p)
  | _ => dec_of_N (Z.to_N z)
  end.

(* lenient: any digit string, leading zeros allowed; 0 on a non-digit string (never used there) *)
Definition N_of_dec (ds : bytes) : N :=
  match uint_of_bytes ds with Some d => N.of_uint d | None => 0%N end.
Definition nat_of_dec (ds : bytes) : nat := N.to_nat (N_of_dec ds).
Definition Z_of_dec (neg : bool) (ds : bytes) : Z :=
  if neg then Z.opp (Z.of_N (N_of_dec ds)) else Z.of_N (N_of_dec ds).

(* canonical digit string: non-empty, digits only, no leading zero unless it is exactly "0" *)
Definition canonical_dec (ds : bytes) : bool :=
  match ds with
  | [] => false
  | c :: t => forallb is_digit ds && (negb (Ascii.eqb c "0") || match t with [] => true | _ => false end)
  end.

(* maximal prefix of digits, and the rest (the regex fragment \d* ) *)
Fixpoint span_digits (bs : bytes) : bytes * bytes :=
  match bs with
  | [] => ([], [])
  | c :: r => if is_digit c then let (ds, r') := span_digits r in (c :: ds, r') else ([], bs)
  end.

(* ---------- lemmas: characters ---------- *)

Lemma uint_of_char_digit c d : is_digit c = true -> uint_of_char c (Some d) <> None.
Proof.
  destruct c as [[] [] [] [] [] [] [] []]; cbn; intros H; try discriminate H; discriminate.
Qed.

Lemma uint_of_char_nondigit c o : is_digit c = false -> uint_of_char c o = None.
Proof.
  destruct o as [d|]; [|reflexivity].
  destruct c as [[] [] [] [] [] [] [] []]; cbn; intros H; try discriminate H; reflexivity.
Qed.

Lemma is_digit_neq c c' : is_digit c = true -> is_digit c' = false -> c <> c'.
Proof. intros H H' ->. congruence. Qed.

Lemma is_digit_eqb c c' : is_digit c = true -> is_digit c' = false -> Ascii.eqb c c' = false.
Proof. intros H H'. apply Ascii.eqb_neq. eapply is_digit_neq; eassumption. Qed.

(* ---------- lemmas: uint <-> bytes ---------- *)

Lemma uint_of_bytes_of_uint d : uint_of_bytes (bytes_of_uint d) = Some d.
Proof. induction d; cbn [bytes_of_uint uint_of_bytes]; [reflexivity|rewrite IHd; reflexivity..]. Qed.

Lemma bytes_of_uint_of_bytes bs d : uint_of_bytes bs = Some d -> bytes_of_uint d = bs.
Proof.
  revert d; induction bs as [|c r IH]; intros d H; cbn [uint_of_bytes] in H.
  - injection H as <-; reflexivity.
  - destruct (uint_of_bytes r) as [d'|] eqn:E.
    + specialize (IH d' eq_refl).
      destruct c as [[] [] [] [] [] [] [] []]; cbn in H; try discriminate H;
        injection H as <-; cbn [bytes_of_uint]; rewrite IH; reflexivity.
    + destruct c as [[] [] [] [] [] [] [] []]; discriminate H.
Qed.

Lemma bytes_of_uint_digits d : Forall (fun c => is_digit c = true) (bytes_of_uint d).
Proof. induction d; cbn [bytes_of_uint]; constructor; auto. Qed.

Lemma uint_of_bytes_digits bs :
  Forall (fun c => is_digit c = true) bs -> exists d, uint_of_bytes bs = Some d.
Proof.
  induction 1 as [|c r Hc _ [d IH]]; [exists Nil; reflexivity|].
  cbn [uint_of_bytes]. rewrite IH.
  destruct (uint_of_char c (Some d)) as [d'|] eqn:E; [exists d'; reflexivity|].
  exfalso; eapply uint_of_char_digit; eassumption.
Qed.

(* ---------- lemmas: normal forms ---------- *)

Lemma nzhead_not_D0 d u : nzhead d <> D0 u.
Proof. induction d; cbn [nzhead]; try discriminate. exact IHd. Qed.

Lemma to_uint_unorm n : unorm (N.to_uint n) = N.to_uint n.
Proof.
  rewrite <- (DecimalN.Unsigned.of_to n) at 2. symmetry. apply DecimalN.Unsigned.to_of.
Qed.

Lemma to_uint_nonnil n : N.to_uint n <> Nil.
Proof. rewrite <- to_uint_unorm. apply unorm_nonnil. Qed.

Lemma unorm_fix_canonical d :
  unorm d = d -> canonical_dec (bytes_of_uint d) = true.
Proof.
  intros H.
  assert (Hd : forallb is_digit (bytes_of_uint d) = true).
  { apply forallb_forall. apply Forall_forall. apply bytes_of_uint_digits. }
  destruct d; cbn [bytes_of_uint] in *; unfold canonical_dec.
  - exfalso. revert H. apply unorm_nonnil.
  - rewrite Hd. cbn [andb].
    assert (d = Nil) as ->.
    { unfold unorm in H. cbn [nzhead] in H.
      destruct (nzhead d) eqn:E; try discriminate H.
      - injection H as <-. reflexivity.
      - exfalso. eapply nzhead_not_D0; exact E. }
    reflexivity.
  - rewrite Hd; reflexivity.
  - rewrite Hd; reflexivity.
  - rewrite Hd; reflexivity.
  - rewrite Hd; reflexivity.
  - rewrite Hd; reflexivity.
  - rewrite Hd; reflexivity.
  - rewrite Hd; reflexivity.
  - rewrite Hd; reflexivity.
  - rewrite Hd; reflexivity.
Qed.

Lemma canonical_unorm_fix ds d :
  canonical_dec ds = true -> uint_of_bytes ds = Some d -> unorm d = d.
Proof.
  intros Hc Hu. apply bytes_of_uint_of_bytes in Hu. subst ds.
  destruct d; cbn [bytes_of_uint] in Hc; unfold canonical_dec in Hc; try reflexivity.
  - discriminate Hc.
  - apply andb_true_iff in Hc; destruct Hc as [_ Hc]. cbn [Ascii.eqb Bool.eqb negb orb] in Hc.
    change (Ascii.eqb "0" "0") with true in Hc. cbn [negb orb] in Hc.
    destruct d; cbn [bytes_of_uint] in Hc; try discriminate Hc. reflexivity.
Qed.

(* ---------- main round trips ---------- *)

Lemma dec_of_N_digits n : Forall (fun c => is_digit c = true) (dec_of_N n).
Proof. apply bytes_of_uint_digits. Qed.

Lemma dec_of_N_nonempty n : dec_of_N n <> [].
Proof.
  unfold dec_of_N. pose proof (to_uint_nonnil n) as H.
  destruct (N.to_uint n); cbn [bytes_of_uint]; congruence.
Qed.

Lemma dec_of_N_canonical n : canonical_dec (dec_of_N n) = true.
Proof. apply unorm_fix_canonical, to_uint_unorm. Qed.

(* output is digits only, non-empty, and has no leading zero unless the number is 0 *)
Lemma dec_of_N_head n :
  exists c t, dec_of_N n = c :: t /\ is_digit c = true /\ (c = "0" -> n = 0%N /\ t = []).
Proof.
  pose proof (dec_of_N_canonical n) as Hc. pose proof (dec_of_N_digits n) as Hd.
  destruct (dec_of_N n) as [|c t] eqn:E; [discriminate Hc|].
  exists c, t. split; [reflexivity|]. split; [inversion Hd; assumption|].
  intros ->. unfold canonical_dec in Hc. apply andb_true_iff in Hc; destruct Hc as [_ Hc].
  change (Ascii.eqb "0" "0") with true in Hc. cbn [negb orb] in Hc.
  destruct t; [|discriminate Hc]. split; [|reflexivity].
  unfold dec_of_N in E.
  rewrite <- (DecimalN.Unsigned.of_to n).
  destruct (N.to_uint n) as [|u|u|u|u|u|u|u|u|u|u]; cbn [bytes_of_uint] in E; try discriminate E.
  destruct u; cbn [bytes_of_uint] in E; try discriminate E. reflexivity.
Qed.

Theorem N_of_dec_of_N n : N_of_dec (dec_of_N n) = n.
Proof.
  unfold N_of_dec, dec_of_N. rewrite uint_of_bytes_of_uint. apply DecimalN.Unsigned.of_to.
Qed.

Theorem dec_of_N_of_dec ds : canonical_dec ds = true -> dec_of_N (N_of_dec ds) = ds.
Proof.
  intros Hc.
  assert (Hd : Forall (fun c => is_digit c = true) ds).
  { destruct ds as [|c t]; [discriminate Hc|]. unfold canonical_dec in Hc.
    apply andb_true_iff in Hc; destruct Hc as [Hc _].
    apply Forall_forall. apply forallb_forall. exact Hc. }
  destruct (uint_of_bytes_digits ds Hd) as [d Hu].
  unfold N_of_dec, dec_of_N. rewrite Hu, DecimalN.Unsigned.to_of.
  rewrite (canonical_unorm_fix ds d Hc Hu). apply bytes_of_uint_of_bytes, Hu.
Qed.

Lemma canonical_dec_zero ds : canonical_dec ds = true -> N_of_dec ds = 0%N -> ds = ["0"].
Proof.
  intros Hc H0. rewrite <- (dec_of_N_of_dec ds Hc), H0. reflexivity.
Qed.

Theorem nat_of_dec_of_nat n : nat_of_dec (dec_of_nat n) = n.
Proof. unfold nat_of_dec, dec_of_nat. rewrite N_of_dec_of_N. apply Nat2N.id. Qed.

Lemma dec_of_Z_of_N n : dec_of_Z (Z.of_N n) = dec_of_N n.
Proof. destruct n; reflexivity. Qed.

(* str(z) parses back: sign flag + digits *)
Theorem Z_of_dec_of_Z z :
  match z with
  | Zneg p => dec_of_Z z = "-" :: dec_of_N (Npos p) /\ Z_of_dec true (dec_of_N (Npos p)) = z
  | _ => dec_of_Z z = dec_of_N (Z.to_N z) /\ Z_of_dec false (dec_of_N (Z.to_N z)) = z
  end.
Proof.
  destruct z; (split; [reflexivity|]); unfold Z_of_dec; rewrite N_of_dec_of_N; reflexivity.
Qed.

(* ---------- span_digits ---------- *)

Lemma span_digits_app ds r :
  Forall (fun c => is_digit c = true) ds ->
  match r with [] => True | c :: _ => is_digit c = false end ->
  span_digits (ds ++ r) = (ds, r).
Proof.
  intros Hd Hr. induction Hd as [|c ds Hc _ IH]; cbn [List.app span_digits].
  - destruct r as [|c r']; [reflexivity|]. cbn [span_digits]. rewrite Hr. reflexivity.
  - rewrite Hc, IH. reflexivity.
Qed.

Lemma span_digits_spec bs ds r :
  span_digits bs = (ds, r) ->
  bs = ds ++ r /\ Forall (fun c => is_digit c = true) ds /\
  match r with [] => True | c :: _ => is_digit c = false end.
Proof.
  revert ds r; induction bs as [|c bs IH]; intros ds r H; cbn [span_digits] in H.
  - injection H as <- <-. repeat split; constructor.
  - destruct (is_digit c) eqn:Ec.
    + destruct (span_digits bs) as [ds' r'] eqn:E. injection H as <- <-.
      destruct (IH ds' r' eq_refl) as (-> & Hd & Hr).
      repeat split; [constructor; assumption|assumption].
    + injection H as <- <-. repeat split; [constructor|exact Ec].
Qed.

Lemma span_digits_length bs ds r : span_digits bs = (ds, r) -> length bs = length ds + length r.
Proof. intros H. apply span_digits_spec in H. destruct H as (-> & _). apply app_length. Qed.

(* ---------- examples ---------- *)

Example dec_of_Z_ex :
  dec_of_Z 0 = ["0"] /\ dec_of_Z (-42) = ["-"; "4"; "2"] /\ dec_of_nat 1030 = ["1"; "0"; "3"; "0"].
Proof. vm_compute. repeat split. Qed.

Example N_of_dec_ex :
  N_of_dec ["0"; "0"; "7"] = 7%N /\ canonical_dec ["0"; "0"; "7"] = false /\
  canonical_dec ["7"; "0"] = true /\ canonical_dec ["0"] = true /\ canonical_dec [] = false /\
  span_digits ["1"; "2"; ":"; "3"] = (["1"; "2"], [":"; "3"]).
Proof. vm_compute. repeat split. Qed.
