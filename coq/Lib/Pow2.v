(* Powers of two over Z: the bit test  n & (n-1) = 0  characterises them. *)
From Coq Require Import ZArith Lia Bool.
Open Scope Z_scope.

Definition is_pow2 (n : Z) : Prop := exists k, 0 <= k /\ n = 2 ^ k.

Lemma land_odd_even a b : Z.land (2 * a + 1) (2 * b) = 2 * Z.land a b.
Proof.
  apply Z.bits_inj'. intros i Hi.
  rewrite Z.land_spec.
  destruct (Z.eq_dec i 0) as [->|Hne].
  - rewrite Z.testbit_odd_0, Z.testbit_even_0, Z.testbit_even_0. reflexivity.
  - replace i with (Z.succ (i - 1)) by lia.
    rewrite Z.testbit_odd_succ, !Z.testbit_even_succ by lia.
    rewrite Z.land_spec. reflexivity.
Qed.

Lemma land_even_odd a b : Z.land (2 * a) (2 * b + 1) = 2 * Z.land a b.
Proof. rewrite Z.land_comm, land_odd_even, Z.land_comm. reflexivity. Qed.

Lemma pos_pow2_bit_test (p : positive) :
  Z.land (Zpos p) (Zpos p - 1) = 0 <-> is_pow2 (Zpos p).
Proof.
  induction p as [q IH | q IH | ].
  - (* 2q+1, q >= 1 : neither *)
    split.
    + intro H. exfalso.
      replace (Zpos q~1) with (2 * Zpos q + 1) in H by lia.
      replace (2 * Zpos q + 1 - 1) with (2 * Zpos q) in H by lia.
      rewrite land_odd_even, Z.land_diag in H. lia.
    + intros [k [Hk E]]. exfalso.
      destruct (Z.eq_dec k 0) as [->|Hne].
      * simpl in E. lia.
      * replace k with (Z.succ (k - 1)) in E by lia.
        rewrite Z.pow_succ_r in E by lia. lia.
  - (* 2q *)
    replace (Zpos q~0) with (2 * Zpos q) by lia.
    replace (2 * Zpos q - 1) with (2 * (Zpos q - 1) + 1) by lia.
    rewrite land_even_odd. split.
    + intro H. assert (H' : Z.land (Zpos q) (Zpos q - 1) = 0) by lia.
      apply IH in H'. destruct H' as [k [Hk E]].
      exists (Z.succ k). split; [lia|]. rewrite Z.pow_succ_r by lia. lia.
    + intros [k [Hk E]].
      destruct (Z.eq_dec k 0) as [->|Hne].
      * simpl in E. lia.
      * replace k with (Z.succ (k - 1)) in E by lia.
        rewrite Z.pow_succ_r in E by lia.
        assert (Hq : is_pow2 (Zpos q)) by (exists (k - 1); split; lia).
        apply IH in Hq. lia.
  - split; intro.
    + exists 0. split; [lia|reflexivity].
    + reflexivity.
Qed.

Lemma pow2_bit_test n : 0 < n -> (Z.land n (n - 1) = 0 <-> is_pow2 n).
Proof.
  intro Hn. destruct n as [|p|p]; try lia. apply pos_pow2_bit_test.
Qed.

Lemma is_pow2_pos n : is_pow2 n -> 0 < n.
Proof. intros [k [Hk ->]]. apply Z.pow_pos_nonneg; lia. Qed.

Lemma is_pow2_pow k : 0 <= k -> is_pow2 (2 ^ k).
Proof. intro. exists k. split; [assumption|reflexivity]. Qed.

(* a power of two that is >= 2^14 is 2^k with k >= 14 *)
Lemma is_pow2_ge n a : 0 <= a -> is_pow2 n -> 2 ^ a <= n -> exists k, a <= k /\ n = 2 ^ k.
Proof.
  intros Ha [k [Hk ->]] Hle. exists k. split; [|reflexivity].
  destruct (Z_lt_le_dec k a) as [Hlt|]; [|assumption].
  exfalso. assert (2 ^ k < 2 ^ a) by (apply Z.pow_lt_mono_r; lia). lia.
Qed.
