(* Shared vocabulary: bytes are lists of Ascii.ascii (extracted to OCaml char). *)
From Coq Require Export List Arith ZArith Lia Ascii Bool.
Export ListNotations.

Definition byte := ascii.
Definition bytes := list ascii.
Definition zero_byte : byte := Ascii.zero.
Definition zeros (n : nat) : bytes := repeat zero_byte n.

Lemma zeros_length n : length (zeros n) = n.
Proof. apply repeat_length. Qed.

Lemma zeros_app a b : zeros (a + b) = zeros a ++ zeros b.
Proof. apply repeat_app. Qed.

(* ceiling division on nat, for n > 0 *)
Definition ceil_div (a n : nat) : nat := (a + n - 1) / n.
