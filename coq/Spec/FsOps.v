(* C17 -- filesystem operations of `edit_torrent`, their crash/error semantics, and the
   executable checker `safe_ops`.

   THIS FILE IS THE SPECIFICATION A REVIEWER READS.  It has four parts:
     1. the operation language (an instance of `edit_ops` is GENERATED from
        /repo/torrentfile/edit.py on every run -- constructor names are an interface);
     2. the machine: a disk restricted to the symbolic paths, plus, for every path, the
        unflushed buffer of the Python file object that is open for writing on it;
     3. the behaviours: normal completion, a raised error (with `finally:` clean-up), and a
        crash (process killed) at ANY point, also in the middle of a write;
     4. the checker `safe_ops`.
   The soundness theorems are in Proofs/CrashSafe.v. *)
From Coq Require Import List Bool Arith.
From TF Require Import Lib.Base.
Import ListNotations.

(* ------------------------------------------------------------------------------------ *)
(** * 1. Operation language *)

Inductive spath :=
 | PM       (* the metafile path given to edit *)
 | PT       (* a path derived from it and provably different (metafile + non-empty suffix) *)
 | POther.  (* anything the translator cannot classify; may alias PM *)

Inductive op :=
 | Load (p : spath)            (* read a file completely *)
 | Encode                      (* pure computation of the new bytes; may raise (unencodable value) *)
 | OpenTrunc (p : spath)       (* open(p, "wb"): creates/truncates p to empty *)
 | OpenAppend (p : spath)      (* open(p, "ab") *)
 | WriteAll (p : spath)        (* fd.write(new bytes) on a BUFFERED file object *)
 | Close (p : spath)           (* flush + close *)
 | Replace (src dst : spath)   (* os.replace: atomic; dst afterwards has src's content, src is gone *)
 | Rename (src dst : spath)    (* os.rename: as Replace on POSIX (elsewhere it may raise instead) *)
 | Remove (p : spath)          (* os.remove *)
 | RemoveIfExists (p : spath)  (* if os.path.exists(p): os.remove(p) *)
 | ExistsTest (p : spath)      (* os.path.exists(p) *)
 | Unknown.                    (* anything else that touches the filesystem *)

(* cleanup_ops = body of a `finally:` block: runs after main_ops complete AND after any raised
   error in main_ops; it does not run after a crash. *)
Record edit_ops := { main_ops : list op; cleanup_ops : list op }.

Definition spath_eqb (a b : spath) : bool :=
  match a, b with
  | PM, PM | PT, PT | POther, POther => true
  | _, _ => false
  end.

(* ------------------------------------------------------------------------------------ *)
(** * 2. The machine *)

(* The disk, restricted to the symbolic paths: None = the path does not exist. *)
Definition fs := spath -> option bytes.

Definition upd {A : Type} (f : spath -> A) (p : spath) (v : A) : spath -> A :=
  fun q => if spath_eqb q p then v else f q.

(* disk   : what a reader (or a survivor of a crash) finds.
   wbuf p : None        = no file object is open for writing on p;
            Some b      = one is open, and b are the bytes it has accepted from write()
                          but not yet handed to the operating system (lost on a crash). *)
Record state := { disk : fs; wbuf : spath -> option bytes }.

Definition init (fs0 : fs) : state := {| disk := fs0; wbuf := fun _ => None |}.

Definition content_or_empty (o : option bytes) : bytes :=
  match o with Some d => d | None => [] end.

(* open p for writing with on-disk content d (d = [] for "wb") and an empty buffer *)
Definition open_with (d : bytes) (p : spath) (s : state) : state :=
  {| disk := upd (disk s) p (Some d); wbuf := upd (wbuf s) p (Some []) |}.

(* write() accepted the bytes: they are now pending in the buffer *)
Definition set_buffer (p : spath) (b : bytes) (s : state) : state :=
  {| disk := disk s; wbuf := upd (wbuf s) p (Some b) |}.

(* the file object on p hands the first k pending bytes to the disk (k >= length: all) *)
Definition flush (k : nat) (p : spath) (s : state) : state :=
  match disk s p, wbuf s p with
  | Some d, Some b =>
      {| disk := upd (disk s) p (Some (d ++ firstn k b));
         wbuf := upd (wbuf s) p (Some (skipn k b)) |}
  | _, _ => s
  end.

(* the file object on p goes away; whatever is still pending is lost *)
Definition drop_buffer (p : spath) (s : state) : state :=
  {| disk := disk s; wbuf := upd (wbuf s) p None |}.

Definition drop_all_buffers (s : state) : state :=
  {| disk := disk s; wbuf := fun _ => None |}.

(* os.remove: the name disappears (a file object still open on it writes to an orphan) *)
Definition unlink (p : spath) (s : state) : state :=
  {| disk := upd (disk s) p None; wbuf := upd (wbuf s) p None |}.

(* os.replace src dst, atomic: the FILE (with any file object open on it) moves to dst;
   the file that was at dst is orphaned.  replace(p, p) does nothing. *)
Definition move (src dst : spath) (s : state) : state :=
  if spath_eqb src dst then s else
  {| disk := upd (upd (disk s) dst (disk s src)) src None;
     wbuf := upd (upd (wbuf s) dst (wbuf s src)) src None |}.

(* Operations the translator could not classify: `Unknown`, and any operation on POther
   (which may be the metafile under another name).  They may do ANYTHING. *)
Definition paths_of (o : op) : list spath :=
  match o with
  | Load p | OpenTrunc p | OpenAppend p | WriteAll p | Close p
  | Remove p | RemoveIfExists p | ExistsTest p => [p]
  | Replace a b | Rename a b => [a; b]
  | Encode | Unknown => []
  end.

Definition unclassified (o : op) : bool :=
  match o with
  | Unknown => true
  | _ => existsb (fun p => spath_eqb p POther) (paths_of o)
  end.

Section Semantics.

Variable new : bytes.     (* the bytes produced by Encode and passed to every WriteAll *)

(** ** One operation, running to completion without raising.
    Where Python would necessarily raise (reading, renaming or removing a missing file,
    writing to or closing a file that is not open) there is no rule here: see [raise_step].
    The model keeps ONE file object per path. *)
Inductive ok_step : op -> state -> state -> Prop :=
 | ok_load p s d :
     disk s p = Some d -> ok_step (Load p) s s
 | ok_encode s :
     ok_step Encode s s
 | ok_exists p s :
     ok_step (ExistsTest p) s s
 | ok_open_trunc p s :                 (* the truncation is immediate *)
     ok_step (OpenTrunc p) s (open_with [] p s)
 | ok_open_append p s :
     ok_step (OpenAppend p) s (open_with (content_or_empty (disk s p)) p s)
 | ok_write p s b k :                  (* buffered: ANY number k of the pending bytes reaches the disk now *)
     wbuf s p = Some b ->
     ok_step (WriteAll p) s (flush k p (set_buffer p (b ++ new) s))
 | ok_close p s b :                    (* everything pending reaches the disk *)
     wbuf s p = Some b ->
     ok_step (Close p) s (drop_buffer p (flush (length b) p s))
 | ok_replace src dst s d :
     disk s src = Some d -> ok_step (Replace src dst) s (move src dst s)
 | ok_rename src dst s d :
     disk s src = Some d -> ok_step (Rename src dst) s (move src dst s)
 | ok_remove p s d :
     disk s p = Some d -> ok_step (Remove p) s (unlink p s)
 | ok_remove_if_exists p s :           (* no effect when p is missing *)
     ok_step (RemoveIfExists p) s (unlink p s)
 | ok_unclassified o s s' :
     unclassified o = true -> ok_step o s s'.

(** ** An exception propagates: every file object still open is closed by its `with`
    block or by the runtime; closing flushes what it can, so of each buffer ANY part (none,
    some, all) may still reach the disk; the rest is lost. *)
Inductive unwind : state -> state -> Prop :=
 | unwind_intro s kM kT kO :
     unwind s (drop_all_buffers (flush kM PM (flush kT PT (flush kO POther s)))).

(** ** One operation raising.  ANY operation may raise (permissions, ENOSPC, an
    unencodable value for Encode, ...).  It then has no effect of its own -- Replace, Rename,
    Remove, the truncation of an open are atomic: not happened -- except that a failing
    write()/close() may have put any part of the data on disk (short write). *)
Inductive raise_step : op -> state -> state -> Prop :=
 | raise_plain o s s' :
     unwind s s' -> raise_step o s s'
 | raise_write p s b s' :              (* the data was (partly) accepted, then the error *)
     wbuf s p = Some b ->
     unwind (set_buffer p (b ++ new) s) s' -> raise_step (WriteAll p) s s'
 | raise_unclassified o s s' :
     unclassified o = true -> raise_step o s s'.

(** ** The process is killed INSIDE an operation.  Only the non-atomic ones have states
    strictly between "before" and "after":  WriteAll p -- but every torn state of WriteAll is
    also a state after a completed WriteAll with a smaller k, see [ok_write] -- and Close p. *)
Inductive torn_step : op -> state -> state -> Prop :=
 | torn_close p s k :
     torn_step (Close p) s (flush k p s)
 | torn_unclassified o s s' :
     unclassified o = true -> torn_step o s s'.

(** ** Sequences *)

(* all of ops run to completion *)
Inductive steps : list op -> state -> state -> Prop :=
 | steps_nil s : steps [] s s
 | steps_cons o ops s s1 s2 :
     ok_step o s s1 -> steps ops s1 s2 -> steps (o :: ops) s s2.

(* the operations before number i (counting from 0) complete, operation i raises, the rest is skipped *)
Definition raises_at (ops : list op) (i : nat) (s s' : state) : Prop :=
  exists pre o post s1,
    ops = pre ++ o :: post /\ length pre = i /\ steps pre s s1 /\ raise_step o s1 s'.

(* the process is killed while running ops: between two operations (also before the first
   and after the last), or inside one *)
Definition killed_in (ops : list op) (s s' : state) : Prop :=
  exists pre post s1,
    ops = pre ++ post /\ steps pre s s1 /\
    (s' = s1 \/ exists o post', post = o :: post' /\ torn_step o s1 s').

(* ------------------------------------------------------------------------------------ *)
(** * 3. Behaviours of a whole edit, started on the disk fs0 with no file open *)

(* (c) normal completion: main_ops, then cleanup_ops *)
Inductive completes (e : edit_ops) (fs0 : fs) : fs -> Prop :=
 | completes_intro s1 s2 :
     steps (main_ops e) (init fs0) s1 ->
     steps (cleanup_ops e) s1 s2 ->
     completes e fs0 (disk s2).

(* where the (first) error is raised *)
Inductive fault :=
 | InMain (i : nat)        (* operation i of main_ops raises *)
 | InCleanup (j : nat).    (* main_ops complete, operation j of cleanup_ops raises *)

(* (b) an error is raised: the rest of main_ops is skipped, cleanup_ops run, and an error
   in cleanup_ops ends the execution.  The filesystem that is left behind: *)
Inductive error_outcome (e : edit_ops) (fs0 : fs) : fault -> fs -> Prop :=
 | err_main_cleanup_completes i s1 s2 :
     raises_at (main_ops e) i (init fs0) s1 ->
     steps (cleanup_ops e) s1 s2 ->
     error_outcome e fs0 (InMain i) (disk s2)
 | err_main_cleanup_raises i j s1 s2 :
     raises_at (main_ops e) i (init fs0) s1 ->
     raises_at (cleanup_ops e) j s1 s2 ->
     error_outcome e fs0 (InMain i) (disk s2)
 | err_main_outside_try i s1 :           (* the failing operation is textually before the `try:` *)
     raises_at (main_ops e) i (init fs0) s1 ->
     error_outcome e fs0 (InMain i) (disk s1)
 | err_cleanup j s1 s2 :
     steps (main_ops e) (init fs0) s1 ->
     raises_at (cleanup_ops e) j s1 s2 ->
     error_outcome e fs0 (InCleanup j) (disk s2).

(* (a) the process is killed: what is on disk afterwards.  The kill can come while main_ops
   run, while cleanup_ops run after main_ops, or while cleanup_ops run after an error. *)
Inductive crash_reachable (e : edit_ops) (fs0 : fs) : fs -> Prop :=
 | crash_in_main s :
     killed_in (main_ops e) (init fs0) s ->
     crash_reachable e fs0 (disk s)
 | crash_in_cleanup s1 s :
     steps (main_ops e) (init fs0) s1 ->
     killed_in (cleanup_ops e) s1 s ->
     crash_reachable e fs0 (disk s)
 | crash_in_cleanup_after_error i s1 s :
     raises_at (main_ops e) i (init fs0) s1 ->
     killed_in (cleanup_ops e) s1 s ->
     crash_reachable e fs0 (disk s).

End Semantics.

(* ------------------------------------------------------------------------------------ *)
(** * 4. The checker *)

(* What the checker knows about PT while scanning main_ops. *)
Inductive tstate :=
 | TClosed   (* not open; missing or with arbitrary content *)
 | TOpenU    (* open for writing, arbitrary content *)
 | TOpen0    (* just opened with truncation: empty, nothing written *)
 | TOpenW    (* opened with truncation, then exactly one WriteAll: disk ++ buffer = new *)
 | TFull.    (* ... and then closed: holds exactly the new bytes *)

Record cstate := { encoded : bool;     (* an Encode has been passed *)
                   replaced : bool;    (* the Replace PT PM has been passed *)
                   tst : tstate }.

Definition cstate0 : cstate := {| encoded := false; replaced := false; tst := TClosed |}.

Definition with_tst (c : cstate) (t : tstate) : cstate :=
  {| encoded := encoded c; replaced := replaced c; tst := t |}.

Definition is_closed (t : tstate) : bool :=
  match t with TClosed | TFull => true | _ => false end.

Definition is_full (t : tstate) : bool :=
  match t with TFull => true | _ => false end.

(* One operation of main_ops: None = rejected.
   - PM is only ever read, tested, or the target of the one Replace/Rename;
   - POther and Unknown are rejected;
   - every mutating operation needs a preceding Encode;
   - Replace PT PM needs PT = TFull, i.e. OpenTrunc PT; WriteAll PT; Close PT since the last
     other mutation of PT, and no Replace before. *)
Definition trans (c : cstate) (o : op) : option cstate :=
  match o with
  | Load PM | Load PT | ExistsTest PM | ExistsTest PT => Some c
  | Encode => Some {| encoded := true; replaced := replaced c; tst := tst c |}
  | OpenTrunc PT =>
      if encoded c && is_closed (tst c) then Some (with_tst c TOpen0) else None
  | OpenAppend PT =>
      if encoded c && is_closed (tst c) then Some (with_tst c TOpenU) else None
  | WriteAll PT =>
      match tst c with
      | TOpen0 => Some (with_tst c TOpenW)
      | TOpenW | TOpenU => Some (with_tst c TOpenU)
      | TClosed | TFull => None
      end
  | Close PT =>
      match tst c with
      | TOpenW => Some (with_tst c TFull)
      | TOpen0 | TOpenU => Some (with_tst c TClosed)
      | TClosed | TFull => None
      end
  | Remove PT | RemoveIfExists PT =>
      if encoded c then Some (with_tst c TClosed) else None
  | Replace PT PM | Rename PT PM =>
      if encoded c && negb (replaced c) && is_full (tst c)
      then Some {| encoded := true; replaced := true; tst := TClosed |}
      else None
  | _ => None
  end.

Fixpoint run_check (c : cstate) (ops : list op) : option cstate :=
  match ops with
  | [] => Some c
  | o :: rest => match trans c o with
                 | Some c' => run_check c' rest
                 | None => None
                 end
  end.

(* the `finally:` body may only test for and remove the temporary file *)
Definition cleanup_ok (o : op) : bool :=
  match o with
  | ExistsTest PT | RemoveIfExists PT => true
  | _ => false
  end.

Definition safe_ops (e : edit_ops) : bool :=
  match run_check cstate0 (main_ops e) with Some _ => true | None => false end
  && forallb cleanup_ok (cleanup_ops e).

(* ------------------------------------------------------------------------------------ *)
(** * Vocabulary of the theorems *)

(* the operation that makes the edit take effect *)
Definition is_commit (o : op) : bool :=
  match o with Replace PT PM | Rename PT PM => true | _ => false end.

Definition is_encode (o : op) : bool :=
  match o with Encode => true | _ => false end.

(* the operations of main_ops that completed before the fault *)
Definition completed_before (e : edit_ops) (f : fault) : list op :=
  match f with
  | InMain i => firstn i (main_ops e)
  | InCleanup _ => main_ops e
  end.

(* "the fault index is after the Replace": the Replace is among the completed operations *)
Definition after_replace (e : edit_ops) (f : fault) : bool :=
  existsb is_commit (completed_before e f).

(* index of the first Encode *)
Fixpoint encode_index (ops : list op) : option nat :=
  match ops with
  | [] => None
  | o :: rest => if is_encode o then Some 0
                 else match encode_index rest with Some i => Some (S i) | None => None end
  end.

(* operations that can change the filesystem *)
Definition mutating (o : op) : bool :=
  match o with
  | Load _ | Encode | ExistsTest _ => false
  | _ => true
  end.

(* the operation lists of the repaired and of the original edit_torrent *)
Definition edit_ops_fixed : edit_ops :=
  {| main_ops := [Load PM; Encode; OpenTrunc PT; WriteAll PT; Close PT; Replace PT PM];
     cleanup_ops := [ExistsTest PT; RemoveIfExists PT] |}.

Definition edit_ops_original : edit_ops :=
  {| main_ops := [Load PM; Remove PM; OpenTrunc PM; WriteAll PM; Close PM];
     cleanup_ops := [] |}.
