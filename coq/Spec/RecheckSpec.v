(* Specification of what a recheck has to look at (C04, C05, C16 of DESIGN.md).

   A metafile lists files with recorded lengths  lens : list nat.  A disk state gives, per listed
   file, `None` (file absent) or `Some d` (file present with content d).  Damage never lengthens a
   file (`disk_within`).  The bytes the checker has to judge are the recorded layout with every
   missing byte read as zero (`zero_fill`).

   v1: the stream of all zero-filled files is cut into pieces of pl bytes; the j-th piece is
   compared (by SHA-1) with the j-th recorded digest.
   v2: every file is cut on its own; see v2_file_spec. *)
From TF Require Import Lib.Base Lib.Chunks.

Fixpoint map2 {A B C : Type} (f : A -> B -> C) (la : list A) (lb : list B) : list C :=
  match la, lb with
  | a :: la', b :: lb' => f a b :: map2 f la' lb'
  | _, _ => []
  end.

Definition zero_fill (L : nat) (od : option bytes) : bytes :=
  match od with
  | None => zeros L
  | Some d => d ++ zeros (L - length d)
  end.

Definition file_within (L : nat) (od : option bytes) : Prop :=
  match od with
  | None => True
  | Some d => length d <= L
  end.

Fixpoint disk_within (lens : list nat) (disk : list (option bytes)) : Prop :=
  match lens, disk with
  | L :: lens', od :: disk' => file_within L od /\ disk_within lens' disk'
  | _, _ => True
  end.

(* Python `chunk == piece` on bytes objects *)
Fixpoint bytes_eqb (a b : bytes) : bool :=
  match a, b with
  | [], [] => true
  | x :: a', y :: b' => Ascii.eqb x y && bytes_eqb a' b'
  | _, _ => false
  end.

Definition sum_nat (l : list nat) : nat := fold_right Nat.add 0 l.

(* bookkeeping of Checker.iter_hashes, specification level: a trace is a list of
   (verdict, size) *)
Definition consumed_of (tr : list (bool * nat)) : nat := sum_nat (map snd tr).
Definition matched_of (tr : list (bool * nat)) : nat :=
  sum_nat (map (fun vs : bool * nat => if fst vs then snd vs else 0) tr).

(* one entry of the stream produced by a piece checker: (hash of what is on disk, recorded hash,
   number of payload bytes judged) ; Checker.iter_hashes turns it into a verdict *)
Definition entry := (bytes * bytes * nat)%type.
Definition verdict_of (e : entry) : bool * nat :=
  match e with (chunk, piece, size) => (bytes_eqb chunk piece, size) end.
Definition verdicts (tr : list entry) : list (bool * nat) := map verdict_of tr.

Section V1.
Variable H1 : bytes -> bytes.   (* sha1(...).digest() *)

Definition spec_stream_v1 (lens : list nat) (disk : list (option bytes)) : bytes :=
  concat (map2 zero_fill lens disk).

Definition spec_pieces_v1 (pl : nat) (lens : list nat) (disk : list (option bytes)) : list bytes :=
  chunks pl (spec_stream_v1 lens disk).

(* the n-th piece (counted from j) is paired with the n-th recorded digest; `recorded` is
   info.pieces cut into 20-byte digests, and a slice beyond the end of a Python bytes object is
   b"" (default []) *)
Fixpoint pair_recorded (recorded : list bytes) (j : nat) (ps : list bytes) : list entry :=
  match ps with
  | [] => []
  | p :: ps' => (H1 p, nth j recorded [], length p) :: pair_recorded recorded (S j) ps'
  end.

Definition spec_trace_v1 (pl : nat) (lens : list nat) (disk : list (option bytes))
  (recorded : list bytes) : list entry :=
  pair_recorded recorded 0 (spec_pieces_v1 pl lens disk).

End V1.

Section V2.
Variable H256 : bytes -> bytes.   (* sha256(...).digest() *)

(* A listed file as the v2/hybrid checker sees it:
     v2_len    recorded length L
     v2_pieces the recorded hashes the file is judged against: the file's piece layer cut into
               32-byte hashes if L > pl, else [pieces root]
     v2_disk   None = absent; Some hs = present, hs the layer hashes FileHasher(hybrid=False)
               yields for the bytes on disk (ceil_div (length d) pl of them) *)
Record v2_file := { v2_len : nat; v2_pieces : list bytes; v2_disk : option (list bytes) }.

Definition v2_size (pl L j : nat) : nat := Nat.min pl (L - j * pl).

Definition v2_disk_hashes (od : option (list bytes)) : list bytes :=
  match od with Some hs => hs | None => [] end.

(* piece j of a file: hash found (the hasher's j-th layer hash while it lasts, then the hash the
   tool defines for wholly missing data: SHA-256 of that many zero BYTES), the j-th recorded hash,
   the number of payload bytes the piece covers *)
Definition v2_file_spec (pl : nat) (f : v2_file) : list entry :=
  map (fun j => (nth j (v2_disk_hashes (v2_disk f)) (H256 (zeros (v2_size pl (v2_len f) j))),
                 nth j (v2_pieces f) [],
                 v2_size pl (v2_len f) j))
      (seq 0 (ceil_div (v2_len f) pl)).

Definition spec_trace_v2 (pl : nat) (files : list v2_file) : list entry :=
  concat (map (v2_file_spec pl) files).

End V2.
