(* Well-formed metafiles: what it means for a decoded metafile value to DESCRIBE a payload, per BEP 3 (v1),
   BEP 47 (padding files), BEP 52 (v2 and hybrid) -- stated on the decoded value with `lookup` only, independently of
   the creator models of Model/Creators.v (only the content trees [node] / [files_of] and the key constants the checker
   model reads are shared) -- and a specification-level REFERENCE ENCODER mirroring harness/ref/oracle.py
   `ref_metafile(name, files, pl, version, single, extra_top, extra_info, trailing_pad)`.
   Executable where it is a function; no proofs here (Proofs/WellFormedMetafiles.v).

   Dictionaries.  Everything is said through `lookup` (the first binding of a key, which is what the decoded Python dict
   answers for a duplicate-free file), so arbitrary OTHER keys may be present at the top level, in info, in the entries of
   info["files"], in file-tree leaves and in "piece layers".
   Order.  The entries of a v1 files list are in list order (that order is the piece stream).  The file tree of a v2
   metafile is matched entry by entry against the content tree [node] IN THE ORDER OF THE DICTIONARY; since a [node]
   lists every directory in an arbitrary enumeration order and `holds fs base t` does not depend on that order, this covers
   file trees in ANY dictionary order (take t enumerated the way the dictionary is written): no sortedness is required. *)
From TF Require Import Lib.Base Lib.Lex Lib.Chunks Lib.Decimal Spec.Bep52 Model.Bencode Model.CheckPaths
                       Model.Creators Model.RecheckInit.
From Coq Require Import Permutation.
From Coq Require String.

(* ------------------------------------------------------------------------------------------ *)
(* 1. v1 layouts (BEP 3, BEP 47)                                                               *)
(* ------------------------------------------------------------------------------------------ *)

(* BEP 47: attr is a string of flag characters; "p" marks a padding file *)
Definition has_p (a : bytes) : bool := existsb (Ascii.eqb "p"%char) a.

(* one entry of the piece stream: a file of the payload (with the entry's "attr", if it has one), or a padding file of
   n zero bytes that exists only in the metafile *)
Inductive slot : Type :=
| FileSlot (path : list bytes) (attr : option bytes) (data : bytes)
| PadSlot (path : list bytes) (attr : bytes) (n : nat).

Definition slot_path (s : slot) : list bytes :=
  match s with FileSlot p _ _ => p | PadSlot p _ _ => p end.
Definition slot_attr (s : slot) : option bytes :=
  match s with FileSlot _ a _ => a | PadSlot _ a _ => Some a end.
Definition slot_len (s : slot) : nat :=
  match s with FileSlot _ _ d => length d | PadSlot _ _ n => n end.
Definition slot_bytes (s : slot) : bytes :=
  match s with FileSlot _ _ d => d | PadSlot _ _ n => zeros n end.
(* what the payload holds for the entry *)
Definition slot_disk (s : slot) : option bytes :=
  match s with FileSlot _ _ d => Some d | PadSlot _ _ _ => None end.
(* a file entry's attr (if any) has no "p"; a padding entry's has *)
Definition slot_ok (s : slot) : Prop :=
  match s with
  | FileSlot _ None _ => True
  | FileSlot _ (Some a) _ => has_p a = false
  | PadSlot _ a _ => has_p a = true
  end.

Definition layout := list slot.
Definition layout_stream (lay : layout) : bytes := concat (map slot_bytes lay).
Definition layout_size (lay : layout) : nat := fold_right Nat.add 0 (map slot_len lay).
Fixpoint file_slots (lay : layout) : list (list bytes * bytes) :=
  match lay with
  | [] => []
  | FileSlot p _ d :: r => (p, d) :: file_slots r
  | PadSlot _ _ _ :: r => file_slots r
  end.

(* the layout lists exactly the files of the payload (a single-file payload is the one file at the empty path) *)
Definition layout_of_payload (lay : layout) (t : node) : Prop :=
  Permutation (file_slots lay) (files_of [] t).

(* an element of info["files"] describes a slot *)
Definition item_describes (it : value) (s : slot) : Prop :=
  exists d, it = BDict d /\
    lookup ck_length d = Some (BInt (Z.of_nat (slot_len s))) /\
    lookup ck_path d = Some (BList (map BStr (slot_path s))) /\ slot_path s <> [] /\
    lookup ck_attr d = option_map BStr (slot_attr s).

(* the outer shape every metafile has *)
Definition header (m : value) (meta info : dict) (name : bytes) (pl : nat) : Prop :=
  m = BDict meta /\ lookup ck_info meta = Some (BDict info) /\
  lookup ck_name info = Some (BStr name) /\
  lookup rk_piece_length info = Some (BInt (Z.of_nat pl)).

Section Describes.
Variable H1 : bytes -> bytes.        (* SHA-1 *)
Variable H256 : bytes -> bytes.      (* SHA-256 *)
Variable B : nat.                    (* block size (16 KiB) *)
Variable k : nat.                    (* piece length = B * 2^k *)

(* the v1 keys of info: "pieces" = the SHA-1 digests of the pl-slices of the stream; "length" for a single file
   (and then no "files"), else "files" = one dictionary per slot, in order (and no "length") *)
Definition v1_part (info : dict) (pl : nat) (lay : layout) : Prop :=
  lookup ck_pieces info = Some (BStr (concat (map H1 (chunks pl (layout_stream lay))))) /\
  Forall slot_ok lay /\
  ( (exists d, lay = [FileSlot [] None d] /\
               lookup ck_length info = Some (BInt (Z.of_nat (length d))) /\ lookup ck_files info = None)
    \/
    (lookup ck_length info = None /\
     exists items, lookup ck_files info = Some (BList items) /\ Forall2 item_describes items lay) ).

Definition describes_v1 (m : value) (name : bytes) (pl : nat) (lay : layout) : Prop :=
  exists meta info, header m meta info name pl /\
    lookup ck_meta_version info = None /\ v1_part info pl lay.

(* ---- v2 (BEP 52) ---- *)

(* the dictionary under the "" key of a file: its length and, for a non-empty file only, its pieces root *)
Definition leaf_describes (d : bytes) (leaf : value) : Prop :=
  exists l, leaf = BDict l /\ lookup ck_length l = Some (BInt (Z.of_nat (length d))) /\
    lookup ck_pieces_root l = (if length d =? 0 then None else Some (BStr (bep52_root H256 B d))).

(* a file node: a dictionary with the "" key *)
Definition file_node (d : bytes) (sub : dict) : Prop :=
  exists leaf, lookup ck_empty sub = Some leaf /\ leaf_describes d leaf.

(* a node of the file tree against a node of the payload; directories entry by entry, in dictionary order *)
Inductive node_describes : node -> value -> Prop :=
| nd_file d sub : file_node d sub -> node_describes (File d) (BDict sub)
| nd_dir es sub :
    lookup ck_empty sub = None ->
    Forall2 (fun (e : bytes * node) (kv : bytes * value) =>
               fst kv = fst e /\ node_describes (snd e) (snd kv)) es sub ->
    node_describes (Dir es) (BDict sub).

Definition entry_describes (e : bytes * node) (kv : bytes * value) : Prop :=
  fst kv = fst e /\ node_describes (snd e) (snd kv).

(* "piece layers" has, under the root of every file longer than a piece, that file's piece layer *)
Definition layers_describe (layers : dict) (pl : nat) (t : node) : Prop :=
  forall p d, In (p, d) (files_of [] t) -> pl < length d ->
    lookup (bep52_root H256 B d) layers = Some (BStr (concat (bep52_piece_layer H256 B k d))).

(* the v2 keys: info["file tree"], top-level "piece layers".  A single-file payload is {name: {"": leaf}}; BEP 52 has no
   info.length (the first alternative; the tool itself writes one: the second) *)
Definition v2_part (meta info : dict) (name : bytes) (pl : nat) (t : node) : Prop :=
  exists tree layers,
    lookup ck_file_tree info = Some (BDict tree) /\
    lookup rk_piece_layers meta = Some (BDict layers) /\
    layers_describe layers pl t /\
    match t with
    | File d =>
        (exists sub, tree = [(name, BDict sub)] /\ file_node d sub) /\
        ((lookup ck_length info = None /\ lookup ck_pieces info = None) \/
         lookup ck_length info = Some (BInt (Z.of_nat (length d))))
    | Dir es => lookup ck_length info = None /\ Forall2 entry_describes es tree
    end.

Definition describes_v2 (m : value) (name : bytes) (pl : nat) (t : node) : Prop :=
  exists meta info, header m meta info name pl /\
    lookup ck_meta_version info = Some (BInt 2) /\ lookup ck_pieces info = None /\
    v2_part meta info name pl t.

(* hybrid: both descriptions in one info dictionary; the v1 files list may carry padding entries (after any file, the
   last one included or not) *)
Definition describes_hybrid (m : value) (name : bytes) (pl : nat) (lay : layout) (t : node) : Prop :=
  exists meta info, header m meta info name pl /\
    lookup ck_meta_version info = Some (BInt 2) /\
    v1_part info pl lay /\ layout_of_payload lay t /\ v2_part meta info name pl t.

End Describes.

(* ------------------------------------------------------------------------------------------ *)
(* 2. The reference encoder (harness/ref/oracle.py ref_metafile)                                *)
(* ------------------------------------------------------------------------------------------ *)
(* Differences of presentation only: the payload is a content tree t instead of the flat list `files` + the flag
   `single` (files = files_of [] t "in tree order", single = is_file t; file_tree_dict(files) is then the tree of t);
   the result is the decoded value of the bytes `bencode(top)`: the dictionaries the encoder assembles key by key (top,
   info, piece layers) are sorted, the others are written in sorted key order to begin with (attr < length < path,
   length < pieces root), the file tree is in the order of t (sorted when t is), extra values are taken as they are. *)

Module RefKeys.
  Import String.
  Local Open Scope string_scope.
  Definition s_attr_p : bytes := Eval compute in CPKeys.b "p".
  Definition s_dot_pad : bytes := Eval compute in CPKeys.b ".pad".
End RefKeys.
Export RefKeys.

(* top.update(extra) *)
Definition update_all (extra d : dict) : dict :=
  fold_left (fun acc kv => update (fst kv) (snd kv) acc) extra d.

(* -len(data) % pl *)
Definition gap_of (pl n : nat) : nat := (pl - n mod pl) mod pl.

(* the keys the encoder itself uses: the extra dictionaries must not contain them *)
Definition used_info_keys : list bytes :=
  [ck_name; rk_piece_length; ck_meta_version; ck_file_tree; ck_length; ck_files; ck_pieces].
Definition used_top_keys : list bytes := [ck_info; rk_piece_layers].
Definition extras_ok (extra_top extra_info : dict) : Prop :=
  (forall key, In key used_top_keys -> ~ In key (map fst extra_top)) /\
  (forall key, In key used_info_keys -> ~ In key (map fst extra_info)).
Definition extras_okb (extra_top extra_info : dict) : bool :=
  forallb (fun key => negb (existsb (bytes_eqb key) (map fst extra_top))) used_top_keys &&
  forallb (fun key => negb (existsb (bytes_eqb key) (map fst extra_info))) used_info_keys.

(* flist.append({"length": len(data), "path": comps}) / flist.append({"attr": "p", "length": gap, "path": [".pad", str(gap)]}):
   the dictionary of a slot, keys in sorted order *)
Definition slot_item (s : slot) : value :=
  BDict ((match slot_attr s with Some a => [(ck_attr, BStr a)] | None => [] end) ++
         [(ck_length, BInt (Z.of_nat (slot_len s))); (ck_path, BList (map BStr (slot_path s)))]).

(* the loop over `files`: every file, followed by a padding file to the next piece boundary when [pads] is set, the gap is
   not 0 and the file is not the last one (or trailing_pad is set) *)
Fixpoint ref_layout (pads trailing_pad : bool) (pl : nat) (files : list (list bytes * bytes)) : layout :=
  match files with
  | [] => []
  | f :: rest =>
      let gap := gap_of pl (length (snd f)) in
      let last := match rest with [] => true | _ :: _ => false end in
      FileSlot (fst f) None (snd f) ::
      (if pads && negb (gap =? 0) && (negb last || trailing_pad)
       then [PadSlot [s_dot_pad; dec_of_nat gap] s_attr_p gap] else []) ++
      ref_layout pads trailing_pad pl rest
  end.

Section Ref.
Variable H1 : bytes -> bytes.
Variable H256 : bytes -> bytes.
Variable B : nat.

(* per = pl // BLOCK = 2^k *)
Definition ref_k (pl : nat) : nat := Nat.log2 (pl / B).

(* leaf = {"length": len(data)}; if data: leaf["pieces root"] = pieces_root(data) *)
Definition ref_leaf (d : bytes) : value :=
  BDict ((ck_length, BInt (Z.of_nat (length d))) ::
         (if length d =? 0 then [] else [(ck_pieces_root, BStr (bep52_root H256 B d))])).

(* file_tree_dict *)
Fixpoint ref_tree (t : node) : dict :=
  match t with
  | File d => [(ck_empty, ref_leaf d)]
  | Dir es => map (fun e => (fst e, BDict (ref_tree (snd e)))) es
  end.

(* for _, data in files: if len(data) > pl: layers[pieces_root(data)] = b"".join(piece_layer(data, pl)) *)
Definition ref_layer_step (pl : nat) (L : dict) (f : list bytes * bytes) : dict :=
  if pl <? length (snd f)
  then update (bep52_root H256 B (snd f)) (BStr (concat (bep52_piece_layer H256 B (ref_k pl) (snd f)))) L
  else L.
Definition ref_layers (pl : nat) (files : list (list bytes * bytes)) : dict :=
  fold_left (ref_layer_step pl) files [].

(* the v1 layout the encoder hashes: the single file alone; else the files, with padding files when [pads] *)
Definition ref_v1_layout (pads trailing_pad : bool) (pl : nat) (t : node) : layout :=
  match t with
  | File d => [FileSlot [] None d]
  | Dir _ => ref_layout pads trailing_pad pl (files_of [] t)
  end.

(* ref_metafile; [v1] / [v2] = version in (1, 3) / version in (2, 3); [pads] = padding files in the v1 list (the Python
   encoder: exactly when version == 3; pads with v1 alone is a BEP 47 v1 metafile, which the Python encoder cannot write) *)
Definition ref_metafile_gen (v1 v2 pads : bool) (name : bytes) (t : node) (pl : nat)
    (extra_top extra_info : dict) (trailing_pad : bool) : value :=
  let info : dict := [(ck_name, BStr name); (rk_piece_length, BInt (Z.of_nat pl))] in
  let top : dict := [] in
  let info :=
    if v2 then
      update ck_file_tree
        (BDict (match t with File _ => [(name, BDict (ref_tree t))] | Dir _ => ref_tree t end))
        (update ck_meta_version (BInt 2) info)
    else info in
  let top :=
    if v2 then update rk_piece_layers (BDict (sort_keys (ref_layers pl (files_of [] t)))) top else top in
  let lay := ref_v1_layout pads trailing_pad pl t in
  let info :=
    if v1 then
      update ck_pieces (BStr (concat (map H1 (chunks pl (layout_stream lay)))))
        (match t with
         | File d => update ck_length (BInt (Z.of_nat (length d))) info
         | Dir _ => update ck_files (BList (map slot_item lay)) info
         end)
    else info in
  let info := update_all extra_info info in
  let top := update ck_info (BDict (sort_keys info)) top in
  BDict (sort_keys (update_all extra_top top)).

Definition ref_metafile_v1 := ref_metafile_gen true false false.
Definition ref_metafile_v1_padded := ref_metafile_gen true false true.     (* BEP 47 padding files in a v1 metafile *)
Definition ref_metafile_v2 := ref_metafile_gen false true false.           (* single file: NO info.length *)
Definition ref_metafile_hybrid := ref_metafile_gen true true true.         (* inner pads; trailing pad only on request *)

(* ref_metafile(name, files, pl, version, ...) *)
Definition ref_metafile (version : nat) : bytes -> node -> nat -> dict -> dict -> bool -> value :=
  match version with
  | 1 => ref_metafile_v1
  | 2 => ref_metafile_v2
  | _ => ref_metafile_hybrid
  end.

End Ref.
