(* Lexical POSIX path semantics: the functions of Python's posixpath / pathlib (CPython 3.12) that the
   metafile creators of torrentfile/torrent.py apply to the content path, one Gallina function per
   Python function.  Executable and total; every lemma is in Proofs/PathSemProofs.v.  The harness
   (harness/props/c08.py) evaluates these functions with vm_compute on generated path strings and
   compares with os.path / pathlib of the interpreter that runs /repo.

   Where the creators use them
     MetaFile.__init__        self.name = os.path.basename(os.path.abspath(self.path))        [name_of]
     TorrentFile.assemble     os.path.relpath(path, self.path).split(os.sep)                  [rel_components]
                              for path in filelist, filelist = str(Path(self.path)/a/b/...)   [pathlib_descend]
     the three _traverse      os.path.relpath(path, self.path).split(os.sep)
                              for path = os.path.join(os.path.join(self.path, a), b) ...      [child_path]

   Modelling assumptions
   * A path string is its UTF-8 encoding, a list of bytes.  "/" and "." are ASCII and no byte of a multi-byte
     UTF-8 sequence equals either, so splitting at "/" and comparing components with "." / ".." commute with
     the encoding.  NUL is excluded (the C implementation of normpath stops there; no file name contains it).
   * POSIX flavour only (os.sep = "/", no drive, no altsep).
   * os.getcwd() is a parameter [cwd] of everything that consults it.  The theorems assume it absolute.
   * POSIX keeps exactly two leading slashes apart from one or three and more; so does posixpath.normpath,
     so does pathlib, and so does this model ([initial_slashes]).
   * os.path.relpath("") raises ValueError; [relpath] is total (it returns what the rest of the Python
     function would compute).  MetaFile.__init__ rejects an empty path before any of this runs.
   * Only lexical processing: no symbolic links (os.path.abspath does not resolve them either). *)
From TF Require Import Lib.Base Lib.Lex.
From Coq Require String.

Definition path := bytes.

(* a string literal as a path *)
Definition pth (s : String.string) : path := String.list_ascii_of_string s.
Arguments pth s%string_scope.

Definition sep : ascii := "/"%char.
Definition is_sep (c : ascii) : bool := Ascii.eqb c sep.
Definition dot : path := ["."%char].
Definition dotdot : path := ["."%char; "."%char].
Definition is_nil {A} (l : list A) : bool := match l with [] => true | _ :: _ => false end.

(* ------------------------------------------------------------------------------------------ *)
(* str.split("/") and "/".join(...)                                                            *)
(* ------------------------------------------------------------------------------------------ *)

(* s.split("/"): never the empty list; "" -> [""], "/" -> ["", ""], "a//b" -> ["a", "", "b"] *)
Fixpoint split_path (s : path) : list path :=
  match s with
  | [] => [[]]
  | c :: r =>
      if is_sep c then [] :: split_path r
      else match split_path r with
           | h :: t => (c :: h) :: t
           | [] => [[c]]
           end
  end.

(* "/".join(l) *)
Fixpoint join_sep (l : list path) : path :=
  match l with
  | [] => []
  | a :: r => match r with [] => a | _ :: _ => a ++ sep :: join_sep r end
  end.

(* ------------------------------------------------------------------------------------------ *)
(* isabs, join, splitroot, basename, split                                                     *)
(* ------------------------------------------------------------------------------------------ *)

(* isabs(s) = s.startswith("/") *)
Definition is_abs (s : path) : bool := match s with c :: _ => is_sep c | [] => false end.

(* s.endswith("/") *)
Fixpoint ends_sep (s : path) : bool :=
  match s with
  | [] => false
  | c :: r => match r with [] => is_sep c | _ :: _ => ends_sep r end
  end.

(* posixpath.join(a, b):
     if b.startswith(sep): path = b
     elif not path or path.endswith(sep): path += b
     else: path += sep + b *)
Definition join (a b : path) : path :=
  if is_abs b then b
  else if is_nil a || ends_sep a then a ++ b
  else a ++ sep :: b.

(* posixpath.join(a, *p) *)
Definition join_all (l : list path) : path :=
  match l with [] => [] | a :: p => fold_left join p a end.

(* len(splitroot(s)[1]): 0, 1, or 2 for exactly two leading slashes *)
Definition initial_slashes (s : path) : nat :=
  match s with
  | [] => 0
  | c1 :: r1 =>
      if is_sep c1 then
        match r1 with
        | [] => 1
        | c2 :: r2 =>
            if is_sep c2 then
              match r2 with
              | [] => 2
              | c3 :: _ => if is_sep c3 then 1 else 2
              end
            else 1
        end
      else 0
  end.

(* basename(p) = p[p.rfind("/") + 1:] -- the last element of p.split("/") *)
Definition basename (p : path) : path := last (split_path p) [].

(* s.rstrip("/") *)
Fixpoint lstrip_sep (s : path) : path :=
  match s with [] => [] | c :: r => if is_sep c then lstrip_sep r else s end.
Definition rstrip_sep (s : path) : path := rev (lstrip_sep (rev s)).

(* posixpath.split(p):
     i = p.rfind(sep) + 1; head, tail = p[:i], p[i:]
     if head and head != sep*len(head): head = head.rstrip(sep) *)
Definition os_split (p : path) : path * path :=
  let tail := basename p in
  let head := firstn (length p - length tail) p in
  let head := if negb (is_nil head) && negb (forallb is_sep head) then rstrip_sep head else head in
  (head, tail).

(* ------------------------------------------------------------------------------------------ *)
(* normpath                                                                                    *)
(*   if path == "": return "."                                                                 *)
(*   _, initial_slashes, path = splitroot(path)                                                *)
(*   for comp in path.split("/"):                                                              *)
(*       if comp in ("", "."): continue                                                        *)
(*       if (comp != ".." or (not initial_slashes and not new_comps)                           *)
(*               or (new_comps and new_comps[-1] == "..")): new_comps.append(comp)             *)
(*       elif new_comps: new_comps.pop()                                                       *)
(*   path = initial_slashes + "/".join(new_comps); return path or "."                          *)
(* The stack [new_comps] is kept reversed (top first).  The model splits the whole string, not *)
(* the part after the root: the root contributes empty components only, which are skipped.     *)
(* ------------------------------------------------------------------------------------------ *)

Definition norm_step (rooted : bool) (stack : list path) (comp : path) : list path :=
  if bytes_eqb comp [] || bytes_eqb comp dot then stack
  else if negb (bytes_eqb comp dotdot)
          || (negb rooted && is_nil stack)
          || match stack with top :: _ => bytes_eqb top dotdot | [] => false end
       then comp :: stack
       else match stack with [] => [] | _ :: st => st end.

Definition norm_run (rooted : bool) (stack : list path) (comps : list path) : list path :=
  fold_left (norm_step rooted) comps stack.

Definition render (i : nat) (stack : list path) : path :=
  match repeat sep i ++ join_sep (rev stack) with
  | [] => dot
  | p => p
  end.

Definition normpath (s : path) : path :=
  match s with
  | [] => dot
  | _ :: _ =>
      let i := initial_slashes s in
      render i (norm_run (0 <? i) [] (split_path s))
  end.

(* abspath(path): if not isabs(path): path = join(os.getcwd(), path); return normpath(path) *)
Definition abspath (cwd s : path) : path :=
  normpath (if is_abs s then s else join cwd s).

(* ------------------------------------------------------------------------------------------ *)
(* relpath(path, start)                                                                        *)
(*   start_list = [x for x in abspath(start).split(sep) if x]                                  *)
(*   path_list = [x for x in abspath(path).split(sep) if x]                                    *)
(*   i = len(commonprefix([start_list, path_list]))                                            *)
(*   rel_list = [pardir] * (len(start_list)-i) + path_list[i:]                                 *)
(*   if not rel_list: return curdir                                                            *)
(*   return join( *rel_list)                                                                    *)
(* commonprefix of two lists is their longest common prefix (min/max of two lists are the two  *)
(* lists, and the minimum is never longer than the point where they differ).                   *)
(* ------------------------------------------------------------------------------------------ *)

Definition nonempty_comps (s : path) : list path :=
  filter (fun c => negb (is_nil c)) (split_path s).

Fixpoint common_prefix_len (a b : list path) : nat :=
  match a, b with
  | x :: a', y :: b' => if bytes_eqb x y then S (common_prefix_len a' b') else 0
  | _, _ => 0
  end.

Definition relpath (cwd p start : path) : path :=
  let start_list := nonempty_comps (abspath cwd start) in
  let path_list := nonempty_comps (abspath cwd p) in
  let i := common_prefix_len start_list path_list in
  let rel_list := repeat dotdot (length start_list - i) ++ skipn i path_list in
  match rel_list with
  | [] => dot
  | _ :: _ => join_all rel_list
  end.

(* ------------------------------------------------------------------------------------------ *)
(* pathlib (PurePosixPath): _parse_path, _format_parsed_parts / __str__, _make_child_relpath   *)
(* ------------------------------------------------------------------------------------------ *)

(* _parse_path: root = splitroot(path)[1]; tail = [x for x in rel.split("/") if x and x != "."] *)
Definition pathlib_root (s : path) : path := repeat sep (initial_slashes s).
Definition pathlib_tail (s : path) : list path :=
  filter (fun c => negb (bytes_eqb c [] || bytes_eqb c dot)) (split_path s).

(* str(Path(s)) = (root + "/".join(tail)) or "." *)
Definition pathlib_str (s : path) : path :=
  match pathlib_root s ++ join_sep (pathlib_tail s) with
  | [] => dot
  | p => p
  end.

(* _make_child_relpath(name), the string of a child yielded by iterdir():
     path_str = str(self)
     if tail: path_str = f"{path_str}/{name}"
     elif path_str != ".": path_str = f"{path_str}{name}"
     else: path_str = name *)
Definition pathlib_child_str (s name : path) : path :=
  let path_str := pathlib_str s in
  if negb (is_nil (pathlib_tail s)) then path_str ++ sep :: name
  else if negb (bytes_eqb path_str dot) then path_str ++ name
  else name.

(* utils._filelist_total: the string recorded for the file reached from Path(s) through the directory
   entries [names]: each level is `for item in path.iterdir(): filelist_total(item)` which builds
   Path(item) again from the child's string, and a file contributes str(path). *)
Fixpoint pathlib_descend (s : path) (names : list path) : path :=
  match names with
  | [] => pathlib_str s
  | n :: r => pathlib_descend (pathlib_child_str s n) r
  end.

(* the three _traverse methods: path = os.path.join(path, name) at each level, starting at self.path *)
Definition child_path (s : path) (names : list path) : path := fold_left join names s.

(* ------------------------------------------------------------------------------------------ *)
(* What the creators record                                                                    *)
(* ------------------------------------------------------------------------------------------ *)

(* self.name = os.path.basename(os.path.abspath(self.path)) *)
Definition name_of (cwd s : path) : path := basename (abspath cwd s).

(* os.path.relpath(path, self.path).split(os.sep) *)
Definition rel_components (cwd p start : path) : list path := split_path (relpath cwd p start).

(* the expressions before commit a68fdb6 (D12):
     MetaFile.__init__:   parent, self.name = os.path.split(self.path)
                          if not self.name: self.name = os.path.basename(parent)
     TorrentFileHybrid / TorrentAssembler.__init__ then overwrote it:
                          self.name = os.path.basename(self.path) *)
Definition old_name (s : path) : path :=
  let '(parent, name) := os_split s in
  if is_nil name then basename parent else name.
Definition old_name_v2 (s : path) : path := basename s.

(* ------------------------------------------------------------------------------------------ *)
(* Spellings of one location                                                                   *)
(* ------------------------------------------------------------------------------------------ *)

(* contains a character other than "/" *)
Definition has_name (s : path) : bool := existsb (fun c => negb (is_sep c)) s.

(* a directory entry name that is not "." or "..": non-empty, without "/" *)
Definition plain (c : path) : Prop :=
  c <> [] /\ c <> dot /\ c <> dotdot /\ forallb (fun x => negb (is_sep x)) c = true.

(* a position [pre | post] of a path string at which a whole segment can be inserted: the very beginning of a
   relative path, or just behind a separator -- but not inside the run of leading slashes of an absolute path
   when what follows starts with another slash ("/" ++ "./" ++ "/x" would turn the root "//" into "/") *)
Definition boundary (pre post : path) : Prop :=
  (pre = [] /\ is_abs post = false) \/
  (ends_sep pre = true /\ (has_name pre = true \/ is_abs post = false)).

(* [same_location cwd s s']: s and s' are spellings of the same location for a process whose working directory
   is cwd.  The closure (reflexive, symmetric, transitive) of:
     absolute <-> relative to cwd;  a "." segment inserted at any boundary (at the end: "dir" ~ "dir/" ~
     "dir/./" ~ "dir/.");  a separator doubled;  a trailing separator added;  a detour "x/.." through a plain
     component x inserted at any boundary. *)
Inductive same_location (cwd : path) : path -> path -> Prop :=
| sl_refl s : same_location cwd s s
| sl_sym s s' : same_location cwd s s' -> same_location cwd s' s
| sl_trans s s' s'' : same_location cwd s s' -> same_location cwd s' s'' -> same_location cwd s s''
| sl_absolute s : is_abs s = false -> same_location cwd s (join cwd s)
| sl_dot pre post : boundary pre post ->
    same_location cwd (pre ++ post) (pre ++ dot ++ sep :: post)
| sl_sep pre post : has_name pre = true ->
    same_location cwd (pre ++ sep :: post) (pre ++ sep :: sep :: post)
| sl_trailing s : has_name s = true -> same_location cwd s (s ++ [sep])
| sl_detour pre x post : plain x -> boundary pre post ->
    same_location cwd (pre ++ post) (pre ++ x ++ sep :: dotdot ++ sep :: post).
