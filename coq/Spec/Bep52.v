(* BEP 52 per-file hashing, stated independently of the code.

   A file is cut into blocks of B bytes (B = 16 KiB in the protocol; here any B > 0); the
   leaves of its merkle tree are the SHA-256 digests of the blocks (the last block may be
   short and is hashed as it is); the leaf layer is padded with 32 zero bytes per missing
   leaf up to the next power of two; the root of that balanced binary tree is the file's
   `pieces root`.  The `piece layers` entry of a file is the layer of that tree in which one
   node covers one piece (piece length = B * 2^k), restricted to the nodes that cover real
   data (nodes that cover only padding are omitted).

   H256 is an arbitrary function: nothing below depends on SHA-256. *)
From TF Require Import Lib.Base Lib.Chunks.

Section Bep52.
Variable H256 : bytes -> bytes.
Variable B : nat.                      (* block size, > 0 where it matters *)

Definition zero32 : bytes := zeros 32. (* HASH_SIZE zero bytes *)

(* root of the balanced binary tree of height h over exactly 2^h leaves, by halving *)
Fixpoint tree_root (h : nat) (l : list bytes) : bytes :=
  match h with
  | O => match l with x :: _ => x | [] => [] end
  | S h' => H256 (tree_root h' (firstn (2 ^ h') l) ++ tree_root h' (skipn (2 ^ h') l))
  end.

Definition leaves (data : bytes) : list bytes := map H256 (chunks B data).

(* least h with n <= 2^h (0 for n <= 1); see Proofs/MerkleProofs.v, log2_up_nat_least *)
Definition log2_up_nat (n : nat) : nat := Nat.log2_up n.

(* pad a leaf list with zero hashes up to n entries *)
Definition pad_leaves (n : nat) (l : list bytes) : list bytes :=
  l ++ repeat zero32 (n - length l).

(* pieces root of a non-empty file *)
Definition bep52_root (data : bytes) : bytes :=
  let ls := leaves data in
  let h := log2_up_nat (length ls) in
  tree_root h (pad_leaves (2 ^ h) ls).

(* the piece layer for piece length B * 2^k: one node per piece that contains data *)
Definition bep52_piece_layer (k : nat) (data : bytes) : list bytes :=
  map (fun g => tree_root k (pad_leaves (2 ^ k) g)) (chunks (2 ^ k) (leaves data)).

(* BEP 47 / hybrid: the v1 piece inputs of a single file when it is followed by a pad file:
   the pl-slices of the file, the last one zero-extended to pl *)
Definition pad_piece (pl : nat) (p : bytes) : bytes := p ++ zeros (pl - length p).
Definition v1_inputs_padded (pl : nat) (data : bytes) : list bytes :=
  map (pad_piece pl) (chunks pl data).
Definition v1_inputs_plain (pl : nat) (data : bytes) : list bytes := chunks pl data.
(* length of the pad file that aligns the next file to a piece boundary, if any *)
Definition pad_file_length (pl : nat) (data : bytes) : option nat :=
  if length data mod pl =? 0 then None else Some (pl - length data mod pl).

End Bep52.
