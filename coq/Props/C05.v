(* C05 -- Recheck reports exactly 100% for intact content of any well-formed metafile.
   Statements only; every proof is `exact <lemma>`.  H1 / H256 are arbitrary functions.
   matched = consumed > 0 gives (matched / consumed) * 100 = 100.0 exactly (x / x = 1.0). *)
From TF Require Import Lib.Base Lib.Chunks Spec.Bep52 Spec.RecheckSpec Model.HasherV2 Model.Recheck
  Proofs.RecheckV1 Proofs.RecheckResult Proofs.RecheckV2 Proofs.RecheckBep52.

(* v1: the metafile records the BEP 3 hashing of the payload (any encoder), every listed file is
   on disk with its content: every piece verifies and the whole payload is looked at -- for all
   file sizes (empty files anywhere, files ending on piece boundaries, payload shorter than a
   piece) and all piece lengths *)
Theorem C05_v1_intact : forall (H1 : bytes -> bytes) pl (files : list bytes), 0 < pl ->
  let lens := map (@length _) files in
  let disk := map Some files in
  let recorded := map H1 (chunks pl (concat files)) in
  matched (feed_trace H1 pl lens disk recorded) = consumed (feed_trace H1 pl lens disk recorded) /\
  consumed (feed_trace H1 pl lens disk recorded) = sum_nat lens.
Proof. exact C05_v1. Qed.
Print Assumptions C05_v1_intact.

(* v2 / hybrid: every listed file is on disk and the layer hashes of its bytes are the hashes
   recorded for it, one per piece (v2_intact): every piece verifies, everything is looked at *)
Theorem C05_v2_intact : forall (H256 : bytes -> bytes) pl files,
  0 < pl ->
  Forall (fun f => v2_disk f = Some (v2_pieces f) /\
                   length (v2_pieces f) = ceil_div (v2_len f) pl) files ->
  matched (hash_trace H256 pl files) = consumed (hash_trace H256 pl files) /\
  consumed (hash_trace H256 pl files) = sum_nat (map v2_len files).
Proof. exact C05_v2. Qed.
Print Assumptions C05_v2_intact.

(* every verdict of an intact file is `true` *)
Theorem C05_v2_file_verdicts : forall (H256 : bytes -> bytes) pl f,
  v2_intact pl f ->
  Forall (fun vs : bool * nat => fst vs = true) (verdicts (v2_file_spec H256 pl f)).
Proof. exact v2_intact_file_verdicts. Qed.
Print Assumptions C05_v2_file_verdicts.

(* v1 building blocks: an intact disk state is within the recorded layout, and its zero-filled
   stream is the payload itself *)
Theorem C05_intact_stream_is_payload : forall files : list bytes,
  spec_stream_v1 (map (@length _) files) (map Some files) = concat files.
Proof. exact intact_stream. Qed.
Print Assumptions C05_intact_stream_is_payload.

(* v2 / hybrid against BEP 52 itself: the metafile records, per file, what BEP 52 prescribes
   (bep52_recorded: nothing for an empty file, [pieces root] for a file of at most one piece, its
   piece layer otherwise -- whoever encoded it), every file is on disk with its content and the
   checker hashes it with FileHasher (v2_listed d (Some d): v2_disk = the layer hashes the model
   of FileHasher yields for d).  B = block size, piece length = B * 2^k. *)
Theorem C05_v2_intact_bep52 : forall (H256 : bytes -> bytes) B, 0 < B -> forall k pl, pl = B * 2 ^ k ->
  forall files : list bytes,
  let fs := map (fun d => v2_listed H256 B k pl d (Some d)) files in
  matched (hash_trace H256 pl fs) = consumed (hash_trace H256 pl fs) /\
  consumed (hash_trace H256 pl fs) = sum_nat (map (@length _) files).
Proof. exact C05_v2_bep52. Qed.
Print Assumptions C05_v2_intact_bep52.

(* the step it rests on: on intact content FileHasher reproduces exactly what BEP 52 records *)
Theorem C05_file_hasher_reproduces_bep52 : forall (H256 : bytes -> bytes) B, 0 < B ->
  forall k pl, pl = B * 2 ^ k -> forall d : bytes,
  fh_layers H256 B pl d = bep52_recorded H256 B k pl d.
Proof. exact fh_layers_recorded. Qed.
Print Assumptions C05_file_hasher_reproduces_bep52.

(* ---------------------------------------------------------------------------------------------- *)
(* where the checker looks: Checker.find_root / check_paths (Model/CheckPaths.v)                  *)
(* ---------------------------------------------------------------------------------------------- *)
From TF Require Import Model.Bencode Model.CheckPaths Proofs.CheckPathsProofs.

(* the payload root is taken as it is -- whatever it contains, an entry named like itself included *)
Theorem C05_payload_root_is_itself : forall (exists_ : cpath -> bool) (listdir : cpath -> option (list bytes)) name path,
  exists_ path = true -> last path [] = name -> find_root exists_ listdir name path = Some path.
Proof. exact find_root_payload_root. Qed.
Print Assumptions C05_payload_root_is_itself.

(* the same root through the payload root and through its parent directory; the guard excludes exactly known finding D33 *)
Theorem C05_root_or_parent_partial : forall (exists_ : cpath -> bool) (listdir : cpath -> option (list bytes)) name parent es,
  exists_ parent = true -> exists_ (parent ++ [name]) = true ->
  last parent [] <> name -> listdir parent = Some es -> In name es ->
  find_root exists_ listdir name (parent ++ [name]) = find_root exists_ listdir name parent.
Proof. exact find_root_root_or_parent. Qed.
Print Assumptions C05_root_or_parent_partial.

(* ... and without the guard the statement is false of the code as it is (D33, recorded as a known finding) *)
Theorem C05_parent_named_like_payload_refuted :
  exists (exists_ : cpath -> bool) (listdir : cpath -> option (list bytes)) (name : bytes) (parent : cpath),
    exists_ parent = true /\ exists_ (parent ++ [name]) = true /\ listdir parent = Some [name] /\
    find_root exists_ listdir name (parent ++ [name]) <> find_root exists_ listdir name parent.
Proof. exact find_root_named_like_payload_refuted. Qed.
Print Assumptions C05_parent_named_like_payload_refuted.

(* a specification-conformant single-file v2 metafile (no info.length) checked against a file: one entry, the file itself,
   with the recorded length and root -- the same answer as with the non-standard info.length (D32) *)
Theorem C05_v2_single_file_without_length : forall info name root n r,
  lookup ck_length info = None ->
  meta_version_of info = 2 ->
  lookup ck_file_tree info =
    Some (BDict [(name, BDict [(ck_empty, BDict [(ck_length, BInt n); (ck_pieces_root, BStr r)])])]) ->
  check_paths info name root true = Some ([mk_fi root n (Some r) None], n).
Proof. exact check_paths_v2_single_file_without_length. Qed.
Print Assumptions C05_v2_single_file_without_length.

(* v1, several files: one entry per listed file, in list order, under the root, with the RECORDED length and the recorded
   "attr" if the entry has one (an entry = (path elements, length, attr); a padding entry is recognised by its attr: D39) *)
Theorem C05_v1_files_listed_exactly : forall root (entries : list v1_entry),
  Forall (fun e => ve_path e <> []) entries ->
  v1_files root (map v1_item entries) =
  Some (map (fun e => mk_fi (root ++ ve_path e) (ve_length e) None (ve_attr e)) entries).
Proof. exact v1_files_exact. Qed.
Print Assumptions C05_v1_files_listed_exactly.

(* ---------------------------------------------------------------------------------------------- *)
(* from the integers to the reported float: (matched / consumed) * 100  (Proofs/Percent.v)        *)
(* ---------------------------------------------------------------------------------------------- *)
(* IEEE model: Checker.iter_hashes ends with `self._result = (matched / consumed) * 100`.  CPython's
   int / int is the correctly rounded binary64 value of the exact quotient, and `* 100` is one
   binary64 multiplication; both round to nearest, ties to even.  `percent m c` is
   rnd (rnd (m / c) * 100) over the reals, where rnd is Flocq's rounding to the binary64 format
   (radix 2, FLT_exp (-1074) 53, ZnearestE): the standard characterisation "an IEEE operation returns
   the rounding of the exact result" (no overflow is possible, all values lie in [0, 100]).
   These theorems depend on the axioms of Coq's real numbers that Flocq uses (and on nothing else):
   ClassicalDedekindReals.sig_forall_dec, ClassicalDedekindReals.sig_not_dec,
   FunctionalExtensionality.functional_extensionality_dep, Classical_Prop.classic. *)
From Coq Require Import ZArith Reals.
From TF Require Import Proofs.Percent.

(* every consumed byte matched (matched = consumed > 0): the reported value is exactly 100.0 *)
Theorem C05_float_is_exactly_100 : forall c : Z, (0 < c)%Z -> percent c c = 100%R.
Proof. exact percent_intact. Qed.
Print Assumptions C05_float_is_exactly_100.

(* ---------------------------------------------------------------------------------------------- *)
(* composition: the metafiles THIS TOOL writes satisfy the premises above, end to end             *)
(* (Model/Creators.v -> Model/CheckPaths.v -> Model/RecheckInit.v -> Model/Recheck.v;             *)
(*  Proofs/OwnMetafiles.v)                                                                        *)
(* ---------------------------------------------------------------------------------------------- *)
(* recheck_model fs m path = Checker(m, path) run to exhaustion: Some (self.total, matched, consumed).
   t is the payload as a content tree (any enumeration order of its directories), `holds fs base t` says
   the file system has t at base (root present, a regular file iff t is one, every file of t at
   base/<components> with its content; nothing is assumed about other paths), find_root ... = Some base
   says the checker was pointed at the payload root or at a parent from which it finds it
   (C05_own_root_found).  tree_size t = the payload's byte count. *)
From TF Require Import Model.Creators Model.RecheckInit Proofs.CreatorsProofs Proofs.CreatorsProofs2 Proofs.OwnMetafiles.
Local Open Scope nat_scope.   (* Reals, imported above for the float theorem, put R_scope on top *)

(* v1 without --align, directory or single file, every option set, every piece length > 0 *)
Theorem C05_own_v1_metafiles_verify : forall (H1 H256 : bytes -> bytes) (B : nat),
  (forall x, length (H1 x) = 20) ->
  forall o rootstr name pl t fs base path,
  0 < pl -> wf_node t -> has_file t ->
  find_root (fs_exists fs) (fs_listdir fs) name path = Some base -> holds fs base t ->
  recheck_model H1 H256 B fs (create_v1 H1 false o rootstr name pl t) path =
  Some (Z.of_nat (tree_size t), tree_size t, tree_size t).
Proof. exact own_v1_plain_verify. Qed.
Print Assumptions C05_own_v1_metafiles_verify.

(* v1 with --align: the pad entries are accounted as zeros WHATEVER the file system holds at their paths -- in particular
   for a payload that has a file of its own at .pad/<n> (the repair of D39: a padding entry is recognised by its "attr");
   the recorded size is every file rounded up to the piece length (C05_own_v1_aligned_size) *)
Theorem C05_own_v1_metafiles_verify_aligned : forall (H1 H256 : bytes -> bytes) (B : nat),
  (forall x, length (H1 x) = 20) ->
  forall o rootstr name pl t fs base path,
  0 < pl -> wf_node t -> has_file t ->
  find_root (fs_exists fs) (fs_listdir fs) name path = Some base -> holds fs base t ->
  let n := v1_recorded_size true rootstr pl t in
  recheck_model H1 H256 B fs (create_v1 H1 true o rootstr name pl t) path = Some (Z.of_nat n, n, n).
Proof. exact own_v1_aligned_verify. Qed.
Print Assumptions C05_own_v1_metafiles_verify_aligned.

(* a padding entry is zeros for FeedChecker whatever the disk holds at its path (the glue of Model/RecheckInit.v) *)
Theorem C05_padding_entry_is_zeros : forall fs path n r,
  feed_entry fs (mk_fi path n r (Some ["p"%char])) = Some None.
Proof. exact feed_entry_padding. Qed.
Print Assumptions C05_padding_entry_is_zeros.

Theorem C05_own_v1_aligned_size : forall rootstr pl es,
  v1_recorded_size true rootstr pl (Dir es) =
  RecheckSpec.sum_nat (map (fun f => length (snd f) + Hasher.neg_mod (length (snd f)) pl) (files_of [] (Dir es))).
Proof. exact v1_recorded_size_aligned. Qed.
Print Assumptions C05_own_v1_aligned_size.

(* ... which was false of the code before that repair (recheck_model_old: iter_pieces reading every existing path): a
   payload with a file of its own at a pad path was hashed as zeros by the creator and read from disk by FeedChecker --
   intact content, 4 of 8 bytes matched (real code before 5b63ee0: 50.0 for {.pad/1, a of 16383 bytes}, 16 KiB, align) *)
Theorem C05_own_v1_aligned_pad_path_collision_before_repair_refuted :
  exists (H1 H256 : bytes -> bytes) (B : nat) o rootstr name pl t fs base,
    (forall x, length (H1 x) = 20) /\ 0 < pl /\ wf_node t /\ has_file t /\ last base [] = name /\
    holds fs base t /\
    recheck_model_old H1 H256 B fs (create_v1 H1 true o rootstr name pl t) base = Some (8%Z, 4, 8).
Proof. exact aligned_pad_path_collision_before_repair_refuted. Qed.
Print Assumptions C05_own_v1_aligned_pad_path_collision_before_repair_refuted.

(* v2: TorrentFileV2 and TorrentAssembler(meta_version 2) (v2_output = either).  no_layer_collision: no two
   files larger than a piece have the same root and different piece layers ("piece layers" is keyed by the
   root alone; true of SHA-256 as far as anyone knows, identical files satisfy it) *)
Theorem C05_own_v2_metafiles_verify : forall (H1 H256 : bytes -> bytes) (B : nat), 0 < B ->
  forall k pl, pl = B * 2 ^ k -> (forall x, length (H256 x) = 32) ->
  forall o name t m fs base path,
  wf_node t -> v2_output H1 H256 B pl o name t m -> no_layer_collision H256 B k pl t ->
  find_root (fs_exists fs) (fs_listdir fs) name path = Some base -> holds fs base t ->
  recheck_model H1 H256 B fs m path = Some (Z.of_nat (tree_size t), tree_size t, tree_size t).
Proof. exact own_v2_only_verify. Qed.
Print Assumptions C05_own_v2_metafiles_verify.

(* hybrid: TorrentFileHybrid and TorrentAssembler(meta_version 3); checked by HashChecker (meta_version 3) *)
Theorem C05_own_v2_metafiles_verify_hybrid : forall (H1 H256 : bytes -> bytes) (B : nat), 0 < B ->
  forall k pl, pl = B * 2 ^ k -> (forall x, length (H256 x) = 32) ->
  forall o name t m fs base path,
  wf_node t -> hybrid_output H1 H256 B pl o name t m -> no_layer_collision H256 B k pl t ->
  find_root (fs_exists fs) (fs_listdir fs) name path = Some base -> holds fs base t ->
  recheck_model H1 H256 B fs m path = Some (Z.of_nat (tree_size t), tree_size t, tree_size t).
Proof. exact own_hybrid_verify. Qed.
Print Assumptions C05_own_v2_metafiles_verify_hybrid.

(* the premises of C05_v1_intact / C05_v2_intact_bep52 one by one, as facts about the written metafile:
   where check_paths looks (one entry per file, recorded length = real length) and what is recorded *)
Theorem C05_own_v1_files_listed : forall (H1 : bytes -> bytes) o rootstr name pl es base f,
  let m := create_v1 H1 false o rootstr name pl (Dir es) in
  let fl := snd (filelist_total rootstr (Dir es)) in
  Permutation.Permutation fl (files_of [] (Dir es)) /\
  check_paths (info_of m) name base f =
  Some (map (fun x => mk_fi (base ++ fst x) (Z.of_nat (length (snd x))) None None) fl,
        Z.of_nat (RecheckSpec.sum_nat (map (fun x => length (snd x)) fl))).
Proof. exact own_v1_check_paths. Qed.
Print Assumptions C05_own_v1_files_listed.

Theorem C05_own_v1_recorded_digests : forall (H1 : bytes -> bytes), (forall x, length (H1 x) = 20) ->
  forall o rootstr name pl es, 0 < pl -> has_file (Dir es) ->
  let m := create_v1 H1 false o rootstr name pl (Dir es) in
  let fl := snd (filelist_total rootstr (Dir es)) in
  exists pieces, lookup ck_pieces (info_of m) = Some (BStr pieces) /\
    chunks SHA1_LEN pieces = map H1 (chunks pl (concat (map snd fl))).
Proof. exact own_v1_recorded_digests. Qed.
Print Assumptions C05_own_v1_recorded_digests.

Theorem C05_own_v2_files_listed : forall (H1 H256 : bytes -> bytes) (B : nat), 0 < B ->
  forall k pl, pl = B * 2 ^ k -> forall o name es m base,
  wf_node (Dir es) -> v2_capable_output H1 H256 B pl o name (Dir es) m ->
  check_paths (info_of m) name base false =
  Some (map (fi_of H256 B base) (files_of [] (sort_tree (Dir es))), Z.of_nat (tree_size (Dir es))).
Proof. exact own_v2_check_paths. Qed.
Print Assumptions C05_own_v2_files_listed.

(* the hypotheses are satisfiable: the file system that has nothing but t at base; the root is found from
   itself and from a parent not named like it; a non-empty file makes the size (hence consumed) positive *)
Theorem C05_own_disk_of_holds : forall base t, wf_node t -> holds (disk_of base t) base t.
Proof. exact disk_of_holds. Qed.
Print Assumptions C05_own_disk_of_holds.

Theorem C05_own_root_found : forall fs base t name path,
  holds fs base t -> last base [] = name ->
  path = base \/
  (base = path ++ [name] /\ fs_exists fs path = true /\ last path [] <> name /\
   exists es, fs_listdir fs path = Some es /\ In name es) ->
  find_root (fs_exists fs) (fs_listdir fs) name path = Some base.
Proof. exact holds_find_root. Qed.
Print Assumptions C05_own_root_found.

Theorem C05_own_size_positive : forall t,
  (exists p (d : bytes), In (p, d) (files_of [] t) /\ d <> []) -> 0 < tree_size t.
Proof. exact tree_size_pos. Qed.
Print Assumptions C05_own_size_positive.

(* ---------------------------------------------------------------------------------------------- *)
(* ANY well-formed metafile, whoever encoded it (Spec/MetafileWF.v, Proofs/WellFormedMetafiles.v) *)
(* ---------------------------------------------------------------------------------------------- *)
(* describes_v1 / describes_v2 / describes_hybrid say, with `lookup` only (so arbitrary other keys anywhere, any key
   order), that a decoded metafile value records a payload the way BEP 3 / BEP 47 / BEP 52 prescribe:
   v1: name, piece length, no "meta version", `length` for a single file or `files` = one dictionary per entry of a LAYOUT
       (file entries with length / non-empty path / optional attr without "p"; padding entries with an attr containing
       "p"), `pieces` = SHA-1 of the pl-slices of the layout's stream (padding entries as zeros);
   v2: "meta version" 2, no `pieces`, "file tree" matching the payload node by node in dictionary order (the payload's own
       enumeration order is arbitrary, so ANY dictionary order is covered), leaves = length + (non-empty files) pieces
       root = bep52_root, "piece layers" giving every file longer than a piece its bep52_piece_layer; a single file is
       {name: {"": leaf}} WITHOUT info.length (or with it);
   hybrid: both in one info dictionary, padding entries anywhere in the v1 list, a trailing one or not.
   layout_of_payload lay t: the file entries of the layout are exactly the files of t. *)
From TF Require Import Spec.MetafileWF Proofs.WellFormedMetafiles.

(* BEP 3 / BEP 47.  Nothing is assumed about the file system at the paths of padding entries (D39).  The recorded size is
   the size of the layout: the payload plus its padding entries (C05_wellformed_v1_size_without_pads) *)
Theorem C05_wellformed_v1_metafiles_verify : forall (H1 H256 : bytes -> bytes) (B : nat),
  (forall x, length (H1 x) = 20) ->
  forall m name pl lay t fs base path,
  0 < pl -> describes_v1 H1 m name pl lay -> layout_of_payload lay t ->
  find_root (fs_exists fs) (fs_listdir fs) name path = Some base -> holds fs base t ->
  let n := layout_size lay in
  recheck_model H1 H256 B fs m path = Some (Z.of_nat n, n, n).
Proof. exact wf_v1_verify. Qed.
Print Assumptions C05_wellformed_v1_metafiles_verify.

Theorem C05_wellformed_v1_size_without_pads : forall lay t, layout_of_payload lay t ->
  Forall (fun s => slot_disk s <> None) lay -> layout_size lay = tree_size t.
Proof. exact layout_size_no_pads. Qed.
Print Assumptions C05_wellformed_v1_size_without_pads.

Theorem C05_wellformed_v1_size_positive : forall lay t, layout_of_payload lay t ->
  (exists p (d : bytes), In (p, d) (files_of [] t) /\ d <> []) -> 0 < layout_size lay.
Proof. exact layout_size_pos. Qed.
Print Assumptions C05_wellformed_v1_size_positive.

(* BEP 52, every block size B > 0 and piece length B * 2^k; a single file without info.length included *)
Theorem C05_wellformed_v2_metafiles_verify : forall (H1 H256 : bytes -> bytes) (B : nat), 0 < B ->
  forall k pl, pl = B * 2 ^ k -> (forall x, length (H256 x) = 32) ->
  forall m name t fs base path,
  describes_v2 H256 B k m name pl t ->
  find_root (fs_exists fs) (fs_listdir fs) name path = Some base -> holds fs base t ->
  recheck_model H1 H256 B fs m path = Some (Z.of_nat (tree_size t), tree_size t, tree_size t).
Proof. exact wf_v2_verify. Qed.
Print Assumptions C05_wellformed_v2_metafiles_verify.

(* hybrid (checked by HashChecker: the v1 half is never read, so whatever padding entries it has) *)
Theorem C05_wellformed_hybrid_metafiles_verify : forall (H1 H256 : bytes -> bytes) (B : nat), 0 < B ->
  forall k pl, pl = B * 2 ^ k -> (forall x, length (H256 x) = 32) ->
  forall m name lay t fs base path,
  describes_hybrid H1 H256 B k m name pl lay t ->
  find_root (fs_exists fs) (fs_listdir fs) name path = Some base -> holds fs base t ->
  recheck_model H1 H256 B fs m path = Some (Z.of_nat (tree_size t), tree_size t, tree_size t).
Proof. exact wf_hybrid_verify. Qed.
Print Assumptions C05_wellformed_hybrid_metafiles_verify.

(* the reference encoder (Spec/MetafileWF.v ref_metafile_gen = harness/ref/oracle.py ref_metafile on a content tree; extra
   top-level and info keys that do not clash with the ones it writes) writes values that describe its input *)
Theorem C05_reference_v1_describes : forall (H1 H256 : bytes -> bytes) (B : nat) pads name t pl et ei tp,
  extras_ok et ei ->
  describes_v1 H1 (ref_metafile_gen H1 H256 B true false pads name t pl et ei tp) name pl (ref_v1_layout pads tp pl t).
Proof. exact ref_v1_describes. Qed.
Print Assumptions C05_reference_v1_describes.

Theorem C05_reference_v2_describes : forall (H1 H256 : bytes -> bytes) (B : nat), 0 < B ->
  forall k pl, pl = B * 2 ^ k -> forall name t et ei tp,
  extras_ok et ei -> wf_node t -> no_layer_collision H256 B k pl t ->
  describes_v2 H256 B k (ref_metafile_gen H1 H256 B false true false name t pl et ei tp) name pl t.
Proof. exact ref_v2_describes. Qed.
Print Assumptions C05_reference_v2_describes.

Theorem C05_reference_hybrid_describes : forall (H1 H256 : bytes -> bytes) (B : nat), 0 < B ->
  forall k pl, pl = B * 2 ^ k -> forall pads name t et ei tp,
  extras_ok et ei -> wf_node t -> no_layer_collision H256 B k pl t ->
  describes_hybrid H1 H256 B k (ref_metafile_gen H1 H256 B true true pads name t pl et ei tp) name pl
                   (ref_v1_layout pads tp pl t) t.
Proof. exact ref_hybrid_describes. Qed.
Print Assumptions C05_reference_hybrid_describes.

(* ... hence verify: ref_metafile for version 1, 2 and 3 (anything else = hybrid), v2 single files WITHOUT info.length,
   hybrids WITHOUT (tp = false) or with a trailing padding entry, every extra key set *)
Theorem C05_reference_metafiles : forall (H1 H256 : bytes -> bytes) (B : nat), 0 < B ->
  forall k pl, pl = B * 2 ^ k -> (forall x, length (H1 x) = 20) -> (forall x, length (H256 x) = 32) ->
  forall version name t et ei tp fs base path,
  extras_ok et ei -> wf_node t -> no_layer_collision H256 B k pl t ->
  find_root (fs_exists fs) (fs_listdir fs) name path = Some base -> holds fs base t ->
  recheck_model H1 H256 B fs (ref_metafile H1 H256 B version name t pl et ei tp) path =
  Some (Z.of_nat (tree_size t), tree_size t, tree_size t).
Proof. exact reference_metafiles_verify. Qed.
Print Assumptions C05_reference_metafiles.

(* ... and the v1 form with BEP 47 padding files (pads = true), which the Python encoder writes only inside hybrids *)
Theorem C05_reference_v1_padded_metafiles : forall (H1 H256 : bytes -> bytes) (B : nat), 0 < B ->
  forall k pl, pl = B * 2 ^ k -> (forall x, length (H1 x) = 20) ->
  forall pads name t et ei tp fs base path,
  extras_ok et ei ->
  find_root (fs_exists fs) (fs_listdir fs) name path = Some base -> holds fs base t ->
  let n := layout_size (ref_v1_layout pads tp pl t) in
  recheck_model H1 H256 B fs (ref_metafile_gen H1 H256 B true false pads name t pl et ei tp) path =
  Some (Z.of_nat n, n, n).
Proof. exact ref_v1_gen_verify. Qed.
Print Assumptions C05_reference_v1_padded_metafiles.

(* through the parent: the file system with nothing but t at parent/name holds t there and find_root finds it from the
   parent (not named like the payload: D33) *)
Theorem C05_parent_disk_holds : forall parent name t, wf_node t ->
  holds (disk_of parent (Dir [(name, t)])) (parent ++ [name]) t.
Proof. exact disk_of_child_holds. Qed.
Print Assumptions C05_parent_disk_holds.

Theorem C05_parent_root_found : forall parent name t, wf_node t -> last parent [] <> name ->
  let fs := disk_of parent (Dir [(name, t)]) in
  find_root (fs_exists fs) (fs_listdir fs) name parent = Some (parent ++ [name]).
Proof. exact disk_of_child_find_root. Qed.
Print Assumptions C05_parent_root_found.

(* the metafiles the v2-capable creator models write (TorrentFileV2, TorrentFileHybrid, TorrentAssembler) are well formed in
   this sense -- the v2 keys describe the payload enumerated in sorted order -- so C05_own_v2_metafiles_verify(_hybrid) are
   instances of the theorems above (Proofs/WellFormedMetafiles.v own_v2_verify_from_well_formed) *)
Theorem C05_own_v2_metafiles_are_well_formed : forall (H1 H256 : bytes -> bytes) (B : nat), 0 < B ->
  forall k pl, pl = B * 2 ^ k -> forall o name t m,
  wf_node t -> v2_capable_output H1 H256 B pl o name t m -> no_layer_collision H256 B k pl t ->
  exists meta info, header m meta info name pl /\ lookup ck_meta_version info = Some (BInt 2) /\
                    v2_part H256 B k meta info name pl (sort_tree t).
Proof. exact own_v2_capable_well_formed. Qed.
Print Assumptions C05_own_v2_metafiles_are_well_formed.
