(* C08 -- Info-hash depends only on payload, piece length, version and info options.
   Statements only; every proof is `exact <lemma>`.  H1 / H256 (SHA-1 / SHA-256) are arbitrary functions.

   Models
     Model/Creators.v   the four creators; a payload is a [node] whose entry lists are in ENUMERATION order
                        ([node_perm] = the same tree enumerated differently); [options] = the arguments of
                        MetaFile.__init__ plus the clock.  What is written is create_X ... : value (the
                        dictionary after sort_meta); the info-hash is a function of its "info" entry.
                        Outfile, progress mode, quiet mode and the working directory are not inputs of the
                        creators at all.  create_v1 takes the root path STRING (utils._filelist_total sorts
                        whole path strings); the three v2-capable creators do not take it (their _traverse
                        sorts entry NAMES per directory).
     Spec/PathSem.v     lexical posixpath / pathlib: how self.name and the recorded path components are
                        computed from the content path STRING and os.getcwd() ([name_of], [rel_components],
                        [child_path] = os.path.join chains of _traverse, [pathlib_descend] = the strings of
                        utils._filelist_total); [same_location cwd] = spellings of one location.
   Reading of the claim
     enumeration order        C08_enumeration_irrelevant_*
     trackers, seeds, clock   C08_outer_options_irrelevant, C08_clock_only
     where the payload lives  C08_location_irrelevant (root string), C08_spelling_* (the name and the
                              components are those of the tree whatever the spelling / working directory) *)
From TF Require Import Lib.Base Model.Bencode Model.Creators Proofs.CreatorsProofs
                       Spec.PathSem Proofs.PathSemProofs Proofs.C08Proofs.

(* ---------------------------------------------------------------------------------------------- *)
(* enumeration order                                                                              *)
(* ---------------------------------------------------------------------------------------------- *)

Theorem C08_enumeration_irrelevant_v1 : forall (H1 : bytes -> bytes) align o root name pl t t',
  node_perm t t' -> wf_node t ->
  create_v1 H1 align o root name pl t = create_v1 H1 align o root name pl t'.
Proof. exact create_v1_enum_irrelevant. Qed.
Print Assumptions C08_enumeration_irrelevant_v1.

Theorem C08_enumeration_irrelevant_v2_class : forall (H256 : bytes -> bytes) (B : nat) o name pl t t',
  node_perm t t' -> wf_node t ->
  create_v2_class H256 B o name pl t = create_v2_class H256 B o name pl t'.
Proof. exact create_v2_class_enum_irrelevant. Qed.
Print Assumptions C08_enumeration_irrelevant_v2_class.

Theorem C08_enumeration_irrelevant_hybrid_class : forall (H1 H256 : bytes -> bytes) (B : nat) o name pl t t',
  node_perm t t' -> wf_node t ->
  create_hybrid_class H1 H256 B o name pl t = create_hybrid_class H1 H256 B o name pl t'.
Proof. exact create_hybrid_class_enum_irrelevant. Qed.
Print Assumptions C08_enumeration_irrelevant_hybrid_class.

Theorem C08_enumeration_irrelevant_assembler : forall (H1 H256 : bytes -> bytes) (B : nat) hybrid o name pl t t',
  node_perm t t' -> wf_node t ->
  create_assembler H1 H256 B hybrid o name pl t = create_assembler H1 H256 B hybrid o name pl t'.
Proof. exact create_assembler_enum_irrelevant. Qed.
Print Assumptions C08_enumeration_irrelevant_assembler.

(* ---------------------------------------------------------------------------------------------- *)
(* trackers, web seeds, "created by", clock                                                       *)
(*   same_info_options o o' := o_comment, o_private, o_source agree                               *)
(*   outer_options_irrelevant create := forall o o', same_info_options o o' ->                    *)
(*        lookup k_info (dict_of (create o)) = lookup k_info (dict_of (create o'))                *)
(*     /\ strip_outer (dict_of (create o)) = strip_outer (dict_of (create o'))                    *)
(*   strip_outer = without the keys creation date, created by, announce, announce-list, url-list, *)
(*   httpseeds (C08_strip_outer_is_remove)                                                        *)
(* ---------------------------------------------------------------------------------------------- *)

Theorem C08_outer_options_irrelevant : forall (H1 H256 : bytes -> bytes) (B : nat),
  (forall align root name pl t, outer_options_irrelevant (fun o => create_v1 H1 align o root name pl t)) /\
  (forall name pl t, outer_options_irrelevant (fun o => create_v2_class H256 B o name pl t)) /\
  (forall name pl t, outer_options_irrelevant (fun o => create_hybrid_class H1 H256 B o name pl t)) /\
  (forall hybrid name pl t, outer_options_irrelevant (fun o => create_assembler H1 H256 B hybrid o name pl t)).
Proof. exact creators_outer_options_irrelevant. Qed.
Print Assumptions C08_outer_options_irrelevant.

Theorem C08_strip_outer_is_remove : forall d,
  strip_outer d =
  remove k_creation_date (remove k_created_by (remove k_announce (remove k_announce_list
    (remove k_url_list (remove k_httpseeds d))))).
Proof. exact strip_outer_remove. Qed.
Print Assumptions C08_strip_outer_is_remove.

(* two runs on equal input at different times differ in "creation date" only:
   clock_only create := forall z o, remove k_creation_date (dict_of (create (with_date z o)))
                                  = remove k_creation_date (dict_of (create o)) *)
Theorem C08_clock_only : forall (H1 H256 : bytes -> bytes) (B : nat),
  (forall align root name pl t, clock_only (fun o => create_v1 H1 align o root name pl t)) /\
  (forall name pl t, clock_only (fun o => create_v2_class H256 B o name pl t)) /\
  (forall name pl t, clock_only (fun o => create_hybrid_class H1 H256 B o name pl t)) /\
  (forall hybrid name pl t, clock_only (fun o => create_assembler H1 H256 B hybrid o name pl t)).
Proof. exact creators_clock_only. Qed.
Print Assumptions C08_clock_only.

(* ---------------------------------------------------------------------------------------------- *)
(* where the payload lives                                                                        *)
(* ---------------------------------------------------------------------------------------------- *)

(* the v1 creator lists the tree under a root string and sorts the full strings: any two roots give the
   same metafile (no side condition) *)
Theorem C08_location_irrelevant : forall (H1 : bytes -> bytes) align o root root' name pl t,
  create_v1 H1 align o root name pl t = create_v1 H1 align o root' name pl t.
Proof. exact create_v1_location_irrelevant. Qed.
Print Assumptions C08_location_irrelevant.

(* every spelling of one location (relative / absolute, "." segments anywhere, doubled separators,
   trailing separator, "x/.." detours) has the same absolute path ... *)
Theorem C08_spelling_abspath : forall cwd, is_abs cwd = true -> forall s s',
  same_location cwd s s' -> abspath cwd s = abspath cwd s'.
Proof. exact same_location_abspath. Qed.
Print Assumptions C08_spelling_abspath.

(* ... hence the same recorded name (MetaFile.__init__) *)
Theorem C08_spelling_name : forall cwd, is_abs cwd = true -> forall s s',
  same_location cwd s s' -> name_of cwd s = name_of cwd s'.
Proof. exact same_location_name. Qed.
Print Assumptions C08_spelling_name.

(* ... and relpath does not see the spelling of either argument *)
Theorem C08_spelling_relpath : forall cwd, is_abs cwd = true -> forall s s' p p',
  same_location cwd s s' -> same_location cwd p p' -> relpath cwd p s = relpath cwd p' s'.
Proof. exact same_location_relpath. Qed.
Print Assumptions C08_spelling_relpath.

(* the path components recorded for the file reached from the root through the directory entries ns
   are ns, whatever the spelling of the root (s: the spelling the path string was built from, s': the one
   relpath is given; the code uses the same one twice): the _traverse methods ... *)
Theorem C08_spelling_rel_components : forall cwd, is_abs cwd = true -> forall s s' ns,
  same_location cwd s s' -> Forall plain ns -> ns <> [] ->
  rel_components cwd (child_path s ns) s' = ns.
Proof. exact rel_components_child_path. Qed.
Print Assumptions C08_spelling_rel_components.

(* ... and TorrentFile.assemble over the strings of utils._filelist_total *)
Theorem C08_spelling_rel_components_pathlib : forall cwd, is_abs cwd = true -> forall s s' ns,
  same_location cwd s s' -> Forall plain ns -> ns <> [] ->
  rel_components cwd (pathlib_descend s ns) s' = ns.
Proof. exact rel_components_pathlib_descend. Qed.
Print Assumptions C08_spelling_rel_components_pathlib.

(* a single file: relpath(self.path, self.path) = "." under every spelling *)
Theorem C08_spelling_rel_self : forall cwd, is_abs cwd = true -> forall s s',
  same_location cwd s s' ->
  rel_components cwd s s' = [dot] /\ rel_components cwd (pathlib_str s) s' = [dot].
Proof. exact rel_components_self_both. Qed.
Print Assumptions C08_spelling_rel_self.

(* the strings utils._filelist_total sorts are a prefix that depends on the root only + the "/"-joined
   entry names; with C08_location_irrelevant (any prefix gives the same v1 metafile) the v1 order is the
   order of the relative names *)
Theorem C08_filelist_strings_prefix : forall s, exists pre, forall ns, Forall plain ns -> ns <> [] ->
  pathlib_descend s ns = pre ++ join_sep ns.
Proof. exact pathlib_descend_prefix. Qed.
Print Assumptions C08_filelist_strings_prefix.

(* the recorded name is the last component of the absolute path *)
Theorem C08_name_is_last_plain_component : forall cwd s cs,
  abspath cwd s = sep :: join_sep cs -> cs <> [] -> Forall plain cs -> name_of cwd s = last cs [].
Proof. exact name_is_last_plain_component. Qed.
Print Assumptions C08_name_is_last_plain_component.

(* D12, regression witness: the expressions before the repair a68fdb6 (os.path.split(self.path) in
   MetaFile.__init__, os.path.basename(self.path) in the hybrid / assembler constructors) were NOT
   spelling independent: "data" and "data/." are one location, the old names were "data" and "." *)
Theorem C08_old_name_refuted :
  exists cwd s s', is_abs cwd = true /\ same_location cwd s s' /\
    old_name s <> old_name s' /\ old_name_v2 s <> old_name_v2 s' /\
    old_name s' = dot /\ name_of cwd s' = s /\ name_of cwd s = s /\
    old_name_v2 (s ++ [sep]) = [] /\ name_of cwd (s ++ [sep]) = s.
Proof. exact old_name_refuted. Qed.
Print Assumptions C08_old_name_refuted.

(* THE SOURCE, READ STATICALLY.  Gen/GenDeterminism.v is regenerated from the whole package on every run by a fail-closed
   reading (gen/gen_determinism.py): every name ever bound to a set, and every use of a set, must be order-insensitive
   (membership, len, sorted, set algebra, ...) -- iterating one would let the string hash seed (PYTHONHASHSEED) into the result;
   every directory listing in torrent.py / hasher.py / utils.py must be sorted before use.  The translator refuses otherwise;
   accepted means: no such use exists in the source as it is now. *)
From TF Require Import Gen.GenDeterminism Proofs.DeterminismInstance.
Theorem C08_source_no_hash_seed_or_listing_order_leak :
  gen_set_order_leaks = [] /\ gen_unsorted_listings = [] /\ (1 <= gen_listings_checked)%nat.
Proof. exact gen_no_order_leak. Qed.
Print Assumptions C08_source_no_hash_seed_or_listing_order_leak.
