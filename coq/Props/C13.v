(* C13 -- Rebuild restores the complete torrent when intact copies are available.
   Statements only; every proof is `exact <lemma>`.  H1 (SHA-1) is an arbitrary function.

   Models (hand written against the current /repo/torrentfile/rebuild.py, tied to it by differential
   execution in harness/props/c13.py):
     map_pieces pl lens n    Metadata._map_pieces: for each of the n recorded pieces the list of
                             (file index, start, stop) ranges (stop None = Python's -1)
     slice files r           PathNode.get_part applied to the file the range names
     find_matches            PieceNode._find_matches: (success, copypath calls made)
     match_v1                Metadata._match_v1 with its `copied` shortcut
   The v2 route (Metadata._match_v2: one HasherV2 root comparison per candidate) has no Coq model;
   it is covered by the end-to-end search only. *)
From TF Require Import Lib.Base Lib.Chunks Model.Rebuild Proofs.MapPieces Proofs.RebuildMatch.
From Coq Require String.

(* ---------------------------------------------------------------------------------------------- *)
(* the piece map: for all files (any sizes, empty files anywhere, files ending exactly on a piece *)
(* boundary) and every piece length > 0                                                           *)
(* ---------------------------------------------------------------------------------------------- *)

(* the bytes the ranges of the pieces select, piece by piece, are exactly the BEP 3 pieces of the
   concatenated files *)
Theorem C13_map_pieces_exact_list : forall (files : list bytes) pl, 0 < pl ->
  map (fun rs => concat (map (slice files) rs))
      (map_pieces pl (map (@length ascii) files) (ceil_div (length (concat files)) pl))
  = chunks pl (concat files).
Proof. exact map_pieces_exact_list. Qed.
Print Assumptions C13_map_pieces_exact_list.

Theorem C13_map_pieces_exact : forall (files : list bytes) pl, 0 < pl ->
  forall i, i < ceil_div (length (concat files)) pl ->
  concat (map (slice files)
              (nth i (map_pieces pl (map (@length ascii) files) (ceil_div (length (concat files)) pl)) []))
  = nth i (chunks pl (concat files)) [].
Proof. exact map_pieces_exact. Qed.
Print Assumptions C13_map_pieces_exact.

(* every file of positive length is named by the ranges of some piece, and every range names a
   listed file: no file with bytes is left out of the search *)
Theorem C13_map_pieces_covers : forall (files : list bytes) pl, 0 < pl ->
  let total := ceil_div (length (concat files)) pl in
  let pieces := map_pieces pl (map (@length ascii) files) total in
  (forall j, j < length files -> 0 < length (nth j files []) ->
     exists i, i < total /\ In j (map r_file (nth i pieces []))) /\
  (forall i r, In r (nth i pieces []) -> r_file r < length files).
Proof. exact map_pieces_covers. Qed.
Print Assumptions C13_map_pieces_covers.

(* a piece with a single range lies wholly inside that one file (this is what makes skipping such
   a piece sound once its file has been copied) *)
Theorem C13_single_range_piece_inside_one_file : forall (files : list bytes) pl, 0 < pl ->
  forall i r,
  let total := ceil_div (length (concat files)) pl in
  i < total ->
  nth i (map_pieces pl (map (@length ascii) files) total) [] = [r] ->
  r_file r < length files /\
  nth i (chunks pl (concat files)) [] = slice files r /\
  exists pre post, nth (r_file r) files [] = pre ++ nth i (chunks pl (concat files)) [] ++ post.
Proof. exact map_pieces_single_file_piece. Qed.
Print Assumptions C13_single_range_piece_inside_one_file.

(* the code before the repair of D24 (`<` where `<=` is needed): exactness is false, witness
   lengths [2; 1] with piece length 2 -- a file that ends exactly on a piece boundary *)
Theorem C13_map_pieces_before_D24_refuted :
  exists (pl : nat) (files : list bytes) (i : nat),
    0 < pl /\ i < ceil_div (length (concat files)) pl /\
    concat (map (slice files)
                (nth i (map_pieces_old pl (map (@length ascii) files)
                                       (ceil_div (length (concat files)) pl)) []))
    <> nth i (chunks pl (concat files)) [].
Proof. exact map_pieces_old_refuted. Qed.
Print Assumptions C13_map_pieces_before_D24_refuted.

(* ---------------------------------------------------------------------------------------------- *)
(* the candidate search of one piece                                                              *)
(* ---------------------------------------------------------------------------------------------- *)

(* soundness: a reported match comes from one candidate per path node (listed under the node's
   file name, of the node's length) whose selected bytes hash to the recorded digest; exactly those
   candidates are copied, each to the node's path, and every node of the piece gets a copy *)
Theorem C13_find_matches_sound : forall (H1 : bytes -> bytes) (fm : filemap) (piece : bytes)
    (paths : list pathnode) (copies : list copy),
  find_matches H1 fm piece paths = (true, copies) ->
  exists chosen : list candidate,
    valid_choice fm paths chosen /\
    H1 (choice_bytes paths chosen) = piece /\
    copies = rev (choice_copies paths chosen) /\
    (forall l full, In (l, full) copies ->
       exists pn c, In pn paths /\ full = pn_full pn /\ l = fst c /\ is_candidate fm pn c) /\
    (forall pn, In pn paths -> exists l, In (l, pn_full pn) copies).
Proof. exact find_matches_sound. Qed.
Print Assumptions C13_find_matches_sound.

(* completeness: if for every path node of the piece some candidate of the right name and length
   agrees with the torrent's file on the selected range (an intact copy does), and the torrent's
   bytes hash to the recorded digest, the search succeeds -- wherever the intact copies stand in
   the candidate lists and whatever other candidates surround them *)
Theorem C13_find_matches_complete : forall (H1 : bytes -> bytes) (fm : filemap) (piece : bytes)
    (paths : list pathnode) (trues : list bytes),
  Forall2 (intact_available fm) paths trues ->
  H1 (parts_bytes paths trues) = piece ->
  fst (find_matches H1 fm piece paths) = true.
Proof. exact find_matches_complete. Qed.
Print Assumptions C13_find_matches_complete.

(* WHICH candidate is copied -- partial: needs `candidates_clean`, i.e. every candidate of the right
   name and length either IS the torrent's file or verifies in no choice for this piece.  Without
   it the claim is false by design of copy-on-first-verified-piece (known finding D27) *)
Theorem C13_find_matches_copies_intact_partial : forall (H1 : bytes -> bytes) (fm : filemap)
    (piece : bytes) (paths : list pathnode) (trues : list bytes) (copies : list copy),
  length trues = length paths ->
  candidates_clean H1 fm piece paths trues ->
  find_matches H1 fm piece paths = (true, copies) ->
  exists chosen : list candidate,
    valid_choice fm paths chosen /\ copies = rev (choice_copies paths chosen) /\ map snd chosen = trues.
Proof. exact find_matches_intact_choice_partial. Qed.
Print Assumptions C13_find_matches_copies_intact_partial.

(* ---------------------------------------------------------------------------------------------- *)
(* the loop over the pieces                                                                       *)
(* ---------------------------------------------------------------------------------------------- *)

(* a piece that is skipped (not searched) consists of one path node whose file had a copypath call
   while an earlier piece was processed: nothing is counted as done without a copy having been made *)
Theorem C13_skipped_piece_has_copy : forall (H1 : bytes -> bytes) (fm : filemap)
    (nodes : list (bytes * list pathnode)) (outs : list v1_outcome) (copied : list String.string)
    (trace : list copy) (i : nat) (piece : bytes) (paths : list pathnode),
  match_v1 H1 fm nodes = (outs, copied, trace) ->
  nth_error nodes i = Some (piece, paths) ->
  nth_error outs i = Some Skipped ->
  exists (pn : pathnode) (before after : list (bytes * list pathnode)) (outs_i : list v1_outcome)
         (copied_i : list String.string) (trace_i : list copy) (l : loc) (more : list copy),
    paths = [pn] /\
    nodes = before ++ (piece, paths) :: after /\
    length before = i /\
    match_v1 H1 fm before = (outs_i, copied_i, trace_i) /\
    In (pn_full pn) copied_i /\ In (l, pn_full pn) trace_i /\ trace = trace_i ++ more.
Proof. exact match_v1_skipped_has_copy. Qed.
Print Assumptions C13_skipped_piece_has_copy.
