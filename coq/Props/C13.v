(* C13 -- Rebuild restores the complete torrent when intact copies are available.
   Statements only; every proof is `exact <lemma>`.  H1 (SHA-1) is an arbitrary function.

   Models (hand written against the current /repo/torrentfile/rebuild.py, tied to it by differential
   execution in harness/props/c13.py):
     map_pieces pl lens n    Metadata._map_pieces: for each of the n recorded pieces the list of
                             (file index, start, stop) ranges (stop None = Python's -1)
     slice files r           PathNode.get_part applied to the file the range names
     find_matches            PieceNode._find_matches: (success, copypath calls made)
     match_v1                Metadata._match_v1 with its `copied` shortcut
   The second part of the file (below the line "how the file list is read") states, for Model/RebuildMeta.v:
     extract meta            Metadata.extract on the decoded metafile (a `value` of Model/Bencode.v): None = Metadata(path)
                             raises; Some x = name, meta version, pieces, is_file and the entries of Metadata.files in order
                             (e_path / e_full = pathlib parts of entry["path"] / entry["full"], e_filename, e_length, e_root)
     tree_leaves tree        SPECIFICATION: the leaves of a BEP 52 file tree in tree order, each with the keys leading to it
     entry_at prefix e pl    entry e stands for leaf pl below the directory prefix: full = prefix ++ keys, path = parent of
                             full, filename = last key, length / root = those of the leaf dictionary
     match_v2 H256 B pl fm entries   Metadata._match_v2: (copypath calls as (candidate location, "/"-joined full), count);
                             the HasherV2 root of a candidate is the model of Model/HasherV2.v, whose root is bep52_root (C02)
     verified H256 B e c     candidate c = (location, content) has the recorded length of e and, if it has content, the
                             BEP 52 pieces root of its content is the recorded root
   tied to the real Metadata(path) and Metadata._match_v2 by harness/props/rebuild_common.py extract_tie / match_v2_tie. *)
From TF Require Import Lib.Base Lib.Chunks Model.Rebuild Proofs.MapPieces Proofs.RebuildMatch.
From Coq Require String.

(* ---------------------------------------------------------------------------------------------- *)
(* the piece map: for all files (any sizes, empty files anywhere, files ending exactly on a piece *)
(* boundary) and every piece length > 0                                                           *)
(* ---------------------------------------------------------------------------------------------- *)

(* the bytes the ranges of the pieces select, piece by piece, are exactly the BEP 3 pieces of the
   concatenated files *)
Theorem C13_map_pieces_exact_list : forall (files : list bytes) pl, 0 < pl ->
  map (fun rs => concat (map (slice files) rs))
      (map_pieces pl (map (@length ascii) files) (ceil_div (length (concat files)) pl))
  = chunks pl (concat files).
Proof. exact map_pieces_exact_list. Qed.
Print Assumptions C13_map_pieces_exact_list.

Theorem C13_map_pieces_exact : forall (files : list bytes) pl, 0 < pl ->
  forall i, i < ceil_div (length (concat files)) pl ->
  concat (map (slice files)
              (nth i (map_pieces pl (map (@length ascii) files) (ceil_div (length (concat files)) pl)) []))
  = nth i (chunks pl (concat files)) [].
Proof. exact map_pieces_exact. Qed.
Print Assumptions C13_map_pieces_exact.

(* every file of positive length is named by the ranges of some piece, and every range names a
   listed file: no file with bytes is left out of the search *)
Theorem C13_map_pieces_covers : forall (files : list bytes) pl, 0 < pl ->
  let total := ceil_div (length (concat files)) pl in
  let pieces := map_pieces pl (map (@length ascii) files) total in
  (forall j, j < length files -> 0 < length (nth j files []) ->
     exists i, i < total /\ In j (map r_file (nth i pieces []))) /\
  (forall i r, In r (nth i pieces []) -> r_file r < length files).
Proof. exact map_pieces_covers. Qed.
Print Assumptions C13_map_pieces_covers.

(* a piece with a single range lies wholly inside that one file (this is what makes skipping such
   a piece sound once its file has been copied) *)
Theorem C13_single_range_piece_inside_one_file : forall (files : list bytes) pl, 0 < pl ->
  forall i r,
  let total := ceil_div (length (concat files)) pl in
  i < total ->
  nth i (map_pieces pl (map (@length ascii) files) total) [] = [r] ->
  r_file r < length files /\
  nth i (chunks pl (concat files)) [] = slice files r /\
  exists pre post, nth (r_file r) files [] = pre ++ nth i (chunks pl (concat files)) [] ++ post.
Proof. exact map_pieces_single_file_piece. Qed.
Print Assumptions C13_single_range_piece_inside_one_file.

(* the code before the repair of D24 (`<` where `<=` is needed): exactness is false, witness
   lengths [2; 1] with piece length 2 -- a file that ends exactly on a piece boundary *)
Theorem C13_map_pieces_before_D24_refuted :
  exists (pl : nat) (files : list bytes) (i : nat),
    0 < pl /\ i < ceil_div (length (concat files)) pl /\
    concat (map (slice files)
                (nth i (map_pieces_old pl (map (@length ascii) files)
                                       (ceil_div (length (concat files)) pl)) []))
    <> nth i (chunks pl (concat files)) [].
Proof. exact map_pieces_old_refuted. Qed.
Print Assumptions C13_map_pieces_before_D24_refuted.

(* ---------------------------------------------------------------------------------------------- *)
(* the candidate search of one piece                                                              *)
(* ---------------------------------------------------------------------------------------------- *)

(* soundness: a reported match comes from one candidate per path node (listed under the node's
   file name, of the node's length) whose selected bytes hash to the recorded digest; exactly those
   candidates are copied, each to the node's path, and every node of the piece gets a copy *)
Theorem C13_find_matches_sound : forall (H1 : bytes -> bytes) (fm : filemap) (piece : bytes)
    (paths : list pathnode) (copies : list copy),
  find_matches H1 fm piece paths = (true, copies) ->
  exists chosen : list candidate,
    valid_choice fm paths chosen /\
    H1 (choice_bytes paths chosen) = piece /\
    copies = rev (choice_copies paths chosen) /\
    (forall l full, In (l, full) copies ->
       exists pn c, In pn paths /\ full = pn_full pn /\ l = fst c /\ is_candidate fm pn c) /\
    (forall pn, In pn paths -> exists l, In (l, pn_full pn) copies).
Proof. exact find_matches_sound. Qed.
Print Assumptions C13_find_matches_sound.

(* completeness: if for every path node of the piece some candidate of the right name and length
   agrees with the torrent's file on the selected range (an intact copy does), and the torrent's
   bytes hash to the recorded digest, the search succeeds -- wherever the intact copies stand in
   the candidate lists and whatever other candidates surround them *)
Theorem C13_find_matches_complete : forall (H1 : bytes -> bytes) (fm : filemap) (piece : bytes)
    (paths : list pathnode) (trues : list bytes),
  Forall2 (intact_available fm) paths trues ->
  H1 (parts_bytes paths trues) = piece ->
  fst (find_matches H1 fm piece paths) = true.
Proof. exact find_matches_complete. Qed.
Print Assumptions C13_find_matches_complete.

(* WHICH candidate is copied -- partial: needs `candidates_clean`, i.e. every candidate of the right
   name and length either IS the torrent's file or verifies in no choice for this piece.  Without
   it the claim is false by design of copy-on-first-verified-piece (known finding D27) *)
Theorem C13_find_matches_copies_intact_partial : forall (H1 : bytes -> bytes) (fm : filemap)
    (piece : bytes) (paths : list pathnode) (trues : list bytes) (copies : list copy),
  length trues = length paths ->
  candidates_clean H1 fm piece paths trues ->
  find_matches H1 fm piece paths = (true, copies) ->
  exists chosen : list candidate,
    valid_choice fm paths chosen /\ copies = rev (choice_copies paths chosen) /\ map snd chosen = trues.
Proof. exact find_matches_intact_choice_partial. Qed.
Print Assumptions C13_find_matches_copies_intact_partial.

(* ---------------------------------------------------------------------------------------------- *)
(* the loop over the pieces                                                                       *)
(* ---------------------------------------------------------------------------------------------- *)

(* a piece that is skipped (not searched) consists of one path node whose file had a copypath call
   while an earlier piece was processed: nothing is counted as done without a copy having been made *)
Theorem C13_skipped_piece_has_copy : forall (H1 : bytes -> bytes) (fm : filemap)
    (nodes : list (bytes * list pathnode)) (outs : list v1_outcome) (copied : list String.string)
    (trace : list copy) (i : nat) (piece : bytes) (paths : list pathnode),
  match_v1 H1 fm nodes = (outs, copied, trace) ->
  nth_error nodes i = Some (piece, paths) ->
  nth_error outs i = Some Skipped ->
  exists (pn : pathnode) (before after : list (bytes * list pathnode)) (outs_i : list v1_outcome)
         (copied_i : list String.string) (trace_i : list copy) (l : loc) (more : list copy),
    paths = [pn] /\
    nodes = before ++ (piece, paths) :: after /\
    length before = i /\
    match_v1 H1 fm before = (outs_i, copied_i, trace_i) /\
    In (pn_full pn) copied_i /\ In (l, pn_full pn) trace_i /\ trace = trace_i ++ more.
Proof. exact match_v1_skipped_has_copy. Qed.
Print Assumptions C13_skipped_piece_has_copy.

(* ---------------------------------------------------------------------------------------------- *)
(* how the file list is read from the metafile, and the v2 route                                  *)
(* ---------------------------------------------------------------------------------------------- *)
From TF Require Import Model.Bencode Spec.Bep52 Model.RebuildMeta Proofs.RebuildMetaProofs.

(* a file tree is read leaf by leaf in tree order: the i-th entry is the i-th leaf, at
   <start directory>/<keys from the root to the leaf>, with the leaf's recorded length and root; no leaf is left
   out, none is listed twice, and no leaf inherits a directory from an earlier sibling *)
Theorem C13_file_tree_read_exactly : forall (tree : dict) (partials : list bytes) (es : list entry),
  parse_tree partials tree = Some es ->
  Forall2 (entry_at partials) es (tree_leaves tree) /\
  map e_full es = map (fun pl => partials ++ fst pl) (tree_leaves tree).
Proof. exact (fun tree partials es H => conj (parse_tree_entries_exact tree partials es H) (parse_tree_paths_exact tree partials es H)). Qed.
Print Assumptions C13_file_tree_read_exactly.

(* ... hence for every accepted v2 / hybrid metafile that is not in the single-file form: the files rebuild looks
   for are exactly the leaves of info["file tree"], each to be placed at name/<keys> *)
Theorem C13_v2_file_list_is_the_tree : forall (meta : value) (info tree : dict) (x : extracted),
  info_of meta info -> extract meta = Some x -> x_is_v2 x = true ->
  lookup rk_file_tree info = Some (BDict tree) -> single_leaf (x_name x) tree = None ->
  Forall2 (entry_at [x_name x]) (x_files x) (tree_leaves tree) /\
  map e_full (x_files x) = map (fun pl => x_name x :: fst pl) (tree_leaves tree).
Proof. exact extract_v2_paths_exact. Qed.
Print Assumptions C13_v2_file_list_is_the_tree.

(* a v1 metafile with a file list: one entry per listed file, in list order, at name/<path elements> with the
   recorded length; only "path" and "length" of the entry's dictionary are read *)
Theorem C13_v1_file_list_is_the_list : forall (meta : value) (info : dict) (items : list value) (x : extracted),
  info_of meta info -> extract meta = Some x -> x_is_v2 x = false ->
  lookup rk_length info = None -> lookup rk_files info = Some (BList items) ->
  Forall2 (v1_item_read (x_name x)) (x_files x) items.
Proof. exact extract_v1_paths_exact. Qed.
Print Assumptions C13_v1_file_list_is_the_list.

(* ... and every well-formed list is accepted and read as (name :: path_i, length_i), whatever further keys follow *)
Theorem C13_v1_file_list_accepted : forall (name : bytes) (extra : list bytes * Z -> dict) (pes : list (list bytes * Z)),
  Forall (fun pe => fst pe <> [] /\ Forall safe (fst pe)) pes ->
  v1_entries name (map (fun pe => v1_item (extra pe) pe) pes) =
  Some (map (fun pe => mk_entry (removelast (name :: fst pe)) (name :: fst pe) (last (fst pe) []) (snd pe) None) pes).
Proof. exact v1_entries_accepts. Qed.
Print Assumptions C13_v1_file_list_accepted.

(* the v2 route, completeness: if among the candidates indexed under the entry's file name one verifies, the entry is
   copied to the path the metafile assigns to it -- the first verifying candidate in enumeration order, whatever
   stands before it (other sizes, same size and other bytes, longer files that begin with the genuine bytes) and
   whatever the other entries are *)
Theorem C13_v2_complete : forall (H256 : bytes -> bytes) B, 0 < B -> forall k pl, pl = B * 2 ^ k ->
  forall (fm : filemap) (entries : list entry) (e : entry) (cands : list candidate) (c : candidate),
  In e entries -> fm_lookup fm (text (e_filename e)) = Some cands -> In c cands -> verified H256 B e c ->
  exists pre l content post,
    cands = pre ++ (l, content) :: post /\ Forall (fun c' => ~ verified H256 B e c') pre /\
    verified H256 B e (l, content) /\
    v2_entry H256 B pl fm e = [(l, full_text e)] /\
    In (l, full_text e) (fst (match_v2 H256 B pl fm entries)).
Proof. exact match_v2_complete. Qed.
Print Assumptions C13_v2_complete.

(* an intact copy (the bytes whose length and BEP 52 root the metafile records) verifies *)
Theorem C13_v2_intact_copy_verifies : forall (H256 : bytes -> bytes) B (e : entry) (data : bytes) (l : loc),
  data <> [] -> e_length e = Z.of_nat (length data) -> e_root e = Some (BStr (bep52_root H256 B data)) ->
  verified H256 B e (l, data).
Proof. exact intact_copy_verifies. Qed.
Print Assumptions C13_v2_intact_copy_verifies.

(* entries are treated independently: nothing is carried from one entry to the next *)
Theorem C13_v2_entries_independent : forall (H256 : bytes -> bytes) B pl (fm : filemap) (es1 es2 : list entry),
  match_v2 H256 B pl fm (es1 ++ es2) =
  (fst (match_v2 H256 B pl fm es1) ++ fst (match_v2 H256 B pl fm es2),
   snd (match_v2 H256 B pl fm es1) + snd (match_v2 H256 B pl fm es2)).
Proof. exact match_v2_independent. Qed.
Print Assumptions C13_v2_entries_independent.

(* zero-length files: the v2 route never places them (HasherV2 reports the empty list as the root of an empty file,
   which equals neither "no root" nor any byte string) -- the observation the end-to-end search records *)
Theorem C13_v2_empty_file_not_placed : forall (H256 : bytes -> bytes) B, 0 < B -> forall k pl, pl = B * 2 ^ k ->
  forall (fm : filemap) (e : entry),
  e_length e = 0%Z -> e_root e <> Some (BList []) -> v2_entry H256 B pl fm e = [].
Proof. exact match_v2_empty_file. Qed.
Print Assumptions C13_v2_empty_file_not_placed.

(* ---------------------------------------------------------------------------------------------- *)
(* the whole run ON THE FILESYSTEM (Model/RebuildRun.v: the matcher's copypath calls executed in    *)
(* order on the abstract filesystem of Model/CopyPath.v; a call that raises ends the run)           *)
(* ---------------------------------------------------------------------------------------------- *)
From TF Require Import Model.CopyPath Model.RebuildRun Proofs.RebuildRunProofs.
(*   filemap_reflects f fm    what _index_contents has established: every candidate location is a regular file of f holding
                              the bytes the filemap shows, named like its key
     dest_disjoint dest fm    no candidate lies in or under the destination
     entry_valid e            the entry has components and all of them passed _check_parts (extract_entries_valid: every entry
                              of every accepted metafile); target dest e = dest ++ components
     way_free / v1_way_free   nothing but directories (or nothing) stands on the way to an assigned place
     entries_consistent       no assigned place lies under another assigned place *)

(* v2 / hybrid: the run returns, and EVERY entry for which some indexed candidate verifies and whose place was empty (or held a
   shorter file) has at its place a file indexed under its name with the recorded length and BEP 52 root -- exactly the bytes d
   if all verifying candidates carry d (an intact copy is available and the root separates the candidates) *)
Theorem C13_v2_complete_on_fs : forall (H256 : bytes -> bytes) B, 0 < B -> forall k pl, pl = B * 2 ^ k ->
  forall (dsize : nat) (fm : filemap) (dest : path) (entries : list entry), Forall entry_valid entries ->
  forall f : fs, filemap_reflects f fm -> dest_disjoint dest fm ->
  way_free dest entries f -> entries_consistent entries ->
  (forall e e', In e entries -> In e' entries -> e_full e' = e_full e -> e' = e) ->
  exists g : fs, rebuild_v2_run dsize H256 B pl fm dest entries f = Ok g /\
  forall e, In e entries ->
    (exists c, indexed fm (text (e_filename e)) c /\ verified H256 B e c) ->
    (f (target dest e) = None \/
     exists old, f (target dest e) = Some (File old) /\ (Z.of_nat (length old) < e_length e)%Z) ->
    (exists l data, indexed fm (text (e_filename e)) (l, data) /\ verified H256 B e (l, data) /\
                    g (target dest e) = Some (File data)) /\
    (forall d, (forall c, indexed fm (text (e_filename e)) c -> verified H256 B e c -> snd c = d) ->
               g (target dest e) = Some (File d)).
Proof. exact rebuild_v2_restores. Qed.
Print Assumptions C13_v2_complete_on_fs.

(* v1: a correct metafile of the files `trues` (digests = H1 of the BEP 3 pieces, piece nodes from _map_pieces), an intact copy
   of every file indexed, clean candidates: the run returns and every file with bytes whose place was empty (or held a shorter
   file) has exactly its bytes there.  `_partial`: candidates_clean_run (every candidate of a file's name and size IS the file or
   is chosen for it in no choice verifying a recorded piece) is needed -- without it the statement is false by design (D27) *)
Theorem C13_v1_complete_partial : forall (H1 : bytes -> bytes) (dsize : nat) (fm : filemap) (dest : path) pl, 0 < pl ->
  forall (files : list v1_file) (trues : list bytes), map (@length ascii) trues = map vf_length files ->
  forall f : fs, filemap_reflects f fm -> dest_disjoint dest fm ->
  intact_copies fm files trues -> candidates_clean_run H1 fm pl files trues -> files_ok files -> v1_way_free dest files f ->
  exists g : fs, rebuild_v1_run dsize H1 fm dest (nodes H1 pl files trues) f = Ok g /\
  forall j, j < length files ->
    let file := nth j files (mk_v1_file String.EmptyString String.EmptyString 0) in
    0 < vf_length file ->
    (f (dest ++ parts_of (vf_full file)) = None \/
     exists old, f (dest ++ parts_of (vf_full file)) = Some (File old) /\ length old < vf_length file) ->
    g (dest ++ parts_of (vf_full file)) = Some (File (nth j trues [])).
Proof. exact rebuild_v1_restores_partial. Qed.
Print Assumptions C13_v1_complete_partial.

(* what the callback is told has been placed is there (run that returned; a run that raises tells nothing after the raise) *)
Theorem C13_counted_are_present_v2 : forall (H256 : bytes -> bytes) B, 0 < B -> forall k pl, pl = B * 2 ^ k ->
  forall (dsize : nat) (fm : filemap) (dest : path) (entries : list entry), Forall entry_valid entries ->
  forall f : fs, filemap_reflects f fm -> dest_disjoint dest fm ->
  forall g : fs, rebuild_v2_run dsize H256 B pl fm dest entries f = Ok g ->
  forall s t : path, In (s, t) (v2_reported H256 B pl fm dest entries) ->
  CopyPath.lookup g t <> None /\ CopyPath.lookup g s = CopyPath.lookup f s.
Proof. exact rebuild_v2_counted_are_present. Qed.
Print Assumptions C13_counted_are_present_v2.

Theorem C13_counted_are_present_v1 : forall (H1 : bytes -> bytes) (dsize : nat) (fm : filemap) (dest : path)
    (nodes : list (bytes * list pathnode)), nodes_relative nodes ->
  forall f : fs, filemap_reflects f fm -> dest_disjoint dest fm ->
  forall g : fs, rebuild_v1_run dsize H1 fm dest nodes f = Ok g ->
  forall t : path, In t (v1_reported H1 fm dest nodes) -> CopyPath.lookup g t <> None.
Proof. exact rebuild_v1_counted_are_present. Qed.
Print Assumptions C13_counted_are_present_v1.

(* Assembler.assemble_torrents: the metafiles one after the other with ONE filemap and ONE destination is one run of the
   concatenated calls, so everything above holds per metafile of the batch; every call's target is present at the end *)
Theorem C13_batch : forall (H1 H256 : bytes -> bytes) B, 0 < B ->
  forall (dsize : nat) (fm : filemap) (dest : path) (jobs : list job), Forall (job_ok B) jobs ->
  forall f : fs, filemap_reflects f fm -> dest_disjoint dest fm ->
  assemble_run dsize H1 H256 B fm dest jobs f = run_copies_run dsize dest (batch_trace H1 H256 B fm jobs) f /\
  forall g : fs, assemble_run dsize H1 H256 B fm dest jobs f = Ok g ->
  forall j l full, In j jobs -> In (l, full) (job_trace H1 H256 B fm j) -> CopyPath.lookup g (join_parts dest full) <> None.
Proof.
  exact (fun H1 H256 B HB dsize fm dest jobs J f R D =>
           conj (assemble_is_one_run H1 H256 B dsize fm dest jobs f)
                (assemble_counted_are_present H1 H256 B HB dsize fm dest jobs J f R D)).
Qed.
Print Assumptions C13_batch.

(* ---------------------------------------------------------------------------------------------- *)
(* the whole command with the METAFILE as the only description of the torrent, and the composition  *)
(* with the creators (rebuild_of_metafile: see Props/C14.v)                                          *)
(* ---------------------------------------------------------------------------------------------- *)
From TF Require Model.Creators Proofs.CreatorsProofs2.
From TF Require Import Proofs.RebuildEndToEnd.

(* v2 / hybrid, full: an accepted v2 metafile (piece length B * 2^k), nothing but directories on the way, no place under another
   place or used twice: the command returns and every entry for which an indexed candidate verifies has a verified file at
   dest/<components> -- exactly the bytes d if all verifying candidates carry d *)
Theorem C13_rebuild_of_metafile_restores : forall (H1 H256 : bytes -> bytes) B, 0 < B ->
  forall (dsize : nat) (dest : path) (fm : filemap) (meta : value) (x : extracted) k pl (f : fs),
  metadata_init meta = Some x -> x_is_v2 x = true -> pl_of (x_piece_length x) = Some pl -> pl = B * 2 ^ k ->
  filemap_reflects f fm -> dest_disjoint dest fm ->
  way_free dest (x_files x) f -> entries_consistent (x_files x) ->
  (forall e e', In e (x_files x) -> In e' (x_files x) -> e_full e' = e_full e -> e' = e) ->
  exists g, rebuild_of_metafile H1 H256 B dsize dest fm meta f = Some (Ok g) /\
  forall e, In e (x_files x) ->
    (exists c, indexed fm (text (e_filename e)) c /\ verified H256 B e c) ->
    (f (target dest e) = None \/
     exists old, f (target dest e) = Some (File old) /\ (Z.of_nat (length old) < e_length e)%Z) ->
    (exists l data, indexed fm (text (e_filename e)) (l, data) /\ verified H256 B e (l, data) /\
                    g (target dest e) = Some (File data)) /\
    (forall d, (forall c, indexed fm (text (e_filename e)) c -> verified H256 B e c -> snd c = d) ->
               g (target dest e) = Some (File d)).
Proof. exact rebuild_of_metafile_restores_v2. Qed.
Print Assumptions C13_rebuild_of_metafile_restores.

(* v1, `_partial` (candidates_clean_run, D27): an accepted v1 metafile whose `pieces` are the H1 digests (20 bytes each) of the
   BEP 3 pieces of the files `trues` and whose lengths are theirs *)
Theorem C13_rebuild_of_metafile_restores_v1_partial : forall (H1 H256 : bytes -> bytes) B (dsize : nat) (dest : path)
    (fm : filemap) (meta : value) (x : extracted) pl (s : bytes) (trues : list bytes) (f : fs),
  metadata_init meta = Some x -> x_is_v2 x = false -> pl_of (x_piece_length x) = Some pl -> x_pieces x = BStr s ->
  Forall (fun e => (0 <= e_length e)%Z) (x_files x) ->
  let files := map vfile_of (x_files x) in
  (forall y, length (H1 y) = 20) -> chunks 20 s = map H1 (chunks pl (concat trues)) ->
  map (@length ascii) trues = map vf_length files ->
  filemap_reflects f fm -> dest_disjoint dest fm ->
  intact_copies fm files trues -> candidates_clean_run H1 fm pl files trues -> files_ok files -> v1_way_free dest files f ->
  exists g, rebuild_of_metafile H1 H256 B dsize dest fm meta f = Some (Ok g) /\
  forall j, j < length files ->
    let file := nth j files (mk_v1_file String.EmptyString String.EmptyString 0) in
    0 < vf_length file ->
    (f (dest ++ parts_of (vf_full file)) = None \/
     exists old, f (dest ++ parts_of (vf_full file)) = Some (File old) /\ length old < vf_length file) ->
    g (dest ++ parts_of (vf_full file)) = Some (File (nth j trues [])).
Proof. exact rebuild_of_metafile_restores_v1_partial. Qed.
Print Assumptions C13_rebuild_of_metafile_restores_v1_partial.

(* ... where files_ok follows from the entries, and candidates_clean_run from the per-piece candidates_clean (above) of every
   recorded piece when no two listed files share a path *)
Theorem C13_files_ok_of_entries : forall es : list entry, Forall entry_valid es -> entries_consistent es ->
  (forall e e', In e es -> In e' es -> e_full e' = e_full e -> e' = e) -> NoDup es -> files_ok (map vfile_of es).
Proof. exact files_ok_of_entries. Qed.
Print Assumptions C13_files_ok_of_entries.

Theorem C13_candidates_clean_run_of_pieces : forall (H1 : bytes -> bytes) (fm : filemap) pl, 0 < pl ->
  forall (files : list v1_file) (trues : list bytes), map (@length ascii) trues = map vf_length files ->
  pieces_clean H1 fm pl files trues -> files_ok files -> candidates_clean_run H1 fm pl files trues.
Proof. exact candidates_clean_run_of_pieces. Qed.
Print Assumptions C13_candidates_clean_run_of_pieces.

(* COMPOSITION with the creators.  A metafile written by any of the four v2-capable creators (v2 and hybrid, class based and
   assembler) for a directory payload; every name passes _check_parts; the payload is not "one file named like the torrent"
   (BEP 52 file trees cannot tell that from the single-file form; Metadata.extract reads it as a single file); an intact copy of
   every non-empty file is indexed under its name and whatever else is indexed under that name with that size is the file; the
   destination is fresh.  Then rebuild returns and every NON-EMPTY file of the tree is at dest/name/<path> with its bytes
   (zero-length files are never placed by the v2 route: C13_v2_empty_file_not_placed). *)
Theorem C13_own_metafiles_rebuild_v2 : forall (H1 H256 : bytes -> bytes) B, 0 < B -> forall k pl, pl = B * 2 ^ k ->
  forall (o : Creators.options) (name : bytes) (es : list (bytes * Creators.node)) (m : value)
         (dsize : nat) (dest : path) (fm : filemap) (f : fs),
  Creators.wf_node (Creators.Dir es) -> names_safe (Creators.Dir es) -> safe name -> not_single name es ->
  CreatorsProofs2.v2_capable_output H1 H256 B pl o name (Creators.Dir es) m ->
  filemap_reflects f fm -> dest_disjoint dest fm -> dest_fresh f dest ->
  own_intact fm name (Creators.Dir es) -> own_clean fm name (Creators.Dir es) ->
  exists g, rebuild_of_metafile H1 H256 B dsize dest fm m f = Some (Ok g) /\
  forall p d, In (p, d) (Creators.files_of [] (Creators.Dir es)) -> d <> [] ->
              g (dest ++ map text (name :: p)) = Some (File d).
Proof. exact own_metafiles_rebuild_v2. Qed.
Print Assumptions C13_own_metafiles_rebuild_v2.

(* the v1 creator (no --align, directory payload).  `_partial`: own_clean stands in for candidates_clean_run (which it implies);
   an intact copy of EVERY file must be indexed, the empty ones too; --align and single-file payloads are not covered *)
Theorem C13_own_metafiles_rebuild_v1_partial : forall (H1 H256 : bytes -> bytes) B, (forall x, length (H1 x) = 20) ->
  forall (o : Creators.options) (rootstr name : bytes) pl (es : list (bytes * Creators.node))
         (dsize : nat) (dest : path) (fm : filemap) (f : fs),
  0 < pl -> Creators.wf_node (Creators.Dir es) -> Creators.has_file (Creators.Dir es) ->
  names_safe (Creators.Dir es) -> safe name ->
  filemap_reflects f fm -> dest_disjoint dest fm -> dest_fresh f dest ->
  own_intact_all fm name (Creators.Dir es) -> own_clean fm name (Creators.Dir es) ->
  exists g, rebuild_of_metafile H1 H256 B dsize dest fm
              (Creators.create_v1 H1 false o rootstr name pl (Creators.Dir es)) f = Some (Ok g) /\
  forall p d, In (p, d) (Creators.files_of [] (Creators.Dir es)) -> d <> [] ->
              g (dest ++ map text (name :: p)) = Some (File d).
Proof. exact own_metafiles_rebuild_v1_partial. Qed.
Print Assumptions C13_own_metafiles_rebuild_v1_partial.
