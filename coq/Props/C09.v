(* C09 -- Results never depend on what the process did earlier.
   Statements only; every proof is `exact <lemma>`.  op_summaries is GENERATED from /repo on this run. *)
From Coq Require Import List Arith Bool String. Import ListNotations.
From TF Require Import Model.State Proofs.NonInterference Gen.GenState Proofs.StateInstance.

(* general: for ANY semantics that respects a summary the checker accepts, every history of
   operations (any length, any interleaving, any arguments and filesystem states) yields, step by
   step, exactly the results each operation yields in a fresh process *)
Theorem C09_noninterference : forall (V X R : Type) (sem : nat -> X -> (nat -> V) -> R * (nat -> V)) ops,
  check_flows ops = true -> respects V X R sem ops ->
  forall h st0, Forall (fun p => fst p < List.length ops) h ->
  run_history V X R sem h st0 = run_fresh V X R sem h st0.
Proof. exact noninterference. Qed.
Print Assumptions C09_noninterference.

(* instance: the package as it is now has no process-lifetime cell that flows into a result and is written *)
Theorem C09_no_result_depends_on_written_state : check_flows op_summaries = true.
Proof. exact gen_check_flows. Qed.
Print Assumptions C09_no_result_depends_on_written_state.

Theorem C09_history_equals_fresh_runs : forall (V X R : Type) (sem : nat -> X -> (nat -> V) -> R * (nat -> V)),
  respects V X R sem op_summaries ->
  forall h st0, Forall (fun p => fst p < List.length op_summaries) h ->
  run_history V X R sem h st0 = run_fresh V X R sem h st0.
Proof. exact gen_noninterference. Qed.
Print Assumptions C09_history_equals_fresh_runs.
