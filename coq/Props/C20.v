(* C20 -- Each create option means the same thing however it is supplied: command-line flag (in
   any position relative to the content path), configuration-file key, or library keyword; and it
   lands in its documented metafile field.
   Statements only; every proof is `exact <lemma>`.  `T_gen` = the tables GENERATED on this run
   from /repo/torrentfile/{cli,commands,torrent}.py (Gen/GenCli.v, Gen/GenConfig.v); `run_parse` =
   the argparse model (Model/ArgParse.v) on the generated create table; `init_params` = the model of
   MetaFile.__init__ (Model/Routes.v) with `exists_` = os.path.exists; the documented side
   (doc_flags, doc_cfg_key, doc_kw, params_of, doc_fields, doc_class) is written from the manual. *)
From Coq Require Import String List Bool Permutation.
From TF Require Import Model.ArgParse Model.Routes Model.RoutesRun Gen.GenCli Gen.GenConfig.
From TF Require Import Proofs.RoutesProofs Proofs.RoutesInit Proofs.RoutesThm Proofs.RoutesInstance.
Import ListNotations.
Open Scope string_scope.

(* general theorem about the certified checker: whatever tables it accepts route every documented
   option consistently (flag -> dest = keyword = configuration keyword = __init__ parameter) *)
Theorem C20_route_table_ok_sound : forall T, route_table_ok T = true ->
  forall k,
    (forall f, In f (doc_flags k) -> exists a, find_flag (t_cli T) f = Some a /\ a_dest a = doc_kw k)
    /\ t_cfg T (doc_cfg_key k) = (doc_kw k, tr_of (doc_shape k))
    /\ (exists d, lookup (t_params T) (doc_kw k) = Some d).
Proof. exact route_table_ok_sound. Qed.
Print Assumptions C20_route_table_ok_sound.

(* the instance: the tables generated NOW are accepted (computation over the finite tables) *)
Theorem C20_route_table_ok : route_table_ok T_gen = true.
Proof. exact gen_route_table_ok. Qed.
Print Assumptions C20_route_table_ok.

(* command line: every option record, every documented spelling of each flag (sel), every order of
   the flags (any duplicate-free list containing the supplied options), every position of the
   content path -- including right after -a/--web-seed/--http-seed, where argparse swallows it
   and MetaFile.__init__ recovers it *)
Theorem C20_cli_any_position : forall (exists_ : string -> bool) o sel order pos,
  cli_values_ok exists_ o = true ->
  NoDup order -> (forall k, opt_value o k <> None -> In k order) ->
  exists N, run_parse (render_argv o sel order pos) = PR_ok N
            /\ init_params exists_ T_gen N = IOk (params_of o)
            /\ dispatch T_gen N = doc_class o.
Proof. exact gen_cli_any_position. Qed.
Print Assumptions C20_cli_any_position.

Theorem C20_cli_any_permutation : forall (exists_ : string -> bool) o sel order pos,
  cli_values_ok exists_ o = true -> Permutation all_keys order ->
  exists N, run_parse (render_argv o sel order pos) = PR_ok N
            /\ init_params exists_ T_gen N = IOk (params_of o)
            /\ dispatch T_gen N = doc_class o.
Proof. exact gen_cli_any_permutation. Qed.
Print Assumptions C20_cli_any_permutation.

(* configuration file: `torrentfile create <content> --config` with the equivalent [config] section
   (keys in any order; unset booleans written `= false` or left out) *)
Theorem C20_config_route : forall (exists_ : string -> bool) o explicit_false order,
  cfg_values_ok o = true -> nonflag (o_content o) = true ->
  (forall k, opt_value o k <> None -> In k order) ->
  exists N, run_cfg (render_ini o explicit_false order) [o_content o; "--config"] = Some N
            /\ init_params exists_ T_gen N = IOk (params_of o)
            /\ dispatch T_gen N = doc_class o.
Proof. exact gen_config_route_argv. Qed.
Print Assumptions C20_config_route.

(* keyword arguments *)
Theorem C20_keyword_route : forall (exists_ : string -> bool) o, kw_values_ok o = true ->
  init_params exists_ T_gen (kwargs_of o) = IOk (params_of o).
Proof. exact gen_keyword_route. Qed.
Print Assumptions C20_keyword_route.

(* meta_version as the docstring's int *)
Theorem C20_keyword_int_version : forall n, n < 10 -> hybrid_of T_gen (VInt n) = Nat.eqb n 3.
Proof. exact gen_keyword_int_hybrid. Qed.
Print Assumptions C20_keyword_int_version.

(* each option lands in its documented metafile field (None = key absent) *)
Theorem C20_params_land : forall normalize_pl path_pl o f v,
  In (f, v) (doc_fields normalize_pl path_pl o) ->
  mfield (meta_of T_gen normalize_pl path_pl (params_of o)) f = v.
Proof. exact gen_params_land. Qed.
Print Assumptions C20_params_land.

(* hypotheses are satisfiable; the models compute *)
Theorem C20_example_values :
  cli_values_ok ex_exists ex_o = true /\ cfg_values_ok ex_o = true /\ kw_values_ok ex_o = true
  /\ Permutation all_keys ex_order.
Proof. exact ex_values_ok. Qed.
Print Assumptions C20_example_values.

Theorem C20_example_routes :
  run_cli ["my content"] (render_argv ex_o (fun k => match k with KAnnounce => 2 | _ => 0 end) ex_order 2)
    = Some ("TorrentAssembler", IOk (params_of ex_o))
  /\ run_config ["my content"] (render_ini ex_o true ex_order) ["my content"; "--config"]
    = Some ("TorrentAssembler", IOk (params_of ex_o))
  /\ run_kwargs ["my content"] (kwargs_of ex_o) = IOk (params_of ex_o).
Proof. exact (conj (proj1 ex_cli) (conj ex_config ex_keyword)). Qed.
Print Assumptions C20_example_routes.

(* the pinned (pre-repair) behaviours: rejected by the checker, each with its witness *)
Theorem C20_config_web_seed_lost_refuted :
  route_table_ok (with_cfg cfg_D17 true) = false
  /\ exists p, match apply_cfg (with_cfg cfg_D17 true) (render_ini ex_o true ex_order)
                     (set "content" (VStr "my content") (defaults create_args)) with
               | Some N => init_params ex_exists (with_cfg cfg_D17 true) N
               | None => IOutside
               end = IOk p /\ p_url_list p = [] /\ p_url_list (params_of ex_o) <> [].
Proof. exact C20_config_route_refuted_D17. Qed.
Print Assumptions C20_config_web_seed_lost_refuted.

Theorem C20_config_out_ignored_refuted :
  route_table_ok (with_cfg cfg_D18 true) = false
  /\ exists p, match apply_cfg (with_cfg cfg_D18 true) (render_ini ex_o true ex_order)
                     (set "content" (VStr "my content") (defaults create_args)) with
               | Some N => init_params ex_exists (with_cfg cfg_D18 true) N
               | None => IOutside
               end = IOk p /\ p_outfile p = "" /\ p_outfile (params_of ex_o) <> "".
Proof. exact C20_config_route_refuted_D18. Qed.
Print Assumptions C20_config_out_ignored_refuted.

Theorem C20_config_percent_rejected_refuted :
  route_table_ok (with_cfg cfg_route false) = false
  /\ apply_cfg (with_cfg cfg_route false) (render_ini ex_o true ex_order)
       (set "content" (VStr "my content") (defaults create_args)) = None.
Proof. exact C20_config_route_refuted_D19. Qed.
Print Assumptions C20_config_percent_rejected_refuted.
