(* C14 -- Rebuild only adds verified copies; it never damages sources or existing files.
   Statements only; every proof is `exact <lemma>`.  H1 (SHA-1) is an arbitrary function.

   Models (hand written against the current /repo, tied to it by differential execution in
   harness/props/c14.py):
     copypath dsize source dest fs   utils.copypath on an abstract filesystem (paths = tuples of
                                     pathlib parts; dsize = what getsize reports for a directory);
                                     copypath_run also tells whether the call returned or raised
     find_matches / match_v1         Model/Rebuild.v (see Props/C13.v); `copies`/`trace` are the
                                     copypath calls in execution order as (candidate location, path
                                     relative to the destination)
   Every filesystem change of a v1 rebuild is made by one of the copypath calls in `trace`.
   The last part states the same for the v2 route: match_v2 / verified of Model/RebuildMeta.v (see Props/C13.v). *)
From Coq Require Import List String.
From TF Require Import Lib.Base Model.Rebuild Model.CopyPath Proofs.CopyPathProofs Proofs.RebuildMatch.
Import ListNotations.
Open Scope list_scope.

(* ---------------------------------------------------------------------------------------------- *)
(* one copypath call                                                                              *)
(* ---------------------------------------------------------------------------------------------- *)

(* frame: besides dest and ancestor directories of dest that did not exist, nothing changes -- also
   when the call raises half way; dest keeps its content or receives the source's *)
Theorem C14_copypath_frame : forall dsize source dest f,
  let f' := copypath dsize source dest f in
  (forall p, p <> dest -> ~ is_new_ancestor f p dest -> f' p = f p) /\
  (f' dest = f dest \/ f' dest = f source).
Proof. exact copypath_frame. Qed.
Print Assumptions C14_copypath_frame.

(* a directory standing where the file should go is left alone, with everything in it *)
Theorem C14_dir_dest_untouched : forall dsize source dest f,
  is_dir_b f dest = true -> copypath_run dsize source dest f = Ok f.
Proof. exact copypath_dir_dest_untouched. Qed.
Print Assumptions C14_dir_dest_untouched.

(* ... which was false of the code before the repair ff51958 (kept as the regression witness): the
   copy landed INSIDE that directory, at a path that is neither dest nor one of its ancestors *)
Theorem C14_copypath_frame_before_repair_refuted :
  exists dsize source dest f p,
    p <> dest /\ ~ is_new_ancestor f p dest /\ ~ prefix p dest /\
    fs_of (copypath_run_old_dir dsize source dest f) p <> f p /\
    copypath_run dsize source dest f = Ok f.
Proof. exact copypath_old_dir_dest_refuted. Qed.
Print Assumptions C14_copypath_frame_before_repair_refuted.

(* a destination that exists and is at least as long as the source (in particular: already has the
   full recorded length, candidates having exactly that length) is never touched, and nothing else is *)
Theorem C14_full_length_untouched : forall dsize source dest f,
  exists_b f dest = true ->
  getsize dsize f dest >= getsize dsize f source ->
  copypath_run dsize source dest f = Ok f.
Proof. exact copypath_full_length_untouched. Qed.
Print Assumptions C14_full_length_untouched.

(* the source (a file under a search directory) is never altered *)
Theorem C14_source_untouched : forall dsize source dest f,
  copypath dsize source dest f source = f source.
Proof. exact copypath_source_untouched. Qed.
Print Assumptions C14_source_untouched.

(* everything that changes is dest or one of its ancestors: with dest = destination/full nothing
   under a search directory or beside the destination changes *)
Theorem C14_changes_lead_to_the_target : forall dsize source dest f p,
  copypath dsize source dest f p <> f p -> prefix p dest.
Proof. exact copypath_targets_under_dest_parent. Qed.
Print Assumptions C14_changes_lead_to_the_target.

(* repeated: a second identical call changes nothing further *)
Theorem C14_copypath_idempotent : forall dsize source dest f p,
  copypath dsize source dest (copypath dsize source dest f) p = copypath dsize source dest f p.
Proof. exact copypath_idempotent. Qed.
Print Assumptions C14_copypath_idempotent.

(* ---------------------------------------------------------------------------------------------- *)
(* which copypath calls a v1 rebuild makes                                                        *)
(* ---------------------------------------------------------------------------------------------- *)

(* copies only on success: a piece search that fails has made no copypath call at all *)
Theorem C14_no_copy_unless_piece_verifies : forall (H1 : bytes -> bytes) (fm : filemap)
    (piece : bytes) (paths : list pathnode) (copies : list copy),
  find_matches H1 fm piece paths = (false, copies) -> copies = [].
Proof. exact find_matches_failure_no_copies. Qed.
Print Assumptions C14_no_copy_unless_piece_verifies.

(* ... and one that succeeds copies exactly the candidates of a choice whose selected bytes hash to
   the recorded digest: every placed file took part in a verified piece *)
Theorem C14_copies_belong_to_a_verified_choice : forall (H1 : bytes -> bytes) (fm : filemap)
    (piece : bytes) (paths : list pathnode) (copies : list copy),
  find_matches H1 fm piece paths = (true, copies) ->
  exists chosen : list candidate,
    valid_choice fm paths chosen /\
    H1 (choice_bytes paths chosen) = piece /\
    copies = rev (choice_copies paths chosen) /\
    (forall l full, In (l, full) copies ->
       exists pn c, In pn paths /\ full = pn_full pn /\ l = fst c /\ is_candidate fm pn c) /\
    (forall pn, In pn paths -> exists l, In (l, pn_full pn) copies).
Proof. exact find_matches_sound. Qed.
Print Assumptions C14_copies_belong_to_a_verified_choice.

(* over the whole run: every copypath call copies a search-directory file listed under the recorded
   file name and having the recorded length, to the path the metafile assigns to that file *)
Theorem C14_copies_are_candidates : forall (H1 : bytes -> bytes) (fm : filemap)
    (nodes : list (bytes * list pathnode)) (outs : list v1_outcome) (copied : list String.string)
    (trace : list copy) (l : loc) (full : String.string),
  match_v1 H1 fm nodes = (outs, copied, trace) ->
  In (l, full) trace ->
  exists piece paths pn c,
    In (piece, paths) nodes /\ In pn paths /\ full = pn_full pn /\ l = fst c /\ is_candidate fm pn c.
Proof. exact match_v1_copies_are_candidates. Qed.
Print Assumptions C14_copies_are_candidates.

(* ---------------------------------------------------------------------------------------------- *)
(* which copypath calls a v2 / hybrid rebuild makes                                               *)
(* ---------------------------------------------------------------------------------------------- *)
From TF Require Import Model.Bencode Spec.Bep52 Model.RebuildMeta Proofs.RebuildMetaProofs.

(* only verified copies: every copypath call copies a search-directory file that is indexed under the entry's file
   name, has EXACTLY the recorded length and whose BEP 52 pieces root (of its whole content) is the recorded root,
   to the path the metafile assigns to that entry *)
Theorem C14_v2_only_verified_copies : forall (H256 : bytes -> bytes) B, 0 < B -> forall k pl, pl = B * 2 ^ k ->
  forall (fm : filemap) (entries : list entry) (l : loc) (full : string),
  In (l, full) (fst (match_v2 H256 B pl fm entries)) ->
  exists e cands content,
    In e entries /\ full = full_text e /\
    fm_lookup fm (text (e_filename e)) = Some cands /\ In (l, content) cands /\ verified H256 B e (l, content).
Proof. exact match_v2_sound. Qed.
Print Assumptions C14_v2_only_verified_copies.

(* a candidate of any other size -- shorter, or longer with the genuine bytes first -- never verifies *)
Theorem C14_v2_other_size_never_placed : forall (H256 : bytes -> bytes) B (e : entry) (c : candidate),
  Z.of_nat (length (snd c)) <> e_length e -> ~ verified H256 B e c.
Proof. exact other_size_never_verifies. Qed.
Print Assumptions C14_v2_other_size_never_placed.

(* at most one copypath call per entry, and the number of files counted is the number of copypath calls *)
Theorem C14_v2_one_copy_per_entry : forall (H256 : bytes -> bytes) B, 0 < B -> forall k pl, pl = B * 2 ^ k ->
  forall (fm : filemap) (e : entry), length (v2_entry H256 B pl fm e) <= 1.
Proof. exact v2_entry_at_most_one. Qed.
Print Assumptions C14_v2_one_copy_per_entry.

Theorem C14_v2_counted_are_copied : forall (H256 : bytes -> bytes) B pl (fm : filemap) (entries : list entry),
  fst (match_v2 H256 B pl fm entries) = concat (map (v2_entry H256 B pl fm) entries) /\
  snd (match_v2 H256 B pl fm entries) = length (fst (match_v2 H256 B pl fm entries)).
Proof. exact match_v2_is_concat. Qed.
Print Assumptions C14_v2_counted_are_copied.

(* ---------------------------------------------------------------------------------------------- *)
(* the whole run ON THE FILESYSTEM (Model/RebuildRun.v: the matcher's copypath calls executed in    *)
(* order; a call that raises ends the run).  See Props/C13.v for filemap_reflects, dest_disjoint,   *)
(* entry_valid, target.                                                                             *)
(* ---------------------------------------------------------------------------------------------- *)
From TF Require Import Model.RebuildRun Proofs.RebuildRunProofs.

(* "run the matcher, then the copies" is the real interleaved run: after ANY executed part of the trace every candidate still
   holds the bytes the matcher read (so do the metafiles: C14_sources_and_metafiles_untouched) *)
Theorem C14_candidates_keep_their_bytes_during_the_run : forall (dsize : nat) (fm : filemap) (dest : path) (f : fs),
  filemap_reflects f fm -> dest_disjoint dest fm ->
  forall trace done rest : list copy, trace = done ++ rest -> trace_indexed fm trace -> trace_relative trace ->
  filemap_reflects (run_copies dsize dest done f) fm.
Proof. exact run_prefix_reflects. Qed.
Print Assumptions C14_candidates_keep_their_bytes_during_the_run.

(* v2 / hybrid: EVERYTHING that is different after the run is (a) the place the metafile assigns to a listed entry, now holding
   the bytes of a search-directory file indexed under and named like the entry's file name, of exactly the recorded length and
   with the recorded BEP 52 root, where before there was nothing or a strictly shorter file; or (b) a directory that did not
   exist, on the way to such a place *)
Theorem C14_writes_are_verified_copies_v2 : forall (H256 : bytes -> bytes) B, 0 < B -> forall k pl, pl = B * 2 ^ k ->
  forall (dsize : nat) (fm : filemap) (dest : path) (entries : list entry), Forall entry_valid entries ->
  forall f : fs, filemap_reflects f fm -> dest_disjoint dest fm ->
  forall p : path, rebuild_v2_fs dsize H256 B pl fm dest entries f p <> f p ->
  (exists e l data, In e entries /\ p = target dest e /\
      indexed fm (text (e_filename e)) (l, data) /\ verified H256 B e (l, data) /\
      basename (parts_of l) = text (e_filename e) /\ CopyPath.lookup f (parts_of l) = Some (File data) /\
      rebuild_v2_fs dsize H256 B pl fm dest entries f p = Some (File data) /\
      (f p = None \/ exists old, f p = Some (File old) /\ List.length old < List.length data)) \/
  (p <> [] /\ f p = None /\ rebuild_v2_fs dsize H256 B pl fm dest entries f p = Some Dir /\
   exists e, In e entries /\ CopyPath.proper_prefix p (target dest e)).
Proof. exact rebuild_v2_writes_are_verified_copies. Qed.
Print Assumptions C14_writes_are_verified_copies_v2.

(* v1: the same, the written bytes being those of a candidate that took part in a choice (one candidate per path node of a
   recorded piece, each indexed under the node's file name with the node's length) whose selected bytes hash to the recorded
   digest of that piece [v1_justified] *)
Theorem C14_writes_are_verified_copies_v1 : forall (H1 : bytes -> bytes) (dsize : nat) (fm : filemap) (dest : path)
    (nodes : list (bytes * list pathnode)), nodes_relative nodes ->
  forall f : fs, filemap_reflects f fm -> dest_disjoint dest fm ->
  forall p : path, rebuild_v1_fs dsize H1 fm dest nodes f p <> f p ->
  (exists l pn data, v1_justified H1 fm nodes l pn data /\ p = dest ++ parts_of (pn_full pn) /\
      basename (parts_of l) = pn_filename pn /\ List.length data = pn_length pn /\
      CopyPath.lookup f (parts_of l) = Some (File data) /\ rebuild_v1_fs dsize H1 fm dest nodes f p = Some (File data) /\
      (f p = None \/ exists old, f p = Some (File old) /\ List.length old < List.length data)) \/
  (p <> [] /\ f p = None /\ rebuild_v1_fs dsize H1 fm dest nodes f p = Some Dir /\
   exists piece paths pn, In (piece, paths) nodes /\ In pn paths /\ CopyPath.proper_prefix p (dest ++ parts_of (pn_full pn))).
Proof. exact rebuild_v1_writes_are_verified_copies. Qed.
Print Assumptions C14_writes_are_verified_copies_v1.

(* what v1_justified says *)
Theorem C14_v1_justified_means : forall (H1 : bytes -> bytes) (fm : filemap) (nodes : list (bytes * list pathnode)) l pn data,
  v1_justified H1 fm nodes l pn data <->
  exists piece paths chosen, In (piece, paths) nodes /\ valid_choice fm paths chosen /\
    H1 (choice_bytes paths chosen) = piece /\ In (pn, (l, data)) (combine paths chosen) /\
    In pn paths /\ indexed fm (pn_filename pn) (l, data) /\ List.length data = pn_length pn.
Proof. exact v1_justified_means. Qed.
Print Assumptions C14_v1_justified_means.

(* the search directories and the metafiles: no candidate changes, and whatever exists outside the destination (in particular
   every metafile and everything under a search directory) is exactly as before; the only changes outside are missing ancestor
   directories of the destination that are created.  Whole command (any mix of v1 and v2 metafiles, shared destination). *)
Theorem C14_sources_and_metafiles_untouched : forall (H1 H256 : bytes -> bytes) B, 0 < B ->
  forall (dsize : nat) (fm : filemap) (dest : path) (jobs : list job), Forall (job_ok B) jobs ->
  forall f : fs, filemap_reflects f fm -> dest_disjoint dest fm ->
  let f' := assemble_fs dsize H1 H256 B fm dest jobs f in
  (forall name l data, indexed fm name (l, data) -> f' (parts_of l) = f (parts_of l)) /\
  (forall p, f p <> None -> ~ CopyPath.prefix dest p -> f' p = f p) /\
  (forall p, f' p <> f p -> CopyPath.prefix dest p \/ (CopyPath.proper_prefix p dest /\ f p = None /\ f' p = Some Dir)).
Proof.
  exact (fun H1 H256 B HB dsize fm dest jobs J f R D =>
           conj (assemble_candidates_untouched H1 H256 B HB dsize fm dest jobs J f R D)
                (conj (assemble_existing_outside_untouched H1 H256 B HB dsize fm dest jobs J f R D)
                      (assemble_changes_inside_dest H1 H256 B HB dsize fm dest jobs J f R D))).
Qed.
Print Assumptions C14_sources_and_metafiles_untouched.

(* whole command: every write is justified by one of the metafiles *)
Theorem C14_writes_are_verified_copies_batch : forall (H1 H256 : bytes -> bytes) B, 0 < B ->
  forall (dsize : nat) (fm : filemap) (dest : path) (jobs : list job), Forall (job_ok B) jobs ->
  forall f : fs, filemap_reflects f fm -> dest_disjoint dest fm ->
  forall p : path, assemble_fs dsize H1 H256 B fm dest jobs f p <> f p ->
  (exists j l data, In j jobs /\ job_justifies H1 H256 B fm dest j p l data /\
      CopyPath.lookup f (parts_of l) = Some (File data) /\ assemble_fs dsize H1 H256 B fm dest jobs f p = Some (File data) /\
      (f p = None \/ exists old, f p = Some (File old) /\ List.length old < List.length data)) \/
  (p <> [] /\ f p = None /\ assemble_fs dsize H1 H256 B fm dest jobs f p = Some Dir /\
   exists j l full, In j jobs /\ In (l, full) (job_trace H1 H256 B fm j) /\ CopyPath.proper_prefix p (dest ++ parts_of full)).
Proof. exact assemble_writes_are_verified_copies. Qed.
Print Assumptions C14_writes_are_verified_copies_batch.

(* a destination file that already has at least the recorded length of every entry placed there keeps its bytes, whatever they
   are; a directory standing there stays *)
Theorem C14_full_length_untouched_v2 : forall (H256 : bytes -> bytes) B, 0 < B -> forall k pl, pl = B * 2 ^ k ->
  forall (dsize : nat) (fm : filemap) (dest : path) (entries : list entry), Forall entry_valid entries ->
  forall f : fs, filemap_reflects f fm -> dest_disjoint dest fm ->
  forall (p : path) (old : bytes), f p = Some (File old) ->
  (forall e, In e entries -> p = target dest e -> (e_length e <= Z.of_nat (List.length old))%Z) ->
  rebuild_v2_fs dsize H256 B pl fm dest entries f p = Some (File old).
Proof. exact rebuild_v2_full_length_untouched. Qed.
Print Assumptions C14_full_length_untouched_v2.

Theorem C14_full_length_untouched_v1 : forall (H1 : bytes -> bytes) (dsize : nat) (fm : filemap) (dest : path)
    (nodes : list (bytes * list pathnode)), nodes_relative nodes ->
  forall f : fs, filemap_reflects f fm -> dest_disjoint dest fm ->
  forall (p : path) (old : bytes), f p = Some (File old) ->
  (forall piece paths pn, In (piece, paths) nodes -> In pn paths -> p = dest ++ parts_of (pn_full pn) ->
                          pn_length pn <= List.length old) ->
  rebuild_v1_fs dsize H1 fm dest nodes f p = Some (File old).
Proof. exact rebuild_v1_full_length_untouched. Qed.
Print Assumptions C14_full_length_untouched_v1.

(* repeated: after the command the filemap still describes the filesystem (same search result, same calls), and running the
   same calls again changes nothing and ends the same way (returns, or raises at the same call) *)
Theorem C14_idempotent : forall (H1 H256 : bytes -> bytes) B, 0 < B ->
  forall (dsize : nat) (fm : filemap) (dest : path) (jobs : list job), Forall (job_ok B) jobs ->
  forall f : fs, filemap_reflects f fm -> dest_disjoint dest fm ->
  let f' := assemble_fs dsize H1 H256 B fm dest jobs f in
  filemap_reflects f' fm /\
  assemble_run dsize H1 H256 B fm dest jobs f' = assemble_run dsize H1 H256 B fm dest jobs f.
Proof.
  exact (fun H1 H256 B HB dsize fm dest jobs J f R D =>
           conj (assemble_reflects_after H1 H256 B HB dsize fm dest jobs J f R D)
                (assemble_idempotent H1 H256 B HB dsize fm dest jobs J f R D)).
Qed.
Print Assumptions C14_idempotent.

Theorem C14_idempotent_v2 : forall (H256 : bytes -> bytes) B, 0 < B -> forall k pl, pl = B * 2 ^ k ->
  forall (dsize : nat) (fm : filemap) (dest : path) (entries : list entry), Forall entry_valid entries ->
  forall f : fs, filemap_reflects f fm -> dest_disjoint dest fm ->
  rebuild_v2_run dsize H256 B pl fm dest entries (rebuild_v2_fs dsize H256 B pl fm dest entries f) =
  rebuild_v2_run dsize H256 B pl fm dest entries f.
Proof. exact rebuild_v2_idempotent. Qed.
Print Assumptions C14_idempotent_v2.

Theorem C14_idempotent_v1 : forall (H1 : bytes -> bytes) (dsize : nat) (fm : filemap) (dest : path)
    (nodes : list (bytes * list pathnode)), nodes_relative nodes ->
  forall f : fs, filemap_reflects f fm -> dest_disjoint dest fm ->
  rebuild_v1_run dsize H1 fm dest nodes (rebuild_v1_fs dsize H1 fm dest nodes f) = rebuild_v1_run dsize H1 fm dest nodes f.
Proof. exact rebuild_v1_idempotent. Qed.
Print Assumptions C14_idempotent_v1.

(* ---------------------------------------------------------------------------------------------- *)
(* which kinds of filesystem effects the rebuild command can have at all                          *)
(* (call graph and effect summary REGENERATED from torrentfile/*.py on this run: Gen/GenEffects.v) *)
(* ---------------------------------------------------------------------------------------------- *)
From TF Require Import Model.Effects Proofs.EffectsProofs Gen.GenEffects Proofs.EffectsInstance.

(* the certified checker: whenever it accepts, every event of an execution that stays within the summary has an allowed kind *)
Theorem C14_only_effects_sound : forall allowed g pr roots,
  only_effects allowed g pr roots = true ->
  forall tr, within g pr roots tr -> Forall (fun e => In (kind_of e) allowed) tr.
Proof. exact only_effects_sound. Qed.
Print Assumptions C14_only_effects_sound.

(* the instance: everything reachable from the rebuild command (and from the code that runs before any command) reads, makes
   directories and copies -- it never removes, renames, truncates or opens anything for writing *)
Theorem C14_rebuild_effect_kinds :
  only_effects [ERead; EMkdir; ECopy] call_graph direct_effects cmd_rebuild = true.
Proof. exact gen_rebuild_effects. Qed.
Print Assumptions C14_rebuild_effect_kinds.

(* ---------------------------------------------------------------------------------------------- *)
(* the whole command with the METAFILE as the only description of the torrent                       *)
(* rebuild_of_metafile (Model/RebuildRun.v) = Metadata(path) [metadata_init] + the dispatch of       *)
(* Metadata.rebuild + _map_pieces/_match_v1 or _match_v2 + the copypath calls; None = no Metadata    *)
(* object, or outside the model (piece length not a positive int, negative lengths, `pieces` no      *)
(* byte string).  v2_piece_length_ok: the piece length of a v2 / hybrid metafile is B * 2^k.         *)
(* ---------------------------------------------------------------------------------------------- *)
From TF Require Import Proofs.RebuildEndToEnd.

Theorem C14_rebuild_of_metafile_writes_verified_copies : forall (H1 H256 : bytes -> bytes) B, 0 < B ->
  forall (dsize : nat) (dest : path) (fm : filemap) (meta : value), v2_piece_length_ok B meta ->
  forall f : fs, filemap_reflects f fm -> dest_disjoint dest fm ->
  forall r : result, rebuild_of_metafile H1 H256 B dsize dest fm meta f = Some r ->
  forall p : path, fs_of r p <> f p ->
  exists x, metadata_init meta = Some x /\
  ((exists e l data, In e (x_files x) /\ p = target dest e /\
      indexed fm (text (e_filename e)) (l, data) /\ Z.of_nat (List.length data) = e_length e /\
      basename (parts_of l) = text (e_filename e) /\ CopyPath.lookup f (parts_of l) = Some (File data) /\
      fs_of r p = Some (File data) /\
      (f p = None \/ exists old, f p = Some (File old) /\ List.length old < List.length data) /\
      (if x_is_v2 x then verified H256 B e (l, data)
       else exists pl s pn, pl_of (x_piece_length x) = Some pl /\ x_pieces x = BStr s /\
              pn_full pn = full_text e /\
              v1_justified H1 fm (v1_nodes pl (map vfile_of (x_files x)) (digests_of s)) l pn data)) \/
   (p <> [] /\ f p = None /\ fs_of r p = Some Dir /\
    exists e, In e (x_files x) /\ CopyPath.proper_prefix p (target dest e))).
Proof. exact rebuild_of_metafile_writes_verified_copies. Qed.
Print Assumptions C14_rebuild_of_metafile_writes_verified_copies.

Theorem C14_rebuild_of_metafile_inside_destination : forall (H1 H256 : bytes -> bytes) B, 0 < B ->
  forall (dsize : nat) (dest : path) (fm : filemap) (meta : value), v2_piece_length_ok B meta ->
  forall f : fs, filemap_reflects f fm -> dest_disjoint dest fm ->
  forall r : result, rebuild_of_metafile H1 H256 B dsize dest fm meta f = Some r ->
  forall p : path, fs_of r p <> f p ->
  exists x, metadata_init meta = Some x /\
  (CopyPath.prefix (dest ++ [text (x_name x)]) p \/
   (CopyPath.prefix p dest /\ p <> [] /\ f p = None /\ fs_of r p = Some Dir)).
Proof. exact rebuild_of_metafile_inside_destination. Qed.
Print Assumptions C14_rebuild_of_metafile_inside_destination.

(* candidates, metafiles and everything that exists outside dest are untouched; the filemap still describes the filesystem;
   the same command again is the same run and changes nothing *)
Theorem C14_rebuild_of_metafile_sources_untouched_and_idempotent : forall (H1 H256 : bytes -> bytes) B, 0 < B ->
  forall (dsize : nat) (dest : path) (fm : filemap) (meta : value), v2_piece_length_ok B meta ->
  forall f : fs, filemap_reflects f fm -> dest_disjoint dest fm ->
  forall r : result, rebuild_of_metafile H1 H256 B dsize dest fm meta f = Some r ->
  (forall name l data, indexed fm name (l, data) -> fs_of r (parts_of l) = f (parts_of l)) /\
  (forall p, f p <> None -> ~ CopyPath.prefix dest p -> fs_of r p = f p) /\
  filemap_reflects (fs_of r) fm /\
  rebuild_of_metafile H1 H256 B dsize dest fm meta (fs_of r) = Some r.
Proof. exact rebuild_of_metafile_outside_untouched. Qed.
Print Assumptions C14_rebuild_of_metafile_sources_untouched_and_idempotent.
