(* C14 -- Rebuild only adds verified copies; it never damages sources or existing files.
   Statements only; every proof is `exact <lemma>`.  H1 (SHA-1) is an arbitrary function.

   Models (hand written against the current /repo, tied to it by differential execution in
   harness/props/c14.py):
     copypath dsize source dest fs   utils.copypath on an abstract filesystem (paths = tuples of
                                     pathlib parts; dsize = what getsize reports for a directory);
                                     copypath_run also tells whether the call returned or raised
     find_matches / match_v1         Model/Rebuild.v (see Props/C13.v); `copies`/`trace` are the
                                     copypath calls in execution order as (candidate location, path
                                     relative to the destination)
   Every filesystem change of a v1 rebuild is made by one of the copypath calls in `trace`.
   The last part states the same for the v2 route: match_v2 / verified of Model/RebuildMeta.v (see Props/C13.v). *)
From Coq Require Import List String.
From TF Require Import Lib.Base Model.Rebuild Model.CopyPath Proofs.CopyPathProofs Proofs.RebuildMatch.
Import ListNotations.
Open Scope list_scope.

(* ---------------------------------------------------------------------------------------------- *)
(* one copypath call                                                                              *)
(* ---------------------------------------------------------------------------------------------- *)

(* frame: besides dest and ancestor directories of dest that did not exist, nothing changes -- also
   when the call raises half way; dest keeps its content or receives the source's *)
Theorem C14_copypath_frame : forall dsize source dest f,
  let f' := copypath dsize source dest f in
  (forall p, p <> dest -> ~ is_new_ancestor f p dest -> f' p = f p) /\
  (f' dest = f dest \/ f' dest = f source).
Proof. exact copypath_frame. Qed.
Print Assumptions C14_copypath_frame.

(* a directory standing where the file should go is left alone, with everything in it *)
Theorem C14_dir_dest_untouched : forall dsize source dest f,
  is_dir_b f dest = true -> copypath_run dsize source dest f = Ok f.
Proof. exact copypath_dir_dest_untouched. Qed.
Print Assumptions C14_dir_dest_untouched.

(* ... which was false of the code before the repair ff51958 (kept as the regression witness): the
   copy landed INSIDE that directory, at a path that is neither dest nor one of its ancestors *)
Theorem C14_copypath_frame_before_repair_refuted :
  exists dsize source dest f p,
    p <> dest /\ ~ is_new_ancestor f p dest /\ ~ prefix p dest /\
    fs_of (copypath_run_old_dir dsize source dest f) p <> f p /\
    copypath_run dsize source dest f = Ok f.
Proof. exact copypath_old_dir_dest_refuted. Qed.
Print Assumptions C14_copypath_frame_before_repair_refuted.

(* a destination that exists and is at least as long as the source (in particular: already has the
   full recorded length, candidates having exactly that length) is never touched, and nothing else is *)
Theorem C14_full_length_untouched : forall dsize source dest f,
  exists_b f dest = true ->
  getsize dsize f dest >= getsize dsize f source ->
  copypath_run dsize source dest f = Ok f.
Proof. exact copypath_full_length_untouched. Qed.
Print Assumptions C14_full_length_untouched.

(* the source (a file under a search directory) is never altered *)
Theorem C14_source_untouched : forall dsize source dest f,
  copypath dsize source dest f source = f source.
Proof. exact copypath_source_untouched. Qed.
Print Assumptions C14_source_untouched.

(* everything that changes is dest or one of its ancestors: with dest = destination/full nothing
   under a search directory or beside the destination changes *)
Theorem C14_changes_lead_to_the_target : forall dsize source dest f p,
  copypath dsize source dest f p <> f p -> prefix p dest.
Proof. exact copypath_targets_under_dest_parent. Qed.
Print Assumptions C14_changes_lead_to_the_target.

(* repeated: a second identical call changes nothing further *)
Theorem C14_copypath_idempotent : forall dsize source dest f p,
  copypath dsize source dest (copypath dsize source dest f) p = copypath dsize source dest f p.
Proof. exact copypath_idempotent. Qed.
Print Assumptions C14_copypath_idempotent.

(* ---------------------------------------------------------------------------------------------- *)
(* which copypath calls a v1 rebuild makes                                                        *)
(* ---------------------------------------------------------------------------------------------- *)

(* copies only on success: a piece search that fails has made no copypath call at all *)
Theorem C14_no_copy_unless_piece_verifies : forall (H1 : bytes -> bytes) (fm : filemap)
    (piece : bytes) (paths : list pathnode) (copies : list copy),
  find_matches H1 fm piece paths = (false, copies) -> copies = [].
Proof. exact find_matches_failure_no_copies. Qed.
Print Assumptions C14_no_copy_unless_piece_verifies.

(* ... and one that succeeds copies exactly the candidates of a choice whose selected bytes hash to
   the recorded digest: every placed file took part in a verified piece *)
Theorem C14_copies_belong_to_a_verified_choice : forall (H1 : bytes -> bytes) (fm : filemap)
    (piece : bytes) (paths : list pathnode) (copies : list copy),
  find_matches H1 fm piece paths = (true, copies) ->
  exists chosen : list candidate,
    valid_choice fm paths chosen /\
    H1 (choice_bytes paths chosen) = piece /\
    copies = rev (choice_copies paths chosen) /\
    (forall l full, In (l, full) copies ->
       exists pn c, In pn paths /\ full = pn_full pn /\ l = fst c /\ is_candidate fm pn c) /\
    (forall pn, In pn paths -> exists l, In (l, pn_full pn) copies).
Proof. exact find_matches_sound. Qed.
Print Assumptions C14_copies_belong_to_a_verified_choice.

(* over the whole run: every copypath call copies a search-directory file listed under the recorded
   file name and having the recorded length, to the path the metafile assigns to that file *)
Theorem C14_copies_are_candidates : forall (H1 : bytes -> bytes) (fm : filemap)
    (nodes : list (bytes * list pathnode)) (outs : list v1_outcome) (copied : list String.string)
    (trace : list copy) (l : loc) (full : String.string),
  match_v1 H1 fm nodes = (outs, copied, trace) ->
  In (l, full) trace ->
  exists piece paths pn c,
    In (piece, paths) nodes /\ In pn paths /\ full = pn_full pn /\ l = fst c /\ is_candidate fm pn c.
Proof. exact match_v1_copies_are_candidates. Qed.
Print Assumptions C14_copies_are_candidates.

(* ---------------------------------------------------------------------------------------------- *)
(* which copypath calls a v2 / hybrid rebuild makes                                               *)
(* ---------------------------------------------------------------------------------------------- *)
From TF Require Import Model.Bencode Spec.Bep52 Model.RebuildMeta Proofs.RebuildMetaProofs.

(* only verified copies: every copypath call copies a search-directory file that is indexed under the entry's file
   name, has EXACTLY the recorded length and whose BEP 52 pieces root (of its whole content) is the recorded root,
   to the path the metafile assigns to that entry *)
Theorem C14_v2_only_verified_copies : forall (H256 : bytes -> bytes) B, 0 < B -> forall k pl, pl = B * 2 ^ k ->
  forall (fm : filemap) (entries : list entry) (l : loc) (full : string),
  In (l, full) (fst (match_v2 H256 B pl fm entries)) ->
  exists e cands content,
    In e entries /\ full = full_text e /\
    fm_lookup fm (text (e_filename e)) = Some cands /\ In (l, content) cands /\ verified H256 B e (l, content).
Proof. exact match_v2_sound. Qed.
Print Assumptions C14_v2_only_verified_copies.

(* a candidate of any other size -- shorter, or longer with the genuine bytes first -- never verifies *)
Theorem C14_v2_other_size_never_placed : forall (H256 : bytes -> bytes) B (e : entry) (c : candidate),
  Z.of_nat (length (snd c)) <> e_length e -> ~ verified H256 B e c.
Proof. exact other_size_never_verifies. Qed.
Print Assumptions C14_v2_other_size_never_placed.

(* at most one copypath call per entry, and the number of files counted is the number of copypath calls *)
Theorem C14_v2_one_copy_per_entry : forall (H256 : bytes -> bytes) B, 0 < B -> forall k pl, pl = B * 2 ^ k ->
  forall (fm : filemap) (e : entry), length (v2_entry H256 B pl fm e) <= 1.
Proof. exact v2_entry_at_most_one. Qed.
Print Assumptions C14_v2_one_copy_per_entry.

Theorem C14_v2_counted_are_copied : forall (H256 : bytes -> bytes) B pl (fm : filemap) (entries : list entry),
  fst (match_v2 H256 B pl fm entries) = concat (map (v2_entry H256 B pl fm) entries) /\
  snd (match_v2 H256 B pl fm entries) = length (fst (match_v2 H256 B pl fm entries)).
Proof. exact match_v2_is_concat. Qed.
Print Assumptions C14_v2_counted_are_copied.
