(* C06 -- Every metafile written is canonical, structurally valid bencoding.
   Statements only; every proof is `exact <lemma>`. *)
From Coq Require Import List Sorting.Sorted. Import ListNotations.
From TF Require Import Lib.Base Lib.Lex Model.Bencode Proofs.BencodeProofs Model.Edit Proofs.EditProofs.

(* canonical byte strings (the executable strict recogniser: sorted unique keys at every depth, no
   redundant digits, nothing after the top-level value) are EXACTLY the encodings of values whose
   dictionaries are strictly key-sorted at every nesting level *)
Theorem C06_canonical_bytes_iff : forall bs,
  canonical_bytes bs = true <-> exists v, canon v /\ bs = encode v.
Proof. exact canonical_iff. Qed.
Print Assumptions C06_canonical_bytes_iff.

(* on canonical bytes every decoder agrees: the strict one and pyben's lenient one return the same
   value, and that value re-encodes to the same bytes -- so the info-hash does not depend on the decoder *)
Theorem C06_decoders_agree_on_canonical : forall bs v,
  strict_decode bs = Some v -> pydecode (S (length bs)) bs = Some (v, []).
Proof. exact strict_implies_lenient. Qed.
Print Assumptions C06_decoders_agree_on_canonical.

Theorem C06_strict_decode_exact : forall bs v,
  strict_decode bs = Some v -> canon v /\ bs = encode v.
Proof. exact strict_decode_sound. Qed.
Print Assumptions C06_strict_decode_exact.

Theorem C06_encoding_injective : forall v w,
  nodup_keys v -> nodup_keys w -> encode v = encode w -> v = w.
Proof. exact encode_inj. Qed.
Print Assumptions C06_encoding_injective.

(* no encoding is a proper prefix of another: a value is delimited by its own bytes, so a concatenation
   (a value inside a list or dictionary, the raw span of `info` that is hashed) parses in one way only *)
Theorem C06_encoding_prefix_free : forall v w r r',
  nodup_keys v -> nodup_keys w -> encode v ++ r = encode w ++ r' -> v = w /\ r = r'.
Proof. exact encode_prefix_free. Qed.
Print Assumptions C06_encoding_prefix_free.

(* what sort_meta / the edit's final sort do: sorting a duplicate-free dictionary whose values are
   canonical gives a canonical dictionary *)
Theorem C06_sorting_makes_canonical : forall d,
  NoDup (map fst d) -> Forall (fun kv => canon (snd kv)) d -> canon (BDict (sort_keys d)).
Proof. exact sort_keys_canon_top. Qed.
Print Assumptions C06_sorting_makes_canonical.

Theorem C06_sorted_keys_strictly_ascending : forall d,
  NoDup (map fst d) -> StronglySorted key_lt (sort_keys d).
Proof. exact sort_keys_sorted. Qed.
Print Assumptions C06_sorted_keys_strictly_ascending.

(* edit: a canonical metafile stays canonical under every edit request, hence (induction over the
   sequence, Proofs/EditProofs.v) under every sequence of edits; and even a foreign, unsorted but
   duplicate-free metafile comes out with a strictly sorted top level *)
Theorem C06_edit_preserves_canonical :
  forall (req : request) (m : list (bytes * value)) (m' : dict),
       canon (BDict m) -> edit_torrent req m = Some m' -> canon (BDict m').
Proof. exact edit_canon. Qed.
Print Assumptions C06_edit_preserves_canonical.

Theorem C06_edit_top_level_sorted :
  forall (req : request) (m : list (bytes * value)) (m' : dict),
       NoDup (map fst m) -> edit_torrent req m = Some m' -> Sorted.StronglySorted key_lt m'.
Proof. exact edit_top_sorted. Qed.
Print Assumptions C06_edit_top_level_sorted.

(* sorting is a canonical FORM: two duplicate-free dictionaries are written as the same bytes exactly
   when they hold the same entries (in any insertion order) -- so the bytes fix every field, and no
   two different contents share a metafile or an info-hash input (Proofs/BencodeCanonForm.v) *)
From TF Require Import Proofs.BencodeCanonForm.
Theorem C06_written_bytes_iff_same_entries : forall d d',
  NoDup (map fst d) -> NoDup (map fst d') ->
  Forall (fun kv => nodup_keys (snd kv)) d -> Forall (fun kv => nodup_keys (snd kv)) d' ->
  (encode (BDict (sort_keys d)) = encode (BDict (sort_keys d')) <-> Permutation.Permutation d d').
Proof. exact sorted_encoding_iff_perm. Qed.
Print Assumptions C06_written_bytes_iff_same_entries.

Theorem C06_written_bytes_fix_every_field : forall d d',
  NoDup (map fst d) -> NoDup (map fst d') ->
  Forall (fun kv => nodup_keys (snd kv)) d -> Forall (fun kv => nodup_keys (snd kv)) d' ->
  encode (BDict (sort_keys d)) = encode (BDict (sort_keys d')) ->
  forall k, lookup k d = lookup k d'.
Proof. exact sorted_encoding_fixes_lookups. Qed.
Print Assumptions C06_written_bytes_fix_every_field.

(* ---------------------------------------------------------------------------------------------- *)
(* creator level (Model/Creators.v, tied to torrent.py byte for byte -- `encode` of the modelled value vs *)
(* the bytes of the written file -- by the unit correspondence of harness/props/creators_common.py).      *)
(* [created H1 H256 B pl o root name t m]: m is the dictionary (after sort_meta) that one of the six       *)
(* creator variants writes for payload t under options o: TorrentFile with align False / True,            *)
(* TorrentFileV2, TorrentAssembler (meta version 2), TorrentFileHybrid, TorrentAssembler (meta version 3).  *)
(* [wf_node t]: names distinct, non-empty and separator-free per directory.  Every option subset: o ranges *)
(* over all [options] (announce list, comment, private, source, url-list, httpseeds, created by, date).     *)
(* ---------------------------------------------------------------------------------------------- *)
From TF Require Import Model.Creators Proofs.CreatorsProofs Proofs.CreatorsProofs2 Proofs.CreatorsProps.

(* the written value is canonical at every nesting level (info, file tree, files entries, piece layers) *)
Theorem C06_created_is_canonical : forall (H1 H256 : bytes -> bytes) B, 0 < B -> forall k pl, pl = B * 2 ^ k ->
  forall o root name t m, wf_node t -> created H1 H256 B pl o root name t m -> canon m.
Proof. exact created_is_canonical. Qed.
Print Assumptions C06_created_is_canonical.

(* hence the BYTES on disk (pyben.dump = encode) are accepted by the strict recogniser ... *)
Theorem C06_created_bytes_are_canonical : forall (H1 H256 : bytes -> bytes) B, 0 < B -> forall k pl, pl = B * 2 ^ k ->
  forall o root name t m, wf_node t -> created H1 H256 B pl o root name t m ->
  canonical_bytes (encode m) = true.
Proof. exact created_bytes_canonical. Qed.
Print Assumptions C06_created_bytes_are_canonical.

(* ... and the strict decoder reads back exactly the value that was written *)
Theorem C06_created_bytes_decode_back : forall (H1 H256 : bytes -> bytes) B, 0 < B -> forall k pl, pl = B * 2 ^ k ->
  forall o root name t m, wf_node t -> created H1 H256 B pl o root name t m ->
  strict_decode (encode m) = Some m.
Proof. exact created_bytes_decode. Qed.
Print Assumptions C06_created_bytes_decode_back.

(* structure of a v1 metafile (both align settings): name, piece length, pieces a whole number of 20-byte
   digests, exactly one of length / files *)
Theorem C06_structure_v1 : forall H1 : bytes -> bytes, (forall x, length (H1 x) = 20) ->
  forall align o root name pl t, v1_structure_ok (create_v1 H1 align o root name pl t).
Proof. exact create_v1_structure_ok. Qed.
Print Assumptions C06_structure_v1.

(* structure of a v2 metafile (TorrentFileV2, TorrentAssembler 2): name, piece length, meta version 2, a file tree
   dictionary, top-level piece layers whose values are whole numbers of 32-byte digests *)
Theorem C06_structure_v2 : forall (H1 H256 : bytes -> bytes) B, 0 < B -> forall k pl, pl = B * 2 ^ k ->
  (forall x, length (H256 x) = 32) ->
  forall o name t m, wf_node t -> v2_output H1 H256 B pl o name t m -> v2_structure_ok m.
Proof. exact v2_output_structure_ok. Qed.
Print Assumptions C06_structure_v2.

(* a hybrid metafile (TorrentFileHybrid, TorrentAssembler 3) has all of both *)
Theorem C06_structure_hybrid : forall (H1 H256 : bytes -> bytes) B, 0 < B -> forall k pl, pl = B * 2 ^ k ->
  (forall x, length (H1 x) = 20) -> (forall x, length (H256 x) = 32) ->
  forall o name t m, wf_node t -> hybrid_output H1 H256 B pl o name t m ->
  v1_structure_ok m /\ v2_structure_ok m.
Proof. exact hybrid_output_structure_ok. Qed.
Print Assumptions C06_structure_hybrid.
