(* C06 -- Every metafile written is canonical, structurally valid bencoding.
   Statements only; every proof is `exact <lemma>`. *)
From Coq Require Import List Sorting.Sorted. Import ListNotations.
From TF Require Import Lib.Base Lib.Lex Model.Bencode Proofs.BencodeProofs Model.Edit Proofs.EditProofs.

(* canonical byte strings (the executable strict recogniser: sorted unique keys at every depth, no
   redundant digits, nothing after the top-level value) are EXACTLY the encodings of values whose
   dictionaries are strictly key-sorted at every nesting level *)
Theorem C06_canonical_bytes_iff : forall bs,
  canonical_bytes bs = true <-> exists v, canon v /\ bs = encode v.
Proof. exact canonical_iff. Qed.
Print Assumptions C06_canonical_bytes_iff.

(* on canonical bytes every decoder agrees: the strict one and pyben's lenient one return the same
   value, and that value re-encodes to the same bytes -- so the info-hash does not depend on the decoder *)
Theorem C06_decoders_agree_on_canonical : forall bs v,
  strict_decode bs = Some v -> pydecode (S (length bs)) bs = Some (v, []).
Proof. exact strict_implies_lenient. Qed.
Print Assumptions C06_decoders_agree_on_canonical.

Theorem C06_strict_decode_exact : forall bs v,
  strict_decode bs = Some v -> canon v /\ bs = encode v.
Proof. exact strict_decode_sound. Qed.
Print Assumptions C06_strict_decode_exact.

Theorem C06_encoding_injective : forall v w,
  nodup_keys v -> nodup_keys w -> encode v = encode w -> v = w.
Proof. exact encode_inj. Qed.
Print Assumptions C06_encoding_injective.

(* what sort_meta / the edit's final sort do: sorting a duplicate-free dictionary whose values are
   canonical gives a canonical dictionary *)
Theorem C06_sorting_makes_canonical : forall d,
  NoDup (map fst d) -> Forall (fun kv => canon (snd kv)) d -> canon (BDict (sort_keys d)).
Proof. exact sort_keys_canon_top. Qed.
Print Assumptions C06_sorting_makes_canonical.

Theorem C06_sorted_keys_strictly_ascending : forall d,
  NoDup (map fst d) -> StronglySorted key_lt (sort_keys d).
Proof. exact sort_keys_sorted. Qed.
Print Assumptions C06_sorted_keys_strictly_ascending.

(* edit: a canonical metafile stays canonical under every edit request, hence (induction over the
   sequence, Proofs/EditProofs.v) under every sequence of edits; and even a foreign, unsorted but
   duplicate-free metafile comes out with a strictly sorted top level *)
Theorem C06_edit_preserves_canonical :
  forall (req : request) (m : list (bytes * value)) (m' : dict),
       canon (BDict m) -> edit_torrent req m = Some m' -> canon (BDict m').
Proof. exact edit_canon. Qed.
Print Assumptions C06_edit_preserves_canonical.

Theorem C06_edit_top_level_sorted :
  forall (req : request) (m : list (bytes * value)) (m' : dict),
       NoDup (map fst m) -> edit_torrent req m = Some m' -> Sorted.StronglySorted key_lt m'.
Proof. exact edit_top_sorted. Qed.
Print Assumptions C06_edit_top_level_sorted.

(* creators-level theorems (canon of the value each creator writes): added from Proofs/CreatorsProofs.v when in place *)
