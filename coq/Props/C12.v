(* C12 -- Only power-of-two piece lengths of at least 16 KiB are ever accepted or
   chosen.  Statements only; every proof is `exact <lemma>`.  The functions are the
   ones GENERATED from /repo/torrentfile/utils.py on this run. *)
From Coq Require Import ZArith String.
From TF Require Import Lib.Pow2 Gen.GenPieceLength Proofs.PieceLength.
Open Scope Z_scope.

(* accepted  ==>  a power of two >= 16 KiB given directly, or an exponent 14..29
   (26..29 may go either way, as the property allows) meaning 2^n *)
Theorem C12_accept_only_valid : forall n r,
  normalize_piece_length_int n = Ret r ->
  (valid_piece_length n /\ r = n) \/ (14 <= n <= 29 /\ r = 2 ^ n).
Proof. exact normalize_int_sound. Qed.
Print Assumptions C12_accept_only_valid.

Theorem C12_recorded_value_valid : forall n r,
  normalize_piece_length_int n = Ret r -> valid_piece_length r.
Proof. exact normalize_int_result_valid. Qed.
Print Assumptions C12_recorded_value_valid.

Theorem C12_accepts_every_valid_length : forall n,
  valid_piece_length n -> normalize_piece_length_int n = Ret n.
Proof. exact normalize_int_complete_direct. Qed.
Print Assumptions C12_accepts_every_valid_length.

Theorem C12_accepts_exponents_14_25 : forall n,
  14 <= n <= 25 -> normalize_piece_length_int n = Ret (2 ^ n).
Proof. exact normalize_int_complete_exponent. Qed.
Print Assumptions C12_accepts_exponents_14_25.

Theorem C12_everything_else_is_piece_length_error : forall n,
  ~ valid_piece_length n -> ~ (14 <= n <= 29) ->
  normalize_piece_length_int n = Raise E_PieceLengthValueError.
Proof. exact normalize_int_rejects. Qed.
Print Assumptions C12_everything_else_is_piece_length_error.

Theorem C12_int_accepts_or_piece_length_error : forall n,
  (exists r, normalize_piece_length_int n = Ret r) \/
  normalize_piece_length_int n = Raise E_PieceLengthValueError.
Proof. exact normalize_int_total. Qed.
Print Assumptions C12_int_accepts_or_piece_length_error.

(* strings: for ANY behaviour of str.isnumeric and int() *)
Theorem C12_string_goes_through_the_integer_rule :
  forall (isnumeric : string -> bool) (to_int : string -> option Z) s r,
  normalize_piece_length_str isnumeric to_int s = Ret r ->
  exists n, isnumeric s = true /\ to_int s = Some n /\ normalize_piece_length_int n = Ret r.
Proof. exact normalize_str_sound. Qed.
Print Assumptions C12_string_goes_through_the_integer_rule.

Theorem C12_string_accepts_or_piece_length_error :
  forall (isnumeric : string -> bool) (to_int : string -> option Z) s,
  (exists r, normalize_piece_length_str isnumeric to_int s = Ret r) \/
  normalize_piece_length_str isnumeric to_int s = Raise E_PieceLengthValueError.
Proof. exact normalize_str_total. Qed.
Print Assumptions C12_string_accepts_or_piece_length_error.

(* automatic choice: a power of two between 2^14 and 2^24, never out of fuel *)
Theorem C12_auto_pow2_range : forall size,
  exists e, 14 <= e <= 24 /\ get_piece_length GPL_FUEL size = Ret (2 ^ e).
Proof. exact gpl_range. Qed.
Print Assumptions C12_auto_pow2_range.

Theorem C12_auto_monotone : forall s s' e e',
  s <= s' ->
  get_piece_length GPL_FUEL s = Ret (2 ^ e) -> 14 <= e <= 24 ->
  get_piece_length GPL_FUEL s' = Ret (2 ^ e') -> 14 <= e' <= 24 ->
  2 ^ e <= 2 ^ e'.
Proof. exact gpl_monotone. Qed.
Print Assumptions C12_auto_monotone.

(* non-vacuity *)
Example C12_ex_valid : valid_piece_length 65536 /\ normalize_piece_length_int 65536 = Ret 65536
  /\ normalize_piece_length_int 16 = Ret 65536
  /\ normalize_piece_length_int 16385 = Raise E_PieceLengthValueError
  /\ normalize_piece_length_int 32 = Raise E_PieceLengthValueError.
Proof.
  split; [split; [unfold MIN_PL; discriminate | exists 16; split; [discriminate | reflexivity]]|].
  repeat split; reflexivity.
Qed.
