(* C19 -- Rebuild never writes outside the destination, whatever the metafile says.
   Statements only; every proof is `exact <lemma>`.

   Models (hand written against the current /repo/torrentfile/rebuild.py, tied to it by differential
   execution in harness/props/c19.py):
     safe_comp c            Metadata._check_parts lets the path element c through (c is not "", "."
                            or "..", contains no "/" and no NUL)
     check_parts_model      _check_parts on a list of elements: true = no ValueError
     resolve cs             lexical POSIX resolution of os.path.join of the elements cs, from a starting directory
                            that is treated as the root: embedded "/" separate, an element starting
                            with "/" restarts at the root, ".." pops one level
     checked_target dest name path   where rebuild copies a file to: None = ValueError, nothing written
     prefix p l             l is p or lies under p
   Outside the theorems: symbolic links already present inside the destination. *)
From Coq Require Import List String.
From TF Require Import Model.PathSafe Proofs.PathSafeProofs.
Import ListNotations.
Open Scope list_scope.

(* path elements that pass the validator are appended verbatim below the destination ... *)
Theorem C19_safe_components_append : forall dest cs : list string,
  Forall (fun c => safe_comp c = true) cs ->
  resolve (dest ++ cs) = resolve dest ++ cs.
Proof. exact safe_components_stay_inside. Qed.
Print Assumptions C19_safe_components_append.

(* ... hence the resolved path stays inside the destination, however deep and whatever the names *)
Theorem C19_safe_components_stay_inside : forall dest cs : list string,
  Forall (fun c => safe_comp c = true) cs ->
  prefix (resolve dest) (resolve (dest ++ cs)).
Proof. exact safe_components_prefix. Qed.
Print Assumptions C19_safe_components_stay_inside.

(* what rebuild does with the name and the path elements of a metafile: every target it accepts is
   destination/name/path..., inside the destination *)
Theorem C19_rebuild_target_inside : forall (dest : list string) (name : string) (path t : list string),
  checked_target dest name path = Some t ->
  t = resolve dest ++ name :: path /\ prefix (resolve dest) t.
Proof. exact checked_target_inside. Qed.
Print Assumptions C19_rebuild_target_inside.

(* and any unsafe element in the name or the path is refused before anything is written *)
Theorem C19_unsafe_component_refused : forall (dest : list string) (name : string) (path : list string),
  Exists (fun c => safe_comp c = false) (name :: path) ->
  checked_target dest name path = None.
Proof. exact checked_target_refuses. Qed.
Print Assumptions C19_unsafe_component_refused.

(* the validator is what the list-level test says it is *)
Theorem C19_check_parts_is_forall_safe : forall parts : list string,
  check_parts_model parts = true <-> Forall (fun c => safe_comp c = true) parts.
Proof. exact check_parts_model_Forall. Qed.
Print Assumptions C19_check_parts_is_forall_safe.

(* without validation the claim is false (the code before the repair of D16): some elements lead
   out of the destination *)
Theorem C19_unsanitised_refuted :
  exists dest cs : list string, ~ prefix (resolve dest) (resolve (dest ++ cs)).
Proof. exact unsanitised_refuted. Qed.
Print Assumptions C19_unsanitised_refuted.
