(* C19 -- Rebuild never writes outside the destination, whatever the metafile says.
   Statements only; every proof is `exact <lemma>`.

   Models (hand written against the current /repo/torrentfile/rebuild.py, tied to it by differential
   execution in harness/props/c19.py):
     safe_comp c            Metadata._check_parts lets the path element c through (c is not "", "."
                            or "..", contains no "/" and no NUL)
     check_parts_model      _check_parts on a list of elements: true = no ValueError
     resolve cs             lexical POSIX resolution of os.path.join of the elements cs, from a starting directory
                            that is treated as the root: embedded "/" separate, an element starting
                            with "/" restarts at the root, ".." pops one level
     checked_target dest name path   where rebuild copies a file to: None = ValueError, nothing written
     prefix p l             l is p or lies under p
   The second part connects this to the metafile itself (Model/RebuildMeta.v, see Props/C13.v): extract meta is
   Metadata.extract on the decoded metafile, safe c = the element c (raw bytes; a str iff valid UTF-8) passes _check_parts,
   tree_keys tree = the keys the walk over a file tree meets (the tree's and those of every directory below it),
   text = the element as a string, full_text e = the "/"-joined components handed to os.path.join(dest, .).
   Outside the theorems: symbolic links already present inside the destination. *)
From Coq Require Import List String.
From TF Require Import Model.PathSafe Proofs.PathSafeProofs.
From TF Require Import Model.PathCheckTable Proofs.PathCheckTableProofs Gen.GenPathCheck Proofs.PathCheckInstance.
Import ListNotations.
Open Scope list_scope.

(* path elements that pass the validator are appended verbatim below the destination ... *)
Theorem C19_safe_components_append : forall dest cs : list string,
  Forall (fun c => safe_comp c = true) cs ->
  resolve (dest ++ cs) = resolve dest ++ cs.
Proof. exact safe_components_stay_inside. Qed.
Print Assumptions C19_safe_components_append.

(* ... hence the resolved path stays inside the destination, however deep and whatever the names *)
Theorem C19_safe_components_stay_inside : forall dest cs : list string,
  Forall (fun c => safe_comp c = true) cs ->
  prefix (resolve dest) (resolve (dest ++ cs)).
Proof. exact safe_components_prefix. Qed.
Print Assumptions C19_safe_components_stay_inside.

(* what rebuild does with the name and the path elements of a metafile: every target it accepts is
   destination/name/path..., inside the destination *)
Theorem C19_rebuild_target_inside : forall (dest : list string) (name : string) (path t : list string),
  checked_target dest name path = Some t ->
  t = resolve dest ++ name :: path /\ prefix (resolve dest) t.
Proof. exact checked_target_inside. Qed.
Print Assumptions C19_rebuild_target_inside.

(* and any unsafe element in the name or the path is refused before anything is written *)
Theorem C19_unsafe_component_refused : forall (dest : list string) (name : string) (path : list string),
  Exists (fun c => safe_comp c = false) (name :: path) ->
  checked_target dest name path = None.
Proof. exact checked_target_refuses. Qed.
Print Assumptions C19_unsafe_component_refused.

(* the validator is what the list-level test says it is *)
Theorem C19_check_parts_is_forall_safe : forall parts : list string,
  check_parts_model parts = true <-> Forall (fun c => safe_comp c = true) parts.
Proof. exact check_parts_model_Forall. Qed.
Print Assumptions C19_check_parts_is_forall_safe.

(* without validation the claim is false (the code before the repair of D16): some elements lead
   out of the destination *)
Theorem C19_unsanitised_refuted :
  exists dest cs : list string, ~ prefix (resolve dest) (resolve (dest ++ cs)).
Proof. exact unsanitised_refuted. Qed.
Print Assumptions C19_unsanitised_refuted.

(* ---------------------------------------------------------------------------------------------- *)
(* from the metafile to the copy targets                                                          *)
(* ---------------------------------------------------------------------------------------------- *)
From TF Require Import Lib.Base Model.Bencode Spec.Bep52 Model.Rebuild Model.RebuildMeta Proofs.RebuildMetaProofs.

(* whatever the metafile is -- v1 single file, v1 file list whose entries may carry any further keys (attr, symlink
   path, ...), v2 / hybrid single-file form, v2 / hybrid file tree of any depth: if a Metadata object comes into being,
   the name and EVERY component of every entry's `full` have passed _check_parts, `full` starts with the name, `path`
   is its parent and `filename` its last component *)
Theorem C19_accepted_metafile_is_validated_everywhere : forall (meta : value) (x : extracted), extract meta = Some x ->
  safe (x_name x) /\
  Forall (fun e => Forall safe (e_full e) /\ (exists rest, e_full e = x_name x :: rest) /\
                   e_path e = removelast (e_full e) /\ e_filename e = last (e_full e) []) (x_files x).
Proof. exact extract_validates_everything. Qed.
Print Assumptions C19_accepted_metafile_is_validated_everywhere.

(* refusal (no Metadata object, nothing is ever copied): an unsafe name ... *)
Theorem C19_unsafe_name_refused : forall (meta : value) (info : dict) (name : bytes),
  info_of meta info -> lookup rk_name info = Some (BStr name) -> safe_b name = false -> extract meta = None.
Proof. exact extract_refuses_unsafe_name. Qed.
Print Assumptions C19_unsafe_name_refused.

(* ... an unsafe or non-string element in the path of ANY entry of a v1 file list, whatever else that entry's
   dictionary contains (the hypotheses do not mention any other key: a flag cannot switch the validation off) ... *)
Theorem C19_unsafe_v1_path_refused : forall (meta : value) (info : dict) (items : list value) (d : dict) (l : list value),
  info_of meta info ->
  is_two (match lookup rk_meta_version info with Some v => v | None => BInt 1 end) = false ->
  lookup rk_length info = None -> lookup rk_files info = Some (BList items) ->
  In (BDict d) items -> lookup rk_path d = Some (BList l) ->
  (items_bytes l = None \/ exists path, items_bytes l = Some path /\ Exists (fun c => safe_b c = false) path) ->
  extract meta = None.
Proof. exact extract_refuses_unsafe_v1_path. Qed.
Print Assumptions C19_unsafe_v1_path_refused.

Theorem C19_v1_entry_other_keys_irrelevant : forall (name : bytes) (d d' : dict),
  lookup rk_path d = lookup rk_path d' -> lookup rk_length d = lookup rk_length d' ->
  v1_entry name (BDict d) = v1_entry name (BDict d').
Proof. exact v1_entry_ignores_other_keys. Qed.
Print Assumptions C19_v1_entry_other_keys_irrelevant.

(* ... an unsafe key anywhere in a v2 / hybrid file tree: a directory key or a file key, at any depth, first or later
   sibling, even of a directory that holds no file *)
Theorem C19_unsafe_tree_key_refused : forall (meta : value) (info tree : dict),
  info_of meta info ->
  is_two (match lookup rk_meta_version info with Some v => v | None => BInt 1 end) = true ->
  lookup rk_file_tree info = Some (BDict tree) ->
  Exists (fun k => safe_b k = false) (tree_keys tree) -> extract meta = None.
Proof. exact extract_refuses_unsafe_tree_key. Qed.
Print Assumptions C19_unsafe_tree_key_refused.

(* what "safe" means on the raw bytes of an element *)
Theorem C19_safe_element : forall c : bytes, safe c ->
  utf8_valid c = true /\ c <> [] /\ c <> ["."%char] /\ c <> ["."%char; "."%char] /\ ~ In slash c /\ ~ In nul c.
Proof. exact safe_spec. Qed.
Print Assumptions C19_safe_element.

(* every entry of every accepted metafile is placed at destination/<full>: inside the destination, for every
   destination path *)
Theorem C19_every_entry_target_inside : forall (meta : value) (x : extracted) (dest : list string), extract meta = Some x ->
  Forall (fun e =>
            resolve (dest ++ map text (e_full e)) = resolve dest ++ map text (e_full e) /\
            prefix (resolve dest) (resolve (dest ++ map text (e_full e)))) (x_files x).
Proof. exact target_inside. Qed.
Print Assumptions C19_every_entry_target_inside.

(* ... also as the text handed to copypath, os.path.join(dest, "/".join(full)) *)
Theorem C19_every_copy_text_inside : forall (meta : value) (x : extracted) (dest : list string), extract meta = Some x ->
  Forall (fun e =>
            resolve (dest ++ [full_text e]) = resolve dest ++ map text (e_full e) /\
            prefix (resolve dest) (resolve (dest ++ [full_text e]))) (x_files x).
Proof. exact copy_target_inside. Qed.
Print Assumptions C19_every_copy_text_inside.

(* the v2 route end to end: every copypath call made for an accepted metafile copies a verified candidate (C14) to a
   path inside the destination *)
Theorem C19_v2_rebuild_copies_inside : forall (H256 : bytes -> bytes) B, 0 < B -> forall k pl, pl = B * 2 ^ k ->
  forall (fm : filemap) (meta : value) (x : extracted) (copies : list copy) (count : nat) (dest : list string),
  extract meta = Some x -> rebuild_v2 H256 B pl fm x = Some (copies, count) ->
  count = length copies /\
  forall l full, In (l, full) copies ->
    exists e cands content,
      In e (x_files x) /\ full = full_text e /\
      fm_lookup fm (text (e_filename e)) = Some cands /\ In (l, content) cands /\
      verified H256 B e (l, content) /\
      resolve (dest ++ [full]) = resolve dest ++ map text (e_full e) /\
      prefix (resolve dest) (resolve (dest ++ [full])).
Proof. exact rebuild_v2_copies_verified_inside. Qed.
Print Assumptions C19_v2_rebuild_copies_inside.

(* ---------------------------------------------------------------------------------------------- *)
(* the whole command on the filesystem, the metafile being the only description of the torrent      *)
(* (Model/RebuildRun.v rebuild_of_metafile = Metadata(path) + Metadata.rebuild + the copypath calls) *)
(* ---------------------------------------------------------------------------------------------- *)
From TF Require Model.CopyPath.
From TF Require Import Model.RebuildRun Proofs.RebuildRunProofs Proofs.RebuildEndToEnd.

(* whatever the metafile says: every path that is different after the command lies in dest/<name of the torrent>, or is dest
   itself / a missing ancestor directory of dest that was created.  Hypotheses: the filemap describes the filesystem, no
   candidate lies under dest, and the piece length of a v2 metafile is B * 2^k. *)
Theorem C19_rebuild_of_metafile_inside_destination : forall (H1 H256 : bytes -> bytes) B, 0 < B ->
  forall (dsize : nat) (dest : CopyPath.path) (fm : filemap) (meta : value), v2_piece_length_ok B meta ->
  forall f : CopyPath.fs, filemap_reflects f fm -> dest_disjoint dest fm ->
  forall r : CopyPath.result, rebuild_of_metafile H1 H256 B dsize dest fm meta f = Some r ->
  forall p : CopyPath.path, CopyPath.fs_of r p <> f p ->
  exists x, metadata_init meta = Some x /\
  (CopyPath.prefix (dest ++ [text (x_name x)]) p \/
   (CopyPath.prefix p dest /\ p <> [] /\ f p = None /\ CopyPath.fs_of r p = Some CopyPath.Dir)).
Proof. exact rebuild_of_metafile_inside_destination. Qed.
Print Assumptions C19_rebuild_of_metafile_inside_destination.

(* the place of an entry in that run, target dest e = dest ++ components, IS the lexical resolution of
   os.path.join(dest, name, *path) -- and of the text handed to copypath -- for a destination of plain components *)
Theorem C19_rebuild_target_is_the_resolved_path : forall (dest : CopyPath.path) (meta : value) (x : extracted) (e : entry),
  metadata_init meta = Some x -> In e (x_files x) -> Forall (fun c => safe_comp c = true) dest ->
  resolve (dest ++ map text (e_full e)) = target dest e /\
  resolve (dest ++ [full_text e]) = target dest e /\
  prefix (resolve dest) (target dest e).
Proof. exact target_is_resolved. Qed.
Print Assumptions C19_rebuild_target_is_the_resolved_path.

(* THE SOURCE'S OWN TEST.  Gen/GenPathCheck.v is regenerated from /repo/torrentfile/rebuild.py on every run: the strings and
   characters for which Metadata._check_parts refuses an element, whether it insists on str, whether it is a plain function
   looping over its whole argument, and whether every one of its calls is a statement on a bare name or a one-element list
   (never a slice or a filtered copy of the elements).  The element test read from the source IS safe_comp, the predicate all
   theorems above are about -- for every string, not for the sampled ones of the differential tie. *)
Theorem C19_source_test_is_the_model :
  gen_requires_str = true /\ gen_check_parts_plain_loop = true /\ gen_calls_validate_whole_argument = true /\
  (1 <= gen_call_sites)%nat /\
  forall c : string, gen_safe_comp c = safe_comp c.
Proof. exact gen_check_parts_is_the_model. Qed.
Print Assumptions C19_source_test_is_the_model.

Theorem C19_source_test_on_lists : forall parts : list string,
  forallb gen_safe_comp parts = check_parts_model parts.
Proof. exact gen_check_parts_lists. Qed.
Print Assumptions C19_source_test_on_lists.

(* the certified checker behind it: ANY table that lists exactly "", ".", ".." and exactly "/" and NUL tests safe_comp *)
Theorem C19_accepted_table_is_safe_comp : forall (exact : list string) (chars : list Ascii.ascii),
  table_ok exact chars = true -> forall c : string, table_safe_comp exact chars c = safe_comp c.
Proof. exact table_ok_is_safe_comp. Qed.
Print Assumptions C19_accepted_table_is_safe_comp.
