(* C18 -- Inspecting commands are read-only; create writes one file; rename never clobbers.
   Statements only; every proof is `exact <lemma>`.  call_graph, direct_effects, cmd_*, probe_ops
   and rename_ops are GENERATED from /repo on this run (Gen/GenEffects.v). *)
From Coq Require Import List. Import ListNotations.
From TF Require Import Lib.Base Model.Effects Proofs.EffectsProofs Gen.GenEffects Proofs.EffectsInstance.

(* general: whenever the checker accepts, any execution that stays within the summary (each
   event performed by a reachable function that declares that kind of effect) leaves every path
   of the filesystem as it was *)
Theorem C18_readonly_checker_sound : forall g pr roots,
  readonly_cmd g pr roots = true ->
  forall tr, within g pr roots tr -> forall f, run_events tr f = f.
Proof. exact readonly_cmd_sound. Qed.
Print Assumptions C18_readonly_checker_sound.

Theorem C18_closure_is_sound : forall g roots s,
  closed_b g s = true -> covers roots s = true -> forall n, reachable g roots n -> In n s.
Proof. exact closed_sound. Qed.
Print Assumptions C18_closure_is_sound.

(* instances on the code as it is now *)
Theorem C18_recheck_readonly : forall tr, within call_graph direct_effects cmd_recheck tr ->
  forall f, run_events tr f = f.
Proof. exact gen_recheck_trace_id. Qed.
Print Assumptions C18_recheck_readonly.

Theorem C18_info_readonly : forall tr, within call_graph direct_effects cmd_info tr ->
  forall f, run_events tr f = f.
Proof. exact gen_info_trace_id. Qed.
Print Assumptions C18_info_readonly.

Theorem C18_magnet_readonly : forall tr, within call_graph direct_effects cmd_magnet tr ->
  forall f, run_events tr f = f.
Proof. exact gen_magnet_trace_id. Qed.
Print Assumptions C18_magnet_readonly.

(* create: no function reachable from it renames, copies, makes directories or changes modes *)
Theorem C18_create_effect_kinds :
  only_effects [ERead; EWrite; ERemove] call_graph direct_effects cmd_create = true.
Proof. exact gen_create_effects. Qed.
Print Assumptions C18_create_effect_kinds.

(* the writability probe leaves its path exactly as it found it (existing file kept, new file removed) *)
Theorem C18_probe_neutral : forall c, probe_final probe_ops c = Some c.
Proof. exact gen_probe_neutral. Qed.
Print Assumptions C18_probe_neutral.

(* hence create = probe + one write changes exactly one path: the output metafile *)
Theorem C18_create_writes_one_file : forall f P OUT meta f',
  create_fs probe_ops f P OUT meta = Some f' ->
  f' OUT = Some meta /\ forall p, p <> OUT -> f' p = f p.
Proof. exact gen_create_only_out. Qed.
Print Assumptions C18_create_writes_one_file.

(* rename: refuses (filesystem untouched) when the target is missing or the new name exists;
   otherwise moves the bytes unchanged to the new name and touches nothing else *)
Theorem C18_rename_never_clobbers : forall f T N, T <> N ->
  rename_spec f T N (rename_run rename_ops f T N).
Proof. exact gen_rename_spec. Qed.
Print Assumptions C18_rename_never_clobbers.

Theorem C18_rename_effect_kinds :
  only_effects [ERead; ERename] call_graph direct_effects cmd_rename = true.
Proof. exact gen_rename_effects. Qed.
Print Assumptions C18_rename_effect_kinds.
