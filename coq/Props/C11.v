(* C11 -- Magnet URI carries the true info-hash(es), name, trackers and web seeds.
   Statements only; every proof is `exact <lemma>`.  Model/Magnet.v mirrors commands.magnet on the decoded
   metafile; sha1hex / sha256hex (hex digests) are arbitrary functions whose output contains no '&'. *)
From Coq Require Import List ZArith. Import ListNotations. From TF Require Import Lib.Base Model.Bencode Proofs.BencodeProofs Model.Uri Model.Magnet Proofs.MagnetProofs.

Theorem C11_hash_input_is_raw_span :
  forall (m : dict) (i : value),
       nodup_keys (BDict m) ->
       lookup mk_info m = Some i ->
       (exists d : list (bytes * value),
          pyloads (encode (BDict m)) = Some (BDict d) /\ magnet_hash_input d = Some (encode i)) /\
       (exists pre post : list ascii, encode (BDict m) = pre ++ encode i ++ post).
Proof. exact magnet_hash_input_is_raw_span. Qed.
Print Assumptions C11_hash_input_is_raw_span.

Theorem C11_xt_table :
  forall (sha1hex sha256hex : bytes -> bytes) (p : bool) (v : Z) (b : bytes),
       expected_xts sha1hex sha256hex false p v b = [btih sha1hex b] /\
       expected_xts sha1hex sha256hex true true 0 b = [btih sha1hex b; btmh sha256hex b] /\
       expected_xts sha1hex sha256hex true true 3 b = [btih sha1hex b; btmh sha256hex b] /\
       expected_xts sha1hex sha256hex true true 1 b = [btih sha1hex b] /\
       expected_xts sha1hex sha256hex true true 2 b = [btmh sha256hex b] /\
       expected_xts sha1hex sha256hex true false 0 b = [btmh sha256hex b] /\
       expected_xts sha1hex sha256hex true false 2 b = [btmh sha256hex b] /\
       expected_xts sha1hex sha256hex true false 3 b = [btmh sha256hex b] /\
       expected_xts sha1hex sha256hex true false 1 b = [].
Proof. exact magnet_xt_rows. Qed.
Print Assumptions C11_xt_table.

Theorem C11_v2only_version1_has_no_xt :
  forall (sha1hex sha256hex : bytes -> bytes) (info : dict) (b : bytes),
       has_key mk_meta_version info = true ->
       has_key mk_pieces info = false -> xt_part sha1hex sha256hex info 1 b = [].
Proof. exact magnet_v2only_version1_no_xt. Qed.
Print Assumptions C11_v2only_version1_has_no_xt.

Theorem C11_unquote_quote :
  forall s : bytes, unquote_plus (quote_plus s) = s.
Proof. exact unquote_quote. Qed.
Print Assumptions C11_unquote_quote.

Theorem C11_quote_has_no_separator :
  forall (s : bytes) (c : ascii),
       In c (quote_plus s) ->
       c <> "&"%char /\
       c <> "="%char /\
       c <> "#"%char /\ c <> " "%char /\ c <> "?"%char /\ c <> "/"%char /\ c <> ":"%char.
Proof. exact quote_has_no_separator. Qed.
Print Assumptions C11_quote_has_no_separator.

Theorem C11_query_roundtrip :
  forall kvs : list (bytes * bytes),
       Forall (fun kv : list ascii * bytes => ~ In "&"%char (fst kv) /\ ~ In "="%char (fst kv)) kvs ->
       map (fun p : bytes * bytes => (fst p, unquote_plus (snd p)))
         (parse_query
            (join_amp
               (map (fun kv : list ascii * bytes => fst kv ++ "="%char :: quote_plus (snd kv)) kvs))) =
       kvs.
Proof. exact parse_query_join_unquote. Qed.
Print Assumptions C11_query_roundtrip.

Theorem C11_params_roundtrip :
  forall sha1hex sha256hex : bytes -> bytes,
       (forall b : bytes, ~ In "&"%char (sha1hex b)) ->
       (forall b : bytes, ~ In "&"%char (sha256hex b)) ->
       forall (meta info : dict) (name : bytes) (version : Z) (urls ws : list bytes),
       lookup mk_info meta = Some (BDict info) ->
       lookup mk_name info = Some (BStr name) ->
       trackers_of meta = Some urls ->
       webseeds_of meta = Some ws ->
       urls <> [[]] ->
       ws <> [[]] ->
       exists rest : list ascii,
         magnet sha1hex sha256hex meta version = Some (s_magnet ++ rest) /\
         parse_query rest =
         expected_xts sha1hex sha256hex (has_key mk_meta_version info) 
           (has_key mk_pieces info) version (encode (BDict info)) ++
         [(s_dn, quote_plus name)] ++
         map (fun u : bytes => (s_tr, quote_plus u)) urls ++
         map (fun u : bytes => (s_ws, quote_plus u)) ws.
Proof. exact magnet_params_roundtrip. Qed.
Print Assumptions C11_params_roundtrip.

Theorem C11_params_decode_to_name_trackers_webseeds :
  forall sha1hex sha256hex : bytes -> bytes,
       (forall b : bytes, ~ In "&"%char (sha1hex b)) ->
       (forall b : bytes, ~ In "&"%char (sha256hex b)) ->
       forall (meta info : dict) (name : bytes) (version : Z) (urls ws : list bytes),
       lookup mk_info meta = Some (BDict info) ->
       lookup mk_name info = Some (BStr name) ->
       trackers_of meta = Some urls ->
       webseeds_of meta = Some ws ->
       urls <> [[]] ->
       ws <> [[]] ->
       exists rest : list ascii,
         magnet sha1hex sha256hex meta version = Some (s_magnet ++ rest) /\
         values_of s_xt (parse_query rest) =
         map snd
           (expected_xts sha1hex sha256hex (has_key mk_meta_version info) 
              (has_key mk_pieces info) version (encode (BDict info))) /\
         map unquote_plus (values_of s_dn (parse_query rest)) = [name] /\
         map unquote_plus (values_of s_tr (parse_query rest)) = urls /\
         map unquote_plus (values_of s_ws (parse_query rest)) = ws.
Proof. exact magnet_params_decoded. Qed.
Print Assumptions C11_params_decode_to_name_trackers_webseeds.

