(* C04 -- Recheck never reports 100% for damaged or incomplete content.
   Statements only; every proof is `exact <lemma>`.  H1 / H256 are arbitrary functions: what
   depends on collision resistance appears as the visible hypothesis `piece_differs` (the
   existential premise of each theorem), never as an axiom.

   Chain of the argument (DESIGN.md C04): damage outside all-zero regions => some piece of the
   zero-filled disk state differs from the described piece => (piece_differs) its digest differs
   from the recorded one => that piece IS produced, paired with its own recorded digest, counted
   in `consumed` and not in `matched` (exactness, C16) => matched < consumed = total, i.e. the
   reported number (matched / consumed) * 100 is below 100. *)
From TF Require Import Lib.Base Lib.Chunks Spec.Bep52 Spec.RecheckSpec Model.HasherV2 Model.Recheck
  Proofs.RecheckV1 Proofs.RecheckResult Proofs.RecheckV2 Proofs.RecheckBep52.

(* v1.  piece_differs: some piece of the zero-filled disk state hashes to something else than
   the digest recorded at its index. *)
Theorem C04_v1_damaged_below_100 : forall (H1 : bytes -> bytes) pl lens disk recorded,
  0 < pl -> length lens = length disk -> disk_within lens disk ->
  (exists i p, nth_error (spec_pieces_v1 pl lens disk) i = Some p /\ H1 p <> nth i recorded []) ->
  matched (feed_trace H1 pl lens disk recorded) < consumed (feed_trace H1 pl lens disk recorded) /\
  consumed (feed_trace H1 pl lens disk recorded) = sum_nat lens.
Proof. exact C04_v1. Qed.
Print Assumptions C04_v1_damaged_below_100.

(* v1, with the metafile described by the payload it was made from (recorded = BEP 3 hashing of
   the payload): the disk state differs from the payload in piece i, and the two pieces do not
   collide under H1 *)
Theorem C04_v1_damaged_payload : forall (H1 : bytes -> bytes) pl (payload : list bytes) disk,
  0 < pl -> length payload = length disk -> disk_within (map (@length _) payload) disk ->
  (exists i p q, nth_error (spec_pieces_v1 pl (map (@length _) payload) disk) i = Some p /\
                 nth_error (chunks pl (concat payload)) i = Some q /\
                 p <> q /\ (p <> q -> H1 p <> H1 q)) ->
  let lens := map (@length _) payload in
  let recorded := map H1 (chunks pl (concat payload)) in
  matched (feed_trace H1 pl lens disk recorded) < consumed (feed_trace H1 pl lens disk recorded) /\
  consumed (feed_trace H1 pl lens disk recorded) = sum_nat lens.
Proof. exact C04_v1_payload. Qed.
Print Assumptions C04_v1_damaged_payload.

(* v2 / hybrid.  piece_differs: for some piece j of some listed file the hash found on disk (the
   file hasher's j-th layer hash, or the hash of absent data) is not the j-th recorded hash. *)
Theorem C04_v2_damaged_below_100 : forall (H256 : bytes -> bytes) pl files,
  0 < pl -> Forall (v2_wf pl) files ->
  (exists f j, In f files /\ j < ceil_div (v2_len f) pl /\
     nth j (v2_disk_hashes (v2_disk f)) (H256 (zeros (v2_size pl (v2_len f) j)))
       <> nth j (v2_pieces f) []) ->
  matched (hash_trace H256 pl files) < consumed (hash_trace H256 pl files) /\
  consumed (hash_trace H256 pl files) = sum_nat (map v2_len files).
Proof. exact C04_v2. Qed.
Print Assumptions C04_v2_damaged_below_100.

(* the bookkeeping step used by both: one failing piece of positive size is enough *)
Theorem C04_one_failed_piece_suffices : forall (tr : list (bool * nat)) s,
  In (false, s) tr -> 0 < s -> matched_of tr < consumed_of tr.
Proof. exact failed_piece_lt. Qed.
Print Assumptions C04_one_failed_piece_suffices.

(* the well-formedness premise of C04_v2 for a file present on disk with content d no longer
   than recorded (FileHasher yields ceil(|d| / pl) layer hashes) and a metafile that records a
   hash for every piece *)
Theorem C04_v2_wf_from_content : forall pl L pieces hs (d : bytes), 0 < pl ->
  length hs = ceil_div (length d) pl -> length d <= L -> ceil_div L pl <= length pieces ->
  v2_wf pl {| v2_len := L; v2_pieces := pieces; v2_disk := Some hs |}.
Proof. exact v2_wf_from_content. Qed.
Print Assumptions C04_v2_wf_from_content.

(* ... and for a whole BEP 52 metafile over `files` with any damaged disk state that never
   lengthens a file (v2_listed orig od: recorded per BEP 52, on-disk side = FileHasher's layer
   hashes of what is there, None = absent): the premise of C04_v2 / C16_v2_exact holds *)
Theorem C04_v2_wf_damaged_state : forall (H256 : bytes -> bytes) B, 0 < B ->
  forall k pl, pl = B * 2 ^ k -> forall (files : list bytes) (disk : list (option bytes)),
  disk_within (map (@length _) files) disk -> length files = length disk ->
  Forall (v2_wf pl) (map2 (v2_listed H256 B k pl) files disk).
Proof. exact v2_listed_all_wf. Qed.
Print Assumptions C04_v2_wf_damaged_state.

(* ---------------------------------------------------------------------------------------------- *)
(* from the integers to the reported float: (matched / consumed) * 100  (Proofs/Percent.v)        *)
(* ---------------------------------------------------------------------------------------------- *)
(* IEEE model: Checker.iter_hashes ends with `self._result = (matched / consumed) * 100`.  CPython's
   int / int is the correctly rounded binary64 value of the exact quotient, and `* 100` is one
   binary64 multiplication; both round to nearest, ties to even.  `percent m c` is
   rnd (rnd (m / c) * 100) over the reals, where rnd is Flocq's rounding to the binary64 format
   (radix 2, FLT_exp (-1074) 53, ZnearestE): the standard characterisation "an IEEE operation returns
   the rounding of the exact result" (no overflow is possible, all values lie in [0, 100]).
   These theorems depend on the axioms of Coq's real numbers that Flocq uses (and on nothing else):
   ClassicalDedekindReals.sig_forall_dec, ClassicalDedekindReals.sig_not_dec,
   FunctionalExtensionality.functional_extensionality_dep, Classical_Prop.classic. *)
From Coq Require Import ZArith Reals.
From TF Require Import Proofs.Percent.

(* at least one consumed byte did not match (matched < consumed) and at most 2^53 bytes were consumed:
   the reported value is strictly below 100.0 *)
Theorem C04_float_below_100 : forall m c : Z,
  (0 <= m < c)%Z -> (c <= 2 ^ 53)%Z -> (percent m c < 100)%R.
Proof. exact percent_damaged_lt_100. Qed.
Print Assumptions C04_float_below_100.
