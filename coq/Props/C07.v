(* C07 -- Edit changes only the named fields; hash-bearing data is untouched.
   Statements only; every proof is `exact <lemma>`.  The model Model/Edit.v mirrors edit.filter_empty /
   edit.edit_torrent on decoded metafiles (ordered dictionaries). `layout_ok m`: no top-level key is named
   comment/source/private and no info key is named announce/announce-list/url-list/httpseeds (true of every
   metafile this tool writes; without it the statement is false: known finding D11, C07_layout_needed). *)
From Coq Require Import List ZArith. Import ListNotations. From TF Require Import Lib.Base Model.Bencode Proofs.BencodeProofs Model.Edit Proofs.EditProofs.

Theorem C07_frame_top :
  forall (req : request) (m i m' : dict) (k : bytes),
       NoDup (map fst m) ->
       lookup k_info m = Some (BDict i) ->
       NoDup (map fst i) ->
       layout_ok m ->
       edit_torrent req m = Some m' -> ~ In k (touched_top req) -> lookup k m' = lookup k m.
Proof. exact edit_frame_top. Qed.
Print Assumptions C07_frame_top.

Theorem C07_frame_info :
  forall (req : request) (m i m' : dict) (k : bytes),
       NoDup (map fst m) ->
       lookup k_info m = Some (BDict i) ->
       NoDup (map fst i) ->
       layout_ok m ->
       edit_torrent req m = Some m' ->
       ~ In k (touched_info req) -> lookup k (info_of m') = lookup k (info_of m).
Proof. exact edit_frame_info. Qed.
Print Assumptions C07_frame_info.

Theorem C07_info_untouched :
  forall (req : request) (m i m' : dict),
       NoDup (map fst m) ->
       lookup k_info m = Some (BDict i) ->
       layout_info_ok i ->
       rq_comment req = Keep ->
       rq_source req = Keep ->
       rq_private req = Keep -> edit_torrent req m = Some m' -> lookup k_info m' = Some (BDict i).
Proof. exact edit_info_untouched. Qed.
Print Assumptions C07_info_untouched.

Theorem C07_info_hash_unchanged :
  forall (H : bytes -> bytes) (req : request) (m i m' : dict),
       NoDup (map fst m) ->
       lookup k_info m = Some (BDict i) ->
       layout_info_ok i ->
       rq_comment req = Keep ->
       rq_source req = Keep ->
       rq_private req = Keep ->
       edit_torrent req m = Some m' ->
       option_map (fun v : value => H (encode v)) (lookup k_info m') =
       option_map (fun v : value => H (encode v)) (lookup k_info m).
Proof. exact edit_info_hash_unchanged. Qed.
Print Assumptions C07_info_hash_unchanged.

Theorem C07_named_fields_take_effect :
  forall (req : request) (m i m' : dict),
       NoDup (map fst m) ->
       lookup k_info m = Some (BDict i) ->
       NoDup (map fst i) ->
       layout_ok m ->
       edit_torrent req m = Some m' ->
       (forall v : value,
        set_value (rq_comment req) = Some v -> lookup k_comment (info_of m') = Some v) /\
       (is_clear (rq_comment req) = true -> lookup k_comment (info_of m') = None) /\
       (forall v : value,
        set_value (rq_source req) = Some v -> lookup k_source (info_of m') = Some v) /\
       (is_clear (rq_source req) = true -> lookup k_source (info_of m') = None) /\
       (is_set (rq_private req) = true -> lookup k_private (info_of m') = Some (BInt 1)) /\
       (is_clear (rq_private req) = true -> lookup k_private (info_of m') = None) /\
       (forall (x : bytes) (ws : list bytes),
        set_words (rq_announce req) = Some (x :: ws) ->
        lookup k_announce m' = Some (BStr x) /\
        lookup k_announce_list m' = Some (BList [BList (map BStr (x :: ws))])) /\
       (is_clear (rq_announce req) = true -> lookup k_announce m' = None) /\
       (forall ws : list bytes,
        set_words (rq_url_list req) = Some ws -> lookup k_url_list m' = Some (BList (map BStr ws))) /\
       (is_clear (rq_url_list req) = true -> lookup k_url_list m' = None) /\
       (forall ws : list bytes,
        set_words (rq_httpseeds req) = Some ws ->
        lookup k_httpseeds m' = Some (BList (map BStr ws))) /\
       (is_clear (rq_httpseeds req) = true -> lookup k_httpseeds m' = None).
Proof. exact edit_sets. Qed.
Print Assumptions C07_named_fields_take_effect.

Theorem C07_history :
  forall (reqs : list request) (m i m' : dict),
       NoDup (map fst m) ->
       lookup k_info m = Some (BDict i) ->
       NoDup (map fst i) ->
       layout_ok m ->
       edit_seq reqs m = Some m' ->
       exists (m'' : dict) (i' i'' : list (bytes * value)),
         edit_torrent (last_writes reqs) m = Some m'' /\
         lookup k_info m' = Some (BDict i') /\
         lookup k_info m'' = Some (BDict i'') /\
         (forall k : bytes,
          k <> k_info ->
          (k = k_announce_list -> is_clear (rq_announce (last_writes reqs)) = false) ->
          lookup k m' = lookup k m'') /\
         (forall k : bytes, lookup k i' = lookup k i'') /\
         (info_edit (last_writes reqs) = false -> i' = i /\ i'' = i).
Proof. exact edit_history. Qed.
Print Assumptions C07_history.

Theorem C07_history_same_bytes :
  forall (reqs : list request) (m i m' : dict),
       NoDup (map fst m) ->
       lookup k_info m = Some (BDict i) ->
       NoDup (map fst i) ->
       layout_ok m ->
       reqs <> [] ->
       is_clear (rq_announce (last_writes reqs)) = false ->
       edit_seq reqs m = Some m' -> edit_torrent (last_writes reqs) m = Some m'.
Proof. exact edit_history_eq. Qed.
Print Assumptions C07_history_same_bytes.

Theorem C07_file_roundtrip :
  forall v : value,
       nodup_keys v ->
       forall (r : list ascii) (fuel : nat),
       fuel > length (encode v ++ r) -> pydecode fuel (encode v ++ r) = Some (v, r).
Proof. exact pydecode_encode. Qed.
Print Assumptions C07_file_roundtrip.

Theorem C07_layout_needed :
  ~
       (forall (req : request) (m i m' : dict),
        NoDup (map fst m) ->
        lookup k_info m = Some (BDict i) ->
        NoDup (map fst i) ->
        edit_torrent req m = Some m' ->
        is_clear (rq_comment req) = true -> lookup k_comment (info_of m') = None) /\
       ~
       (forall (req : request) (m i m' : dict) (k : bytes),
        NoDup (map fst m) ->
        lookup k_info m = Some (BDict i) ->
        NoDup (map fst i) ->
        edit_torrent req m = Some m' -> ~ In k (touched_top req) -> lookup k m' = lookup k m).
Proof. exact edit_D11_refuted. Qed.
Print Assumptions C07_layout_needed.

