(* C07 -- Edit changes only the named fields; hash-bearing data is untouched.
   Statements only; every proof is `exact <lemma>`.  The model Model/Edit.v mirrors edit.filter_empty /
   edit.edit_torrent on decoded metafiles (ordered dictionaries). `layout_ok m`: no top-level key is named
   comment/source/private and no info key is named announce/announce-list/url-list/httpseeds (true of every
   metafile this tool writes; without it the statement is false: known finding D11, C07_layout_needed). *)
From Coq Require Import List ZArith. Import ListNotations. From TF Require Import Lib.Base Model.Bencode Proofs.BencodeProofs Model.Edit Proofs.EditProofs.

Theorem C07_frame_top :
  forall (req : request) (m i m' : dict) (k : bytes),
       NoDup (map fst m) ->
       lookup k_info m = Some (BDict i) ->
       NoDup (map fst i) ->
       layout_ok m ->
       edit_torrent req m = Some m' -> ~ In k (touched_top req) -> lookup k m' = lookup k m.
Proof. exact edit_frame_top. Qed.
Print Assumptions C07_frame_top.

Theorem C07_frame_info :
  forall (req : request) (m i m' : dict) (k : bytes),
       NoDup (map fst m) ->
       lookup k_info m = Some (BDict i) ->
       NoDup (map fst i) ->
       layout_ok m ->
       edit_torrent req m = Some m' ->
       ~ In k (touched_info req) -> lookup k (info_of m') = lookup k (info_of m).
Proof. exact edit_frame_info. Qed.
Print Assumptions C07_frame_info.

Theorem C07_info_untouched :
  forall (req : request) (m i m' : dict),
       NoDup (map fst m) ->
       lookup k_info m = Some (BDict i) ->
       layout_info_ok i ->
       rq_comment req = Keep ->
       rq_source req = Keep ->
       rq_private req = Keep -> edit_torrent req m = Some m' -> lookup k_info m' = Some (BDict i).
Proof. exact edit_info_untouched. Qed.
Print Assumptions C07_info_untouched.

Theorem C07_info_hash_unchanged :
  forall (H : bytes -> bytes) (req : request) (m i m' : dict),
       NoDup (map fst m) ->
       lookup k_info m = Some (BDict i) ->
       layout_info_ok i ->
       rq_comment req = Keep ->
       rq_source req = Keep ->
       rq_private req = Keep ->
       edit_torrent req m = Some m' ->
       option_map (fun v : value => H (encode v)) (lookup k_info m') =
       option_map (fun v : value => H (encode v)) (lookup k_info m).
Proof. exact edit_info_hash_unchanged. Qed.
Print Assumptions C07_info_hash_unchanged.

Theorem C07_named_fields_take_effect :
  forall (req : request) (m i m' : dict),
       NoDup (map fst m) ->
       lookup k_info m = Some (BDict i) ->
       NoDup (map fst i) ->
       layout_ok m ->
       edit_torrent req m = Some m' ->
       (forall v : value,
        set_value (rq_comment req) = Some v -> lookup k_comment (info_of m') = Some v) /\
       (is_clear (rq_comment req) = true -> lookup k_comment (info_of m') = None) /\
       (forall v : value,
        set_value (rq_source req) = Some v -> lookup k_source (info_of m') = Some v) /\
       (is_clear (rq_source req) = true -> lookup k_source (info_of m') = None) /\
       (is_set (rq_private req) = true -> lookup k_private (info_of m') = Some (BInt 1)) /\
       (is_clear (rq_private req) = true -> lookup k_private (info_of m') = None) /\
       (forall (x : bytes) (ws : list bytes),
        set_words (rq_announce req) = Some (x :: ws) ->
        lookup k_announce m' = Some (BStr x) /\
        lookup k_announce_list m' = Some (BList [BList (map BStr (x :: ws))])) /\
       (is_clear (rq_announce req) = true -> lookup k_announce m' = None) /\
       (forall ws : list bytes,
        set_words (rq_url_list req) = Some ws -> lookup k_url_list m' = Some (BList (map BStr ws))) /\
       (is_clear (rq_url_list req) = true -> lookup k_url_list m' = None) /\
       (forall ws : list bytes,
        set_words (rq_httpseeds req) = Some ws ->
        lookup k_httpseeds m' = Some (BList (map BStr ws))) /\
       (is_clear (rq_httpseeds req) = true -> lookup k_httpseeds m' = None).
Proof. exact edit_sets. Qed.
Print Assumptions C07_named_fields_take_effect.

Theorem C07_history :
  forall (reqs : list request) (m i m' : dict),
       NoDup (map fst m) ->
       lookup k_info m = Some (BDict i) ->
       NoDup (map fst i) ->
       layout_ok m ->
       edit_seq reqs m = Some m' ->
       exists (m'' : dict) (i' i'' : list (bytes * value)),
         edit_torrent (last_writes reqs) m = Some m'' /\
         lookup k_info m' = Some (BDict i') /\
         lookup k_info m'' = Some (BDict i'') /\
         (forall k : bytes,
          k <> k_info ->
          (k = k_announce_list -> is_clear (rq_announce (last_writes reqs)) = false) ->
          lookup k m' = lookup k m'') /\
         (forall k : bytes, lookup k i' = lookup k i'') /\
         (info_edit (last_writes reqs) = false -> i' = i /\ i'' = i).
Proof. exact edit_history. Qed.
Print Assumptions C07_history.

Theorem C07_history_same_bytes :
  forall (reqs : list request) (m i m' : dict),
       NoDup (map fst m) ->
       lookup k_info m = Some (BDict i) ->
       NoDup (map fst i) ->
       layout_ok m ->
       reqs <> [] ->
       is_clear (rq_announce (last_writes reqs)) = false ->
       edit_seq reqs m = Some m' -> edit_torrent (last_writes reqs) m = Some m'.
Proof. exact edit_history_eq. Qed.
Print Assumptions C07_history_same_bytes.

Theorem C07_file_roundtrip :
  forall v : value,
       nodup_keys v ->
       forall (r : list ascii) (fuel : nat),
       fuel > length (encode v ++ r) -> pydecode fuel (encode v ++ r) = Some (v, r).
Proof. exact pydecode_encode. Qed.
Print Assumptions C07_file_roundtrip.

Theorem C07_layout_needed :
  ~
       (forall (req : request) (m i m' : dict),
        NoDup (map fst m) ->
        lookup k_info m = Some (BDict i) ->
        NoDup (map fst i) ->
        edit_torrent req m = Some m' ->
        is_clear (rq_comment req) = true -> lookup k_comment (info_of m') = None) /\
       ~
       (forall (req : request) (m i m' : dict) (k : bytes),
        NoDup (map fst m) ->
        lookup k_info m = Some (BDict i) ->
        NoDup (map fst i) ->
        edit_torrent req m = Some m' -> ~ In k (touched_top req) -> lookup k m' = lookup k m).
Proof. exact edit_D11_refuted. Qed.
Print Assumptions C07_layout_needed.


(* ---- command line (appended): `torrentfile edit` hands edit_torrent a request in which exactly the
   named fields are not Keep.  `edit_args` / `edit_map` / `edit_metafile_attr` are GENERATED on this
   run from cli.py (the edit sub-parser) and commands.py (commands.edit) into Gen/GenCli.v;
   `run_edit_request argv` = argparse model on the generated table, then the generated mapping, read
   as a request of Model/Edit.v.  `items`: the flags with their values in any order, repetitions
   allowed; the metafile path stands after the first `pos` of them.  `edit_argv_ok`: no value
   begins with "-", list flags have a value, the path does not directly follow a list flag. *)
From TF Require Import Model.ArgParse Model.RoutesEdit Model.RoutesRun Gen.GenCli Proofs.EditCli.

Theorem C07_edit_table_ok_sound :
  forall table emap mattr, edit_table_ok table emap mattr = true ->
  forall items pos mf, edit_argv_ok items pos mf = true ->
  exists req, edit_request_of table emap mattr (render_edit items pos mf) = Some req
              /\ forall f, rq_of f req = Keep <-> (forall it, In it items -> item_field it <> f).
Proof. exact cli_unnamed_is_keep. Qed.
Print Assumptions C07_edit_table_ok_sound.

Theorem C07_edit_table_ok : edit_table_ok edit_args edit_map edit_metafile_attr = true.
Proof. exact gen_edit_table_ok. Qed.
Print Assumptions C07_edit_table_ok.

Theorem C07_cli_unnamed_is_keep :
  forall items pos mf, edit_argv_ok items pos mf = true ->
  exists req, run_edit_request (render_edit items pos mf) = Some req
              /\ forall f, rq_of f req = Keep <-> (forall it, In it items -> item_field it <> f).
Proof. exact gen_cli_unnamed_is_keep. Qed.
Print Assumptions C07_cli_unnamed_is_keep.

Theorem C07_cli_named_take_value :
  forall items pos mf, edit_argv_ok items pos mf = true ->
  exists ea req, run_edit_parse (render_edit items pos mf) = ER_ok (VStr mf) ea
                 /\ run_edit_request (render_edit items pos mf) = Some req
                 /\ forall f it, last_item f items = Some it -> rq_of f req = item_req it.
Proof. exact gen_cli_named_take_value. Qed.
Print Assumptions C07_cli_named_take_value.

(* D10 as pinned ("private": args.private): rejected by the checker; witness argv_D10 = `edit m.torrent --comment x` *)
Theorem C07_cli_every_edit_sets_private_refuted :
  edit_table_ok edit_args edit_map_D10 edit_metafile_attr = false
  /\ exists req, edit_request_of edit_args edit_map_D10 edit_metafile_attr
                   argv_D10 = Some req
                 /\ rq_private req <> Keep.
Proof. exact C07_cli_unnamed_is_keep_refuted_D10. Qed.
Print Assumptions C07_cli_every_edit_sets_private_refuted.
