(* C01 -- v1 piece string is the BEP 3 hashing of exactly the files on disk.
   Statements only; every proof is `exact <lemma>`.  H1 (SHA-1) is an arbitrary function. *)
From TF Require Import Lib.Base Lib.Chunks Model.Hasher Proofs.HasherCorrect.

(* what the Hasher iterator feeds to SHA-1, for every list of files (any sizes, empty
   files anywhere, pieces straddling many files) and every piece length > 0:
   exactly the successive piece-length slices of the concatenation, in order *)
Theorem C01_hashed_slices_are_bep3 : forall pl files,
  0 < pl -> files <> [] -> hasher_inputs false pl files = chunks pl (concat files).
Proof. exact hasher_inputs_noalign. Qed.
Print Assumptions C01_hashed_slices_are_bep3.

Theorem C01_pieces_are_bep3 : forall (H1 : bytes -> bytes) pl files,
  0 < pl -> files <> [] -> hasher_pieces H1 false pl files = map H1 (chunks pl (concat files)).
Proof. exact hasher_pieces_noalign. Qed.
Print Assumptions C01_pieces_are_bep3.

(* only the final piece may be short, and nothing is lost or duplicated *)
Theorem C01_only_last_piece_short : forall pl (l : bytes), 0 < pl ->
  exists ps r, chunks pl l = ps ++ (match r with [] => [] | _ => [r] end) /\
               Forall (fun p => length p = pl) ps /\ length r < pl /\ l = concat ps ++ r.
Proof. exact (@chunks_full_or_last ascii). Qed.
Print Assumptions C01_only_last_piece_short.

(* the file list of a directory torrent: one non-padding entry per file with its length *)
Theorem C01_entries_are_the_files : forall pl (files : list bytes),
  stream_of_entries (v1_entries false pl (map (@length ascii) files)) files = concat files.
Proof. exact stream_of_entries_noalign. Qed.
Print Assumptions C01_entries_are_the_files.

Theorem C01_no_padding_entries : forall pl lens,
  Forall (fun e => fst e = false) (v1_entries false pl lens).
Proof. exact v1_entries_noalign_no_pad. Qed.
Print Assumptions C01_no_padding_entries.

(* single file: no entry list, the payload is that file alone (also when align is requested) *)
Theorem C01_single_file : forall (H1 : bytes -> bytes) align pl f, 0 < pl ->
  v1_assemble H1 true align pl [f] = (None, concat (map H1 (chunks pl f))).
Proof. exact v1_assemble_single_file. Qed.
Print Assumptions C01_single_file.

(* number of recorded pieces = ceil(total listed length / piece length) *)
Theorem C01_piece_count : forall pl files align, 0 < pl -> files <> [] ->
  length (hasher_inputs align pl files)
  = ceil_div (entries_total (v1_entries align pl (map (@length ascii) files))) pl.
Proof. exact hasher_inputs_count. Qed.
Print Assumptions C01_piece_count.
