(* C01 -- v1 piece string is the BEP 3 hashing of exactly the files on disk.
   Statements only; every proof is `exact <lemma>`.  H1 (SHA-1) is an arbitrary function. *)
From TF Require Import Lib.Base Lib.Chunks Model.Hasher Proofs.HasherCorrect.

(* what the Hasher iterator feeds to SHA-1, for every list of files (any sizes, empty
   files anywhere, pieces straddling many files) and every piece length > 0:
   exactly the successive piece-length slices of the concatenation, in order *)
Theorem C01_hashed_slices_are_bep3 : forall pl files,
  0 < pl -> files <> [] -> hasher_inputs false pl files = chunks pl (concat files).
Proof. exact hasher_inputs_noalign. Qed.
Print Assumptions C01_hashed_slices_are_bep3.

Theorem C01_pieces_are_bep3 : forall (H1 : bytes -> bytes) pl files,
  0 < pl -> files <> [] -> hasher_pieces H1 false pl files = map H1 (chunks pl (concat files)).
Proof. exact hasher_pieces_noalign. Qed.
Print Assumptions C01_pieces_are_bep3.

(* only the final piece may be short, and nothing is lost or duplicated *)
Theorem C01_only_last_piece_short : forall pl (l : bytes), 0 < pl ->
  exists ps r, chunks pl l = ps ++ (match r with [] => [] | _ => [r] end) /\
               Forall (fun p => length p = pl) ps /\ length r < pl /\ l = concat ps ++ r.
Proof. exact (@chunks_full_or_last ascii). Qed.
Print Assumptions C01_only_last_piece_short.

(* the file list of a directory torrent: one non-padding entry per file with its length *)
Theorem C01_entries_are_the_files : forall pl (files : list bytes),
  stream_of_entries (v1_entries false pl (map (@length ascii) files)) files = concat files.
Proof. exact stream_of_entries_noalign. Qed.
Print Assumptions C01_entries_are_the_files.

Theorem C01_no_padding_entries : forall pl lens,
  Forall (fun e => fst e = false) (v1_entries false pl lens).
Proof. exact v1_entries_noalign_no_pad. Qed.
Print Assumptions C01_no_padding_entries.

(* single file: no entry list, the payload is that file alone (also when align is requested) *)
Theorem C01_single_file : forall (H1 : bytes -> bytes) align pl f, 0 < pl ->
  v1_assemble H1 true align pl [f] = (None, concat (map H1 (chunks pl f))).
Proof. exact v1_assemble_single_file. Qed.
Print Assumptions C01_single_file.

(* number of recorded pieces = ceil(total listed length / piece length) *)
Theorem C01_piece_count : forall pl files align, 0 < pl -> files <> [] ->
  length (hasher_inputs align pl files)
  = ceil_div (entries_total (v1_entries align pl (map (@length ascii) files))) pl.
Proof. exact hasher_inputs_count. Qed.
Print Assumptions C01_piece_count.

(* ---------------------------------------------------------------------------------------------- *)
(* creator level: what TorrentFile(...).write() records (Model/Creators.v [create_v1] = MetaFile.__init__, *)
(* utils._filelist_total, TorrentFile.assemble, sort_meta; tied to torrent.py byte for byte by the unit   *)
(* correspondence of harness/props/creators_common.py).  A payload is a [node] whose directory entries    *)
(* are in the order the OS enumerated them; [files_of [] t] = every file under t, once, as (path          *)
(* components, content); [info_get key m] reads info[key] of the written dictionary m; [entry_of] reads   *)
(* (path components, length) of an entry of info["files"]; [is_pad] = the entry has an "attr" key.        *)
(* `false` is align=False (the --align variant is C15's subject).                                         *)
(* ---------------------------------------------------------------------------------------------- *)
From Coq Require Import Permutation.
From TF Require Import Model.Bencode Model.Creators Proofs.CreatorsProofs Proofs.CreatorsProofs2 Proofs.CreatorsProps.

(* info["files"] lists every file of the directory exactly once with its exact length, and nothing else
   (no padding entries); as a multiset of (path, length): whatever the enumeration order *)
Theorem C01_files_exactly_once : forall (H1 : bytes -> bytes) o root name pl es,
  exists l, info_get k_files (create_v1 H1 false o root name pl (Dir es)) = Some (BList l) /\
    Forall (fun v => is_pad v = false) l /\
    Permutation (map entry_of l) (map (fun f => (fst f, length (snd f))) (files_of [] (Dir es))).
Proof. exact v1_files_exactly_once. Qed.
Print Assumptions C01_files_exactly_once.

(* info["pieces"] is the BEP 3 hashing of exactly the listed files in the listed order: there is one list fl
   of (path, content) -- a permutation of the files on disk -- such that info["files"] is fl entry by entry
   and info["pieces"] is SHA-1 of the successive piece-length slices of the concatenation of fl's contents *)
Theorem C01_created_pieces_are_bep3 : forall (H1 : bytes -> bytes) o root name pl es,
  0 < pl -> has_file (Dir es) ->
  let m := create_v1 H1 false o root name pl (Dir es) in
  exists fl, Permutation fl (files_of [] (Dir es)) /\
    info_get k_files m = Some (BList (map (fun f => file_entry (fst f) (length (snd f))) fl)) /\
    info_get k_length m = None /\
    info_get k_pieces m = Some (BStr (concat (map H1 (chunks pl (concat (map snd fl)))))).
Proof. exact v1_pieces_are_bep3. Qed.
Print Assumptions C01_created_pieces_are_bep3.

(* single file: info["length"] = its size, no files list, pieces = hashing of the file alone (--align or not) *)
Theorem C01_created_single_file : forall (H1 : bytes -> bytes) align o root name pl (d : bytes), 0 < pl ->
  let m := create_v1 H1 align o root name pl (File d) in
  info_get k_length m = Some (BInt (Z.of_nat (length d))) /\
  info_get k_files m = None /\
  info_get k_pieces m = Some (BStr (concat (map H1 (chunks pl d)))).
Proof. exact create_v1_single_file. Qed.
Print Assumptions C01_created_single_file.

(* the name and the piece length the hashing used are the ones recorded *)
Theorem C01_piece_length_recorded : forall (H1 : bytes -> bytes) align o root name pl t,
  let m := create_v1 H1 align o root name pl t in
  info_get k_name m = Some (BStr name) /\ info_get k_piece_length m = Some (BInt (Z.of_nat pl)).
Proof. exact create_v1_name_piece_length. Qed.
Print Assumptions C01_piece_length_recorded.
