(* C10 -- All creators and all hashers agree on the same payload.
   Statements only; every proof is `exact <lemma>`.

   Reading.  H256 (SHA-256) is an arbitrary function, B (BLOCK_SIZE) an arbitrary block size > 0, pl = B * 2^k.
   `hasher_v2` = HasherV2, `hasher_hybrid padding` = HasherHybrid, `file_hasher hybrid padding` = FileHasher
   driven to exhaustion the way TorrentAssembler drives it (Model/HasherV2.v, one Gallina function per method of
   hasher.py).  Results: (root, piece layer) for HasherV2 and (root, piece layer, v1 piece inputs, pad length) for
   the other two; the recorded v1 piece hashes are SHA-1 of the inputs, so equal inputs give equal hashes.  The
   statements hold for EVERY file, the empty one included, with no side condition on its size. *)
From TF Require Import Lib.Base Lib.Chunks Spec.Bep52 Model.HasherV2 Proofs.MerkleProofs Proofs.HasherV2Correct.

(* the triple (HasherV2, HasherHybrid, FileHasher) with and without the hybrid flag: same root, same piece layer,
   same v1 pieces, same padding description *)
Theorem C10_three_hashers_agree : forall (H256 : bytes -> bytes) B, 0 < B -> forall k pl, pl = B * 2 ^ k ->
  forall padding (data r : bytes) (l : list bytes),
  hasher_v2 H256 B pl data = (r, l) ->
  exists ps pad,
    hasher_hybrid H256 B padding pl data = (r, l, ps, pad) /\
    file_hasher H256 B true padding pl data = (r, l, ps, pad) /\
    file_hasher H256 B false padding pl data = (r, l, [], None).
Proof. exact C10_hashers_agree. Qed.
Print Assumptions C10_three_hashers_agree.

Theorem C10_HasherHybrid_agrees_with_HasherV2 : forall (H256 : bytes -> bytes) B, 0 < B -> forall k pl,
  pl = B * 2 ^ k -> forall padding (data : bytes),
  fst (fst (hasher_hybrid H256 B padding pl data)) = hasher_v2 H256 B pl data.
Proof. exact hasher_hybrid_agrees_v2. Qed.
Print Assumptions C10_HasherHybrid_agrees_with_HasherV2.

Theorem C10_FileHasher_hybrid_agrees_with_HasherHybrid : forall (H256 : bytes -> bytes) B, 0 < B -> forall k pl,
  pl = B * 2 ^ k -> forall padding (data : bytes),
  file_hasher H256 B true padding pl data = hasher_hybrid H256 B padding pl data.
Proof. exact file_hasher_hybrid. Qed.
Print Assumptions C10_FileHasher_hybrid_agrees_with_HasherHybrid.

(* without the hybrid flag FileHasher is HasherV2: no v1 pieces, no padding entry, whatever `padding` says *)
Theorem C10_FileHasher_v2_agrees_with_HasherV2 : forall (H256 : bytes -> bytes) B, 0 < B -> forall k pl,
  pl = B * 2 ^ k -> forall padding (data : bytes),
  file_hasher H256 B false padding pl data =
  (fst (hasher_v2 H256 B pl data), snd (hasher_v2 H256 B pl data), [], None).
Proof. exact file_hasher_v2. Qed.
Print Assumptions C10_FileHasher_v2_agrees_with_HasherV2.

(* the iterator protocol does not change the answer: what TorrentAssembler collects from the yielded values
   (layer hashes, v1 pieces) is what the class-based creators read from the attributes *)
Theorem C10_iterator_yields_the_attributes : forall (H256 : bytes -> bytes) B, 0 < B -> forall k pl,
  pl = B * 2 ^ k -> forall hybrid padding (data : bytes),
  let r := file_hasher_run H256 B hybrid padding pl data in
  Some (fhr_yielded_layers r) = fhr_piece_layer r /\ fhr_yielded_pieces r = fhr_pieces r.
Proof. exact file_hasher_yields. Qed.
Print Assumptions C10_iterator_yields_the_attributes.

(* and the common value is the specified one (C02 / C03), for every non-empty file *)
Theorem C10_common_value : forall (H256 : bytes -> bytes) B, 0 < B -> forall k pl, pl = B * 2 ^ k ->
  forall hybrid padding (data : bytes), data <> [] ->
  file_hasher H256 B hybrid padding pl data =
  (bep52_root H256 B data, snd (hasher_v2 H256 B pl data),
   (if hybrid then if padding then v1_inputs_padded pl data else v1_inputs_plain pl data else []),
   (if hybrid then if padding then pad_file_length pl data else None else None)).
Proof. exact file_hasher_correct. Qed.
Print Assumptions C10_common_value.

Theorem C10_same_number_of_layer_hashes : forall (H256 : bytes -> bytes) B, 0 < B -> forall k pl, pl = B * 2 ^ k ->
  forall hybrid padding (data : bytes),
  length (snd (hasher_v2 H256 B pl data)) = ceil_div (length data) pl /\
  length (snd (fst (fst (hasher_hybrid H256 B padding pl data)))) = ceil_div (length data) pl /\
  length (snd (fst (fst (file_hasher H256 B hybrid padding pl data)))) = ceil_div (length data) pl.
Proof. exact layer_length_all. Qed.
Print Assumptions C10_same_number_of_layer_hashes.

(* ---------------------------------------------------------------------------------------------- *)
(* creator level (Model/Creators.v, tied to torrent.py byte for byte by the unit correspondence of        *)
(* harness/props/creators_common.py): TorrentAssembler -- the creator behind the command line -- writes    *)
(* the SAME dictionary (info, piece layers and everything else, after sort_meta) as the dedicated class,   *)
(* for every payload (a [node]: any tree, any enumeration order, the empty directory and the single file   *)
(* included -- no side condition), every option set o, every name and every piece length pl = B * 2^k.     *)
(* ---------------------------------------------------------------------------------------------- *)
From TF Require Import Model.Bencode Model.Creators Proofs.CreatorsProofs.

Theorem C10_v2_creators_agree : forall (H1 H256 : bytes -> bytes) B, 0 < B -> forall k pl, pl = B * 2 ^ k ->
  forall o name t,
  create_assembler H1 H256 B false o name pl t = create_v2_class H256 B o name pl t.
Proof. exact create_assembler_v2_agree. Qed.
Print Assumptions C10_v2_creators_agree.

Theorem C10_hybrid_creators_agree : forall (H1 H256 : bytes -> bytes) B, 0 < B -> forall k pl, pl = B * 2 ^ k ->
  forall o name t,
  create_assembler H1 H256 B true o name pl t = create_hybrid_class H1 H256 B o name pl t.
Proof. exact create_assembler_hybrid_agree. Qed.
Print Assumptions C10_hybrid_creators_agree.
