(* C03 -- Hybrid metafile: the v1 view and the v2 view describe the same payload.
   Statements only; every proof is `exact <lemma>` (or cited lemmas chained by eq_trans / f_equal).

   Reading.  H256 / H1 (SHA-256 / SHA-1) are arbitrary functions, B (BLOCK_SIZE) an arbitrary block size > 0,
   pl = B * 2^k.  `hasher_hybrid padding pl data` is HasherHybrid (class-based hybrid creator),
   `file_hasher true padding pl data` is FileHasher with the hybrid flag (TorrentAssembler, i.e. the command
   line); both return (root, piece layer, v1 piece INPUTS, pad length): the third component is the list of byte
   strings fed to SHA-1, one per v1 piece (the recorded digest is H1 of it), the fourth the length of the
   padding entry the creator appends after the file (None = no padding entry).  The creators pass
   padding = true for a directory and padding = false when the payload is one file (D7 repair). *)
From TF Require Import Lib.Base Lib.Chunks Spec.Bep52 Model.HasherV2 Proofs.MerkleProofs Proofs.HasherV2Correct.

(* ---------- directory payload (padding = true): every file is hashed as the file followed by its pad file
   of zero bytes, so the next file starts on a piece boundary of the v1 stream ---------- *)

(* the v1 piece inputs of a file are exactly the pl-slices of (file ++ zeros(pad length)) *)
Theorem C03_HasherHybrid_hashes_file_then_zero_padding : forall (H256 : bytes -> bytes) B, 0 < B -> forall k pl,
  pl = B * 2 ^ k -> forall data : bytes, data <> [] ->
  snd (fst (hasher_hybrid H256 B true pl data)) =
  chunks pl (data ++ zeros (match pad_file_length pl data with Some n => n | None => 0 end)).
Proof. exact (fun H256 B HB k pl Hpl data Hne =>
  eq_trans (f_equal (fun x => snd (fst x)) (hasher_hybrid_correct H256 B HB k pl Hpl true data Hne))
           (v1_inputs_padded_chunks B HB k pl Hpl data)). Qed.
Print Assumptions C03_HasherHybrid_hashes_file_then_zero_padding.

(* the padding entry it reports has exactly that length ... *)
Theorem C03_HasherHybrid_padding_entry : forall (H256 : bytes -> bytes) B, 0 < B -> forall k pl,
  pl = B * 2 ^ k -> forall data : bytes, data <> [] ->
  snd (hasher_hybrid H256 B true pl data) = pad_file_length pl data.
Proof. exact (fun H256 B HB k pl Hpl data Hne =>
  f_equal snd (hasher_hybrid_correct H256 B HB k pl Hpl true data Hne)). Qed.
Print Assumptions C03_HasherHybrid_padding_entry.

(* ... which is the gap to the next piece boundary, and there is no entry when the file ends on one *)
Theorem C03_pad_length_is_the_gap : forall pl (data : bytes) n,
  pad_file_length pl data = Some n <-> length data mod pl <> 0 /\ n = pl - length data mod pl.
Proof. exact pad_file_length_spec. Qed.
Print Assumptions C03_pad_length_is_the_gap.

(* "the last slice zero-extended to pl" and "the slices of the zero-extended file" are the same thing *)
Theorem C03_zero_extended_last_piece : forall B, 0 < B -> forall k pl, pl = B * 2 ^ k -> forall data : bytes,
  v1_inputs_padded pl data =
  chunks pl (data ++ zeros (match pad_file_length pl data with Some n => n | None => 0 end)).
Proof. exact v1_inputs_padded_chunks. Qed.
Print Assumptions C03_zero_extended_last_piece.

(* ---------- single-file payload (padding = false): the v1 stream is that file alone ---------- *)

Theorem C03_HasherHybrid_single_file_hashed_alone : forall (H256 : bytes -> bytes) B, 0 < B -> forall k pl,
  pl = B * 2 ^ k -> forall data : bytes, data <> [] ->
  snd (fst (hasher_hybrid H256 B false pl data)) = chunks pl data /\
  snd (hasher_hybrid H256 B false pl data) = None.
Proof. exact (fun H256 B HB k pl Hpl data Hne =>
  conj (f_equal (fun x => snd (fst x)) (hasher_hybrid_correct H256 B HB k pl Hpl false data Hne))
       (f_equal snd (hasher_hybrid_correct H256 B HB k pl Hpl false data Hne))). Qed.
Print Assumptions C03_HasherHybrid_single_file_hashed_alone.

(* ---------- the whole result, both modes, and the recorded digests ---------- *)

Theorem C03_HasherHybrid_result : forall (H256 : bytes -> bytes) B, 0 < B -> forall k pl, pl = B * 2 ^ k ->
  forall padding (data : bytes), data <> [] ->
  hasher_hybrid H256 B padding pl data =
  (bep52_root H256 B data, snd (hasher_v2 H256 B pl data),
   (if padding then v1_inputs_padded pl data else v1_inputs_plain pl data),
   (if padding then pad_file_length pl data else None)).
Proof. exact hasher_hybrid_correct. Qed.
Print Assumptions C03_HasherHybrid_result.

Theorem C03_recorded_v1_digests : forall (H256 H1 : bytes -> bytes) B, 0 < B -> forall k pl, pl = B * 2 ^ k ->
  forall padding (data : bytes),
  map H1 (snd (fst (hasher_hybrid H256 B padding pl data))) =
  map H1 (if padding then v1_inputs_padded pl data else chunks pl data).
Proof. exact hasher_hybrid_v1_digests. Qed.
Print Assumptions C03_recorded_v1_digests.

(* the v2 view of the same file: same root and piece layer as the v2-only hasher (C02 says what they are) *)
Theorem C03_v2_view_of_the_same_file : forall (H256 : bytes -> bytes) B, 0 < B -> forall k pl, pl = B * 2 ^ k ->
  forall padding (data : bytes),
  fst (fst (hasher_hybrid H256 B padding pl data)) = hasher_v2 H256 B pl data.
Proof. exact hasher_hybrid_agrees_v2. Qed.
Print Assumptions C03_v2_view_of_the_same_file.

(* ---------- the other hybrid creator: FileHasher(hybrid=True) computes the same four values, and what
   TorrentAssembler collects from the iterator (layer hashes and v1 pieces) is what the hasher stores ---------- *)

Theorem C03_FileHasher_hybrid_is_HasherHybrid : forall (H256 : bytes -> bytes) B, 0 < B -> forall k pl,
  pl = B * 2 ^ k -> forall padding (data : bytes),
  file_hasher H256 B true padding pl data = hasher_hybrid H256 B padding pl data.
Proof. exact file_hasher_hybrid. Qed.
Print Assumptions C03_FileHasher_hybrid_is_HasherHybrid.

Theorem C03_FileHasher_result : forall (H256 : bytes -> bytes) B, 0 < B -> forall k pl, pl = B * 2 ^ k ->
  forall hybrid padding (data : bytes), data <> [] ->
  file_hasher H256 B hybrid padding pl data =
  (bep52_root H256 B data, snd (hasher_v2 H256 B pl data),
   (if hybrid then if padding then v1_inputs_padded pl data else v1_inputs_plain pl data else []),
   (if hybrid then if padding then pad_file_length pl data else None else None)).
Proof. exact file_hasher_correct. Qed.
Print Assumptions C03_FileHasher_result.

Theorem C03_FileHasher_yields_what_it_stores : forall (H256 : bytes -> bytes) B, 0 < B -> forall k pl,
  pl = B * 2 ^ k -> forall hybrid padding (data : bytes),
  let r := file_hasher_run H256 B hybrid padding pl data in
  Some (fhr_yielded_layers r) = fhr_piece_layer r /\ fhr_yielded_pieces r = fhr_pieces r.
Proof. exact file_hasher_yields. Qed.
Print Assumptions C03_FileHasher_yields_what_it_stores.

(* ---------------------------------------------------------------------------------------------- *)
(* creator level (Model/Creators.v, tied to torrent.py byte for byte by the unit correspondence of        *)
(* harness/props/creators_common.py).  [hybrid_output H1 H256 B pl o name t m]: m is the dictionary        *)
(* written for payload t by TorrentFileHybrid or by TorrentAssembler (meta version 3).  [dir_files es] =   *)
(* the files of the directory in file-tree order (per-directory sorted names) as (path, content);          *)
(* [is_pad v] = the entry has an "attr" key; [abs_entry v] = (is_pad v, its length); [file_entry rel n] =   *)
(* {"length": n, "path": rel}; [pad_entry n] = {"attr": "p", "length": n, "path": [".pad", str(n)]};        *)
(* [leaves_v [] ft] = leaves of the file tree in dictionary order; [pad_to pl d] = d ++ zeros up to the     *)
(* next multiple of pl.                                                                                    *)
(* ---------------------------------------------------------------------------------------------- *)
From TF Require Import Model.Bencode Model.Hasher Model.Creators Proofs.HasherCorrect
                       Proofs.CreatorsProofs Proofs.CreatorsProofs2.

(* info["files"] exactly: for each file in file-tree order its entry, followed -- iff its length is not a multiple
   of the piece length, the last file included -- by a padding entry of the missing length; no info["length"] *)
Theorem C03_files_list_exact : forall (H1 H256 : bytes -> bytes) B, 0 < B -> forall k pl, pl = B * 2 ^ k ->
  forall o name es m, wf_node (Dir es) -> hybrid_output H1 H256 B pl o name (Dir es) m ->
  info_get k_files m = Some (BList (flat_map (v1_aligned_entries pl) (dir_files es))) /\
  info_get k_length m = None.
Proof. exact hybrid_files_exact. Qed.
Print Assumptions C03_files_list_exact.

(* the v1 view and the v2 view list the same files in the same order with the same lengths: dropping the padding
   entries of info["files"] leaves one entry per leaf of info["file tree"], in dictionary order *)
Theorem C03_same_files_same_order : forall (H1 H256 : bytes -> bytes) B, 0 < B -> forall k pl, pl = B * 2 ^ k ->
  forall o name es m, wf_node (Dir es) -> hybrid_output H1 H256 B pl o name (Dir es) m ->
  exists l ft,
    info_get k_files m = Some (BList l) /\ info_get k_file_tree m = Some ft /\
    filter (fun v => negb (is_pad v)) l = map (fun f => file_entry (fst f) (length (snd f))) (dir_files es) /\
    leaves_v [] ft = map (fun f => (fst f, leaf_value H256 B (snd f))) (dir_files es).
Proof. exact hybrid_same_files_same_order. Qed.
Print Assumptions C03_same_files_same_order.

(* every non-padding entry starts on a piece boundary of the v1 stream *)
Theorem C03_files_start_on_piece_boundary : forall (H1 H256 : bytes -> bytes) B, 0 < B -> forall k pl,
  pl = B * 2 ^ k -> forall o name es m l pre f post,
  wf_node (Dir es) -> hybrid_output H1 H256 B pl o name (Dir es) m ->
  info_get k_files m = Some (BList l) -> l = pre ++ f :: post -> is_pad f = false ->
  entries_total (map abs_entry pre) mod pl = 0.
Proof. exact hybrid_files_start_on_piece_boundary. Qed.
Print Assumptions C03_files_start_on_piece_boundary.

(* every padding entry is {"attr": "p", "length": n, "path": [".pad", str(n)]} with n the gap (0 < n < pl) from the
   end of the payload entry directly before it to the next piece boundary, where it ends *)
Theorem C03_pad_entries_marked : forall (H1 H256 : bytes -> bytes) B, 0 < B -> forall k pl,
  pl = B * 2 ^ k -> forall o name es m l pre f post,
  wf_node (Dir es) -> hybrid_output H1 H256 B pl o name (Dir es) m ->
  info_get k_files m = Some (BList l) -> l = pre ++ f :: post -> is_pad f = true ->
  exists n, f = pad_entry n /\ 0 < n < pl /\
    (exists pre' rel len, pre = pre' ++ [file_entry rel len] /\ n = pl - len mod pl) /\
    (entries_total (map abs_entry pre) + n) mod pl = 0.
Proof. exact hybrid_pad_entries_marked. Qed.
Print Assumptions C03_pad_entries_marked.

(* info["pieces"] is SHA-1 of the successive piece-length slices of the stream info["files"] describes: file bytes
   for payload entries, zeros for padding entries -- i.e. every file zero-extended to a piece boundary *)
Theorem C03_pieces_hash_that_stream : forall (H1 H256 : bytes -> bytes) B, 0 < B -> forall k pl, pl = B * 2 ^ k ->
  forall o name es m, wf_node (Dir es) -> hybrid_output H1 H256 B pl o name (Dir es) m ->
  let datas := map snd (dir_files es) in
  let entries := flat_map (v1_aligned_entries pl) (dir_files es) in
  info_get k_pieces m =
    Some (BStr (concat (map H1 (chunks pl (stream_of_entries (map abs_entry entries) datas))))) /\
  stream_of_entries (map abs_entry entries) datas = concat (map (pad_to pl) datas).
Proof. exact hybrid_pieces_hash_that_stream. Qed.
Print Assumptions C03_pieces_hash_that_stream.

(* single-file payload: info["length"] = its size, no files list, pieces = SHA-1 piece hashing of the file alone
   (no zero extension of the last piece: the D7 repair) *)
Theorem C03_single_file : forall (H1 H256 : bytes -> bytes) B, 0 < B -> forall k pl, pl = B * 2 ^ k ->
  forall o name (d : bytes) m, hybrid_output H1 H256 B pl o name (File d) m ->
  info_get k_length m = Some (BInt (Z.of_nat (length d))) /\
  info_get k_files m = None /\
  info_get k_pieces m = Some (BStr (concat (map H1 (chunks pl d)))).
Proof. exact hybrid_single_file. Qed.
Print Assumptions C03_single_file.
