(* C03 -- Hybrid metafile: the v1 view and the v2 view describe the same payload.
   Statements only; every proof is `exact <lemma>` (or cited lemmas chained by eq_trans / f_equal).

   Reading.  H256 / H1 (SHA-256 / SHA-1) are arbitrary functions, B (BLOCK_SIZE) an arbitrary block size > 0,
   pl = B * 2^k.  `hasher_hybrid padding pl data` is HasherHybrid (class-based hybrid creator),
   `file_hasher true padding pl data` is FileHasher with the hybrid flag (TorrentAssembler, i.e. the command
   line); both return (root, piece layer, v1 piece INPUTS, pad length): the third component is the list of byte
   strings fed to SHA-1, one per v1 piece (the recorded digest is H1 of it), the fourth the length of the
   padding entry the creator appends after the file (None = no padding entry).  The creators pass
   padding = true for a directory and padding = false when the payload is one file (D7 repair). *)
From TF Require Import Lib.Base Lib.Chunks Spec.Bep52 Model.HasherV2 Proofs.MerkleProofs Proofs.HasherV2Correct.

(* ---------- directory payload (padding = true): every file is hashed as the file followed by its pad file
   of zero bytes, so the next file starts on a piece boundary of the v1 stream ---------- *)

(* the v1 piece inputs of a file are exactly the pl-slices of (file ++ zeros(pad length)) *)
Theorem C03_HasherHybrid_hashes_file_then_zero_padding : forall (H256 : bytes -> bytes) B, 0 < B -> forall k pl,
  pl = B * 2 ^ k -> forall data : bytes, data <> [] ->
  snd (fst (hasher_hybrid H256 B true pl data)) =
  chunks pl (data ++ zeros (match pad_file_length pl data with Some n => n | None => 0 end)).
Proof. exact (fun H256 B HB k pl Hpl data Hne =>
  eq_trans (f_equal (fun x => snd (fst x)) (hasher_hybrid_correct H256 B HB k pl Hpl true data Hne))
           (v1_inputs_padded_chunks B HB k pl Hpl data)). Qed.
Print Assumptions C03_HasherHybrid_hashes_file_then_zero_padding.

(* the padding entry it reports has exactly that length ... *)
Theorem C03_HasherHybrid_padding_entry : forall (H256 : bytes -> bytes) B, 0 < B -> forall k pl,
  pl = B * 2 ^ k -> forall data : bytes, data <> [] ->
  snd (hasher_hybrid H256 B true pl data) = pad_file_length pl data.
Proof. exact (fun H256 B HB k pl Hpl data Hne =>
  f_equal snd (hasher_hybrid_correct H256 B HB k pl Hpl true data Hne)). Qed.
Print Assumptions C03_HasherHybrid_padding_entry.

(* ... which is the gap to the next piece boundary, and there is no entry when the file ends on one *)
Theorem C03_pad_length_is_the_gap : forall pl (data : bytes) n,
  pad_file_length pl data = Some n <-> length data mod pl <> 0 /\ n = pl - length data mod pl.
Proof. exact pad_file_length_spec. Qed.
Print Assumptions C03_pad_length_is_the_gap.

(* "the last slice zero-extended to pl" and "the slices of the zero-extended file" are the same thing *)
Theorem C03_zero_extended_last_piece : forall B, 0 < B -> forall k pl, pl = B * 2 ^ k -> forall data : bytes,
  v1_inputs_padded pl data =
  chunks pl (data ++ zeros (match pad_file_length pl data with Some n => n | None => 0 end)).
Proof. exact v1_inputs_padded_chunks. Qed.
Print Assumptions C03_zero_extended_last_piece.

(* ---------- single-file payload (padding = false): the v1 stream is that file alone ---------- *)

Theorem C03_HasherHybrid_single_file_hashed_alone : forall (H256 : bytes -> bytes) B, 0 < B -> forall k pl,
  pl = B * 2 ^ k -> forall data : bytes, data <> [] ->
  snd (fst (hasher_hybrid H256 B false pl data)) = chunks pl data /\
  snd (hasher_hybrid H256 B false pl data) = None.
Proof. exact (fun H256 B HB k pl Hpl data Hne =>
  conj (f_equal (fun x => snd (fst x)) (hasher_hybrid_correct H256 B HB k pl Hpl false data Hne))
       (f_equal snd (hasher_hybrid_correct H256 B HB k pl Hpl false data Hne))). Qed.
Print Assumptions C03_HasherHybrid_single_file_hashed_alone.

(* ---------- the whole result, both modes, and the recorded digests ---------- *)

Theorem C03_HasherHybrid_result : forall (H256 : bytes -> bytes) B, 0 < B -> forall k pl, pl = B * 2 ^ k ->
  forall padding (data : bytes), data <> [] ->
  hasher_hybrid H256 B padding pl data =
  (bep52_root H256 B data, snd (hasher_v2 H256 B pl data),
   (if padding then v1_inputs_padded pl data else v1_inputs_plain pl data),
   (if padding then pad_file_length pl data else None)).
Proof. exact hasher_hybrid_correct. Qed.
Print Assumptions C03_HasherHybrid_result.

Theorem C03_recorded_v1_digests : forall (H256 H1 : bytes -> bytes) B, 0 < B -> forall k pl, pl = B * 2 ^ k ->
  forall padding (data : bytes),
  map H1 (snd (fst (hasher_hybrid H256 B padding pl data))) =
  map H1 (if padding then v1_inputs_padded pl data else chunks pl data).
Proof. exact hasher_hybrid_v1_digests. Qed.
Print Assumptions C03_recorded_v1_digests.

(* the v2 view of the same file: same root and piece layer as the v2-only hasher (C02 says what they are) *)
Theorem C03_v2_view_of_the_same_file : forall (H256 : bytes -> bytes) B, 0 < B -> forall k pl, pl = B * 2 ^ k ->
  forall padding (data : bytes),
  fst (fst (hasher_hybrid H256 B padding pl data)) = hasher_v2 H256 B pl data.
Proof. exact hasher_hybrid_agrees_v2. Qed.
Print Assumptions C03_v2_view_of_the_same_file.

(* ---------- the other hybrid creator: FileHasher(hybrid=True) computes the same four values, and what
   TorrentAssembler collects from the iterator (layer hashes and v1 pieces) is what the hasher stores ---------- *)

Theorem C03_FileHasher_hybrid_is_HasherHybrid : forall (H256 : bytes -> bytes) B, 0 < B -> forall k pl,
  pl = B * 2 ^ k -> forall padding (data : bytes),
  file_hasher H256 B true padding pl data = hasher_hybrid H256 B padding pl data.
Proof. exact file_hasher_hybrid. Qed.
Print Assumptions C03_FileHasher_hybrid_is_HasherHybrid.

Theorem C03_FileHasher_result : forall (H256 : bytes -> bytes) B, 0 < B -> forall k pl, pl = B * 2 ^ k ->
  forall hybrid padding (data : bytes), data <> [] ->
  file_hasher H256 B hybrid padding pl data =
  (bep52_root H256 B data, snd (hasher_v2 H256 B pl data),
   (if hybrid then if padding then v1_inputs_padded pl data else v1_inputs_plain pl data else []),
   (if hybrid then if padding then pad_file_length pl data else None else None)).
Proof. exact file_hasher_correct. Qed.
Print Assumptions C03_FileHasher_result.

Theorem C03_FileHasher_yields_what_it_stores : forall (H256 : bytes -> bytes) B, 0 < B -> forall k pl,
  pl = B * 2 ^ k -> forall hybrid padding (data : bytes),
  let r := file_hasher_run H256 B hybrid padding pl data in
  Some (fhr_yielded_layers r) = fhr_piece_layer r /\ fhr_yielded_pieces r = fhr_pieces r.
Proof. exact file_hasher_yields. Qed.
Print Assumptions C03_FileHasher_yields_what_it_stores.

(* creators-level theorems: to be added from Proofs/CreatorsProofs.v *)
