(* C15 -- Piece-aligned v1 metafiles: padding entries account exactly for the pieces.
   Statements only; every proof is `exact <lemma>`. *)
From TF Require Import Lib.Base Lib.Chunks Model.Hasher Proofs.HasherCorrect.

(* the piece string is the hashing of the stream in which every file is followed by zero
   bytes up to the next piece boundary *)
Theorem C15_pieces_hash_padded_stream : forall (H1 : bytes -> bytes) pl files,
  0 < pl -> files <> [] ->
  hasher_pieces H1 true pl files = map H1 (chunks pl (concat (map (pad_to pl) files))).
Proof. exact hasher_pieces_align. Qed.
Print Assumptions C15_pieces_hash_padded_stream.

(* that stream is exactly what the listed entries describe (padding entries = zero bytes) *)
Theorem C15_entries_describe_that_stream : forall pl (files : list bytes),
  stream_of_entries (v1_entries true pl (map (@length ascii) files)) files
  = concat (map (pad_to pl) files).
Proof. exact stream_of_entries_align. Qed.
Print Assumptions C15_entries_describe_that_stream.

(* every payload file starts on a piece boundary *)
Theorem C15_files_start_on_boundary : forall pl lens pre e post, 0 < pl ->
  v1_entries true pl lens = pre ++ e :: post -> fst e = false -> entries_total pre mod pl = 0.
Proof. exact v1_entries_align_file_offsets. Qed.
Print Assumptions C15_files_start_on_boundary.

(* each padding entry is exactly the gap from the end of the file before it to the next boundary *)
Theorem C15_pad_is_gap : forall pl lens pre k post, 0 < pl ->
  v1_entries true pl lens = pre ++ (true, k) :: post ->
  0 < k < pl /\
  (exists pre' n, pre = pre' ++ [(false, n)] /\ k = pl - n mod pl /\ entries_total pre' mod pl = 0) /\
  (entries_total pre + k) mod pl = 0.
Proof. exact v1_entries_align_pad. Qed.
Print Assumptions C15_pad_is_gap.

(* the listed lengths account for exactly the number of pieces recorded; all pieces are full *)
Theorem C15_lengths_account_for_pieces : forall pl files, 0 < pl -> files <> [] ->
  length (hasher_inputs true pl files) * pl
  = entries_total (v1_entries true pl (map (@length ascii) files)).
Proof. exact hasher_inputs_align_count. Qed.
Print Assumptions C15_lengths_account_for_pieces.

Theorem C15_all_pieces_full : forall pl files, 0 < pl ->
  Forall (fun p => length p = pl) (hasher_inputs true pl files).
Proof. exact hasher_inputs_align_full. Qed.
Print Assumptions C15_all_pieces_full.

(* a single-file torrent is hashed as the file alone, whatever the align option *)
Theorem C15_single_file_alone : forall (H1 : bytes -> bytes) align pl f, 0 < pl ->
  v1_assemble H1 true align pl [f] = (None, concat (map H1 (chunks pl f))).
Proof. exact v1_assemble_single_file. Qed.
Print Assumptions C15_single_file_alone.

(* THE SOURCE'S OWN FORMULA.  Gen/GenFormulas.v is regenerated from /repo/torrentfile/torrent.py on every run: the expression
   TorrentFile.assemble assigns to the length of the padding entry (translated over size = os.path.getsize(path) and
   pl = self.piece_length), the test `if <that>:` under which the entry {"attr": "p", "length": <that>, "path": [".pad", str(<that>)]}
   is appended right after the file's own entry.  For EVERY file size and piece length that length is the gap to the next piece
   boundary: in [0, pl), completing the file to a multiple of pl, zero exactly when the file already ends on a boundary (so no
   entry then), and the least such length. *)
From Coq Require Import ZArith.
From TF Require Import Gen.GenFormulas Proofs.FormulasInstance.
Theorem C15_source_pad_is_the_gap : forall size pl : Z, (0 <= size)%Z -> (0 < pl)%Z ->
  (0 <= gen_align_pad size pl < pl)%Z /\ ((size + gen_align_pad size pl) mod pl = 0)%Z /\
  (gen_align_pad size pl = 0 <-> size mod pl = 0)%Z /\
  (forall p : Z, 0 <= p -> (size + p) mod pl = 0 -> gen_align_pad size pl <= p)%Z.
Proof. exact gen_align_pad_spec. Qed.
Print Assumptions C15_source_pad_is_the_gap.

Theorem C15_source_pad_entry_shape : gen_align_entry_shape = true.
Proof. exact gen_align_entry_shape_ok. Qed.
Print Assumptions C15_source_pad_entry_shape.

(* ... and it is the `remainder` of the hand model (Model/Hasher.neg_mod, used by Model/Creators.v1_aligned_entries), whose
   correspondence with the code is only sampled: for the alignment arithmetic source = model holds for every size. *)
From TF Require Import Model.Hasher Proofs.FormulasModel.
Theorem C15_source_pad_is_the_models : forall n pl : nat, (0 < pl)%nat ->
  Z.of_nat (neg_mod n pl) = gen_align_pad (Z.of_nat n) (Z.of_nat pl).
Proof. exact model_pad_is_source_pad. Qed.
Print Assumptions C15_source_pad_is_the_models.

Theorem C15_source_pad_test_is_the_models : forall n pl : nat, (0 < pl)%nat ->
  (neg_mod n pl =? 0)%nat = (gen_align_pad (Z.of_nat n) (Z.of_nat pl) =? 0)%Z.
Proof. exact model_pad_entry_iff. Qed.
Print Assumptions C15_source_pad_test_is_the_models.
