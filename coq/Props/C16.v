(* C16 -- Recheck percentage is the exact share of bytes in verifying pieces.
   Statements only; every proof is `exact <lemma>`.  H1 (SHA-1) and H256 (SHA-256) are arbitrary
   functions.

   Vocabulary (Spec/RecheckSpec.v, Model/Recheck.v):
     lens          recorded lengths of the listed files, in metafile order
     disk          per listed file: None = absent, Some d = present with content d
     disk_within   no file on disk is longer than recorded (flips, truncations, removals)
     zero_fill     the recorded extent of a file with every missing byte read as zero
     feed_trace    what FeedChecker yields to Checker.iter_hashes: (hash found, recorded hash, size)
     hash_trace    the same for HashChecker (v2, hybrid)
     spec_trace_*  the specification: piece by piece over the zero-filled layout
     matched, consumed   the two counters of Checker.iter_hashes; result = matched / consumed * 100 *)
From TF Require Import Lib.Base Lib.Chunks Spec.RecheckSpec Model.Recheck
  Proofs.RecheckV1 Proofs.RecheckResult Proofs.RecheckV2.

(* v1: the pieces FeedChecker hashes are exactly the successive piece-length slices of the
   concatenation of the zero-filled files -- no file skipped, no piece dropped, duplicated or
   shifted, whatever is present, short, empty or absent and wherever file ends fall *)
Theorem C16_v1_pieces_exact : forall pl lens disk,
  0 < pl -> length lens = length disk -> disk_within lens disk ->
  feed_pieces pl lens disk = chunks pl (concat (map2 zero_fill lens disk)).
Proof. exact feed_pieces_exact. Qed.
Print Assumptions C16_v1_pieces_exact.

(* v1: the n-th piece is hashed and compared with the n-th recorded digest; size = its length *)
Theorem C16_v1_exact : forall (H1 : bytes -> bytes) pl lens disk recorded,
  0 < pl -> length lens = length disk -> disk_within lens disk ->
  feed_trace H1 pl lens disk recorded = spec_trace_v1 H1 pl lens disk recorded.
Proof. exact feed_trace_exact. Qed.
Print Assumptions C16_v1_exact.

(* v2 / hybrid: every listed file on its own; piece j of a file is judged by the j-th layer hash
   of the bytes on disk while they last, then by the hash of absent data, against the j-th
   recorded hash of THAT file; empty files anywhere contribute nothing and end nothing *)
Theorem C16_v2_exact : forall (H256 : bytes -> bytes) pl files,
  0 < pl -> Forall (v2_wf pl) files ->
  hash_trace H256 pl files = spec_trace_v2 H256 pl files.
Proof. exact hash_trace_exact. Qed.
Print Assumptions C16_v2_exact.

(* v2: entry j of a file: which hash is found, which recorded hash it is compared with, and how
   many payload bytes it stands for.  It mentions the j-th hashes only: locality for v2. *)
Theorem C16_v2_piece_entry : forall (H256 : bytes -> bytes) pl f j,
  j < ceil_div (v2_len f) pl ->
  nth_error (v2_file_spec H256 pl f) j =
  Some (nth j (v2_disk_hashes (v2_disk f)) (H256 (zeros (v2_size pl (v2_len f) j))),
        nth j (v2_pieces f) [], v2_size pl (v2_len f) j).
Proof. exact v2_file_spec_nth. Qed.
Print Assumptions C16_v2_piece_entry.

(* v2: a file contributes exactly ceil(L / pl) entries ... *)
Theorem C16_v2_piece_count : forall (H256 : bytes -> bytes) pl f,
  length (v2_file_spec H256 pl f) = ceil_div (v2_len f) pl.
Proof. exact v2_file_spec_length. Qed.
Print Assumptions C16_v2_piece_count.

(* ... whose sizes are pl, ..., pl and then the remainder of the recorded length *)
Theorem C16_v2_size_full : forall pl L j, 0 < pl -> S j < ceil_div L pl -> v2_size pl L j = pl.
Proof. exact v2_size_full. Qed.
Print Assumptions C16_v2_size_full.

Theorem C16_v2_size_last : forall pl L, 0 < pl -> 0 < L ->
  v2_size pl L (ceil_div L pl - 1) = if L mod pl =? 0 then pl else L mod pl.
Proof. exact v2_size_last. Qed.
Print Assumptions C16_v2_size_last.

(* v1 sizes: every entry has 0 < size <= pl, and every entry but the last has size pl *)
Theorem C16_v1_sizes : forall (H1 : bytes -> bytes) pl lens disk recorded i c r sz, 0 < pl ->
  nth_error (spec_trace_v1 H1 pl lens disk recorded) i = Some (c, r, sz) ->
  0 < sz <= pl /\ (S i < length (spec_trace_v1 H1 pl lens disk recorded) -> sz = pl).
Proof. exact spec_sizes. Qed.
Print Assumptions C16_v1_sizes.

(* the result: the two counters of Checker.iter_hashes are the sum of the sizes of the matching
   pieces and the sum of all sizes (for any trace) ... *)
Theorem C16_matched_is_sum_of_matching_sizes : forall tr : list entry,
  matched tr = matched_of (verdicts tr).
Proof. exact matched_spec. Qed.
Print Assumptions C16_matched_is_sum_of_matching_sizes.

Theorem C16_consumed_is_sum_of_sizes : forall tr : list entry,
  consumed tr = consumed_of (verdicts tr).
Proof. exact consumed_spec. Qed.
Print Assumptions C16_consumed_is_sum_of_sizes.

(* ... and for the checkers the denominator is the total recorded payload, 0 <= matched <= it *)
Theorem C16_v1_result_is_share : forall (H1 : bytes -> bytes) pl lens disk recorded,
  0 < pl -> length lens = length disk -> disk_within lens disk ->
  let tr := feed_trace H1 pl lens disk recorded in
  matched tr = matched_of (verdicts tr) /\ consumed tr = consumed_of (verdicts tr) /\
  matched tr <= consumed tr /\ consumed tr = sum_nat lens.
Proof. exact C16_result_v1. Qed.
Print Assumptions C16_v1_result_is_share.

Theorem C16_v2_result_total : forall (H256 : bytes -> bytes) pl files,
  0 < pl -> Forall (v2_wf pl) files ->
  consumed (hash_trace H256 pl files) = sum_nat (map v2_len files).
Proof. exact hash_trace_consumed. Qed.
Print Assumptions C16_v2_result_total.

Theorem C16_matched_le_consumed : forall tr : list (bool * nat), matched_of tr <= consumed_of tr.
Proof. exact matched_le_consumed. Qed.
Print Assumptions C16_matched_le_consumed.

(* 100 % exactly when every piece of positive size verifies *)
Theorem C16_all_iff_every_piece : forall tr : list (bool * nat),
  matched_of tr = consumed_of tr <-> Forall (fun vs => 0 < snd vs -> fst vs = true) tr.
Proof. exact matched_eq_consumed_iff. Qed.
Print Assumptions C16_all_iff_every_piece.

(* locality, v1: two disk states that agree on the byte range of piece i (of the zero-filled
   stream) get the same verdict and size for piece i, whatever else differs *)
Theorem C16_v1_locality : forall (H1 : bytes -> bytes) pl lens disk disk' recorded i, 0 < pl ->
  firstn pl (skipn (i * pl) (spec_stream_v1 lens disk)) =
  firstn pl (skipn (i * pl) (spec_stream_v1 lens disk')) ->
  nth_error (verdicts (spec_trace_v1 H1 pl lens disk recorded)) i =
  nth_error (verdicts (spec_trace_v1 H1 pl lens disk' recorded)) i.
Proof. exact C16_locality_v1. Qed.
Print Assumptions C16_v1_locality.

(* v2: which hashes are found for a file: first the file hasher's layer hashes of the bytes on
   disk, then -- for the pieces wholly beyond the end of the data on disk -- SHA-256 of as many
   zero BYTES as the piece covers (the tool's definition of a wholly absent piece) *)
Theorem C16_v2_hashes_found : forall (H256 : bytes -> bytes) pl f,
  length (v2_disk_hashes (v2_disk f)) <= ceil_div (v2_len f) pl ->
  map (fun e : entry => fst (fst e)) (v2_file_spec H256 pl f) =
  v2_disk_hashes (v2_disk f) ++
  map (fun j => H256 (zeros (v2_size pl (v2_len f) j)))
      (seq (length (v2_disk_hashes (v2_disk f)))
           (ceil_div (v2_len f) pl - length (v2_disk_hashes (v2_disk f)))).
Proof. exact v2_file_spec_disk_hashes. Qed.
Print Assumptions C16_v2_hashes_found.

(* ---------------------------------------------------------------------------------------------- *)
(* the denominator: Checker.check_paths (Model/CheckPaths.v)                                      *)
(* ---------------------------------------------------------------------------------------------- *)
From TF Require Import Model.Bencode Model.CheckPaths Proofs.CheckPathsProofs.

(* `total` is the sum of the lengths RECORDED in the metafile for the listed entries, for every metafile shape (no size on
   disk is an input of check_paths: the model has no such parameter) *)
Theorem C16_total_is_sum_of_recorded_lengths : forall info name root root_is_file fis total,
  check_paths info name root root_is_file = Some (fis, total) -> total = sum_lengths fis.
Proof. exact check_paths_total. Qed.
Print Assumptions C16_total_is_sum_of_recorded_lengths.

(* every file the checker opens lies under the root it settled on *)
Theorem C16_checked_paths_under_root : forall info name root root_is_file fis total,
  check_paths info name root root_is_file = Some (fis, total) -> Forall (under root) fis.
Proof. exact check_paths_under_root. Qed.
Print Assumptions C16_checked_paths_under_root.

(* ---------------------------------------------------------------------------------------------- *)
(* from the integers to the reported float: (matched / consumed) * 100  (Proofs/Percent.v)        *)
(* ---------------------------------------------------------------------------------------------- *)
(* IEEE model: Checker.iter_hashes ends with `self._result = (matched / consumed) * 100`.  CPython's
   int / int is the correctly rounded binary64 value of the exact quotient, and `* 100` is one
   binary64 multiplication; both round to nearest, ties to even.  `percent m c` is
   rnd (rnd (m / c) * 100) over the reals, where rnd is Flocq's rounding to the binary64 format
   (radix 2, FLT_exp (-1074) 53, ZnearestE): the standard characterisation "an IEEE operation returns
   the rounding of the exact result" (no overflow is possible, all values lie in [0, 100]).
   These theorems depend on the axioms of Coq's real numbers that Flocq uses (and on nothing else):
   ClassicalDedekindReals.sig_forall_dec, ClassicalDedekindReals.sig_not_dec,
   FunctionalExtensionality.functional_extensionality_dep, Classical_Prop.classic. *)
From Coq Require Import ZArith Reals.
From TF Require Import Proofs.Percent.

(* the reported value is 100.0 exactly when every consumed byte matched (up to 2^53 consumed bytes) *)
Theorem C16_float_100_iff_all_match : forall m c : Z,
  (0 <= m <= c)%Z -> (0 < c <= 2 ^ 53)%Z -> (percent m c = 100%R <-> m = c).
Proof. exact percent_100_iff. Qed.
Print Assumptions C16_float_100_iff_all_match.

(* THE SOURCE'S OWN FORMULA.  Gen/GenFormulas.v is regenerated from /repo/torrentfile/recheck.py on every run: the expression
   Checker.iter_hashes stores into self._result (`<expr> if consumed > 0 else 0`) as a tree of int / int true divisions and float
   multiplications over the two counters.  Evaluated in binary64 -- an integer operand is converted first, int / int is the
   correctly rounded quotient of the two integers, every operation rounds to nearest-even -- it IS the `percent` of the float
   theorems of C04, C05 and C16, for all values of the counters. *)
From TF Require Import Gen.GenFormulas Proofs.PercentInstance.
Theorem C16_float_source_formula : forall m c : Z,
  gen_percent_zero_unless_consumed_positive = true /\ feval gen_percent_expr m c = percent m c.
Proof. exact gen_percent_is_percent. Qed.
Print Assumptions C16_float_source_formula.
