(* C02 -- v2 file tree, pieces roots and piece layers follow BEP 52 exactly.
   Statements only; every proof is `exact <lemma>` (or the two cited lemmas chained by eq_trans / f_equal).

   Reading.  H256 (SHA-256) is an arbitrary function, B (BLOCK_SIZE) an arbitrary block size > 0 and the
   piece length is pl = B * 2^k.  `bep52_root` / `bep52_piece_layer` (Spec/Bep52.v) are BEP 52 written
   independently of the code: leaves = H256 of the B-byte blocks, zero-hash padding up to the next power of two,
   balanced binary tree; the piece layer is the layer in which one node covers one piece, restricted to the
   nodes that cover data.  `hasher_v2`, `hasher_hybrid`, `file_hasher` (Model/HasherV2.v) are the three hashers of
   hasher.py, statement by statement (HasherV2 = class-based v2 creator and rebuild, HasherHybrid = class-based
   hybrid creator, FileHasher = TorrentAssembler, i.e. the command line, and recheck); a hasher result is
   (root, piece layer as a list of hashes[, v1 piece inputs, pad length]). *)
From TF Require Import Lib.Base Lib.Chunks Spec.Bep52 Model.HasherV2 Proofs.MerkleProofs Proofs.HasherV2Correct.

(* ---------- the recorded pieces root is the BEP 52 root, for every non-empty file ---------- *)

Theorem C02_HasherV2_root_is_bep52 : forall (H256 : bytes -> bytes) B, 0 < B -> forall k pl, pl = B * 2 ^ k ->
  forall data : bytes, data <> [] -> fst (hasher_v2 H256 B pl data) = bep52_root H256 B data.
Proof. exact hasher_v2_root. Qed.
Print Assumptions C02_HasherV2_root_is_bep52.

Theorem C02_HasherHybrid_root_is_bep52 : forall (H256 : bytes -> bytes) B, 0 < B -> forall k pl, pl = B * 2 ^ k ->
  forall padding (data : bytes), data <> [] ->
  fst (fst (fst (hasher_hybrid H256 B padding pl data))) = bep52_root H256 B data.
Proof. exact (fun H256 B HB k pl Hpl padding data Hne =>
  f_equal (fun x => fst (fst (fst x))) (hasher_hybrid_correct H256 B HB k pl Hpl padding data Hne)). Qed.
Print Assumptions C02_HasherHybrid_root_is_bep52.

Theorem C02_FileHasher_root_is_bep52 : forall (H256 : bytes -> bytes) B, 0 < B -> forall k pl, pl = B * 2 ^ k ->
  forall hybrid padding (data : bytes), data <> [] ->
  fst (fst (fst (file_hasher H256 B hybrid padding pl data))) = bep52_root H256 B data.
Proof. exact (fun H256 B HB k pl Hpl hybrid padding data Hne =>
  f_equal (fun x => fst (fst (fst x))) (file_hasher_correct H256 B HB k pl Hpl hybrid padding data Hne)). Qed.
Print Assumptions C02_FileHasher_root_is_bep52.

(* ---------- the piece layer of a file larger than the piece length (the files that get a piece-layers
   entry: `size > piece_length` in every creator) is the BEP 52 piece layer ---------- *)

Theorem C02_HasherV2_layer_is_bep52 : forall (H256 : bytes -> bytes) B, 0 < B -> forall k pl, pl = B * 2 ^ k ->
  forall data : bytes, pl < length data -> snd (hasher_v2 H256 B pl data) = bep52_piece_layer H256 B k data.
Proof. exact hasher_v2_layer. Qed.
Print Assumptions C02_HasherV2_layer_is_bep52.

Theorem C02_HasherHybrid_layer_is_bep52 : forall (H256 : bytes -> bytes) B, 0 < B -> forall k pl, pl = B * 2 ^ k ->
  forall padding (data : bytes), pl < length data ->
  snd (fst (fst (hasher_hybrid H256 B padding pl data))) = bep52_piece_layer H256 B k data.
Proof. exact (fun H256 B HB k pl Hpl padding data Hgt =>
  eq_trans (f_equal snd (hasher_hybrid_agrees_v2 H256 B HB k pl Hpl padding data))
           (hasher_v2_layer H256 B HB k pl Hpl data Hgt)). Qed.
Print Assumptions C02_HasherHybrid_layer_is_bep52.

(* FileHasher without the hybrid flag (TorrentAssembler, --meta-version 2) ... *)
Theorem C02_FileHasher_v2_layer_is_bep52 : forall (H256 : bytes -> bytes) B, 0 < B -> forall k pl, pl = B * 2 ^ k ->
  forall padding (data : bytes), pl < length data ->
  snd (fst (fst (file_hasher H256 B false padding pl data))) = bep52_piece_layer H256 B k data.
Proof. exact (fun H256 B HB k pl Hpl padding data Hgt =>
  eq_trans (f_equal (fun x => snd (fst (fst x))) (file_hasher_v2 H256 B HB k pl Hpl padding data))
           (hasher_v2_layer H256 B HB k pl Hpl data Hgt)). Qed.
Print Assumptions C02_FileHasher_v2_layer_is_bep52.

(* ... and with it (--meta-version 3) *)
Theorem C02_FileHasher_hybrid_layer_is_bep52 : forall (H256 : bytes -> bytes) B, 0 < B -> forall k pl, pl = B * 2 ^ k ->
  forall padding (data : bytes), pl < length data ->
  snd (fst (fst (file_hasher H256 B true padding pl data))) = bep52_piece_layer H256 B k data.
Proof. exact (fun H256 B HB k pl Hpl padding data Hgt =>
  eq_trans (f_equal (fun x => snd (fst (fst x))) (file_hasher_hybrid H256 B HB k pl Hpl padding data))
           (eq_trans (f_equal snd (hasher_hybrid_agrees_v2 H256 B HB k pl Hpl padding data))
                     (hasher_v2_layer H256 B HB k pl Hpl data Hgt))). Qed.
Print Assumptions C02_FileHasher_hybrid_layer_is_bep52.

(* what TorrentAssembler collects from the iterator (the yielded layer hashes, which it joins into the
   piece-layers value) is the layer the hasher stores *)
Theorem C02_FileHasher_yields_its_layer : forall (H256 : bytes -> bytes) B, 0 < B -> forall k pl, pl = B * 2 ^ k ->
  forall hybrid padding (data : bytes),
  let r := file_hasher_run H256 B hybrid padding pl data in
  Some (fhr_yielded_layers r) = fhr_piece_layer r /\ fhr_yielded_pieces r = fhr_pieces r.
Proof. exact file_hasher_yields. Qed.
Print Assumptions C02_FileHasher_yields_its_layer.

(* ---------- padding-only hashes are omitted: one hash per piece that contains data ---------- *)

Theorem C02_layer_omits_padding : forall (H256 : bytes -> bytes) B, 0 < B -> forall k pl, pl = B * 2 ^ k ->
  forall data : bytes, length (bep52_piece_layer H256 B k data) = ceil_div (length data) pl.
Proof. exact bep52_piece_layer_length. Qed.
Print Assumptions C02_layer_omits_padding.

Theorem C02_every_hasher_layer_omits_padding : forall (H256 : bytes -> bytes) B, 0 < B -> forall k pl, pl = B * 2 ^ k ->
  forall hybrid padding (data : bytes),
  length (snd (hasher_v2 H256 B pl data)) = ceil_div (length data) pl /\
  length (snd (fst (fst (hasher_hybrid H256 B padding pl data)))) = ceil_div (length data) pl /\
  length (snd (fst (fst (file_hasher H256 B hybrid padding pl data)))) = ceil_div (length data) pl.
Proof. exact layer_length_all. Qed.
Print Assumptions C02_every_hasher_layer_omits_padding.

(* a file of at most one piece: the hasher's single layer hash is the root itself (its tree is lower than a
   piece), which is why such files get no piece-layers entry *)
Theorem C02_one_piece_file_layer_is_root : forall (H256 : bytes -> bytes) B, 0 < B -> forall k pl, pl = B * 2 ^ k ->
  forall data : bytes, data <> [] -> length data <= pl -> snd (hasher_v2 H256 B pl data) = [bep52_root H256 B data].
Proof. exact hasher_v2_layer_one_piece. Qed.
Print Assumptions C02_one_piece_file_layer_is_root.

(* ---------- the pieces the statements above rest on, readable on their own ---------- *)

(* merkle_root's pairwise reduction of 2^k hashes is the root of the balanced binary tree over them *)
Theorem C02_merkle_root_is_tree_root : forall (H256 : bytes -> bytes) k (l : list bytes),
  length l = 2 ^ k -> merkle_root H256 l = tree_root H256 k l.
Proof. exact merkle_root_tree_root. Qed.
Print Assumptions C02_merkle_root_is_tree_root.

(* the root over the leaves is the root over the layer whose nodes cover 2^b leaves each (one piece) *)
Theorem C02_root_over_piece_layer : forall (H256 : bytes -> bytes) a b (l : list bytes),
  length l = 2 ^ (a + b) ->
  tree_root H256 (a + b) l = tree_root H256 a (map (tree_root H256 b) (chunks (2 ^ b) l)).
Proof. exact tree_root_split. Qed.
Print Assumptions C02_root_over_piece_layer.

(* utils.next_power_2 (as used by the three hashers) is the least power of two >= v *)
Theorem C02_next_power_2_least : forall v, 1 <= v ->
  v <= next_power_2_nat v /\ (exists j, next_power_2_nat v = 2 ^ j) /\
  (forall j, v <= 2 ^ j -> next_power_2_nat v <= 2 ^ j).
Proof. exact next_power_2_nat_least. Qed.
Print Assumptions C02_next_power_2_least.

(* creators-level theorems: to be added from Proofs/CreatorsProofs.v *)
