(* C02 -- v2 file tree, pieces roots and piece layers follow BEP 52 exactly.
   Statements only; every proof is `exact <lemma>` (or the two cited lemmas chained by eq_trans / f_equal).

   Reading.  H256 (SHA-256) is an arbitrary function, B (BLOCK_SIZE) an arbitrary block size > 0 and the
   piece length is pl = B * 2^k.  `bep52_root` / `bep52_piece_layer` (Spec/Bep52.v) are BEP 52 written
   independently of the code: leaves = H256 of the B-byte blocks, zero-hash padding up to the next power of two,
   balanced binary tree; the piece layer is the layer in which one node covers one piece, restricted to the
   nodes that cover data.  `hasher_v2`, `hasher_hybrid`, `file_hasher` (Model/HasherV2.v) are the three hashers of
   hasher.py, statement by statement (HasherV2 = class-based v2 creator and rebuild, HasherHybrid = class-based
   hybrid creator, FileHasher = TorrentAssembler, i.e. the command line, and recheck); a hasher result is
   (root, piece layer as a list of hashes[, v1 piece inputs, pad length]). *)
From TF Require Import Lib.Base Lib.Chunks Spec.Bep52 Model.HasherV2 Proofs.MerkleProofs Proofs.HasherV2Correct.

(* ---------- the recorded pieces root is the BEP 52 root, for every non-empty file ---------- *)

Theorem C02_HasherV2_root_is_bep52 : forall (H256 : bytes -> bytes) B, 0 < B -> forall k pl, pl = B * 2 ^ k ->
  forall data : bytes, data <> [] -> fst (hasher_v2 H256 B pl data) = bep52_root H256 B data.
Proof. exact hasher_v2_root. Qed.
Print Assumptions C02_HasherV2_root_is_bep52.

Theorem C02_HasherHybrid_root_is_bep52 : forall (H256 : bytes -> bytes) B, 0 < B -> forall k pl, pl = B * 2 ^ k ->
  forall padding (data : bytes), data <> [] ->
  fst (fst (fst (hasher_hybrid H256 B padding pl data))) = bep52_root H256 B data.
Proof. exact (fun H256 B HB k pl Hpl padding data Hne =>
  f_equal (fun x => fst (fst (fst x))) (hasher_hybrid_correct H256 B HB k pl Hpl padding data Hne)). Qed.
Print Assumptions C02_HasherHybrid_root_is_bep52.

Theorem C02_FileHasher_root_is_bep52 : forall (H256 : bytes -> bytes) B, 0 < B -> forall k pl, pl = B * 2 ^ k ->
  forall hybrid padding (data : bytes), data <> [] ->
  fst (fst (fst (file_hasher H256 B hybrid padding pl data))) = bep52_root H256 B data.
Proof. exact (fun H256 B HB k pl Hpl hybrid padding data Hne =>
  f_equal (fun x => fst (fst (fst x))) (file_hasher_correct H256 B HB k pl Hpl hybrid padding data Hne)). Qed.
Print Assumptions C02_FileHasher_root_is_bep52.

(* ---------- the piece layer of a file larger than the piece length (the files that get a piece-layers
   entry: `size > piece_length` in every creator) is the BEP 52 piece layer ---------- *)

Theorem C02_HasherV2_layer_is_bep52 : forall (H256 : bytes -> bytes) B, 0 < B -> forall k pl, pl = B * 2 ^ k ->
  forall data : bytes, pl < length data -> snd (hasher_v2 H256 B pl data) = bep52_piece_layer H256 B k data.
Proof. exact hasher_v2_layer. Qed.
Print Assumptions C02_HasherV2_layer_is_bep52.

Theorem C02_HasherHybrid_layer_is_bep52 : forall (H256 : bytes -> bytes) B, 0 < B -> forall k pl, pl = B * 2 ^ k ->
  forall padding (data : bytes), pl < length data ->
  snd (fst (fst (hasher_hybrid H256 B padding pl data))) = bep52_piece_layer H256 B k data.
Proof. exact (fun H256 B HB k pl Hpl padding data Hgt =>
  eq_trans (f_equal snd (hasher_hybrid_agrees_v2 H256 B HB k pl Hpl padding data))
           (hasher_v2_layer H256 B HB k pl Hpl data Hgt)). Qed.
Print Assumptions C02_HasherHybrid_layer_is_bep52.

(* FileHasher without the hybrid flag (TorrentAssembler, --meta-version 2) ... *)
Theorem C02_FileHasher_v2_layer_is_bep52 : forall (H256 : bytes -> bytes) B, 0 < B -> forall k pl, pl = B * 2 ^ k ->
  forall padding (data : bytes), pl < length data ->
  snd (fst (fst (file_hasher H256 B false padding pl data))) = bep52_piece_layer H256 B k data.
Proof. exact (fun H256 B HB k pl Hpl padding data Hgt =>
  eq_trans (f_equal (fun x => snd (fst (fst x))) (file_hasher_v2 H256 B HB k pl Hpl padding data))
           (hasher_v2_layer H256 B HB k pl Hpl data Hgt)). Qed.
Print Assumptions C02_FileHasher_v2_layer_is_bep52.

(* ... and with it (--meta-version 3) *)
Theorem C02_FileHasher_hybrid_layer_is_bep52 : forall (H256 : bytes -> bytes) B, 0 < B -> forall k pl, pl = B * 2 ^ k ->
  forall padding (data : bytes), pl < length data ->
  snd (fst (fst (file_hasher H256 B true padding pl data))) = bep52_piece_layer H256 B k data.
Proof. exact (fun H256 B HB k pl Hpl padding data Hgt =>
  eq_trans (f_equal (fun x => snd (fst (fst x))) (file_hasher_hybrid H256 B HB k pl Hpl padding data))
           (eq_trans (f_equal snd (hasher_hybrid_agrees_v2 H256 B HB k pl Hpl padding data))
                     (hasher_v2_layer H256 B HB k pl Hpl data Hgt))). Qed.
Print Assumptions C02_FileHasher_hybrid_layer_is_bep52.

(* what TorrentAssembler collects from the iterator (the yielded layer hashes, which it joins into the
   piece-layers value) is the layer the hasher stores *)
Theorem C02_FileHasher_yields_its_layer : forall (H256 : bytes -> bytes) B, 0 < B -> forall k pl, pl = B * 2 ^ k ->
  forall hybrid padding (data : bytes),
  let r := file_hasher_run H256 B hybrid padding pl data in
  Some (fhr_yielded_layers r) = fhr_piece_layer r /\ fhr_yielded_pieces r = fhr_pieces r.
Proof. exact file_hasher_yields. Qed.
Print Assumptions C02_FileHasher_yields_its_layer.

(* ---------- padding-only hashes are omitted: one hash per piece that contains data ---------- *)

Theorem C02_layer_omits_padding : forall (H256 : bytes -> bytes) B, 0 < B -> forall k pl, pl = B * 2 ^ k ->
  forall data : bytes, length (bep52_piece_layer H256 B k data) = ceil_div (length data) pl.
Proof. exact bep52_piece_layer_length. Qed.
Print Assumptions C02_layer_omits_padding.

Theorem C02_every_hasher_layer_omits_padding : forall (H256 : bytes -> bytes) B, 0 < B -> forall k pl, pl = B * 2 ^ k ->
  forall hybrid padding (data : bytes),
  length (snd (hasher_v2 H256 B pl data)) = ceil_div (length data) pl /\
  length (snd (fst (fst (hasher_hybrid H256 B padding pl data)))) = ceil_div (length data) pl /\
  length (snd (fst (fst (file_hasher H256 B hybrid padding pl data)))) = ceil_div (length data) pl.
Proof. exact layer_length_all. Qed.
Print Assumptions C02_every_hasher_layer_omits_padding.

(* a file of at most one piece: the hasher's single layer hash is the root itself (its tree is lower than a
   piece), which is why such files get no piece-layers entry *)
Theorem C02_one_piece_file_layer_is_root : forall (H256 : bytes -> bytes) B, 0 < B -> forall k pl, pl = B * 2 ^ k ->
  forall data : bytes, data <> [] -> length data <= pl -> snd (hasher_v2 H256 B pl data) = [bep52_root H256 B data].
Proof. exact hasher_v2_layer_one_piece. Qed.
Print Assumptions C02_one_piece_file_layer_is_root.

(* ---------- the pieces the statements above rest on, readable on their own ---------- *)

(* merkle_root's pairwise reduction of 2^k hashes is the root of the balanced binary tree over them *)
Theorem C02_merkle_root_is_tree_root : forall (H256 : bytes -> bytes) k (l : list bytes),
  length l = 2 ^ k -> merkle_root H256 l = tree_root H256 k l.
Proof. exact merkle_root_tree_root. Qed.
Print Assumptions C02_merkle_root_is_tree_root.

(* the root over the leaves is the root over the layer whose nodes cover 2^b leaves each (one piece) *)
Theorem C02_root_over_piece_layer : forall (H256 : bytes -> bytes) a b (l : list bytes),
  length l = 2 ^ (a + b) ->
  tree_root H256 (a + b) l = tree_root H256 a (map (tree_root H256 b) (chunks (2 ^ b) l)).
Proof. exact tree_root_split. Qed.
Print Assumptions C02_root_over_piece_layer.

(* utils.next_power_2 (as used by the three hashers) is the least power of two >= v *)
Theorem C02_next_power_2_least : forall v, 1 <= v ->
  v <= next_power_2_nat v /\ (exists j, next_power_2_nat v = 2 ^ j) /\
  (forall j, v <= 2 ^ j -> next_power_2_nat v <= 2 ^ j).
Proof. exact next_power_2_nat_least. Qed.
Print Assumptions C02_next_power_2_least.

(* ---------------------------------------------------------------------------------------------- *)
(* creator level (Model/Creators.v, tied to torrent.py byte for byte by the unit correspondence of        *)
(* harness/props/creators_common.py).  [v2_capable_output H1 H256 B pl o name t m]: m is the dictionary   *)
(* written for payload t by TorrentFileV2, TorrentAssembler (meta version 2), TorrentFileHybrid or        *)
(* TorrentAssembler (meta version 3).  A payload is a [node] whose directory entries are in ENUMERATION   *)
(* order; [wf_node] = names distinct, non-empty and separator-free per directory; [files_of rel t] = every *)
(* file under t, once, as (path components, content); [sort_tree] = every directory in ascending name      *)
(* order; [leaves_v [] ft] = the leaves of a file tree in dictionary order as (path, dictionary under the *)
(* "" key); [layers_of m] = the top-level "piece layers" dictionary.                                      *)
(* ---------------------------------------------------------------------------------------------- *)
From TF Require Import Model.Bencode Model.Creators Proofs.CreatorsProofs Proofs.CreatorsProofs2 Proofs.CreatorsProps.

(* info["file tree"] mirrors the directory: its leaves, in dictionary order, are exactly the files of the tree in
   per-directory sorted order, each holding {"length": size[, "pieces root": BEP 52 root]} ([leaf_value]) *)
Theorem C02_tree_mirrors_disk : forall (H1 H256 : bytes -> bytes) B, 0 < B -> forall k pl, pl = B * 2 ^ k ->
  forall o name es m, wf_node (Dir es) -> v2_capable_output H1 H256 B pl o name (Dir es) m ->
  exists ft, info_get k_file_tree m = Some ft /\
    leaves_v [] ft = map (fun f => (fst f, leaf_value H256 B (snd f))) (files_of [] (sort_tree (Dir es))).
Proof. exact file_tree_mirrors_disk. Qed.
Print Assumptions C02_tree_mirrors_disk.

(* every non-empty file is a leaf at its path with its exact length and the BEP 52 merkle root of its content *)
Theorem C02_root_is_bep52 : forall (H1 H256 : bytes -> bytes) B, 0 < B -> forall k pl, pl = B * 2 ^ k ->
  forall o name es m p (d : bytes), wf_node (Dir es) -> v2_capable_output H1 H256 B pl o name (Dir es) m ->
  In (p, d) (files_of [] (Dir es)) -> d <> [] ->
  exists ft, info_get k_file_tree m = Some ft /\
    In (p, BDict [(k_length, BInt (Z.of_nat (length d))); (k_pieces_root, BStr (bep52_root H256 B d))])
       (leaves_v [] ft).
Proof. exact file_tree_root_is_bep52. Qed.
Print Assumptions C02_root_is_bep52.

(* an empty file is a leaf with length 0 and no "pieces root" key *)
Theorem C02_empty_has_no_root : forall (H1 H256 : bytes -> bytes) B, 0 < B -> forall k pl, pl = B * 2 ^ k ->
  forall o name es m p, wf_node (Dir es) -> v2_capable_output H1 H256 B pl o name (Dir es) m ->
  In (p, []) (files_of [] (Dir es)) ->
  exists ft, info_get k_file_tree m = Some ft /\ In (p, BDict [(k_length, BInt 0)]) (leaves_v [] ft).
Proof. exact file_tree_empty_has_no_root. Qed.
Print Assumptions C02_empty_has_no_root.

(* single-file payload: the tree is {name: {"": leaf}} *)
Theorem C02_single_file_tree : forall (H1 H256 : bytes -> bytes) B, 0 < B -> forall k pl, pl = B * 2 ^ k ->
  forall o name (d : bytes) m, v2_capable_output H1 H256 B pl o name (File d) m ->
  info_get k_file_tree m = Some (BDict [(name, BDict [(k_empty, leaf_value H256 B d)])]).
Proof. exact file_tree_single_file. Qed.
Print Assumptions C02_single_file_tree.

(* piece layers, "<-": every file larger than the piece length has its root as a key, bound to the BEP 52 piece
   layer of a file with that root (itself -- unless another file has the same root: identical files share one entry) *)
Theorem C02_layers_has_every_big_file : forall (H1 H256 : bytes -> bytes) B, 0 < B -> forall k pl, pl = B * 2 ^ k ->
  forall o name t m p (d : bytes), wf_node t -> v2_capable_output H1 H256 B pl o name t m ->
  In (p, d) (files_of (root_rel t) t) -> pl < length d ->
  exists p' d', In (p', d') (files_of (root_rel t) t) /\ pl < length d' /\
    bep52_root H256 B d' = bep52_root H256 B d /\
    lookup (bep52_root H256 B d) (layers_of m) = Some (BStr (concat (bep52_piece_layer H256 B k d'))).
Proof. exact piece_layers_has. Qed.
Print Assumptions C02_layers_has_every_big_file.

(* piece layers, "->": every entry is (root, concatenated BEP 52 piece layer) of a file larger than the piece
   length -- no entry for a file of at most one piece, none for anything that is not a file of the tree *)
Theorem C02_layers_only_big_files : forall (H1 H256 : bytes -> bytes) B, 0 < B -> forall k pl, pl = B * 2 ^ k ->
  forall o name t m r v, wf_node t -> v2_capable_output H1 H256 B pl o name t m -> In (r, v) (layers_of m) ->
  exists p d, In (p, d) (files_of (root_rel t) t) /\ pl < length d /\
              r = bep52_root H256 B d /\ v = BStr (concat (bep52_piece_layer H256 B k d)).
Proof. exact piece_layers_only. Qed.
Print Assumptions C02_layers_only_big_files.

(* both directions as one equivalence, when no two files larger than a piece have equal roots but different
   layers (a SHA-256 collision; identical files satisfy the hypothesis) *)
Theorem C02_layers_exact : forall (H1 H256 : bytes -> bytes) B, 0 < B -> forall k pl, pl = B * 2 ^ k ->
  forall o name t m, wf_node t -> v2_capable_output H1 H256 B pl o name t m ->
  (forall p1 d1 p2 d2, In (p1, d1) (files_of (root_rel t) t) -> In (p2, d2) (files_of (root_rel t) t) ->
     pl < length d1 -> pl < length d2 -> bep52_root H256 B d1 = bep52_root H256 B d2 ->
     bep52_piece_layer H256 B k d1 = bep52_piece_layer H256 B k d2) ->
  forall r v, In (r, v) (layers_of m) <->
    exists p d, In (p, d) (files_of (root_rel t) t) /\ pl < length d /\
                r = bep52_root H256 B d /\ v = BStr (concat (bep52_piece_layer H256 B k d)).
Proof. exact piece_layers_exact. Qed.
Print Assumptions C02_layers_exact.

(* (the recorded layer has one hash per piece that contains data: C02_layer_omits_padding above) *)

(* THE SOURCE'S OWN DECISIONS.  Gen/GenTraverse.v is regenerated from /repo/torrentfile/torrent.py on every run: the test that
   guards the store into `self.piece_layers` and the test under which a leaf is returned without a root, in the `_traverse`
   of each of the three v2-capable creators, translated as integer comparisons; and that directories are walked as
   sorted(os.listdir(path)).  For EVERY file size and piece length they are the decisions of Model/Creators.v (and of BEP 52):
   a layer entry exactly for files larger than one piece, no root exactly for empty files. *)
From TF Require Import Gen.GenTraverse Proofs.TraverseInstance.
Theorem C02_source_layer_rule : forall size pl : Z, 0 <= size -> 0 < pl ->
  gen_layer_cond_TorrentFileV2 size pl = (pl <? size) /\
  gen_layer_cond_TorrentFileHybrid size pl = (pl <? size) /\
  gen_layer_cond_TorrentAssembler size pl = (pl <? size).
Proof. exact gen_layer_rule. Qed.
Print Assumptions C02_source_layer_rule.

Theorem C02_source_rootless_rule : forall size pl : Z, 0 <= size -> 0 < pl ->
  gen_rootless_cond_TorrentFileV2 size pl = (size =? 0) /\
  gen_rootless_cond_TorrentFileHybrid size pl = (size =? 0) /\
  gen_rootless_cond_TorrentAssembler size pl = (size =? 0).
Proof. exact gen_rootless_rule. Qed.
Print Assumptions C02_source_rootless_rule.

Theorem C02_source_listing_sorted : gen_listing_sorted = true.
Proof. exact gen_listing_is_sorted. Qed.
Print Assumptions C02_source_listing_sorted.

(* ... and they are the tests of the hand models of the three methods (Model/Creators.v, on nat), for every size. *)
From TF Require Import Proofs.TraverseModel.
Theorem C02_source_layer_test_is_the_models : forall size pl : nat, (0 < pl)%nat ->
  (pl <? size)%nat = gen_layer_cond_TorrentFileV2 (Z.of_nat size) (Z.of_nat pl) /\
  (pl <? size)%nat = gen_layer_cond_TorrentFileHybrid (Z.of_nat size) (Z.of_nat pl) /\
  (pl <? size)%nat = gen_layer_cond_TorrentAssembler (Z.of_nat size) (Z.of_nat pl).
Proof. exact model_layer_test_is_source. Qed.
Print Assumptions C02_source_layer_test_is_the_models.

Theorem C02_source_rootless_test_is_the_models : forall size pl : nat, (0 < pl)%nat ->
  (size =? 0)%nat = gen_rootless_cond_TorrentFileV2 (Z.of_nat size) (Z.of_nat pl) /\
  (size =? 0)%nat = gen_rootless_cond_TorrentFileHybrid (Z.of_nat size) (Z.of_nat pl) /\
  (size =? 0)%nat = gen_rootless_cond_TorrentAssembler (Z.of_nat size) (Z.of_nat pl).
Proof. exact model_rootless_test_is_source. Qed.
Print Assumptions C02_source_rootless_test_is_the_models.

(* the root BINDS the leaves: two different lists of 2^h thirty-two byte leaves under one root give an explicit
   SHA-256 collision (two different inputs with the same hash), for every h.  Whatever accepts a pieces root
   (recheck, rebuild) is therefore wrong about the leaves only if H256 itself collides (Proofs/MerkleCollision.v) *)
From TF Require Import Proofs.MerkleCollision.
Theorem C02_root_binds_leaves : forall (H256 : bytes -> bytes), (forall x, length (H256 x) = 32%nat) ->
  forall (h : nat) (l l' : list bytes),
  length l = (2 ^ h)%nat -> length l' = (2 ^ h)%nat ->
  Forall (fun x => length x = 32%nat) l -> Forall (fun x => length x = 32%nat) l' ->
  tree_root H256 h l = tree_root H256 h l' ->
  l = l' \/ (exists x y : bytes, x <> y /\ H256 x = H256 y).
Proof. exact tree_root_binds. Qed.
Print Assumptions C02_root_binds_leaves.

(* ... and the same for the bottom-up loop the code actually runs (hasher.merkle_root) *)
Theorem C02_code_root_binds_leaves : forall (H256 : bytes -> bytes), (forall x, length (H256 x) = 32%nat) ->
  forall (k : nat) (l l' : list bytes),
  length l = (2 ^ k)%nat -> length l' = (2 ^ k)%nat ->
  Forall (fun x => length x = 32%nat) l -> Forall (fun x => length x = 32%nat) l' ->
  merkle_root H256 l = merkle_root H256 l' ->
  l = l' \/ (exists x y : bytes, x <> y /\ H256 x = H256 y).
Proof. exact merkle_root_binds. Qed.
Print Assumptions C02_code_root_binds_leaves.

(* ... and for the zero-padded tree BEP 52 prescribes: two block-hash lists of the same length n <= 2^h (two files
   of the same size) under one pieces root are the same list, or H256 collides *)
Theorem C02_padded_root_binds_leaves : forall (H256 : bytes -> bytes), (forall x, length (H256 x) = 32%nat) ->
  forall (h : nat) (ls ls' : list bytes),
  length ls = length ls' -> (length ls <= 2 ^ h)%nat ->
  Forall (fun x => length x = 32%nat) ls -> Forall (fun x => length x = 32%nat) ls' ->
  tree_root H256 h (pad_leaves (2 ^ h) ls) = tree_root H256 h (pad_leaves (2 ^ h) ls') ->
  ls = ls' \/ (exists x y : bytes, x <> y /\ H256 x = H256 y).
Proof. exact padded_root_binds. Qed.
Print Assumptions C02_padded_root_binds_leaves.

(* ... hence the pieces root binds the CONTENT of a file: two files of the same length with the same BEP 52 root
   (`bep52_root`, the specification the three hashers are proved equal to above) are the same bytes, or H256
   collides -- for every block size B > 0.  This is the converse direction of the correctness theorems: not only
   is the root of the right bytes right, a right root means the right bytes (recheck C04, rebuild C13) *)
Theorem C02_pieces_root_binds_content : forall (H256 : bytes -> bytes), (forall x, length (H256 x) = 32%nat) ->
  forall B : nat, (0 < B)%nat -> forall data data' : bytes,
  length data = length data' ->
  bep52_root H256 B data = bep52_root H256 B data' ->
  data = data' \/ (exists x y : bytes, x <> y /\ H256 x = H256 y).
Proof. exact bep52_root_binds. Qed.
Print Assumptions C02_pieces_root_binds_content.
