(* C17 -- An interrupted or failed edit never loses or truncates the metafile.
   Statements only; every proof is `exact <lemma>`.  `edit_fs_ops` is GENERATED from
   /repo/torrentfile/edit.py on this run; the semantics (crash_reachable, error_outcome,
   completes) is Spec/FsOps.v. *)
From TF Require Import Lib.Base Spec.FsOps Proofs.CrashSafe Gen.GenEditOps Proofs.EditCrash.

(* general theorem: every operation list the checker accepts is crash safe, for all old/new
   bytes, every kill point (between operations, inside the buffered write at any length,
   during clean-up) *)
Theorem C17_checker_sound_for_crashes : forall (e : edit_ops) (old new : bytes),
  safe_ops e = true -> forall fs0, fs0 PM = Some old ->
  forall fs', crash_reachable new e fs0 fs' -> fs' PM = Some old \/ fs' PM = Some new.
Proof. exact safe_ops_crash. Qed.
Print Assumptions C17_checker_sound_for_crashes.

Theorem C17_checker_sound_for_errors : forall (e : edit_ops) (old new : bytes),
  safe_ops e = true -> forall fs0, fs0 PM = Some old ->
  forall f fs', error_outcome new e fs0 f fs' ->
  fs' PM = Some old \/ (fs' PM = Some new /\ after_replace e f = true).
Proof. exact safe_ops_error. Qed.
Print Assumptions C17_checker_sound_for_errors.

(* the instance: the operations edit_torrent performs NOW *)
Theorem C17_edit_ops_accepted : safe_ops edit_fs_ops = true.
Proof. exact gen_edit_ops_safe. Qed.
Print Assumptions C17_edit_ops_accepted.

Theorem C17_crash_leaves_old_or_new : forall (old new : bytes) fs0, fs0 PM = Some old ->
  forall fs', crash_reachable new edit_fs_ops fs0 fs' -> fs' PM = Some old \/ fs' PM = Some new.
Proof. exact gen_edit_crash. Qed.
Print Assumptions C17_crash_leaves_old_or_new.

Theorem C17_error_leaves_complete_metafile : forall (old new : bytes) fs0, fs0 PM = Some old ->
  forall f fs', error_outcome new edit_fs_ops fs0 f fs' ->
  fs' PM = Some old \/ (fs' PM = Some new /\ after_replace edit_fs_ops f = true).
Proof. exact gen_edit_error. Qed.
Print Assumptions C17_error_leaves_complete_metafile.

Theorem C17_unencodable_value_keeps_original : forall (old new : bytes) fs0, fs0 PM = Some old ->
  forall i, encode_index (main_ops edit_fs_ops) = Some i ->
  forall fs', error_outcome new edit_fs_ops fs0 (InMain i) fs' ->
  fs' PM = Some old /\ (fs' PT = fs0 PT \/ fs' PT = None).
Proof. exact gen_edit_unencodable. Qed.
Print Assumptions C17_unencodable_value_keeps_original.

(* not vacuous: a completed edit really installs the new bytes and removes the temporary file *)
Theorem C17_completed_edit_takes_effect : forall (old new : bytes) fs0, fs0 PM = Some old ->
  forall fs', completes new edit_fs_ops fs0 fs' -> fs' PM = Some new /\ fs' PT = None.
Proof. exact gen_edit_takes_effect. Qed.
Print Assumptions C17_completed_edit_takes_effect.
