(* Extraction of the recheck models for the correspondence driver (ocaml/areas/recheck.ml):
   FeedChecker (feed_pieces, feed_trace), HashChecker (hash_trace), the bookkeeping of
   Checker.iter_hashes (iter_hashes), the specification traces (spec_trace_v1, spec_trace_v2, used to
   cross-check the Python reference verifier against the Coq Spec), and the model of FileHasher
   (file_hasher_run / fhr_yielded_layers) that supplies HashChecker's on-disk layer hashes.
   Directives used: ExtrOcamlBasic, ExtrOcamlString (which re-exports ExtrOcamlChar); none of our own. *)
From Coq Require Import ExtrOcamlBasic ExtrOcamlString ZArith.
From TF Require Import Lib.Base Lib.Chunks Spec.RecheckSpec Model.Recheck Model.HasherV2.
Definition wire_z (z : Z) : Z := Z.succ z.
Definition wire_nat (n : nat) : nat := S n.
Extraction Language OCaml.
Extraction "../ocaml/build/recheck/extracted.ml" wire_z wire_nat
  feed_pieces feed_trace hash_trace iter_hashes spec_pieces_v1 spec_trace_v1 spec_trace_v2
  file_hasher_run fhr_yielded_layers chunks.
