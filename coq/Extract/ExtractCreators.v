(* Extraction of the creators model (Model/Creators.v), composed with the bencode encoder
   (Model/Bencode.v [encode]), and of the lexical path semantics (Spec/PathSem.v) for the correspondence
   driver (ocaml/areas/creators.ml).  SHA-1 / SHA-256 and the block size B are ARGUMENTS of every extracted
   creator (the Section of Model/Creators.v is closed): the driver passes Sha.sha1_chars / Sha.sha256_chars and
   B = 16384 (or the patched small B of a case marked patched_constant).
   Directives used: ExtrOcamlBasic, ExtrOcamlString (which re-exports ExtrOcamlChar); none of our own. *)
From Coq Require Import ExtrOcamlBasic ExtrOcamlString ZArith.
From TF Require Import Lib.Base Model.Bencode Model.Creators Spec.PathSem.
Definition wire_z (z : Z) : Z := Z.succ z.
Definition wire_nat (n : nat) : nat := S n.

(* the bytes handed to the file by write(): pyben.dump(sort_meta(meta)) *)
Definition bytes_v1 H1 (align : bool) o root name pl t : bytes := encode (create_v1 H1 align o root name pl t).
Definition bytes_v2_class H256 B o name pl t : bytes := encode (create_v2_class H256 B o name pl t).
Definition bytes_hybrid_class H1 H256 B o name pl t : bytes := encode (create_hybrid_class H1 H256 B o name pl t).
Definition bytes_assembler H1 H256 B (hybrid : bool) o name pl t : bytes :=
  encode (create_assembler H1 H256 B hybrid o name pl t).

Extraction Language OCaml.
Extraction "../ocaml/build/creators/extracted.ml" wire_z wire_nat
  bytes_v1 bytes_v2_class bytes_hybrid_class bytes_assembler
  create_v1 create_v2_class create_hybrid_class create_assembler encode
  filelist_total files_of wf_nodeb mk_options
  split_path join_sep is_abs PathSem.join join_all basename os_split normpath abspath relpath
  pathlib_str pathlib_child_str pathlib_descend child_path name_of rel_components old_name old_name_v2.
