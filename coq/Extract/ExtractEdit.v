(* Extraction of the edit / magnet / URI models for the correspondence driver (ocaml/areas/edit.ml).
   Directives used: ExtrOcamlBasic, ExtrOcamlString; none of our own. *)
From Coq Require Import ExtrOcamlBasic ExtrOcamlString ZArith.
From TF Require Import Lib.Base Model.Bencode Model.Edit Model.Uri Model.Magnet.
Definition wire_z (z : Z) : Z := Z.succ z.
Definition wire_nat (n : nat) : nat := S n.
(* decode the file leniently (as pyben.load does), edit, encode *)
Definition edit_bytes (req : request) (file : bytes) : option bytes :=
  match pyloads file with
  | Some (BDict m) => match edit_torrent req m with Some m' => Some (encode (BDict m')) | None => None end
  | _ => None
  end.
Definition magnet_bytes (sha1hex sha256hex : bytes -> bytes) (file : bytes) (version : Z) : option bytes :=
  match pyloads file with
  | Some (BDict m) => magnet sha1hex sha256hex m version
  | _ => None
  end.
Definition make_req (a b c d e f : fieldreq) : request := mkReq a b c d e f.
Extraction Language OCaml.
Extraction "../ocaml/build/edit/extracted.ml" wire_z wire_nat edit_bytes magnet_bytes quote_plus unquote_plus parse_query make_req.
