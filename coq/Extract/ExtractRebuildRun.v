(* Extraction of the WHOLE rebuild run for the correspondence driver (ocaml/areas/rebuildrun.ml):
     Model/RebuildRun.v  rebuild_of_metafile = Metadata(metafile).rebuild(filemap, dest) on the abstract
                         filesystem of Model/CopyPath.v (metadata_init, dispatch on meta version, match_v1 /
                         match_v2, the copypath calls executed in order, the first raising call ends the run)
   composed here with Model/Bencode.v pyloads (the bytes of the metafile come in) and parts_of (the
   destination comes in as the text handed to Metadata.rebuild); the adapter passes B = 16384 (BLOCK_SIZE of
   HasherV2) like the matchv2 request of the rebuild area does.                                   -- C13, C14, C19
   Directives used: ExtrOcamlBasic, ExtrOcamlString (which re-exports ExtrOcamlChar); none of our own. *)
From Coq Require Import ExtrOcamlBasic ExtrOcamlString ZArith String List.
From TF Require Import Lib.Base Model.Rebuild Model.CopyPath.
From TF Require Model.Bencode Model.RebuildMeta Model.RebuildRun.
Definition wire_z (z : Z) : Z := Z.succ z.
Definition wire_nat (n : nat) : nat := S n.

(* Metadata(path).rebuild(filemap, dest) with path holding `file`: pyben.load, then the model of the run *)
Definition rebuild_run_of_bytes (H1 H256 : bytes -> bytes) (B dsize : nat) (dest : string) (fm : filemap)
           (file : bytes) (f : fs) : option result :=
  match Bencode.pyloads file with
  | Some meta => RebuildRun.rebuild_of_metafile H1 H256 B dsize (RebuildRun.parts_of dest) fm meta f
  | None => None
  end.

Extraction Language OCaml.
Extraction "../ocaml/build/rebuildrun/extracted.ml" wire_z wire_nat
  rebuild_run_of_bytes fs_of_list lookup RebuildRun.parts_of.
