(* Extraction of the v2 / hybrid hasher models and of the BEP 52 specification functions for the
   correspondence driver (ocaml/areas/v2.ml).  The block size B is an ARGUMENT of every
   extracted function (the Sections of Model/HasherV2.v and Spec/Bep52.v are closed), so the
   driver is told B per case: 16384 for the real BLOCK_SIZE, 4 for the patched small scope.
   Directives used: ExtrOcamlBasic, ExtrOcamlString (which re-exports ExtrOcamlChar); none of our own. *)
From Coq Require Import ExtrOcamlBasic ExtrOcamlString ZArith.
From TF Require Import Lib.Base Lib.Chunks Spec.Bep52 Model.HasherV2.
Definition wire_z (z : Z) : Z := Z.succ z.
Definition wire_nat (n : nat) : nat := S n.
Extraction Language OCaml.
Extraction "../ocaml/build/v2/extracted.ml" wire_z wire_nat
  merkle_root next_power_2_nat hasher_v2 hasher_hybrid file_hasher_run file_hasher
  bep52_root bep52_piece_layer tree_root v1_inputs_padded v1_inputs_plain pad_file_length.
