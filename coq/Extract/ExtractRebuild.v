(* Extraction of the rebuild models for the correspondence driver (ocaml/areas/rebuild.ml):
     Model/Rebuild.v   map_pieces, match_v1 (with find_matches inside)        -- C13, C14
     Model/CopyPath.v  copypath_run on an association-list filesystem          -- C14
     Model/PathSafe.v  safe_comp, check_parts_model, resolve, checked_target   -- C19, C13
     Model/RebuildMeta.v  metadata_of_bytes (pyloads + Metadata.__init__/extract/_parse_tree), safe_b,
                          utf8_valid, rebuild_v2 (Metadata._match_v2 on the extracted entries)    -- C13, C14, C19
   Directives used: ExtrOcamlBasic, ExtrOcamlString (which re-exports ExtrOcamlChar); none of our own. *)
From Coq Require Import ExtrOcamlBasic ExtrOcamlString ZArith.
From TF Require Import Lib.Base Model.Rebuild Model.CopyPath Model.PathSafe.
From TF Require Model.Bencode Model.RebuildMeta Model.RebuildRun.
Definition wire_z (z : Z) : Z := Z.succ z.
Definition wire_nat (n : nat) : nat := S n.
Extraction Language OCaml.
Extraction "../ocaml/build/rebuild/extracted.ml" wire_z wire_nat
  map_pieces match_v1
  copypath_run fs_of_list lookup
  safe_comp check_parts_model resolve checked_target
  RebuildMeta.metadata_of_bytes RebuildMeta.rebuild_v2 RebuildMeta.safe_b RebuildMeta.utf8_valid RebuildMeta.x_is_v2
  RebuildRun.parts_of RebuildRun.join_parts.
