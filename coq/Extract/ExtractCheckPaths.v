(* Extraction of the model of Checker.__init__ / find_root / check_paths / walk_file_tree for the correspondence
   driver (ocaml/areas/checkpaths.ml).  The metafile arrives as its bytes and is decoded with the model of pyben.
   Directives used: ExtrOcamlBasic, ExtrOcamlString; none of our own. *)
From Coq Require Import ExtrOcamlBasic ExtrOcamlString ZArith.
From TF Require Import Lib.Base Model.Bencode Model.CheckPaths.
Definition wire_z (z : Z) : Z := Z.succ z.
Definition wire_nat (n : nat) : nat := S n.
Definition checker_init_bytes (t : fs_table) (file : bytes) (path : cpath) : option (cpath * list fileinfo * Z) :=
  match pyloads file with
  | Some (BDict meta) => checker_init (tbl_exists t) (tbl_isfile t) (tbl_listdir t) meta path
  | _ => None
  end.
Definition find_root_tbl (t : fs_table) (name : bytes) (path : cpath) : option cpath :=
  find_root (tbl_exists t) (tbl_listdir t) name path.
Extraction Language OCaml.
Extraction "../ocaml/build/checkpaths/extracted.ml" wire_z wire_nat checker_init_bytes find_root_tbl fi_path fi_length fi_root fi_attr fi_padding.
