(* Extraction of the bencode model for the correspondence driver (ocaml/areas/bencode.ml).
   Directives used: ExtrOcamlBasic, ExtrOcamlString; none of our own. *)
From Coq Require Import ExtrOcamlBasic ExtrOcamlString ZArith.
From TF Require Import Lib.Base Model.Bencode.
Definition wire_z (z : Z) : Z := Z.succ z.
Definition wire_nat (n : nat) : nat := S n.
Definition top_sort (v : value) : value := match v with BDict d => BDict (sort_keys d) | _ => v end.
Extraction Language OCaml.
Extraction "../ocaml/build/bencode/extracted.ml" wire_z wire_nat encode pydecode pyloads strict_decode canonical_bytes top_sort canonb nodup_keysb.
