(* Extraction of the v1 Hasher model for the correspondence driver (ocaml/areas/hasher.ml).
   Directives used: ExtrOcamlBasic, ExtrOcamlString (which re-exports ExtrOcamlChar); none of our own. *)
From Coq Require Import ExtrOcamlBasic ExtrOcamlString ZArith.
From TF Require Import Lib.Base Model.Hasher.
Definition wire_z (z : Z) : Z := Z.succ z.
Definition wire_nat (n : nat) : nat := S n.
Extraction Language OCaml.
Extraction "../ocaml/build/hasher/extracted.ml" wire_z wire_nat hasher_inputs hasher_pieces v1_entries v1_assemble.
