(* Extraction of the whole-run model of `Checker(metafile, path)` iterated to exhaustion (Model/RecheckInit.v
   [recheck_model]) and of the reference metafile encoder (Spec/MetafileWF.v [ref_metafile]) for the correspondence
   driver ocaml/areas/recheckinit.ml.
   * The metafile arrives as its bytes and is decoded with the model of pyben ([pyloads], Model/Bencode.v).
   * The file system arrives as a finite table: the table of Model/CheckPaths.v (path, kind, listing in enumeration
     order) extended by the CONTENT of every regular file.  exists / isfile / listdir are the tbl_* functions of
     CheckPaths.v on the projection; fs_read = the content of a regular file, None (open raises) otherwise.
   * SHA-1 / SHA-256 and the block size B are arguments (the Sections of both files are closed): the driver passes
     Sha.sha1_chars / Sha.sha256_chars and B = 16384.
   * The reference encoder's value is written with [encode] (Model/Bencode.v), which writes dictionaries in the order
     they have: top, info and piece layers are sort_keys'ed by ref_metafile_gen, entries / leaves are written in sorted
     order, the file tree is in the order of the tree handed in (canonical bytes iff the tree is enumerated in raw
     byte order).  No extra keys (extra_top = extra_info = []).
   Directives used: ExtrOcamlBasic, ExtrOcamlString; none of our own. *)
From Coq Require Import ExtrOcamlBasic ExtrOcamlString ZArith List.
From TF Require Import Lib.Base Model.Bencode Model.CheckPaths Model.Creators Model.RecheckInit Spec.MetafileWF.
Import ListNotations.
Definition wire_z (z : Z) : Z := Z.succ z.
Definition wire_nat (n : nat) : nat := S n.

(* path, regular file?, entries of a directory, content of a regular file *)
Definition fs_ctable := list (cpath * bool * list bytes * bytes).

Definition ctbl_shape (t : fs_ctable) : fs_table :=
  map (fun it => match it with (q, f, es, _) => (q, f, es) end) t.

Fixpoint ctbl_read (t : fs_ctable) (p : cpath) : option bytes :=
  match t with
  | [] => None
  | (q, f, _, d) :: t' => if cpath_eqb q p then (if f then Some d else None) else ctbl_read t' p
  end.

Definition fsys_of_ctable (t : fs_ctable) : fsys :=
  let s := ctbl_shape t in
  {| fs_exists := tbl_exists s; fs_isfile := tbl_isfile s; fs_listdir := tbl_listdir s; fs_read := ctbl_read t |}.

Definition recheck_bytes (H1 H256 : bytes -> bytes) (B : nat) (t : fs_ctable) (file : bytes) (path : cpath)
  : option (Z * nat * nat) :=
  match pyloads file with
  | Some m => recheck_model H1 H256 B (fsys_of_ctable t) m path
  | None => None
  end.

Definition refmeta_bytes (H1 H256 : bytes -> bytes) (B : nat) (version : nat) (name : bytes) (t : node) (pl : nat)
    (trailing_pad : bool) : bytes :=
  encode (ref_metafile H1 H256 B version name t pl [] [] trailing_pad).

Extraction Language OCaml.
Extraction "../ocaml/build/recheckinit/extracted.ml" wire_z wire_nat recheck_bytes refmeta_bytes.
