(* C14 -- properties of the model of `utils.copypath` (Model/CopyPath.v). *)
From Coq Require Import List String Ascii Bool Arith Lia.
From TF Require Import Lib.Base Model.CopyPath.
Import ListNotations.
Open Scope list_scope.

(** * Paths and updates *)

Lemma path_eqb_eq p : forall q, path_eqb p q = true <-> p = q.
Proof.
  induction p as [|x p IH]; intros [|y q]; cbn; try (split; [discriminate | congruence]).
  - tauto.
  - rewrite andb_true_iff, String.eqb_eq, IH. split; [intros [-> ->]; reflexivity | intros H].
    inversion H; auto.
Qed.

Lemma path_eqb_refl p : path_eqb p p = true.
Proof. now apply path_eqb_eq. Qed.

Lemma path_eqb_neq p q : p <> q -> path_eqb p q = false.
Proof.
  intros N. destruct (path_eqb p q) eqn:E; [|reflexivity]. apply path_eqb_eq in E. contradiction.
Qed.

Lemma upd_same f p n : upd f p n p = Some n.
Proof. unfold upd. now rewrite path_eqb_refl. Qed.

Lemma upd_other f p n q : q <> p -> upd f p n q = f q.
Proof. intros N. unfold upd. now rewrite path_eqb_neq. Qed.

Lemma lookup_ne f p : p <> [] -> lookup f p = f p.
Proof. destruct p; [contradiction | reflexivity]. Qed.

Lemma lookup_upd_same f p n : p <> [] -> lookup (upd f p n) p = Some n.
Proof. intros N. rewrite lookup_ne by exact N. apply upd_same. Qed.

Lemma lookup_upd_other f p n q : q <> p -> lookup (upd f p n) q = lookup f q.
Proof. intros N. destruct q; [reflexivity|]. cbn. now apply upd_other. Qed.

Lemma snoc_not_nil {A} (l : list A) x : l ++ [x] <> [].
Proof. destruct l; discriminate. Qed.

(** * The directory loop *)

(* what mkdir_loop changes: it creates missing directories root/part1/.../partk, nothing else *)
Lemma mkdir_loop_changes parts : forall root f p,
  fs_of (mkdir_loop root parts f) p = f p \/
  (f p = None /\ fs_of (mkdir_loop root parts f) p = Some Dir /\
   exists k, 1 <= k <= length parts /\ p = root ++ firstn k parts).
Proof.
  induction parts as [|part rest IH]; intros root f p; [left; reflexivity|].
  cbn [mkdir_loop]. set (q := root ++ [part]).
  assert (Q : forall k, q ++ firstn k rest = root ++ firstn (S k) (part :: rest)).
  { intros k. unfold q. now rewrite <- app_assoc. }
  unfold ensure_dir. destruct (exists_b f q) eqn:E.
  - destruct (IH q f p) as [S | (N & D & k & Hk & Hp)]; [left; exact S | right].
    split; [exact N|]. split; [exact D|]. exists (S k). cbn [length]. split; [lia|].
    now rewrite <- Q.
  - unfold mkdir. rewrite E. destruct (is_dir_b f (parent q)); [|left; reflexivity].
    assert (FQ : f q = None).
    { unfold exists_b in E. rewrite lookup_ne in E by apply snoc_not_nil.
      destruct (f q); [discriminate E | reflexivity]. }
    destruct (IH q (upd f q Dir) p) as [S | (N & D & k & Hk & Hp)].
    + destruct (path_eqb p q) eqn:PQ.
      * apply path_eqb_eq in PQ. subst p. right. split; [exact FQ|].
        split; [rewrite S; apply upd_same|]. exists 1. cbn [length]. split; [lia|].
        reflexivity.
      * left. rewrite S. unfold upd. now rewrite PQ.
    + right. assert (PQ : p <> q).
      { intros ->. rewrite upd_same in N. discriminate N. }
      rewrite upd_other in N by exact PQ.
      split; [exact N|]. split; [exact D|]. exists (S k). cbn [length]. split; [lia|].
      now rewrite <- Q.
Qed.

(* nothing that exists is touched *)
Lemma mkdir_loop_mono root parts f p n :
  lookup f p = Some n -> lookup (fs_of (mkdir_loop root parts f)) p = Some n.
Proof.
  destruct p as [|x p]; [auto|]. cbn [lookup]. intros H.
  destruct (mkdir_loop_changes parts root f (x :: p)) as [S | (N & _)]; congruence.
Qed.

Lemma exists_b_mono root parts f p :
  exists_b f p = true -> exists_b (fs_of (mkdir_loop root parts f)) p = true.
Proof.
  unfold exists_b. destruct (lookup f p) as [n|] eqn:L; [|discriminate].
  now rewrite (mkdir_loop_mono root parts f p n L).
Qed.

Lemma ensure_dir_cases q f :
  (exists_b f q = true /\ ensure_dir q f = Ok f) \/
  (exists_b f q = false /\ is_dir_b f (parent q) = true /\ ensure_dir q f = Ok (upd f q Dir)) \/
  (exists_b f q = false /\ is_dir_b f (parent q) = false /\ ensure_dir q f = Raised f).
Proof.
  unfold ensure_dir, mkdir. destruct (exists_b f q); [left; auto|].
  destruct (is_dir_b f (parent q)); [right; left; auto | right; right; auto].
Qed.

Lemma ensure_dir_exists q f : exists_b f q = true -> ensure_dir q f = Ok f.
Proof. intros E. unfold ensure_dir. now rewrite E. Qed.

(* running the loop again on its own result does nothing more and ends the same way *)
Lemma mkdir_loop_idem parts : forall root f,
  mkdir_loop root parts (fs_of (mkdir_loop root parts f)) = mkdir_loop root parts f.
Proof.
  induction parts as [|part rest IH]; intros root f; [reflexivity|].
  cbn [mkdir_loop]. set (q := root ++ [part]).
  destruct (ensure_dir_cases q f) as [(E & ->) | [(E & D & ->) | (E & D & EN)]].
  - rewrite ensure_dir_exists by (now apply exists_b_mono). apply IH.
  - assert (X : exists_b (upd f q Dir) q = true).
    { unfold exists_b. now rewrite lookup_upd_same by apply snoc_not_nil. }
    rewrite ensure_dir_exists by (now apply exists_b_mono). apply IH.
  - rewrite EN. cbn [fs_of]. now rewrite EN.
Qed.

(* after a loop that did not raise, every directory root/part1/.../partk exists *)
Lemma mkdir_loop_ok_exists parts : forall root f f1,
  mkdir_loop root parts f = Ok f1 ->
  forall k, 1 <= k <= length parts -> exists_b f1 (root ++ firstn k parts) = true.
Proof.
  induction parts as [|part rest IH]; intros root f f1 M k Hk; [cbn in Hk; lia|].
  cbn [mkdir_loop] in M. set (q := root ++ [part]) in *.
  destruct (ensure_dir q f) as [f0|f0] eqn:EN; [|discriminate M].
  assert (X : exists_b f0 q = true).
  { unfold ensure_dir in EN. destruct (exists_b f q) eqn:E.
    - inversion EN; subst. exact E.
    - unfold mkdir in EN. rewrite E in EN. destruct (is_dir_b f (parent q)); [|discriminate EN].
      inversion EN; subst. unfold exists_b. now rewrite lookup_upd_same by apply snoc_not_nil. }
  destruct k as [|k]; [lia|]. cbn [firstn]. destruct k as [|k].
  - cbn [firstn]. fold q. pose proof (exists_b_mono q rest f0 q X) as Y. now rewrite M in Y.
  - replace (root ++ part :: firstn (S k) rest) with (q ++ firstn (S k) rest)
      by (unfold q; now rewrite <- app_assoc).
    eapply IH; [exact M|]. cbn [length] in Hk. lia.
Qed.

(* if they all exist the loop does nothing *)
Lemma mkdir_loop_all_exist parts : forall root g,
  (forall k, 1 <= k <= length parts -> exists_b g (root ++ firstn k parts) = true) ->
  mkdir_loop root parts g = Ok g.
Proof.
  induction parts as [|part rest IH]; intros root g H; [reflexivity|].
  cbn [mkdir_loop].
  assert (H1 : exists_b g (root ++ [part]) = true) by (apply (H 1); cbn [length]; lia).
  rewrite (ensure_dir_exists _ _ H1).
  apply IH. intros k Hk. rewrite <- app_assoc. apply (H (S k)). cbn [length]. lia.
Qed.

(** * copypath *)

(* the handling of the first part and the loop over the middle parts are one loop over all
   parts but the last (none for a dest of at most one part) *)
Lemma make_ancestors_loop dest f :
  make_ancestors dest f = mkdir_loop [] (removelast dest) f.
Proof.
  destruct dest as [|a [|b tl]]; reflexivity.
Qed.

Lemma copypath_run_unfold dsize source dest f :
  copypath_run dsize source dest f =
  if skip_test dsize source dest f then Ok f
  else match mkdir_loop [] (removelast dest) f with
       | Raised f2 => Raised f2
       | Ok f2 => shutil_copy source dest f2
       end.
Proof. unfold copypath_run. now rewrite make_ancestors_loop. Qed.

Lemma proper_prefix_neq (p l : path) : proper_prefix p l -> p <> l.
Proof.
  intros (rest & N & E) ->. apply (f_equal (@length _)) in E. rewrite app_length in E.
  destruct rest; [contradiction | cbn in E; lia].
Qed.

Lemma proper_prefix_length (p l : path) : proper_prefix p l -> length p < length l.
Proof.
  intros (rest & N & ->). rewrite app_length. destruct rest; [contradiction | cbn; lia].
Qed.

Lemma firstn_removelast_prefix (dest : path) k :
  1 <= k <= length (removelast dest) ->
  firstn k (removelast dest) <> [] /\ proper_prefix (firstn k (removelast dest)) dest.
Proof.
  intros Hk. assert (N : dest <> []) by (intros ->; cbn in Hk; lia).
  pose proof (app_removelast_last EmptyString N) as E.
  set (R := removelast dest) in *. split.
  - destruct R as [|x R]; [cbn in Hk; lia|]. destruct k; [lia | discriminate].
  - exists (skipn k R ++ [last dest EmptyString]). split; [apply snoc_not_nil|].
    now rewrite app_assoc, firstn_skipn.
Qed.

(* the directory phase of copypath creates missing ancestors of dest and nothing else *)
Lemma ancestors_phase dest f p :
  let f2 := fs_of (mkdir_loop [] (removelast dest) f) in
  f2 p = f p \/ (is_new_ancestor f p dest /\ f2 p = Some Dir).
Proof.
  cbv zeta. destruct (mkdir_loop_changes (removelast dest) [] f p) as [S | (N & D & k & Hk & Hp)];
  [left; exact S | right].
  cbn [app] in Hp. subst p. destruct (firstn_removelast_prefix dest k Hk) as [NE PP].
  split; [|exact D]. split; [exact NE|]. split; [exact PP | exact N].
Qed.

Lemma ancestors_phase_dest dest f :
  lookup (fs_of (mkdir_loop [] (removelast dest) f)) dest = lookup f dest.
Proof.
  destruct dest as [|a d]; [reflexivity|]. cbn [lookup].
  destruct (ancestors_phase (a :: d) f (a :: d)) as [S | ((_ & PP & _) & _)]; [exact S|].
  now apply proper_prefix_neq in PP.
Qed.

Lemma ancestors_phase_source dest f source :
  exists_b f source = true ->
  lookup (fs_of (mkdir_loop [] (removelast dest) f)) source = lookup f source.
Proof.
  unfold exists_b. destruct (lookup f source) as [n|] eqn:L; [|discriminate]. intros _.
  now apply mkdir_loop_mono.
Qed.

Lemma skip_test_ext dsize source dest f g :
  lookup g source = lookup f source -> lookup g dest = lookup f dest ->
  skip_test dsize source dest g = skip_test dsize source dest f.
Proof. intros S D. unfold skip_test, exists_b, is_dir_b, getsize. now rewrite S, D. Qed.

Lemma is_dir_b_ext dest f g : lookup g dest = lookup f dest -> is_dir_b g dest = is_dir_b f dest.
Proof. intros D. unfold is_dir_b. now rewrite D. Qed.

(* past the guard: the source exists and dest is not a directory *)
Lemma skip_test_false dsize source dest f :
  skip_test dsize source dest f = false ->
  exists_b f source = true /\ is_dir_b f dest = false.
Proof.
  unfold skip_test. intros H. apply orb_false_elim in H. destruct H as [H _].
  apply orb_false_elim in H. destruct H as [H1 H2].
  split; [now apply negb_false_iff in H1 | exact H2].
Qed.

(* shutil.copy either raises and leaves everything as it is, or writes the one target *)
Lemma shutil_copy_cases source dest f :
  shutil_copy source dest f = Raised f \/
  exists data, lookup f source = Some (File data) /\
               source <> copy_target f source dest /\
               is_dir_b f (copy_target f source dest) = false /\
               is_dir_b f (parent (copy_target f source dest)) = true /\
               shutil_copy source dest f = Ok (upd f (copy_target f source dest) (File data)).
Proof.
  unfold shutil_copy. set (t := copy_target f source dest).
  destruct (lookup f source) as [[data|]|]; auto.
  destruct (path_eqb source t) eqn:PE; auto.
  destruct (is_dir_b f t) eqn:DT; auto.
  destruct (is_dir_b f (parent t)) eqn:DP; auto.
  right. exists data. repeat split; auto.
  intros E. apply path_eqb_eq in E. congruence.
Qed.

Lemma copy_target_not_dir f source dest : is_dir_b f dest = false -> copy_target f source dest = dest.
Proof. intros H. unfold copy_target. now rewrite H. Qed.

(** ** What copypath can change: a complete description *)
Theorem copypath_changes : forall dsize source dest f p,
  copypath dsize source dest f p = f p \/
  (exists_b f source = true /\ is_new_ancestor f p dest /\
   copypath dsize source dest f p = Some Dir) \/
  (exists data, lookup f source = Some (File data) /\ p <> source /\ p = dest /\
                is_dir_b f dest = false /\
                copypath dsize source dest f p = Some (File data)).
Proof.
  intros dsize source dest f p. unfold copypath. rewrite copypath_run_unfold.
  destruct (skip_test dsize source dest f) eqn:T; [left; reflexivity|].
  destruct (skip_test_false _ _ _ _ T) as [ES ND].
  pose proof (ancestors_phase dest f p) as AP. cbv zeta in AP.
  pose proof (ancestors_phase_dest dest f) as AD.
  pose proof (ancestors_phase_source dest f source ES) as AS.
  destruct (mkdir_loop [] (removelast dest) f) as [f2|f2] eqn:M; cbn [fs_of] in *.
  - assert (ND2 : is_dir_b f2 dest = false) by (now rewrite (is_dir_b_ext dest f f2 AD)).
    destruct (shutil_copy_cases source dest f2) as [-> | (data & LS & NE & _ & _ & ->)];
    cbn [fs_of].
    + destruct AP as [S | [NA D]]; [left; exact S | right; left; auto].
    + rewrite (copy_target_not_dir f2 source dest ND2) in *.
      destruct (path_eqb p dest) eqn:PT.
      * apply path_eqb_eq in PT. right; right. exists data.
        split; [congruence|]. split; [congruence|]. split; [exact PT|]. split; [exact ND|].
        subst p. apply upd_same.
      * unfold upd. rewrite PT.
        destruct AP as [S | [NA D]]; [left; exact S | right; left; auto].
  - destruct AP as [S | [NA D]]; [left; exact S | right; left; auto].
Qed.

Lemma lookup_file f p data : lookup f p = Some (File data) -> f p = Some (File data).
Proof. destruct p; [discriminate | auto]. Qed.

(** ** Frame (C14_copypath_frame as planned): everything except dest and the newly created
    ancestor directories of dest is unchanged, and dest afterwards is its old content or
    exactly the source's content. *)
Theorem copypath_frame : forall dsize source dest f,
  let f' := copypath dsize source dest f in
  (forall p, p <> dest -> ~ is_new_ancestor f p dest -> f' p = f p) /\
  (f' dest = f dest \/ f' dest = f source).
Proof.
  intros dsize source dest f. cbv zeta. split.
  - intros p NT NA.
    destruct (copypath_changes dsize source dest f p) as [S | [(_ & A & _) | (d & _ & _ & E & _)]];
    [exact S | contradiction | contradiction].
  - destruct (copypath_changes dsize source dest f dest)
      as [S | [(_ & (_ & PP & _) & _) | (d & LS & _ & _ & _ & W)]].
    + left; exact S.
    + now apply proper_prefix_neq in PP.
    + right. rewrite W. symmetry. now apply lookup_file.
Qed.

(* kept for its name: the special case that was all that held before ff51958 *)
Corollary copypath_frame_partial : forall dsize source dest f,
  is_dir_b f dest = false ->
  let f' := copypath dsize source dest f in
  (forall p, p <> dest -> ~ is_new_ancestor f p dest -> f' p = f p) /\
  (f' dest = f dest \/ f' dest = f source).
Proof. intros dsize source dest f _. apply copypath_frame. Qed.

(** ** A destination that is a directory, or already as long as the source, or a missing
    source: nothing is touched *)
Theorem copypath_dir_dest_untouched : forall dsize source dest f,
  is_dir_b f dest = true -> copypath_run dsize source dest f = Ok f.
Proof.
  intros dsize source dest f D. unfold copypath_run, skip_test. rewrite D.
  now rewrite orb_true_r.
Qed.

Theorem copypath_full_length_untouched : forall dsize source dest f,
  exists_b f dest = true ->
  getsize dsize f dest >= getsize dsize f source ->
  copypath_run dsize source dest f = Ok f.
Proof.
  intros dsize source dest f E G. unfold copypath_run, skip_test.
  rewrite E. apply Nat.leb_le in G. rewrite G. now rewrite orb_true_r.
Qed.

Theorem copypath_missing_source_untouched : forall dsize source dest f,
  exists_b f source = false -> copypath_run dsize source dest f = Ok f.
Proof.
  intros dsize source dest f E. unfold copypath_run, skip_test. now rewrite E.
Qed.

(** ** The source is never modified (no side condition is needed: when shutil.copy would
    write onto the source it raises SameFileError instead) *)
Theorem copypath_source_untouched : forall dsize source dest f,
  copypath dsize source dest f source = f source.
Proof.
  intros dsize source dest f.
  destruct (copypath_changes dsize source dest f source)
    as [S | [(ES & (NE & _ & N) & _) | (d & _ & NS & _)]].
  - exact S.
  - unfold exists_b in ES. rewrite lookup_ne, N in ES by exact NE. discriminate ES.
  - contradiction.
Qed.

(** ** Everything copypath creates or writes is dest or an ancestor of dest *)
Theorem copypath_targets_under_dest_parent : forall dsize source dest f p,
  copypath dsize source dest f p <> f p -> prefix p dest.
Proof.
  intros dsize source dest f p NE.
  destruct (copypath_changes dsize source dest f p)
    as [S | [(_ & (_ & (r & _ & E) & _) & _) | (d & _ & _ & E & _)]].
  - contradiction.
  - now exists r.
  - exists []. now rewrite app_nil_r.
Qed.

(* kept for its name *)
Corollary copypath_targets_under_dest_parent_partial : forall dsize source dest f p,
  is_dir_b f dest = false ->
  copypath dsize source dest f p <> f p -> prefix p dest.
Proof. intros dsize source dest f p _. apply copypath_targets_under_dest_parent. Qed.

(** ** Idempotence: a second copypath changes nothing more *)

Theorem copypath_idempotent : forall dsize source dest f p,
  copypath dsize source dest (copypath dsize source dest f) p = copypath dsize source dest f p.
Proof.
  intros dsize source dest f p. unfold copypath.
  rewrite (copypath_run_unfold dsize source dest f).
  destruct (skip_test dsize source dest f) eqn:T.
  { cbn [fs_of]. now rewrite copypath_run_unfold, T. }
  destruct (skip_test_false _ _ _ _ T) as [ES ND].
  pose proof (ancestors_phase_dest dest f) as AD.
  pose proof (ancestors_phase_source dest f source ES) as AS.
  pose proof (mkdir_loop_idem (removelast dest) [] f) as IDEM.
  destruct (mkdir_loop [] (removelast dest) f) as [f2|f2] eqn:M; cbn [fs_of] in *.
  - assert (T2 : skip_test dsize source dest f2 = false)
      by (now rewrite (skip_test_ext dsize source dest f f2 AS AD)).
    assert (ND2 : is_dir_b f2 dest = false) by (now rewrite (is_dir_b_ext dest f f2 AD)).
    destruct (shutil_copy_cases source dest f2) as [C | (data & LS & NE & DT & DP & C)];
    rewrite C; cbn [fs_of].
    + now rewrite copypath_run_unfold, T2, IDEM, C.
    + (* dest is now a file as long as the source: the second call returns at once *)
      rewrite (copy_target_not_dir f2 source dest ND2) in *.
      set (g := upd f2 dest (File data)).
      assert (DN : dest <> []) by (intros ->; discriminate ND2).
      assert (GS : lookup g source = Some (File data)).
      { unfold g. rewrite lookup_upd_other by exact NE. exact LS. }
      assert (GD : lookup g dest = Some (File data)).
      { unfold g. now apply lookup_upd_same. }
      assert (TG : skip_test dsize source dest g = true).
      { unfold skip_test, exists_b, is_dir_b, getsize. rewrite GS, GD. cbn.
        now rewrite Nat.leb_refl. }
      now rewrite copypath_run_unfold, TG.
  - assert (T2 : skip_test dsize source dest f2 = false)
      by (now rewrite (skip_test_ext dsize source dest f f2 AS AD)).
    now rewrite copypath_run_unfold, T2, IDEM.
Qed.

(** ** A destination of a single part ("name", "./name": `Path(dest).parts` has length 1).
    Since the repair b5b5a4c the copy happens: no directory is made, and if the source is a
    file, dest is missing or a shorter file, and dest is not the source itself, then dest
    afterwards holds exactly the source's bytes. *)
Theorem copypath_single_part_dest_copies : forall dsize source part f data,
  lookup f source = Some (File data) ->
  source <> [part] ->
  (f [part] = None \/ exists d, f [part] = Some (File d) /\ length d < length data) ->
  copypath_run dsize source [part] f = Ok (upd f [part] (File data)).
Proof.
  intros dsize source part f data LS NE D.
  assert (ND : is_dir_b f [part] = false).
  { unfold is_dir_b. cbn [lookup]. destruct D as [-> | (d & -> & _)]; reflexivity. }
  assert (T : skip_test dsize source [part] f = false).
  { unfold skip_test. rewrite ND. unfold exists_b, getsize. rewrite LS. cbn [lookup negb orb].
    destruct D as [-> | (d & -> & Hd)]; [reflexivity|]. cbn [node_size andb].
    now apply Nat.leb_gt. }
  rewrite copypath_run_unfold, T. cbn [removelast mkdir_loop].
  unfold shutil_copy, copy_target. rewrite ND, LS, (path_eqb_neq _ _ NE), ND. reflexivity.
Qed.

(** * The earlier versions of the code, refuted *)

(* Before b5b5a4c the code did NOTHING for a single-part destination, although the source
   exists and the destination does not (reproduced with `rebuild ... -d .` on a single-file
   torrent). *)
Theorem copypath_old_single_part_noop : forall dsize source part f,
  copypath_run_old dsize source [part] f = Ok f.
Proof.
  intros dsize source part f. unfold copypath_run_old.
  destruct (skip_test_old dsize source [part] f); reflexivity.
Qed.

Theorem copypath_old_single_part_refuted :
  exists dsize source part f data,
    lookup f source = Some (File data) /\ source <> [part] /\ f [part] = None /\
    fs_of (copypath_run_old dsize source [part] f) [part] = None /\
    fs_of (copypath_run dsize source [part] f) [part] = Some (File data).
Proof.
  exists 4, ["c"; "a.bin"]%string, "a.bin"%string,
         (fs_of_list [ (["c"]%string, Dir);
                       (["c"; "a.bin"]%string, File ["a"; "b"; "c"]%char) ]),
         ["a"; "b"; "c"]%char.
  split; [reflexivity|]. split; [discriminate|]. split; [reflexivity|].
  split; vm_compute; reflexivity.
Qed.

(* Before ff51958 the frame statement was FALSE: when dest is an existing directory whose
   reported size is below the source's size, shutil.copy put the file INTO it -- a path
   that is neither dest nor an ancestor of dest changed.  The current code leaves such a
   filesystem alone. *)
Definition refute_fs : fs :=
  fs_of_list [ (["s"], Dir); (["s"; "big"], File (repeat "x"%char 5));
               (["d"], Dir); (["d"; "name"], Dir) ]%string.

Theorem copypath_old_dir_dest_refuted :
  exists dsize source dest f p,
    p <> dest /\ ~ is_new_ancestor f p dest /\ ~ prefix p dest /\
    fs_of (copypath_run_old_dir dsize source dest f) p <> f p /\
    copypath_run dsize source dest f = Ok f.
Proof.
  exists 4, ["s"; "big"]%string, ["d"; "name"]%string, refute_fs, ["d"; "name"; "big"]%string.
  split; [discriminate|]. split; [|split; [|split]].
  - intros (_ & PP & _). apply proper_prefix_length in PP. cbn in PP. lia.
  - intros (r & E). apply (f_equal (@length _)) in E. rewrite app_length in E. cbn in E. lia.
  - vm_compute. discriminate.
  - apply copypath_dir_dest_untouched. reflexivity.
Qed.

(* where the three versions agree: dest of two or more parts that is not a directory *)
Theorem copypath_old_same_on_longer_dest : forall dsize source a b tl f,
  is_dir_b f (a :: b :: tl) = false ->
  copypath_run_old dsize source (a :: b :: tl) f = copypath_run dsize source (a :: b :: tl) f /\
  copypath_run_old_dir dsize source (a :: b :: tl) f = copypath_run dsize source (a :: b :: tl) f.
Proof.
  intros dsize source a b tl f ND.
  assert (E : skip_test dsize source (a :: b :: tl) f = skip_test_old dsize source (a :: b :: tl) f).
  { unfold skip_test, skip_test_old. rewrite ND. now rewrite orb_false_r. }
  unfold copypath_run_old, copypath_run_old_dir, copypath_run. rewrite E. split; reflexivity.
Qed.

(** * Examples *)
Open Scope string_scope.
Open Scope list_scope.

Definition abc : bytes := ["a"; "b"; "c"]%char.
Definition xy : bytes := ["x"; "y"]%char.
Definition xyz : bytes := ["x"; "y"; "z"]%char.

Definition ex_fs : fs :=
  fs_of_list [ (["c"], Dir); (["c"; "a.bin"], File abc);
               (["out"], Dir);
               (["out"; "short.bin"], File xy);      (* shorter than the source *)
               (["out"; "same.bin"], File xyz);      (* as long as the source, other content *)
               (["out"; "afile"], File xy) ].

Definition probe (f : fs) : list (option node) :=
  map f [ ["c"; "a.bin"]; ["out"]; ["out"; "name"]; ["out"; "name"; "sub"];
          ["out"; "name"; "sub"; "a.bin"]; ["out"; "short.bin"]; ["out"; "same.bin"];
          ["out"; "afile"]; ["elsewhere"] ].

(* missing ancestors are created in order, the bytes arrive, nothing else changes *)
Example copypath_creates_and_copies :
  probe (copypath 4 ["c"; "a.bin"] ["out"; "name"; "sub"; "a.bin"] ex_fs)
  = [Some (File abc); Some Dir; Some Dir; Some Dir; Some (File abc);
     Some (File xy); Some (File xyz); Some (File xy); None]
  /\ probe ex_fs
  = [Some (File abc); Some Dir; None; None; None;
     Some (File xy); Some (File xyz); Some (File xy); None].
Proof. vm_compute. split; reflexivity. Qed.

(* a shorter destination is overwritten, one of full length is not, even if it differs *)
Example copypath_overwrites_shorter_only :
  copypath 4 ["c"; "a.bin"] ["out"; "short.bin"] ex_fs ["out"; "short.bin"] = Some (File abc) /\
  copypath 4 ["c"; "a.bin"] ["out"; "same.bin"] ex_fs ["out"; "same.bin"] = Some (File xyz).
Proof. vm_compute. split; reflexivity. Qed.

(* the ways it raises: an ancestor that is a file (NotADirectoryError); a source that is a
   directory (IsADirectoryError, AFTER the directories were created) *)
Example copypath_raises :
  (match copypath_run 4 ["c"; "a.bin"] ["out"; "afile"; "sub"; "a.bin"] ex_fs with
   | Raised f => probe f = probe ex_fs | Ok _ => False end) /\
  (match copypath_run 1 ["c"] ["out"; "name"; "sub"; "x"] ex_fs with
   | Raised f => f ["out"; "name"; "sub"] = Some Dir /\ f ["out"; "name"; "sub"; "x"] = None
   | Ok _ => False end).
Proof. vm_compute. repeat split; reflexivity. Qed.

Example copypath_idempotent_example :
  let once := copypath 4 ["c"; "a.bin"] ["out"; "name"; "sub"; "a.bin"] ex_fs in
  probe (copypath 4 ["c"; "a.bin"] ["out"; "name"; "sub"; "a.bin"] once) = probe once.
Proof. vm_compute. reflexivity. Qed.

Print Assumptions copypath_changes.
Print Assumptions copypath_frame.
Print Assumptions copypath_frame_partial.
Print Assumptions copypath_dir_dest_untouched.
Print Assumptions copypath_old_dir_dest_refuted.
Print Assumptions copypath_full_length_untouched.
Print Assumptions copypath_missing_source_untouched.
Print Assumptions copypath_source_untouched.
Print Assumptions copypath_targets_under_dest_parent.
Print Assumptions copypath_targets_under_dest_parent_partial.
Print Assumptions copypath_idempotent.
Print Assumptions copypath_single_part_dest_copies.
Print Assumptions copypath_old_single_part_noop.
Print Assumptions copypath_old_single_part_refuted.
Print Assumptions copypath_old_same_on_longer_dest.
