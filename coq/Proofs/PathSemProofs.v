(* Lemmas about Spec/PathSem.v (lexical posixpath / pathlib).
     1. split_path / join_sep
     2. norm_run on component lists
     3. initial_slashes
     4. [full cwd s] (what abspath hands to normpath) and [loc] (slashes, stack) of an absolute string
     5. same_location cwd s s' -> abspath cwd s = abspath cwd s'         (spelling irrelevance)
     6. the recorded name and the recorded path components under every spelling of the root
   Everything that consults the working directory assumes [is_abs cwd = true] (os.getcwd() is absolute). *)
From TF Require Import Lib.Base Lib.Lex Spec.PathSem.
From Coq Require String.
Import String.StringSyntax.

Local Open Scope list_scope.

(* ========================================================================================== *)
(* 0. characters and small list facts                                                          *)
(* ========================================================================================== *)

Definition nosep (c : path) : Prop := forallb (fun x => negb (is_sep x)) c = true.

Lemma is_sep_sep : is_sep sep = true.
Proof. reflexivity. Qed.

Lemma plain_nosep c : plain c -> nosep c.
Proof. intros H. apply H. Qed.

Lemma plain_nonnil c : plain c -> c <> [].
Proof. intros H. apply H. Qed.

Lemma nosep_cons c x : nosep (c :: x) <-> is_sep c = false /\ nosep x.
Proof.
  unfold nosep. cbn [forallb]. rewrite andb_true_iff, negb_true_iff. reflexivity.
Qed.

Lemma plain_head c : plain c -> exists a r, c = a :: r /\ is_sep a = false.
Proof.
  intros (N & _ & _ & H). destruct c as [|a r]; [congruence|]. apply nosep_cons in H.
  exists a, r. split; [reflexivity|apply H].
Qed.

Lemma plain_rel c : plain c -> is_abs c = false.
Proof. intros H. destruct (plain_head c H) as (a & r & -> & Ha). exact Ha. Qed.

Lemma last_app_ne {A} (a b : list A) d : b <> [] -> last (a ++ b) d = last b d.
Proof.
  intros Hb. induction a as [|x a IH]; [reflexivity|]. cbn [app]. cbn [last].
  destruct (a ++ b) eqn:E; [|exact IH]. apply app_eq_nil in E. destruct E; contradiction.
Qed.

Lemma last_snoc {A} (a : list A) x d : last (a ++ [x]) d = x.
Proof. rewrite last_app_ne by discriminate. reflexivity. Qed.

Lemma filter_all {A} (f : A -> bool) l : Forall (fun x => f x = true) l -> filter f l = l.
Proof. induction 1 as [|x l Hx _ IH]; cbn [filter]; [reflexivity|]. rewrite Hx, IH. reflexivity. Qed.

Lemma filter_none {A} (f : A -> bool) l : Forall (fun x => f x = false) l -> filter f l = [].
Proof. induction 1 as [|x l Hx _ IH]; cbn [filter]; [reflexivity|]. rewrite Hx, IH. reflexivity. Qed.

(* ========================================================================================== *)
(* 1. split_path / join_sep                                                                    *)
(* ========================================================================================== *)

Lemma split_path_nonnil s : split_path s <> [].
Proof.
  destruct s as [|c r]; cbn [split_path]; [discriminate|].
  destruct (is_sep c); [discriminate|]. destruct (split_path r); discriminate.
Qed.

(* (a + "/" + b).split("/") = a.split("/") + b.split("/") *)
Lemma split_path_app_sep a b : split_path (a ++ sep :: b) = split_path a ++ split_path b.
Proof.
  induction a as [|c a IH]; cbn [app split_path].
  - rewrite is_sep_sep. reflexivity.
  - rewrite IH. destruct (is_sep c); [reflexivity|].
    destruct (split_path a) as [|h t] eqn:E; [exfalso; exact (split_path_nonnil a E)|reflexivity].
Qed.

Lemma split_path_snoc_sep s : split_path (s ++ [sep]) = split_path s ++ [[]].
Proof. apply split_path_app_sep. Qed.

Lemma split_path_nosep c : nosep c -> split_path c = [c].
Proof.
  induction c as [|x c IH]; intros H; [reflexivity|]. apply nosep_cons in H. destruct H as [Hx Hc].
  cbn [split_path]. rewrite Hx, (IH Hc). reflexivity.
Qed.

Lemma split_path_all_nosep s : Forall nosep (split_path s).
Proof.
  induction s as [|c s IH]; cbn [split_path]; [repeat constructor|].
  destruct (is_sep c) eqn:E; [constructor; [reflexivity|exact IH]|].
  destruct (split_path s) as [|h t]; [repeat constructor; apply nosep_cons; split; [exact E|reflexivity]|].
  inversion IH; subst. constructor; [|assumption]. apply nosep_cons. split; assumption.
Qed.

Lemma split_path_repeat_sep i x : split_path (repeat sep i ++ x) = repeat [] i ++ split_path x.
Proof.
  induction i as [|i IH]; [reflexivity|]. cbn [repeat app split_path]. rewrite is_sep_sep, IH. reflexivity.
Qed.

Lemma join_sep_cons2 a b r : join_sep (a :: b :: r) = a ++ sep :: join_sep (b :: r).
Proof. reflexivity. Qed.

(* "/".join(cs).split("/") = cs for separator-free components (and at least one) *)
Theorem split_join cs : cs <> [] -> Forall nosep cs -> split_path (join_sep cs) = cs.
Proof.
  induction cs as [|a r IH]; intros N H; [congruence|]. inversion H as [|x l Ha Hr]; subst.
  destruct r as [|b r]; [apply split_path_nosep; exact Ha|].
  rewrite join_sep_cons2, split_path_app_sep, (split_path_nosep a Ha), IH; [reflexivity|discriminate|exact Hr].
Qed.

Lemma join_sep_nil_iff cs : Forall (fun c => c <> []) cs -> join_sep cs = [] -> cs = [].
Proof.
  intros H E. destruct cs as [|a r]; [reflexivity|]. inversion H; subst.
  cbn [join_sep] in E. destruct r; [contradiction|]. apply app_eq_nil in E. destruct E; contradiction.
Qed.

(* ========================================================================================== *)
(* 2. the normalisation loop                                                                   *)
(* ========================================================================================== *)

Lemma norm_run_app r st a b : norm_run r st (a ++ b) = norm_run r (norm_run r st a) b.
Proof. apply fold_left_app. Qed.

Lemma norm_run_cons r st c cs : norm_run r st (c :: cs) = norm_run r (norm_step r st c) cs.
Proof. reflexivity. Qed.

Lemma norm_step_empty r st : norm_step r st [] = st.
Proof. reflexivity. Qed.

Lemma norm_step_dot r st : norm_step r st dot = st.
Proof. reflexivity. Qed.

Lemma plain_eqbs x : plain x ->
  bytes_eqb x [] = false /\ bytes_eqb x dot = false /\ bytes_eqb x dotdot = false.
Proof. intros (N1 & N2 & N3 & _). repeat split; apply bytes_eqb_neq; assumption. Qed.

Lemma norm_step_plain r st x : plain x -> norm_step r st x = x :: st.
Proof.
  intros H. destruct (plain_eqbs x H) as (E1 & E2 & E3). unfold norm_step. rewrite E1, E2, E3. reflexivity.
Qed.

Lemma norm_step_pop r st x : plain x -> norm_step r (x :: st) dotdot = st.
Proof.
  intros H. destruct (plain_eqbs x H) as (_ & _ & E3). unfold norm_step.
  cbn [is_nil andb]. rewrite E3, andb_false_r. reflexivity.
Qed.

(* ""- and "."-components may be dropped beforehand (what pathlib does) *)
Lemma norm_run_filter r cs : forall st,
  norm_run r st (filter (fun c => negb (bytes_eqb c [] || bytes_eqb c dot)) cs) = norm_run r st cs.
Proof.
  induction cs as [|c cs IH]; intros st; [reflexivity|]. cbn [filter]. rewrite norm_run_cons.
  destruct (bytes_eqb c [] || bytes_eqb c dot) eqn:E; cbn [negb].
  - unfold norm_step. rewrite E. apply IH.
  - rewrite norm_run_cons. apply IH.
Qed.

(* rooted: the stack only ever holds plain names *)
Lemma norm_step_keeps_plain st c : Forall plain st -> nosep c -> Forall plain (norm_step true st c).
Proof.
  intros Hst Hc. unfold norm_step.
  destruct (bytes_eqb_spec c []) as [->|N1]; [exact Hst|].
  destruct (bytes_eqb_spec c dot) as [->|N2]; [exact Hst|]. cbn [orb negb andb].
  destruct (bytes_eqb_spec c dotdot) as [->|N3]; cbn [negb orb].
  - destruct st as [|top st]; [constructor|]. inversion Hst as [|x l Ht Hr]; subst.
    destruct (plain_eqbs top Ht) as (_ & _ & E3). rewrite E3. exact Hr.
  - constructor; [|exact Hst]. repeat split; assumption.
Qed.

Lemma norm_run_keeps_plain cs : forall st,
  Forall plain st -> Forall nosep cs -> Forall plain (norm_run true st cs).
Proof.
  induction cs as [|c cs IH]; intros st Hst Hcs; [exact Hst|]. inversion Hcs; subst.
  rewrite norm_run_cons. apply IH; [apply norm_step_keeps_plain|]; assumption.
Qed.

Lemma norm_run_plains r ns : forall st, Forall plain ns -> norm_run r st ns = rev ns ++ st.
Proof.
  induction ns as [|n ns IH]; intros st H; [reflexivity|]. inversion H; subst.
  rewrite norm_run_cons, norm_step_plain, IH by assumption. cbn [rev]. rewrite <- app_assoc. reflexivity.
Qed.

(* ========================================================================================== *)
(* 3. is_abs, ends_sep, has_name, initial_slashes                                              *)
(* ========================================================================================== *)

Lemma is_abs_app a b : a <> [] -> is_abs (a ++ b) = is_abs a.
Proof. destruct a; [congruence|reflexivity]. Qed.

Lemma is_abs_nonnil a : is_abs a = true -> a <> [].
Proof. destruct a; [discriminate|discriminate]. Qed.

Lemma ends_sep_app a b : b <> [] -> ends_sep (a ++ b) = ends_sep b.
Proof.
  intros Hb. induction a as [|c a IH]; [reflexivity|]. cbn [app ends_sep].
  destruct (a ++ b) eqn:E; [|exact IH]. apply app_eq_nil in E. destruct E; contradiction.
Qed.

Lemma ends_sep_snoc a : ends_sep (a ++ [sep]) = true.
Proof. rewrite ends_sep_app by discriminate. reflexivity. Qed.

Lemma ends_sep_inv a : ends_sep a = true -> exists a0, a = a0 ++ [sep].
Proof.
  induction a as [|c a IH]; [discriminate|]. cbn [ends_sep]. destruct a as [|c' a'].
  - intros H. exists []. cbn [app]. f_equal. unfold is_sep in H. apply Ascii.eqb_eq in H. exact H.
  - intros H. destruct (IH H) as (a0 & E). exists (c :: a0). cbn [app]. rewrite <- E. reflexivity.
Qed.

Lemma ends_sep_nonnil a : ends_sep a = true -> a <> [].
Proof. destruct a; [discriminate|discriminate]. Qed.

Lemma has_name_app a b : has_name (a ++ b) = has_name a || has_name b.
Proof. apply existsb_app. Qed.

Lemma has_name_nonnil a : has_name a = true -> a <> [].
Proof. destruct a; [discriminate|discriminate]. Qed.

Lemma nosep_ends_sep c : nosep c -> ends_sep c = false.
Proof.
  induction c as [|x c IH]; [reflexivity|]. intros H. apply nosep_cons in H. destruct H as [Hx Hc].
  cbn [ends_sep]. destruct c; [exact Hx|apply IH; exact Hc].
Qed.

Lemma plain_has_name c : plain c -> has_name c = true.
Proof.
  intros H. destruct (plain_head c H) as (a & r & -> & Ha). unfold has_name. cbn [existsb]. rewrite Ha.
  reflexivity.
Qed.

(* a non-empty string that does not end in "/" contains a name character *)
Lemma not_ends_sep_has_name a : a <> [] -> ends_sep a = false -> has_name a = true.
Proof.
  induction a as [|c a IH]; [congruence|]. intros _. cbn [ends_sep]. unfold has_name. cbn [existsb].
  destruct a as [|c' a']; [intros ->; reflexivity|]. intros H.
  fold (has_name (c' :: a')). rewrite IH by (discriminate || exact H). apply orb_true_r.
Qed.

Lemma initial_slashes_has_name P q : has_name P = true -> initial_slashes (P ++ q) = initial_slashes P.
Proof.
  unfold has_name. destruct P as [|c1 [|c2 [|c3 P]]]; cbn [existsb app initial_slashes].
  - discriminate.
  - destruct (is_sep c1); cbn [negb orb]; [discriminate|reflexivity].
  - destruct (is_sep c1); [|reflexivity]. destruct (is_sep c2); cbn [negb orb]; [discriminate|reflexivity].
  - reflexivity.
Qed.

Lemma initial_slashes_seps P q q' : has_name P = false -> is_abs q = false -> is_abs q' = false ->
  initial_slashes (P ++ q) = initial_slashes (P ++ q').
Proof.
  unfold has_name. intros HP Hq Hq'.
  assert (R : forall x, is_abs x = false -> initial_slashes x = 0).
  { intros [|c x]; [reflexivity|]. cbn [is_abs initial_slashes]. intros ->. reflexivity. }
  destruct P as [|c1 [|c2 [|c3 P]]]; cbn [existsb app] in *.
  - rewrite (R q Hq), (R q' Hq'). reflexivity.
  - rewrite orb_false_r, negb_false_iff in HP. cbn [initial_slashes]. rewrite HP.
    destruct q as [|a q]; destruct q' as [|a' q']; cbn [is_abs] in *; rewrite ?Hq, ?Hq'; reflexivity.
  - apply orb_false_iff in HP. destruct HP as [H1 HP]. apply orb_false_iff in HP. destruct HP as [H2 _].
    rewrite negb_false_iff in H1, H2. cbn [initial_slashes]. rewrite H1, H2.
    destruct q as [|a q]; destruct q' as [|a' q']; cbn [is_abs] in *; rewrite ?Hq, ?Hq'; reflexivity.
  - reflexivity.
Qed.

Lemma initial_slashes_boundary P q q' :
  has_name P = true \/ (is_abs q = false /\ is_abs q' = false) ->
  initial_slashes (P ++ q) = initial_slashes (P ++ q').
Proof.
  intros H. destruct (has_name P) eqn:E.
  - rewrite !initial_slashes_has_name by exact E. reflexivity.
  - destruct H as [H|[H1 H2]]; [discriminate|]. apply initial_slashes_seps; assumption.
Qed.

Lemma initial_slashes_abs a : is_abs a = true -> (0 <? initial_slashes a) = true.
Proof.
  destruct a as [|c1 [|c2 [|c3 a]]]; cbn [is_abs initial_slashes]; try discriminate; intros ->;
    repeat match goal with |- context [if ?c then _ else _] => destruct c end; reflexivity.
Qed.

Lemma initial_slashes_le2 a : initial_slashes a <= 2.
Proof.
  destruct a as [|c1 [|c2 [|c3 a]]]; cbn [initial_slashes];
    repeat match goal with |- context [if ?c then _ else _] => destruct c end; lia.
Qed.

Lemma initial_slashes_repeat i q : 1 <= i <= 2 -> is_abs q = false ->
  initial_slashes (repeat sep i ++ q) = i.
Proof.
  intros Hi Hq. destruct i as [|[|[|i]]]; try lia; cbn [repeat app initial_slashes]; rewrite !is_sep_sep.
  - destruct q as [|a q]; [reflexivity|]. cbn [is_abs] in Hq. rewrite Hq. reflexivity.
  - destruct q as [|a q]; [reflexivity|]. cbn [is_abs] in Hq. rewrite Hq. reflexivity.
Qed.

(* ========================================================================================== *)
(* 4. full, loc                                                                                *)
(* ========================================================================================== *)

(* what abspath hands to normpath *)
Definition full (cwd s : path) : path := if is_abs s then s else join cwd s.

(* an absolute string: (number of leading slashes kept, stack of names, top first) *)
Definition loc (a : path) : nat * list path := (initial_slashes a, norm_run true [] (split_path a)).

Lemma abspath_full cwd s : abspath cwd s = normpath (full cwd s).
Proof. reflexivity. Qed.

Lemma normpath_abs a : is_abs a = true -> normpath a = render (fst (loc a)) (snd (loc a)).
Proof.
  intros H. unfold normpath, loc. cbn [fst snd]. rewrite (initial_slashes_abs a H).
  destruct a; [discriminate|reflexivity].
Qed.

Section Cwd.
Variable cwd : path.
Hypothesis cwd_abs : is_abs cwd = true.

Lemma cwd_nonnil : cwd <> [].
Proof. apply is_abs_nonnil, cwd_abs. Qed.

Lemma is_nil_cwd : is_nil cwd = false.
Proof. destruct cwd; [discriminate cwd_abs|reflexivity]. Qed.

Lemma join_cwd_abs s : is_abs s = false -> is_abs (join cwd s) = true.
Proof.
  intros Hs. unfold join. rewrite Hs. destruct (is_nil cwd || ends_sep cwd);
    rewrite is_abs_app by exact cwd_nonnil; exact cwd_abs.
Qed.

Lemma full_abs s : is_abs (full cwd s) = true.
Proof. unfold full. destruct (is_abs s) eqn:E; [exact E|apply join_cwd_abs; exact E]. Qed.

Lemma abspath_loc s : abspath cwd s = render (fst (loc (full cwd s))) (snd (loc (full cwd s))).
Proof. rewrite abspath_full. apply normpath_abs, full_abs. Qed.

(* the working directory with its trailing separator *)
Definition cwd_sep : path := full cwd [].

Lemma cwd_sep_ends : ends_sep cwd_sep = true.
Proof.
  unfold cwd_sep, full, join. cbn [is_abs]. rewrite is_nil_cwd. cbn [orb].
  destruct (ends_sep cwd) eqn:E; [rewrite app_nil_r; exact E|apply ends_sep_snoc].
Qed.

Lemma full_rel s : is_abs s = false -> full cwd s = cwd_sep ++ s.
Proof.
  intros Hs. unfold cwd_sep, full, join. rewrite Hs. cbn [is_abs]. rewrite is_nil_cwd. cbn [orb].
  destruct (ends_sep cwd); rewrite <- app_assoc; reflexivity.
Qed.

Lemma full_app a q : a <> [] \/ is_abs q = false -> full cwd (a ++ q) = full cwd a ++ q.
Proof.
  intros H. destruct a as [|c a].
  - destruct H as [H|H]; [congruence|]. cbn [app]. apply full_rel. exact H.
  - destruct (is_sep c) eqn:E.
    + unfold full. cbn [app is_abs]. rewrite E. reflexivity.
    + rewrite (full_rel ((c :: a) ++ q)), (full_rel (c :: a)) by (cbn [app is_abs]; exact E).
      rewrite <- app_assoc. reflexivity.
Qed.

Lemma full_ends_sep a : ends_sep a = true -> ends_sep (full cwd a) = true.
Proof.
  intros H. destruct (is_abs a) eqn:E; [unfold full; rewrite E; exact H|].
  rewrite full_rel by exact E.
  rewrite ends_sep_app by (apply ends_sep_nonnil; exact H). exact H.
Qed.

Lemma full_has_name a : has_name a = true -> has_name (full cwd a) = true.
Proof.
  intros H. destruct (is_abs a) eqn:E; [unfold full; rewrite E; exact H|].
  rewrite full_rel by exact E.
  rewrite has_name_app, H. apply orb_true_r.
Qed.

(* ------------------------------------------------------------------------------------------ *)
(* editing an absolute string behind a separator                                               *)
(* ------------------------------------------------------------------------------------------ *)

Lemma loc_edit P q q' :
  ends_sep P = true ->
  has_name P = true \/ (is_abs q = false /\ is_abs q' = false) ->
  (forall st, norm_run true st (split_path q) = norm_run true st (split_path q')) ->
  loc (P ++ q) = loc (P ++ q').
Proof.
  intros HP Hc Hn. unfold loc. f_equal; [apply initial_slashes_boundary; exact Hc|].
  destruct (ends_sep_inv P HP) as (P0 & ->). rewrite <- !app_assoc. cbn [app].
  rewrite !split_path_app_sep, !norm_run_app. apply Hn.
Qed.

(* appending a name behind a separator / behind a name *)
Lemma loc_push_after_sep P n : ends_sep P = true -> plain n ->
  loc (P ++ n) = (fst (loc P), n :: snd (loc P)).
Proof.
  intros HP Hn. unfold loc. cbn [fst snd]. f_equal.
  - rewrite <- (app_nil_r P) at 2. apply initial_slashes_boundary. right.
    split; [apply plain_rel; exact Hn|reflexivity].
  - destruct (ends_sep_inv P HP) as (P0 & ->). rewrite <- !app_assoc. cbn [app].
    rewrite split_path_app_sep, split_path_snoc_sep, !norm_run_app.
    rewrite (split_path_nosep n (plain_nosep n Hn)). cbn [norm_run fold_left].
    rewrite norm_step_empty. apply norm_step_plain. exact Hn.
Qed.

Lemma loc_push_after_name A n : has_name A = true -> plain n ->
  loc (A ++ sep :: n) = (fst (loc A), n :: snd (loc A)).
Proof.
  intros HA Hn. unfold loc. cbn [fst snd]. f_equal.
  - apply initial_slashes_has_name. exact HA.
  - rewrite split_path_app_sep, norm_run_app, (split_path_nosep n (plain_nosep n Hn)).
    cbn [norm_run fold_left]. apply norm_step_plain. exact Hn.
Qed.

(* ========================================================================================== *)
(* 5. spellings                                                                                *)
(* ========================================================================================== *)

(* a boundary of s is a boundary of full cwd s: one prefix P ending in "/" serves both spellings *)
Lemma boundary_full pre post q' : boundary pre post -> is_abs q' = false ->
  exists P, ends_sep P = true /\
            (has_name P = true \/ (is_abs post = false /\ is_abs q' = false)) /\
            full cwd (pre ++ post) = P ++ post /\ full cwd (pre ++ q') = P ++ q'.
Proof.
  intros [[-> Hpost]|[He Hc]] Hq'.
  - exists cwd_sep. split; [exact cwd_sep_ends|]. split; [right; split; assumption|].
    cbn [app]. split; apply full_rel; assumption.
  - exists (full cwd pre). split; [apply full_ends_sep; exact He|]. split.
    + destruct Hc as [Hc|Hc]; [left; apply full_has_name; exact Hc|right; split; assumption].
    + split; apply full_app; left; apply ends_sep_nonnil; exact He.
Qed.

Theorem same_location_loc s s' : same_location cwd s s' -> loc (full cwd s) = loc (full cwd s').
Proof.
  induction 1 as [s|s s' _ IH|s s' s'' _ IH1 _ IH2|s Hs|pre post Hb|pre post Hp|s Hs|pre x post Hx Hb].
  - reflexivity.
  - symmetry. exact IH.
  - rewrite IH1. exact IH2.
  - (* relative <-> absolute *)
    unfold full at 2. rewrite (join_cwd_abs s Hs). unfold full. rewrite Hs. reflexivity.
  - (* "." segment *)
    destruct (boundary_full pre post (dot ++ sep :: post) Hb eq_refl) as (P & He & Hc & -> & ->).
    apply loc_edit; [exact He|exact Hc|]. intros st.
    rewrite split_path_app_sep. cbn [split_path dot app]. reflexivity.
  - (* doubled separator *)
    replace (pre ++ sep :: post) with ((pre ++ [sep]) ++ post) by (rewrite <- app_assoc; reflexivity).
    replace (pre ++ sep :: sep :: post) with ((pre ++ [sep]) ++ sep :: post)
      by (rewrite <- app_assoc; reflexivity).
    rewrite !(full_app (pre ++ [sep])) by (left; intros C; apply app_eq_nil in C; destruct C; discriminate).
    apply loc_edit.
    + apply full_ends_sep, ends_sep_snoc.
    + left. apply full_has_name. rewrite has_name_app, Hp. reflexivity.
    + intros st. cbn [split_path]. rewrite is_sep_sep. reflexivity.
  - (* trailing separator *)
    rewrite full_app by (left; apply has_name_nonnil; exact Hs).
    pose proof (full_has_name s Hs) as HA. set (A := full cwd s) in *. unfold loc. f_equal.
    + symmetry. apply initial_slashes_has_name. exact HA.
    + rewrite split_path_snoc_sep, norm_run_app. reflexivity.
  - (* detour x/.. *)
    assert (Hq : is_abs (x ++ sep :: dotdot ++ sep :: post) = false).
    { rewrite is_abs_app by (apply plain_nonnil; exact Hx). apply plain_rel; exact Hx. }
    destruct (boundary_full pre post _ Hb Hq) as (P & He & Hc & -> & ->).
    apply loc_edit; [exact He|exact Hc|]. intros st.
    rewrite split_path_app_sep, (split_path_nosep x (plain_nosep x Hx)), split_path_app_sep.
    cbn [app]. rewrite norm_run_cons, (norm_step_plain true st x Hx).
    change (split_path dotdot) with [dotdot]. cbn [app]. rewrite norm_run_cons, (norm_step_pop true st x Hx).
    reflexivity.
Qed.

(* C08 spelling irrelevance: every spelling of one location has the same absolute path *)
Theorem same_location_abspath s s' : same_location cwd s s' -> abspath cwd s = abspath cwd s'.
Proof. intros H. rewrite !abspath_loc, (same_location_loc s s' H). reflexivity. Qed.

Theorem same_location_name s s' : same_location cwd s s' -> name_of cwd s = name_of cwd s'.
Proof. intros H. unfold name_of. rewrite (same_location_abspath s s' H). reflexivity. Qed.

Theorem same_location_relpath s s' p p' :
  same_location cwd s s' -> same_location cwd p p' -> relpath cwd p s = relpath cwd p' s'.
Proof.
  intros H1 H2. unfold relpath. rewrite (same_location_abspath s s' H1), (same_location_abspath p p' H2).
  reflexivity.
Qed.

(* ========================================================================================== *)
(* 6. what the creators record                                                                 *)
(* ========================================================================================== *)

(* the stack of names of a location *)
Definition stack_of (s : path) : list path := snd (loc (full cwd s)).

Lemma stack_of_plain s : Forall plain (stack_of s).
Proof. apply norm_run_keeps_plain; [constructor|apply split_path_all_nosep]. Qed.

Lemma slashes_pos s : 0 < fst (loc (full cwd s)).
Proof. apply Nat.ltb_lt, initial_slashes_abs, full_abs. Qed.

Lemma render_pos i st : 0 < i -> render i st = repeat sep i ++ join_sep (rev st).
Proof. intros H. unfold render. destruct i; [lia|reflexivity]. Qed.

Lemma Forall_plain_rev st : Forall plain st -> Forall plain (rev st).
Proof. intros H. rewrite Forall_forall in *. intros x Hx. apply H. apply in_rev. exact Hx. Qed.

Lemma Forall_plain_nosep l : Forall plain l -> Forall nosep l.
Proof. apply Forall_impl. exact plain_nosep. Qed.

(* abspath(...).split("/") without the empty strings = the names, outermost first *)
Lemma nonempty_comps_render i cs : Forall plain cs ->
  nonempty_comps (repeat sep i ++ join_sep cs) = cs.
Proof.
  intros H. unfold nonempty_comps. rewrite split_path_repeat_sep, filter_app.
  rewrite (filter_none _ (repeat [] i)) by (apply Forall_forall; intros x Hx; apply repeat_spec in Hx; subst; reflexivity).
  cbn [app]. destruct cs as [|c cs]; [reflexivity|].
  rewrite split_join; [|discriminate|apply Forall_plain_nosep; exact H].
  apply filter_all. eapply Forall_impl; [|exact H]. intros a Ha. destruct (plain_head a Ha) as (y & r & -> & _).
  reflexivity.
Qed.

Lemma abspath_comps s : nonempty_comps (abspath cwd s) = rev (stack_of s).
Proof.
  rewrite abspath_loc, render_pos by apply slashes_pos.
  apply nonempty_comps_render, Forall_plain_rev, stack_of_plain.
Qed.

(* the name: the top of the stack ("" at the root) *)
Theorem name_of_stack s : name_of cwd s = hd [] (stack_of s).
Proof.
  unfold name_of, basename. rewrite abspath_loc, render_pos by apply slashes_pos.
  fold (stack_of s). pose proof (stack_of_plain s) as Hp. rewrite split_path_repeat_sep.
  destruct (stack_of s) as [|top st]; [cbn [rev join_sep split_path]; apply last_snoc|].
  rewrite split_join; [|cbn [rev]; intros C; apply app_eq_nil in C; destruct C; discriminate
                       |apply Forall_plain_nosep, Forall_plain_rev; exact Hp].
  cbn [rev hd]. rewrite app_assoc. apply last_snoc.
Qed.

Lemma common_prefix_len_app a b : common_prefix_len a (a ++ b) = length a.
Proof.
  induction a as [|x a IH]; [destruct b; reflexivity|]. cbn [app common_prefix_len length].
  rewrite bytes_eqb_refl, IH. reflexivity.
Qed.

Lemma join_all_plain n ns : plain n -> Forall plain ns ->
  split_path (join_all (n :: ns)) = n :: ns.
Proof.
  intros Hn Hns. cbn [join_all].
  assert (G : forall ns a, Forall plain ns -> a <> [] -> ends_sep a = false ->
              split_path (fold_left join ns a) = split_path a ++ ns).
  { clear. induction ns as [|m ns IH]; intros a H Ha He; [cbn [fold_left]; rewrite app_nil_r; reflexivity|].
    inversion H as [|x l Hm Hr]; subst. cbn [fold_left]. unfold join at 2.
    rewrite (plain_rel m Hm), He. destruct a as [|c a]; [congruence|]. cbn [is_nil orb].
    rewrite IH; [|exact Hr|discriminate|].
    - rewrite split_path_app_sep, (split_path_nosep m (plain_nosep m Hm)), <- app_assoc. reflexivity.
    - change ((c :: a) ++ sep :: m) with ((c :: a) ++ [sep] ++ m). rewrite app_assoc.
      rewrite ends_sep_app by (apply plain_nonnil; exact Hm). apply nosep_ends_sep, plain_nosep, Hm. }
  rewrite G; [|exact Hns|apply plain_nonnil; exact Hn|apply nosep_ends_sep, plain_nosep, Hn].
  rewrite (split_path_nosep n (plain_nosep n Hn)). reflexivity.
Qed.

(* relpath of a location that lies [ns] below the start: the components are ns *)
Theorem rel_components_below p s ns :
  stack_of p = rev ns ++ stack_of s -> Forall plain ns -> ns <> [] ->
  rel_components cwd p s = ns.
Proof.
  intros Hst Hns Hne. unfold rel_components, relpath. rewrite !abspath_comps, Hst.
  rewrite rev_app_distr, rev_involutive, common_prefix_len_app, Nat.sub_diag. cbn [repeat app].
  rewrite skipn_app, skipn_all, Nat.sub_diag. cbn [skipn app].
  destruct ns as [|n ns]; [congruence|]. inversion Hns; subst. apply join_all_plain; assumption.
Qed.

Lemma common_prefix_len_self a : common_prefix_len a a = length a.
Proof. rewrite <- (app_nil_r a) at 2. apply common_prefix_len_app. Qed.

(* relpath(self.path, self.path) = "." *)
Theorem rel_components_self s s' : same_location cwd s s' -> rel_components cwd s s' = [dot].
Proof.
  intros H. unfold rel_components, relpath. rewrite (same_location_abspath s s' H), abspath_comps.
  rewrite common_prefix_len_self, Nat.sub_diag.
  cbn [repeat app]. rewrite skipn_all. reflexivity.
Qed.

(* os.path.join(path, name) pushes the name *)
Lemma loc_join a n : plain n ->
  loc (full cwd (join a n)) = (fst (loc (full cwd a)), n :: snd (loc (full cwd a))).
Proof.
  intros Hn. unfold join. rewrite (plain_rel n Hn). destruct (is_nil a || ends_sep a) eqn:E.
  - rewrite full_app by (right; apply plain_rel; exact Hn). apply loc_push_after_sep; [|exact Hn].
    destruct a as [|c a]; [exact cwd_sep_ends|]. cbn [is_nil orb] in E. apply full_ends_sep. exact E.
  - apply orb_false_iff in E. destruct E as [E1 E2].
    assert (Ha : a <> []) by (destruct a; [discriminate|discriminate]).
    rewrite full_app by (left; exact Ha). apply loc_push_after_name; [|exact Hn].
    apply full_has_name, not_ends_sep_has_name; assumption.
Qed.

Lemma loc_child_path ns : forall s, Forall plain ns ->
  loc (full cwd (child_path s ns)) = (fst (loc (full cwd s)), rev ns ++ snd (loc (full cwd s))).
Proof.
  induction ns as [|n ns IH]; intros s H; [cbn [child_path fold_left rev app]; apply surjective_pairing|].
  inversion H; subst. unfold child_path. cbn [fold_left]. fold (child_path (join s n) ns).
  rewrite IH by assumption. rewrite loc_join by assumption. cbn [fst snd rev].
  rewrite <- app_assoc. reflexivity.
Qed.

(* the three _traverse methods: whatever the spelling of the root, the recorded components of the
   file reached through the directory entries ns are ns *)
Theorem rel_components_child_path s s' ns :
  same_location cwd s s' -> Forall plain ns -> ns <> [] ->
  rel_components cwd (child_path s ns) s' = ns.
Proof.
  intros Hs Hns Hne. apply rel_components_below; [|exact Hns|exact Hne].
  unfold stack_of. rewrite (loc_child_path ns s Hns), (same_location_loc s s' Hs). reflexivity.
Qed.

(* ------------------------------------------------------------------------------------------ *)
(* pathlib                                                                                     *)
(* ------------------------------------------------------------------------------------------ *)

(* ------------------------------------------------------------------------------------------ *)
(* pathlib: str(Path(s)), iterdir() children, utils._filelist_total                            *)
(* ------------------------------------------------------------------------------------------ *)

Definition tailc (c : path) : Prop := c <> [] /\ c <> dot /\ nosep c.

Lemma pathlib_tail_ok s : Forall tailc (pathlib_tail s).
Proof.
  apply Forall_forall. intros c Hc. unfold pathlib_tail in Hc. apply filter_In in Hc.
  destruct Hc as [Hin Hf]. rewrite negb_true_iff, orb_false_iff in Hf. destruct Hf as [F1 F2].
  repeat split; [apply bytes_eqb_neq; exact F1|apply bytes_eqb_neq; exact F2|].
  pose proof (split_path_all_nosep s) as Ha. rewrite Forall_forall in Ha. apply Ha. exact Hin.
Qed.

Lemma tailc_head c : tailc c -> exists a r, c = a :: r /\ is_sep a = false.
Proof.
  intros (N & _ & H). destruct c as [|a r]; [congruence|]. apply nosep_cons in H.
  exists a, r. split; [reflexivity|apply H].
Qed.

Lemma join_sep_head c l :
  join_sep (c :: l) = c ++ match l with [] => [] | _ :: _ => sep :: join_sep l end.
Proof. destruct l; [cbn [join_sep]; rewrite app_nil_r|]; reflexivity. Qed.

Lemma tail_join_rel s : is_abs (join_sep (pathlib_tail s)) = false.
Proof.
  pose proof (pathlib_tail_ok s) as H. destruct (pathlib_tail s) as [|c l]; [reflexivity|].
  inversion H as [|x y Hc _]; subst. destruct (tailc_head c Hc) as (a & r & -> & Ha).
  rewrite join_sep_head. exact Ha.
Qed.

Lemma tail_join_has_name s : pathlib_tail s <> [] -> has_name (join_sep (pathlib_tail s)) = true.
Proof.
  pose proof (pathlib_tail_ok s) as H. destruct (pathlib_tail s) as [|c l]; [congruence|]. intros _.
  inversion H as [|x y Hc _]; subst. destruct (tailc_head c Hc) as (a & r & -> & Ha).
  rewrite join_sep_head. unfold has_name. cbn [app existsb]. rewrite Ha. reflexivity.
Qed.

(* normalising the pathlib form = normalising the string *)
Lemma norm_tail_join s r st :
  norm_run r st (split_path (join_sep (pathlib_tail s))) = norm_run r st (split_path s).
Proof.
  rewrite <- (norm_run_filter r (split_path s) st). fold (pathlib_tail s).
  pose proof (pathlib_tail_ok s) as H. destruct (pathlib_tail s) as [|c l]; [reflexivity|].
  rewrite split_join; [reflexivity|discriminate|].
  eapply Forall_impl; [|exact H]. intros a Ha. apply Ha.
Qed.

Lemma norm_run_repeat_empty r i : forall st, norm_run r st (repeat [] i) = st.
Proof. induction i as [|i IH]; intros st; [reflexivity|]. cbn [repeat]. rewrite norm_run_cons. apply IH. Qed.

Lemma initial_slashes_rel x : is_abs x = false -> initial_slashes x = 0.
Proof. destruct x as [|c x]; [reflexivity|]. cbn [is_abs initial_slashes]. intros ->. reflexivity. Qed.

Lemma pathlib_str_abs s : is_abs s = true ->
  pathlib_str s = repeat sep (initial_slashes s) ++ join_sep (pathlib_tail s).
Proof.
  intros H. unfold pathlib_str, pathlib_root. pose proof (initial_slashes_abs s H) as Hi.
  apply Nat.ltb_lt in Hi. destruct (initial_slashes s); [lia|reflexivity].
Qed.

Lemma pathlib_str_rel s : is_abs s = false ->
  pathlib_str s = match join_sep (pathlib_tail s) with [] => dot | p => p end.
Proof. intros H. unfold pathlib_str, pathlib_root. rewrite (initial_slashes_rel s H). reflexivity. Qed.

(* str(Path(s)) is a spelling of s *)
Lemma loc_pathlib_str s : loc (full cwd (pathlib_str s)) = loc (full cwd s).
Proof.
  destruct (is_abs s) eqn:E.
  - rewrite (pathlib_str_abs s E). pose proof (initial_slashes_abs s E) as Hi. apply Nat.ltb_lt in Hi.
    pose proof (initial_slashes_le2 s) as Hi2.
    assert (Ha : is_abs (repeat sep (initial_slashes s) ++ join_sep (pathlib_tail s)) = true).
    { destruct (initial_slashes s); [lia|reflexivity]. }
    unfold full. rewrite Ha, E. unfold loc. f_equal.
    + apply initial_slashes_repeat; [lia|apply tail_join_rel].
    + rewrite split_path_repeat_sep, norm_run_app, norm_run_repeat_empty. apply norm_tail_join.
  - rewrite (pathlib_str_rel s E).
    assert (Hr : is_abs match join_sep (pathlib_tail s) with [] => dot | p => p end = false).
    { pose proof (tail_join_rel s) as Ht. destruct (join_sep (pathlib_tail s)); [reflexivity|exact Ht]. }
    rewrite (full_rel _ Hr), (full_rel s E). apply loc_edit; [exact cwd_sep_ends|right; split; assumption|].
    intros st. rewrite <- (norm_tail_join s true st). destruct (join_sep (pathlib_tail s)); reflexivity.
Qed.

Lemma loc_dot_nil : loc (full cwd dot) = loc (full cwd []).
Proof.
  rewrite (full_rel dot eq_refl), (full_rel [] eq_refl).
  apply loc_edit; [exact cwd_sep_ends|right; split; reflexivity|reflexivity].
Qed.

(* the string of a child yielded by iterdir() pushes the entry name *)
Lemma loc_pathlib_child s n : plain n ->
  loc (full cwd (pathlib_child_str s n)) = (fst (loc (full cwd s)), n :: snd (loc (full cwd s))).
Proof.
  intros Hn. rewrite <- (loc_pathlib_str s). unfold pathlib_child_str.
  destruct (pathlib_tail s) as [|c l] eqn:Et; cbn [is_nil negb].
  - destruct (bytes_eqb_spec (pathlib_str s) dot) as [Ed|Nd]; cbn [negb].
    + rewrite Ed, loc_dot_nil. rewrite <- (loc_join [] n Hn). unfold join.
      rewrite (plain_rel n Hn). reflexivity.
    + assert (He : ends_sep (pathlib_str s) = true).
      { unfold pathlib_str, pathlib_root in *. rewrite Et in *. cbn [join_sep] in *. rewrite app_nil_r in *.
        pose proof (initial_slashes_le2 s). destruct (initial_slashes s) as [|[|[|i]]]; try lia;
          [exfalso; apply Nd; reflexivity|reflexivity|reflexivity]. }
      rewrite full_app by (left; apply ends_sep_nonnil; exact He).
      apply loc_push_after_sep; [apply full_ends_sep; exact He|exact Hn].
  - assert (Hh : has_name (pathlib_str s) = true).
    { assert (Ht : has_name (join_sep (pathlib_tail s)) = true)
        by (apply tail_join_has_name; rewrite Et; discriminate).
      unfold pathlib_str. destruct (pathlib_root s ++ join_sep (pathlib_tail s)) eqn:E.
      - apply (f_equal has_name) in E. rewrite has_name_app, Ht, orb_true_r in E. discriminate.
      - rewrite <- E, has_name_app, Ht. apply orb_true_r. }
    rewrite full_app by (left; apply has_name_nonnil; exact Hh).
    apply loc_push_after_name; [apply full_has_name; exact Hh|exact Hn].
Qed.

Lemma loc_pathlib_descend ns : forall s, Forall plain ns ->
  loc (full cwd (pathlib_descend s ns)) = (fst (loc (full cwd s)), rev ns ++ snd (loc (full cwd s))).
Proof.
  induction ns as [|n ns IH]; intros s H.
  - cbn [pathlib_descend rev app]. rewrite loc_pathlib_str. apply surjective_pairing.
  - inversion H; subst. cbn [pathlib_descend]. rewrite IH by assumption.
    rewrite loc_pathlib_child by assumption. cbn [fst snd rev]. rewrite <- app_assoc. reflexivity.
Qed.

(* TorrentFile.assemble over utils._filelist_total: the same, for the strings pathlib produces *)
Theorem rel_components_pathlib_descend s s' ns :
  same_location cwd s s' -> Forall plain ns -> ns <> [] ->
  rel_components cwd (pathlib_descend s ns) s' = ns.
Proof.
  intros Hs Hns Hne. apply rel_components_below; [|exact Hns|exact Hne].
  unfold stack_of. rewrite (loc_pathlib_descend ns s Hns), (same_location_loc s s' Hs). reflexivity.
Qed.

(* a single file: filelist = [str(Path(self.path))], relpath = "." *)
Theorem rel_components_pathlib_self s s' :
  same_location cwd s s' -> rel_components cwd (pathlib_str s) s' = [dot].
Proof.
  intros H. unfold rel_components, relpath.
  rewrite !abspath_loc, loc_pathlib_str, (same_location_loc s s' H), <- !abspath_loc, abspath_comps.
  cbv zeta. rewrite common_prefix_len_self, Nat.sub_diag. cbn [repeat app]. rewrite skipn_all. reflexivity.
Qed.

(* the name recorded for the root does not change below it: names of descendants *)
Theorem name_of_child_path s ns : Forall plain ns -> ns <> [] ->
  name_of cwd (child_path s ns) = last ns [].
Proof.
  intros Hns Hne. rewrite name_of_stack. unfold stack_of. rewrite (loc_child_path ns s Hns). cbn [snd].
  destruct (exists_last Hne) as (l & x & ->). rewrite rev_app_distr, last_snoc. reflexivity.
Qed.

End Cwd.

(* if the absolute path is "/" + plain components, the name is the last of them *)
Theorem name_is_last_plain_component cwd s cs :
  abspath cwd s = sep :: join_sep cs -> cs <> [] -> Forall plain cs -> name_of cwd s = last cs [].
Proof.
  intros E Hne Hp. unfold name_of, basename. rewrite E. cbn [split_path]. rewrite is_sep_sep.
  rewrite split_join; [|exact Hne|apply Forall_plain_nosep; exact Hp].
  destruct cs; [congruence|reflexivity].
Qed.

Theorem rel_components_self_both cwd : is_abs cwd = true -> forall s s', same_location cwd s s' ->
  rel_components cwd s s' = [dot] /\ rel_components cwd (pathlib_str s) s' = [dot].
Proof.
  intros H s s' Hs. split; [apply rel_components_self|apply rel_components_pathlib_self]; assumption.
Qed.

(* ========================================================================================== *)
(* 6b. the strings utils._filelist_total sorts: one prefix + the "/"-joined entry names        *)
(* ========================================================================================== *)

Definition pl_form (i : nat) (T : list path) : path :=
  match repeat sep i ++ join_sep T with [] => dot | p => p end.

Lemma pathlib_str_form s : pathlib_str s = pl_form (initial_slashes s) (pathlib_tail s).
Proof. reflexivity. Qed.

Lemma join_sep_app a b : a <> [] -> b <> [] -> join_sep (a ++ b) = join_sep a ++ sep :: join_sep b.
Proof.
  intros Ha Hb. induction a as [|x a IH]; [congruence|]. destruct a as [|y a].
  - cbn [app]. destruct b as [|z b]; [congruence|]. apply join_sep_cons2.
  - change ((x :: y :: a) ++ b) with (x :: y :: (a ++ b)). rewrite !join_sep_cons2.
    change (y :: a ++ b) with ((y :: a) ++ b). rewrite IH by discriminate. rewrite <- app_assoc. reflexivity.
Qed.

Definition keep_comp (c : path) : bool := negb (bytes_eqb c [] || bytes_eqb c dot).

Lemma keep_comp_tailc c : tailc c -> keep_comp c = true.
Proof.
  intros (N1 & N2 & _). unfold keep_comp. apply bytes_eqb_neq in N1, N2. rewrite N1, N2. reflexivity.
Qed.

Lemma plain_tailc c : plain c -> tailc c.
Proof. intros (N1 & N2 & _ & H). repeat split; assumption. Qed.

Lemma pathlib_tail_spec x : pathlib_tail x = filter keep_comp (split_path x).
Proof. reflexivity. Qed.

Lemma filter_repeat_empty i : filter keep_comp (repeat [] i) = [].
Proof. induction i as [|i IH]; [reflexivity|]. cbn [repeat filter]. exact IH. Qed.

Lemma tail_has_name T : Forall tailc T -> T <> [] -> has_name (join_sep T) = true.
Proof.
  intros H N. destruct T as [|c l]; [congruence|]. inversion H as [|x y Hc _]; subst.
  destruct (tailc_head c Hc) as (a & r & -> & Ha). rewrite join_sep_head. unfold has_name.
  cbn [app existsb]. rewrite Ha. reflexivity.
Qed.

Lemma tail_rel T : Forall tailc T -> is_abs (join_sep T) = false.
Proof.
  intros H. destruct T as [|c l]; [reflexivity|]. inversion H as [|x y Hc _]; subst.
  destruct (tailc_head c Hc) as (a & r & -> & Ha). rewrite join_sep_head. exact Ha.
Qed.

Lemma slashes_form i T : i <= 2 -> Forall tailc T -> T <> [] ->
  initial_slashes (repeat sep i ++ join_sep T) = i.
Proof.
  intros Hi HT _. destruct i as [|i].
  - cbn [repeat app]. apply initial_slashes_rel, tail_rel, HT.
  - apply initial_slashes_repeat; [lia|apply tail_rel, HT].
Qed.

(* Path(child string) has the same root and one more tail element *)
Lemma pathlib_child_parts s n : plain n ->
  initial_slashes (pathlib_child_str s n) = initial_slashes s /\
  pathlib_tail (pathlib_child_str s n) = pathlib_tail s ++ [n].
Proof.
  intros Hn. pose proof (pathlib_tail_ok s) as HT. pose proof (initial_slashes_le2 s) as Hi.
  pose proof (keep_comp_tailc n (plain_tailc n Hn)) as Kn.
  unfold pathlib_child_str. rewrite pathlib_str_form. unfold pl_form.
  set (i := initial_slashes s) in *. destruct (pathlib_tail s) as [|c l] eqn:Et; cbn [is_nil negb].
  - cbn [join_sep]. rewrite app_nil_r. destruct i as [|i].
    + cbn [repeat]. cbn [bytes_eqb negb Ascii.eqb]. change (bytes_eqb dot dot) with true. cbn [negb].
      split; [apply initial_slashes_rel, plain_rel, Hn|].
      rewrite pathlib_tail_spec, (split_path_nosep n (plain_nosep n Hn)). cbn [filter]. rewrite Kn. reflexivity.
    + assert (E : bytes_eqb (repeat sep (S i)) dot = false) by reflexivity.
      cbn [repeat] in *. rewrite E. cbn [negb]. change (sep :: repeat sep i) with (repeat sep (S i)). split.
      * apply initial_slashes_repeat; [lia|apply plain_rel, Hn].
      * rewrite pathlib_tail_spec, split_path_repeat_sep, filter_app, filter_repeat_empty.
        rewrite (split_path_nosep n (plain_nosep n Hn)). cbn [filter app]. rewrite Kn. reflexivity.
  - rewrite <- Et in *. assert (Ne : pathlib_tail s <> []) by (rewrite Et; discriminate).
    pose proof (tail_has_name _ HT Ne) as Hh.
    assert (Ef : match repeat sep i ++ join_sep (pathlib_tail s) with [] => dot | p => p end
                 = repeat sep i ++ join_sep (pathlib_tail s)).
    { destruct (repeat sep i ++ join_sep (pathlib_tail s)) eqn:E; [|reflexivity].
      apply (f_equal has_name) in E. rewrite has_name_app, Hh, orb_true_r in E. discriminate. }
    rewrite Ef. split.
    + rewrite initial_slashes_has_name by (rewrite has_name_app, Hh; apply orb_true_r).
      apply slashes_form; assumption.
    + rewrite pathlib_tail_spec, split_path_app_sep, split_path_repeat_sep, !filter_app, filter_repeat_empty.
      rewrite (split_join _ Ne) by (eapply Forall_impl; [|exact HT]; intros a Ha; apply Ha).
      rewrite (split_path_nosep n (plain_nosep n Hn)). cbn [filter app]. rewrite Kn.
      rewrite filter_all; [reflexivity|]. eapply Forall_impl; [|exact HT]. exact keep_comp_tailc.
Qed.

Lemma pathlib_descend_form ns : forall s, Forall plain ns ->
  pathlib_descend s ns = pl_form (initial_slashes s) (pathlib_tail s ++ ns).
Proof.
  induction ns as [|n ns IH]; intros s H.
  - cbn [pathlib_descend]. rewrite app_nil_r. apply pathlib_str_form.
  - inversion H; subst. cbn [pathlib_descend]. rewrite IH by assumption.
    destruct (pathlib_child_parts s n) as [-> ->]; [assumption|]. rewrite <- app_assoc. reflexivity.
Qed.

(* str(Path(s) / n1 / ... / nk) = (a prefix that depends on s only) + "n1/.../nk": the strings that
   utils._filelist_total sorts differ from the relative names by a common prefix *)
Theorem pathlib_descend_prefix s : exists pre, forall ns, Forall plain ns -> ns <> [] ->
  pathlib_descend s ns = pre ++ join_sep ns.
Proof.
  exists (repeat sep (initial_slashes s) ++
          match pathlib_tail s with [] => [] | _ :: _ => join_sep (pathlib_tail s) ++ [sep] end).
  intros ns Hns Hne. rewrite pathlib_descend_form by exact Hns. unfold pl_form.
  assert (Hh : has_name (join_sep ns) = true).
  { apply tail_has_name; [|exact Hne]. eapply Forall_impl; [|exact Hns]. exact plain_tailc. }
  assert (Ej : join_sep (pathlib_tail s ++ ns) =
               match pathlib_tail s with [] => [] | _ :: _ => join_sep (pathlib_tail s) ++ [sep] end ++ join_sep ns).
  { destruct (pathlib_tail s) as [|c l] eqn:Et; [reflexivity|].
    rewrite join_sep_app by (discriminate || exact Hne). rewrite <- app_assoc. reflexivity. }
  rewrite Ej, !app_assoc.
  destruct ((repeat sep (initial_slashes s) ++ _) ++ join_sep ns) eqn:E at 1; [|rewrite <- E; reflexivity].
  apply (f_equal has_name) in E. rewrite has_name_app, Hh, orb_true_r in E. discriminate.
Qed.

(* ========================================================================================== *)
(* 7. the expressions before the repair a68fdb6 (D12) are NOT spelling independent             *)
(* ========================================================================================== *)

Lemma same_location_trailing_dot cwd s : has_name s = true -> same_location cwd s (s ++ sep :: dot).
Proof.
  intros H. eapply sl_trans; [apply sl_trailing; exact H|].
  eapply sl_trans.
  - replace (s ++ [sep]) with ((s ++ [sep]) ++ []) by apply app_nil_r.
    apply sl_dot. right. split; [apply ends_sep_snoc|left; rewrite has_name_app, H; reflexivity].
  - apply sl_sym. replace ((s ++ [sep]) ++ dot ++ [sep]) with ((s ++ sep :: dot) ++ [sep])
      by (rewrite <- !app_assoc; reflexivity).
    apply sl_trailing. rewrite has_name_app, H. reflexivity.
Qed.

Theorem old_name_refuted :
  exists cwd s s', is_abs cwd = true /\ same_location cwd s s' /\
    old_name s <> old_name s' /\ old_name_v2 s <> old_name_v2 s' /\
    old_name s' = dot /\ name_of cwd s' = s /\ name_of cwd s = s /\
    old_name_v2 (s ++ [sep]) = [] /\ name_of cwd (s ++ [sep]) = s.
Proof.
  exists (pth "/home/u"), (pth "data"), (pth "data/.").
  split; [reflexivity|]. split; [apply (same_location_trailing_dot _ (pth "data")); reflexivity|].
  repeat split; vm_compute; first [reflexivity | discriminate].
Qed.

(* ========================================================================================== *)
(* Examples                                                                                    *)
(* ========================================================================================== *)
Module PathSemExamples.

Example ex_name_1 : name_of (pth "/home/u") (pth "proj/./data//") = pth "data".
Proof. vm_compute. reflexivity. Qed.
Example ex_name_2 : name_of (pth "/home/u/proj/data") (pth ".") = pth "data".
Proof. vm_compute. reflexivity. Qed.
Example ex_name_3 : name_of (pth "/home/u") (pth "proj/x/../data/.") = pth "data".
Proof. vm_compute. reflexivity. Qed.
Example ex_abspath : abspath (pth "/home/u") (pth "proj/./data//") = pth "/home/u/proj/data".
Proof. vm_compute. reflexivity. Qed.
Example ex_two_slashes : abspath (pth "//net/x") (pth "a/../b") = pth "//net/x/b".
Proof. vm_compute. reflexivity. Qed.
Example ex_old_name : old_name (pth "proj/data/.") = pth "." /\ old_name_v2 (pth "proj/data/") = pth "".
Proof. split; vm_compute; reflexivity. Qed.
Example ex_rel_1 :
  rel_components (pth "/home/u") (child_path (pth "proj/./data//") [pth "a"; pth "b.txt"]) (pth "proj/./data//")
  = [pth "a"; pth "b.txt"].
Proof. vm_compute. reflexivity. Qed.
Example ex_rel_2 :
  rel_components (pth "/home/u") (pathlib_descend (pth "./proj//data/.") [pth "a"; pth "b.txt"]) (pth "./proj//data/.")
  = [pth "a"; pth "b.txt"].
Proof. vm_compute. reflexivity. Qed.
Example ex_rel_dot :
  rel_components (pth "/home/u/proj/data") (child_path (pth ".") [pth "a"]) (pth ".") = [pth "a"].
Proof. vm_compute. reflexivity. Qed.
Example ex_same_location : same_location (pth "/home/u") (pth "proj") (pth "/home/u/proj/.").
Proof.
  eapply sl_trans; [apply sl_absolute; reflexivity|].
  apply (same_location_trailing_dot _ (pth "/home/u/proj")). reflexivity.
Qed.
End PathSemExamples.
