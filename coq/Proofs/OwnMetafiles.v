(* C05, composition: the metafiles the creator models write (Model/Creators.v) satisfy the premises
   of the recheck theorems (Model/CheckPaths.v, Model/Recheck.v), end to end through
   Model/RecheckInit.v [recheck_model]:

     recheck_model fs (create_X ... t) base = Some (size, size, size)

   for every file system [fs] that holds the tree t at [base] ([holds]).  Sections:
     1. lists, digests cut into slices
     2. content trees on disk: node_at, holds, disk_of
     3. the written metafile as the checker reads it (top level, info)
     4. v1 (plain and --align, directory and single file)
     5. v2 and hybrid (class-based creators and the assembler) *)
From TF Require Import Lib.Base Lib.Decimal Lib.Chunks Spec.Bep52 Spec.RecheckSpec
                       Model.Bencode Model.Hasher Model.HasherV2 Model.Creators Model.CheckPaths
                       Model.Recheck Model.RecheckInit
                       Proofs.BencodeProofs Proofs.HasherCorrect Proofs.HasherV2Correct
                       Proofs.RecheckV1 Proofs.RecheckResult Proofs.RecheckV2 Proofs.RecheckBep52
                       Proofs.CheckPathsProofs Proofs.CreatorsProofs Proofs.CreatorsProofs2.
From TF Require Import Lib.Lex.
From Coq Require Import Permutation Sorted.

Ltac neq := apply Lex.bytes_eqb_neq; vm_compute; reflexivity.
Ltac lk := repeat first [ rewrite lookup_update_same | rewrite lookup_update_other by neq ].

(* ========================================================================================== *)
(* 1. lists                                                                                    *)
(* ========================================================================================== *)

Lemma all_some_map_Some {A C} (f : A -> C) l : all_some (map (fun x => Some (f x)) l) = Some (map f l).
Proof. induction l as [|x l IH]; [reflexivity|]. cbn [map all_some]. rewrite IH. reflexivity. Qed.

Lemma all_some_map_ext {A C} (g : A -> option C) (f : A -> C) l :
  Forall (fun x => g x = Some (f x)) l -> all_some (map g l) = Some (map f l).
Proof.
  induction 1 as [|x l Hx _ IH]; [reflexivity|]. cbn [map all_some]. rewrite Hx, IH. reflexivity.
Qed.

Lemma nat_of_len_of_nat n : nat_of_len (Z.of_nat n) = Some n.
Proof.
  unfold nat_of_len. destruct (Z.ltb_spec (Z.of_nat n) 0) as [C|_]; [lia|]. rewrite Nat2Z.id. reflexivity.
Qed.

(* `pieces[count * N : count * N + N]` is the count-th element of the cut string, b"" beyond the end *)
Lemma nth_chunks_slice {A} n (s : list A) j : 0 < n ->
  nth j (chunks n s) [] = firstn n (skipn (j * n) s).
Proof.
  intros Hn. pose proof (nth_error_chunks n Hn j s) as E.
  destruct (nth_error (chunks n s) j) as [p|] eqn:N.
  - rewrite (nth_error_nth _ _ _ N). destruct (firstn n (skipn (j * n) s)); congruence.
  - rewrite nth_overflow by (apply nth_error_None; exact N).
    destruct (firstn n (skipn (j * n) s)); congruence.
Qed.

(* digests of one size, concatenated and cut again *)
Lemma cut_digests n (H : bytes -> bytes) xs : 0 < n -> (forall x, length (H x) = n) ->
  chunks n (concat (map H xs)) = map H xs.
Proof.
  intros Hn HL. apply chunks_all_full; [exact Hn|]. apply Forall_map, Forall_forall. intros x _. apply HL.
Qed.

Lemma sum_nat_list_sum l : sum_nat l = list_sum l.
Proof. reflexivity. Qed.

Lemma sum_nat_perm l l' : Permutation l l' -> sum_nat l = sum_nat l'.
Proof. apply list_sum_perm. Qed.

Lemma sum_nat_app a b : sum_nat (a ++ b) = sum_nat a + sum_nat b.
Proof.
  unfold sum_nat. induction a as [|x a IH]; [reflexivity|]. cbn [app fold_right]. rewrite IH. lia.
Qed.

(* ========================================================================================== *)
(* 2. content trees on disk                                                                    *)
(* ========================================================================================== *)

Lemma files_of_rel t : forall rel,
  files_of rel t = map (fun f => (rel ++ fst f, snd f)) (files_of [] t).
Proof.
  induction t as [d|es IH] using node_ind'; intros rel.
  - cbn [files_of map fst snd]. rewrite app_nil_r. reflexivity.
  - cbn [files_of]. rewrite !flat_map_concat_map, concat_map, map_map. f_equal.
    apply map_ext_Forall. eapply Forall_impl; [|exact IH]. intros e He.
    rewrite (He (rel ++ [fst e])), (He ([] ++ [fst e])), map_map. apply map_ext. intros f.
    cbn [fst snd app]. rewrite <- app_assoc. reflexivity.
Qed.

Lemma files_of_Dir_in es p d :
  In (p, d) (files_of [] (Dir es)) <->
  exists e p', In e es /\ p = fst e :: p' /\ In (p', d) (files_of [] (snd e)).
Proof.
  cbn [files_of]. rewrite in_flat_map. split.
  - intros (e & He & Hin). rewrite files_of_rel in Hin. apply in_map_iff in Hin.
    destruct Hin as ([p' d'] & E & Hin). cbn [fst snd app] in E. injection E as <- <-.
    exists e, p'. repeat split; assumption.
  - intros (e & p' & He & -> & Hin). exists e. split; [exact He|].
    rewrite files_of_rel. apply in_map_iff. exists (p', d). split; [reflexivity|exact Hin].
Qed.

Lemma find_entry_In es : NoDup (map fst es) -> forall e, In e es -> find_entry (fst e) es = Some (snd e).
Proof.
  induction es as [|e0 es IH]; intros Hn e Hin; [destruct Hin|]. destruct Hin as [->|Hin]; cbn [find_entry].
  - rewrite Lex.bytes_eqb_refl. reflexivity.
  - cbn [map] in Hn. inversion Hn as [|x l Hx Hl]; subst.
    destruct (Lex.bytes_eqb_spec (fst e0) (fst e)) as [E|_]; [|apply IH; assumption].
    exfalso. apply Hx. rewrite E. apply in_map. exact Hin.
Qed.

(* every file of a well-formed tree is found at its component list *)
Lemma node_at_file t : wf_node t -> forall p d, In (p, d) (files_of [] t) -> node_at t p = Some (File d).
Proof.
  induction t as [d0|es IH] using node_ind'; intros Hwf p d Hin.
  - cbn [files_of] in Hin. destruct Hin as [E|[]]. injection E as <- <-. reflexivity.
  - apply wf_Dir in Hwf. destruct Hwf as [[Hn _] Hc].
    apply files_of_Dir_in in Hin. destruct Hin as (e & p' & He & -> & Hin).
    cbn [node_at]. rewrite (find_entry_In es Hn e He).
    rewrite Forall_forall in IH, Hc. apply (IH e He (Hc e He)). exact Hin.
Qed.

Lemma strip_prefix_app base rel : strip_prefix base (base ++ rel) = Some rel.
Proof.
  induction base as [|b base IH]; [reflexivity|]. cbn [app strip_prefix].
  rewrite Lex.bytes_eqb_refl. exact IH.
Qed.

(* what the theorems need of a file system: the payload root exists and is a file exactly when the tree
   is one, and every file of the tree is at base/<components> with its content.  Nothing is said about
   any other path. *)
Definition holds (fs : fsys) (base : cpath) (t : node) : Prop :=
  fs_exists fs base = true /\ fs_isfile fs base = is_file t /\
  forall p d, In (p, d) (files_of [] t) ->
    fs_exists fs (base ++ p) = true /\ fs_read fs (base ++ p) = Some d.

Lemma tree_lookup_app base t rel : tree_lookup base t (base ++ rel) = node_at t rel.
Proof. unfold tree_lookup. rewrite strip_prefix_app. reflexivity. Qed.

Theorem disk_of_holds base t : wf_node t -> holds (disk_of base t) base t.
Proof.
  intros Hwf. unfold holds, disk_of. cbn [fs_exists fs_isfile fs_read].
  assert (E0 : tree_lookup base t base = Some t).
  { pose proof (tree_lookup_app base t []) as E. rewrite app_nil_r in E. exact E. }
  rewrite E0. split; [reflexivity|]. split; [destruct t; reflexivity|].
  intros p d Hin. rewrite tree_lookup_app, (node_at_file t Hwf p d Hin). split; reflexivity.
Qed.

Lemma holds_disk_entry fs base t p d : holds fs base t -> In (p, d) (files_of [] t) ->
  disk_entry fs (base ++ p) = Some (Some d).
Proof.
  intros (_ & _ & Hf) Hin. destruct (Hf p d Hin) as [E R]. unfold disk_entry. rewrite E, R. reflexivity.
Qed.

(* the payload root is found from the root itself and (when the parent is not named like the payload: D33)
   from its parent directory *)
Lemma holds_find_root fs base t name path :
  holds fs base t -> last base [] = name ->
  path = base \/
  (base = path ++ [name] /\ fs_exists fs path = true /\ last path [] <> name /\
   exists es, fs_listdir fs path = Some es /\ In name es) ->
  find_root (fs_exists fs) (fs_listdir fs) name path = Some base.
Proof.
  intros (Hex & _) Hl [->|(-> & He & Hn & es & Hls & Hin)].
  - apply find_root_payload_root; assumption.
  - apply (find_root_parent _ _ name path es); assumption.
Qed.

Definition tree_size (t : node) : nat := sum_nat (map (fun f => length (snd f)) (files_of [] t)).

(* ========================================================================================== *)
(* 3. the written metafile as Checker.__init__ reads it                                        *)
(* ========================================================================================== *)

Lemma written_info_lookup meta info : NoDup (map fst meta) ->
  lookup k_info (sort_meta (close_meta meta info)) = Some (BDict (sort_keys info)).
Proof.
  intros Hn. rewrite sort_meta_close.
  rewrite sort_layers_lookup_other; [|apply update_NoDup; exact Hn|neq].
  unfold close_meta. apply lookup_update_same.
Qed.

(* `self.meta["info"]` of a written metafile is the dictionary [info_of] names *)
Definition reads_info (m : value) : Prop :=
  exists meta, m = BDict meta /\ lookup ck_info meta = Some (BDict (info_of m)).

Lemma written_reads_info meta info : NoDup (map fst meta) ->
  reads_info (BDict (sort_meta (close_meta meta info))).
Proof.
  intros Hn. eexists. split; [reflexivity|]. unfold info_of, top_get.
  change ck_info with k_info. rewrite (written_info_lookup meta info Hn). reflexivity.
Qed.

(* Checker.__init__ + the dispatch of piece_checker, given what the four reads return *)
Lemma recheck_model_eq H1 H256 B fs m path name root fis total :
  reads_info m ->
  info_get k_name m = Some (BStr name) ->
  find_root (fs_exists fs) (fs_listdir fs) name path = Some root ->
  check_paths (info_of m) name root (fs_isfile fs root) = Some (fis, total) ->
  recheck_model H1 H256 B fs m path =
  match (if meta_version_of (info_of m) =? 1 then recheck_v1_model H1 fs (info_of m) fis
         else match m with
              | BDict meta => recheck_v2_model H256 B fs meta (info_of m) fis
              | _ => None
              end) with
  | Some (mt, cs) => Some (total, mt, cs)
  | None => None
  end.
Proof.
  intros (meta & -> & Ei) En Er Ec. unfold recheck_model, checker_init. rewrite Ei.
  unfold info_get in En. change ck_name with k_name. rewrite En, Er, Ec. reflexivity.
Qed.

(* ========================================================================================== *)
(* 4. v1                                                                                       *)
(* ========================================================================================== *)

(* an entry of info["files"] as check_paths reads it: a dictionary with an integer "length" and a
   non-empty list of strings under "path" (other keys, e.g. "attr", are not looked at) *)
Definition item_ok (it : value) (e : v1_entry) : Prop :=
  exists d, it = BDict d /\ lookup ck_length d = Some (BInt (ve_length e)) /\
            lookup ck_path d = Some (BList (map BStr (ve_path e))) /\ ve_path e <> [] /\
            attr_of d = Some (ve_attr e).

Lemma v1_files_gen root items descr : Forall2 item_ok items descr ->
  v1_files root items = Some (map (fun e => mk_fi (root ++ ve_path e) (ve_length e) None (ve_attr e)) descr).
Proof.
  induction 1 as [|it [[cs n] a] items descr (d & -> & El & Ep & Hne & Ea) _ IH]; [reflexivity|].
  cbn [v1_files map ve_path ve_length ve_attr fst snd] in *. rewrite El, Ep, comps_of_strs, Ea.
  destruct cs as [|c cs]; [contradiction|]. rewrite IH. reflexivity.
Qed.

Lemma file_entry_ok rel n : rel <> [] -> item_ok (file_entry rel n) (rel, Z.of_nat n, None).
Proof.
  intros Hne. eexists. split; [reflexivity|]. cbn [ve_path ve_length ve_attr fst snd].
  repeat split; try reflexivity. exact Hne.
Qed.

Lemma pad_entry_ok n : item_ok (pad_entry n) ([s_pad; dec_of_nat n], Z.of_nat n, Some s_p).
Proof.
  eexists. split; [reflexivity|]. cbn [ve_path ve_length ve_attr fst snd].
  repeat split; try reflexivity. discriminate.
Qed.

(* the generalisation of C05_v1 that also covers entries without a file (pad files): whatever the disk
   state, if the recorded digests are those of its zero-filled stream then everything matches *)
Theorem feed_matches_own_stream (H1 : bytes -> bytes) pl lens disk :
  0 < pl -> length lens = length disk -> disk_within lens disk ->
  let recorded := map H1 (spec_pieces_v1 pl lens disk) in
  iter_hashes (feed_trace H1 pl lens disk recorded) = (sum_nat lens, sum_nat lens).
Proof.
  intros Hpl Hlen Hw recorded.
  assert (Hc : consumed (feed_trace H1 pl lens disk recorded) = sum_nat lens).
  { rewrite feed_trace_exact by assumption. apply spec_consumed_total; assumption. }
  assert (Hm : matched (feed_trace H1 pl lens disk recorded) = consumed (feed_trace H1 pl lens disk recorded)).
  { rewrite feed_trace_exact by assumption. rewrite matched_spec, consumed_spec.
    apply matched_eq_consumed_iff. unfold spec_trace_v1, recorded.
    apply (pair_recorded_self H1 (spec_pieces_v1 pl lens disk) []). }
  unfold matched, consumed in *. destruct (iter_hashes _) as [a b]. cbn [fst snd] in *. congruence.
Qed.

(* the layout a v1 metafile describes: (path components, recorded length, what is on disk there) *)
Definition layout_item := (list bytes * nat * option bytes)%type.
Definition li_path (x : layout_item) : list bytes := fst (fst x).
Definition li_len (x : layout_item) : nat := snd (fst x).
Definition li_disk (x : layout_item) : option bytes := snd x.

Definition aligned_layout (pl : nat) (f : list bytes * bytes) : list layout_item :=
  (fst f, length (snd f), Some (snd f)) ::
  (let r := neg_mod (length (snd f)) pl in
   if r =? 0 then [] else [([s_pad; dec_of_nat r], r, None)]).

Definition v1_layout (align : bool) (pl : nat) (fl : list (list bytes * bytes)) : list layout_item :=
  if align then flat_map (aligned_layout pl) fl
  else map (fun f => (fst f, length (snd f), Some (snd f))) fl.

(* an entry without a file is a pad entry: attr "p" *)
Definition li_attr (x : layout_item) : option bytes :=
  match li_disk x with Some _ => None | None => Some s_p end.

Definition layout_descr (x : layout_item) : v1_entry := (li_path x, Z.of_nat (li_len x), li_attr x).

Definition layout_fi (root : cpath) (x : layout_item) : fileinfo :=
  mk_fi (root ++ li_path x) (Z.of_nat (li_len x)) None (li_attr x).

Lemma v1_items_ok align pl fl : Forall (fun f => fst f <> []) fl ->
  match v1_files_value align pl fl with
  | BList items => Forall2 item_ok items (map layout_descr (v1_layout align pl fl))
  | _ => False
  end.
Proof.
  intros Hne. unfold v1_files_value, v1_layout. destruct align.
  - induction Hne as [|f fl Hf _ IH]; [constructor|]. cbn [flat_map]. rewrite map_app.
    apply Forall2_app; [|exact IH]. unfold v1_aligned_entries, aligned_layout. cbv zeta.
    constructor; [apply file_entry_ok; exact Hf|].
    destruct (neg_mod (length (snd f)) pl =? 0); constructor; [apply pad_entry_ok|constructor].
  - induction Hne as [|f fl Hf _ IH]; [constructor|]. cbn [map]. constructor; [|exact IH].
    apply file_entry_ok. exact Hf.
Qed.

(* the zero-filled stream of that layout is what the creator hashed *)
Lemma v1_layout_stream align pl fl :
  spec_stream_v1 (map li_len (v1_layout align pl fl)) (map li_disk (v1_layout align pl fl)) =
  if align then concat (map (pad_to pl) (map snd fl)) else concat (map snd fl).
Proof.
  unfold spec_stream_v1, v1_layout. destruct align.
  - induction fl as [|f fl IH]; [reflexivity|]. cbn [flat_map map]. rewrite !map_app.
    unfold aligned_layout at 1 3. cbv zeta. rewrite pad_to_neg_mod.
    destruct (neg_mod (length (snd f)) pl =? 0) eqn:E.
    + apply Nat.eqb_eq in E. rewrite E. cbn [map app map2 concat li_len li_disk fst snd zero_fill].
      rewrite IH, Nat.sub_diag. reflexivity.
    + cbn [map app map2 concat li_len li_disk fst snd zero_fill]. rewrite IH, Nat.sub_diag.
      cbn [zeros repeat]. rewrite app_nil_r, <- app_assoc. reflexivity.
  - induction fl as [|f fl IH]; [reflexivity|].
    cbn [map map2 concat li_len li_disk fst snd zero_fill]. rewrite IH, Nat.sub_diag.
    cbn [zeros repeat]. rewrite app_nil_r. reflexivity.
Qed.

Lemma v1_layout_within align pl fl :
  disk_within (map li_len (v1_layout align pl fl)) (map li_disk (v1_layout align pl fl)).
Proof.
  unfold v1_layout. destruct align.
  - induction fl as [|f fl IH]; [exact I|]. cbn [flat_map]. rewrite !map_app.
    unfold aligned_layout at 1 3. cbv zeta.
    destruct (neg_mod (length (snd f)) pl =? 0);
      cbn [map app disk_within file_within li_len li_disk fst snd]; repeat split; try apply le_n; exact IH.
  - induction fl as [|f fl IH]; [exact I|].
    cbn [map disk_within file_within li_len li_disk fst snd]. split; [apply le_n|exact IH].
Qed.

Definition v1_size (align : bool) (pl : nat) (fl : list (list bytes * bytes)) : nat :=
  sum_nat (map li_len (v1_layout align pl fl)).

Lemma v1_size_plain pl fl : v1_size false pl fl = sum_nat (map (fun f => length (snd f)) fl).
Proof. unfold v1_size, v1_layout. rewrite map_map. reflexivity. Qed.

Section V1.
Variable H1 H256 : bytes -> bytes.
Variable B : nat.
Hypothesis H1_len : forall x, length (H1 x) = 20.

(* the core: an info dictionary that records a layout and the digests of its zero-filled stream,
   checked against a file system that has exactly that layout under the root *)
Lemma recheck_v1_layout fs info root (lay : list layout_item) pl pieces_stream :
  0 < pl ->
  lookup rk_piece_length info = Some (BInt (Z.of_nat pl)) ->
  lookup ck_pieces info = Some (BStr (concat (map H1 (chunks pl pieces_stream)))) ->
  spec_stream_v1 (map li_len lay) (map li_disk lay) = pieces_stream ->
  disk_within (map li_len lay) (map li_disk lay) ->
  Forall (fun x => forall d, li_disk x = Some d -> disk_entry fs (root ++ li_path x) = Some (Some d)) lay ->
  recheck_v1_model H1 fs info (map (layout_fi root) lay) =
  Some (sum_nat (map li_len lay), sum_nat (map li_len lay)).
Proof.
  intros Hpl Epl Epc Es Hw Hd. unfold recheck_v1_model, feed_init, piece_length_of.
  rewrite Epl, nat_of_len_of_nat, Epc. rewrite !map_map. cbn [layout_fi fi_length].
  rewrite (all_some_map_ext _ li_len) by (apply Forall_forall; intros x _; apply nat_of_len_of_nat).
  rewrite (all_some_map_ext _ li_disk).
  2:{ eapply Forall_impl; [|exact Hd]. intros x Hx. unfold feed_entry, fi_padding, layout_fi, li_attr.
      cbn [fi_attr fi_path]. destruct (li_disk x) as [d|] eqn:E; [exact (Hx d E)|reflexivity]. }
  unfold SHA1_LEN. rewrite cut_digests by (exact H1_len || lia).
  rewrite <- Es. f_equal.
  apply (feed_matches_own_stream H1 pl (map li_len lay) (map li_disk lay) Hpl);
    [rewrite !map_length; reflexivity|exact Hw].
Qed.

(* ---------- what check_paths makes of a v1 info dictionary ---------- *)

Lemma check_paths_v1_dir info name root f items descr :
  lookup ck_length info = None -> lookup ck_meta_version info = None ->
  lookup ck_files info = Some (BList items) -> Forall2 item_ok items descr ->
  check_paths info name root f =
  Some (map (fun e => mk_fi (root ++ ve_path e) (ve_length e) None (ve_attr e)) descr,
        sum_lengths (map (fun e => mk_fi (root ++ ve_path e) (ve_length e) None (ve_attr e)) descr)).
Proof.
  intros El Ev Ef Hok. unfold check_paths, single_length, meta_version_of, has. rewrite El, Ev.
  cbn [Nat.eqb]. rewrite Ef, (v1_files_gen root items descr Hok). reflexivity.
Qed.

Lemma check_paths_v1_single info name root f n :
  lookup ck_length info = Some (BInt n) -> lookup ck_meta_version info = None ->
  check_paths info name root f = Some ([mk_fi root n None None], n).
Proof.
  intros El Ev. unfold check_paths, single_length, meta_version_of, has. rewrite El, Ev. reflexivity.
Qed.

Lemma sum_lengths_layout root lay :
  sum_lengths (map (layout_fi root) lay) = Z.of_nat (sum_nat (map li_len lay)).
Proof.
  induction lay as [|x lay IH]; [reflexivity|].
  cbn [map]. change (sum_lengths (?a :: ?l)) with (fi_length a + sum_lengths l)%Z.
  rewrite IH. cbn [fi_length layout_fi]. unfold sum_nat. cbn [fold_right]. lia.
Qed.

(* ---------- the v1 creator ---------- *)

Lemma create_v1_reads_info align o rootstr name pl t :
  reads_info (create_v1 H1 align o rootstr name pl t).
Proof.
  unfold create_v1. rewrite create_v1_raw_eq. apply written_reads_info, meta_init_meta_NoDup.
Qed.

Lemma create_v1_no_meta_version align o rootstr name pl t :
  info_get k_meta_version (create_v1 H1 align o rootstr name pl t) = None.
Proof.
  rewrite create_v1_info_get. unfold v1_info. cbv zeta.
  destruct (is_file t); lk; apply meta_init_info_other; neq.
Qed.

Lemma filelist_dir_paths_nonempty rootstr es :
  Forall (fun f => fst f <> []) (snd (filelist_total rootstr (Dir es))).
Proof.
  apply Forall_forall. intros [p d] Hin.
  apply (Permutation_in _ (filelist_total_files rootstr (Dir es))) in Hin.
  apply files_of_Dir_in in Hin. destruct Hin as (e & p' & _ & -> & _). discriminate.
Qed.

Lemma layout_on_disk fs base t align pl fl :
  holds fs base t -> (forall f, In f fl -> In f (files_of [] t)) ->
  Forall (fun x => forall d, li_disk x = Some d -> disk_entry fs (base ++ li_path x) = Some (Some d))
         (v1_layout align pl fl).
Proof.
  intros Hh Hfl. unfold v1_layout. destruct align.
  - apply Forall_forall. intros x Hx. apply in_flat_map in Hx.
    destruct Hx as ([p d] & Hf & Hx). unfold aligned_layout in Hx. cbv zeta in Hx. cbn [fst snd] in Hx.
    destruct Hx as [<-|Hx].
    + cbn [li_path li_disk fst snd]. intros d' [= <-].
      apply (holds_disk_entry fs base t p d Hh). apply Hfl. exact Hf.
    + destruct (neg_mod (length d) pl =? 0); [destruct Hx|]. destruct Hx as [<-|[]].
      cbn [li_disk snd]. discriminate.
  - apply Forall_map. apply Forall_forall. intros [p d] Hf. cbn [li_path li_disk fst snd]. intros d' [= <-].
    apply (holds_disk_entry fs base t p d Hh). apply Hfl. exact Hf.
Qed.

(* the recorded size: the payload, plus the pad entries with --align *)
Definition v1_recorded_size (align : bool) (rootstr : bytes) (pl : nat) (t : node) : nat :=
  match t with
  | File d => length d
  | Dir _ => v1_size align pl (snd (filelist_total rootstr t))
  end.

Theorem own_v1_verify align o rootstr name pl t fs base path :
  0 < pl -> wf_node t -> has_file t ->
  find_root (fs_exists fs) (fs_listdir fs) name path = Some base ->
  holds fs base t ->
  let n := v1_recorded_size align rootstr pl t in
  recheck_model H1 H256 B fs (create_v1 H1 align o rootstr name pl t) path = Some (Z.of_nat n, n, n).
Proof.
  intros Hpl Hwf Hf Hroot Hh n.
  set (m := create_v1 H1 align o rootstr name pl t).
  destruct (create_v1_name_piece_length H1 align o rootstr name pl t) as [En Epl]. cbv zeta in En, Epl.
  fold m in En, Epl.
  pose proof (create_v1_no_meta_version align o rootstr name pl t) as Ev. fold m in Ev.
  destruct Hh as (Hex & Hisf & Hfiles).
  assert (Hmv : meta_version_of (info_of m) = 1).
  { unfold meta_version_of, has. unfold info_get in Ev. change ck_meta_version with k_meta_version.
    rewrite Ev. reflexivity. }
  destruct t as [d|es].
  - (* single file *)
    destruct (create_v1_single_file H1 align o rootstr name pl d Hpl) as (El & _ & Ep). cbv zeta in El, Ep.
    fold m in El, Ep.
    rewrite (recheck_model_eq H1 H256 B fs m path name base [mk_fi base (Z.of_nat (length d)) None None]
               (Z.of_nat (length d)) (create_v1_reads_info _ _ _ _ _ _) En Hroot).
    2:{ apply check_paths_v1_single; [exact El|exact Ev]. }
    rewrite Hmv. cbn [Nat.eqb].
    pose proof (recheck_v1_layout fs (info_of m) base [([], length d, Some d)] pl d Hpl Epl Ep) as R.
    cbn [map] in R. unfold layout_fi, li_attr in R. cbn [li_len li_disk li_path fst snd sum_nat fold_right] in R.
    rewrite app_nil_r, Nat.add_0_r in R. unfold n. cbn [v1_recorded_size]. rewrite R; [reflexivity| | |].
    + unfold spec_stream_v1. cbn [map2 concat zero_fill]. rewrite Nat.sub_diag. cbn [zeros repeat].
      rewrite !app_nil_r. reflexivity.
    + cbn [disk_within file_within]. split; [apply le_n|exact I].
    + constructor; [|constructor]. cbn [li_path li_disk fst snd]. rewrite app_nil_r. intros d' [= <-].
      specialize (Hfiles [] d (or_introl eq_refl)). rewrite app_nil_r in Hfiles. destruct Hfiles as [E R'].
      unfold disk_entry. rewrite E, R'. reflexivity.
  - (* directory *)
    set (fl := snd (filelist_total rootstr (Dir es))).
    assert (Hperm : Permutation fl (files_of [] (Dir es))) by apply filelist_total_files.
    assert (Hne : map snd fl <> []).
    { intros C. apply map_eq_nil in C. rewrite C in Hperm. apply Permutation_nil in Hperm.
      apply Hf. exact Hperm. }
    assert (Efiles : info_get k_files m = Some (v1_files_value align pl fl)).
    { unfold m. rewrite create_v1_info_get. unfold v1_info. cbv zeta. cbn [is_file]. lk. reflexivity. }
    assert (Elen : info_get k_length m = None).
    { unfold m. rewrite create_v1_info_get. unfold v1_info. cbv zeta. cbn [is_file]. lk.
      apply meta_init_info_other; neq. }
    assert (Epieces : info_get k_pieces m =
              Some (BStr (concat (map H1 (chunks pl
                 (if align then concat (map (pad_to pl) (map snd fl)) else concat (map snd fl))))))).
    { unfold m. rewrite create_v1_info_get. unfold v1_info. cbv zeta. cbn [is_file]. lk.
      fold fl. destruct align;
        [rewrite hasher_pieces_align by assumption|rewrite hasher_pieces_noalign by assumption]; reflexivity. }
    pose proof (v1_items_ok align pl fl (filelist_dir_paths_nonempty rootstr es)) as Hok.
    destruct (v1_files_value align pl fl) as [| |items|] eqn:Eitems; try contradiction.
    set (lay := v1_layout align pl fl) in *.
    rewrite (recheck_model_eq H1 H256 B fs m path name base
               (map (layout_fi base) lay)
               (Z.of_nat (sum_nat (map li_len lay))) (create_v1_reads_info _ _ _ _ _ _) En Hroot).
    2:{ rewrite <- sum_lengths_layout with (root := base).
        rewrite (check_paths_v1_dir (info_of m) name base (fs_isfile fs base) items (map layout_descr lay))
          by assumption.
        rewrite map_map. reflexivity. }
    rewrite Hmv. cbn [Nat.eqb].
    pose proof (recheck_v1_layout fs (info_of m) base lay pl _ Hpl Epl Epieces
                  (v1_layout_stream align pl fl) (v1_layout_within align pl fl)) as R.
    match goal with |- match ?X with _ => _ end = _ =>
      assert (RX : X = Some (sum_nat (map li_len lay), sum_nat (map li_len lay))) end.
    { apply R. apply (layout_on_disk fs base (Dir es)); [exact (conj Hex (conj Hisf Hfiles))|].
      intros f Hin. apply (Permutation_in _ Hperm). exact Hin. }
    rewrite RX. reflexivity.
Qed.

(* without --align the recorded size is the size of the payload *)
Lemma v1_recorded_size_plain rootstr pl t : v1_recorded_size false rootstr pl t = tree_size t.
Proof.
  unfold v1_recorded_size, tree_size. destruct t as [d|es].
  - cbn [files_of map snd sum_nat fold_right]. lia.
  - rewrite v1_size_plain. apply sum_nat_perm, Permutation_map, filelist_total_files.
Qed.

Theorem own_v1_plain_verify o rootstr name pl t fs base path :
  0 < pl -> wf_node t -> has_file t ->
  find_root (fs_exists fs) (fs_listdir fs) name path = Some base -> holds fs base t ->
  recheck_model H1 H256 B fs (create_v1 H1 false o rootstr name pl t) path =
  Some (Z.of_nat (tree_size t), tree_size t, tree_size t).
Proof.
  intros Hpl Hwf Hf Hlast Hh.
  pose proof (own_v1_verify false o rootstr name pl t fs base path Hpl Hwf Hf Hlast Hh) as R.
  cbv zeta in R. rewrite v1_recorded_size_plain in R. exact R.
Qed.

(* --align: every entry of info["files"] is accounted for, the pad entries as zeros -- whatever the file system
   holds at their paths (since the repair of D39; before it: aligned_pad_path_collision_before_repair_refuted) *)
Theorem own_v1_aligned_verify o rootstr name pl t fs base path :
  0 < pl -> wf_node t -> has_file t ->
  find_root (fs_exists fs) (fs_listdir fs) name path = Some base -> holds fs base t ->
  let n := v1_recorded_size true rootstr pl t in
  recheck_model H1 H256 B fs (create_v1 H1 true o rootstr name pl t) path = Some (Z.of_nat n, n, n).
Proof. exact (own_v1_verify true o rootstr name pl t fs base path). Qed.

(* with --align the recorded size of a directory payload is every file rounded up to the piece length *)
Lemma v1_recorded_size_aligned rootstr pl es :
  v1_recorded_size true rootstr pl (Dir es) =
  sum_nat (map (fun f => length (snd f) + neg_mod (length (snd f)) pl) (files_of [] (Dir es))).
Proof.
  unfold v1_recorded_size, v1_size.
  rewrite <- (sum_nat_perm _ _ (Permutation_map _ (filelist_total_files rootstr (Dir es)))).
  unfold v1_layout. induction (snd (filelist_total rootstr (Dir es))) as [|f fl IH]; [reflexivity|].
  cbn [flat_map map]. rewrite map_app, sum_nat_app, IH. unfold aligned_layout. cbv zeta.
  destruct (neg_mod (length (snd f)) pl =? 0) eqn:E.
  - apply Nat.eqb_eq in E. unfold sum_nat in *. cbn [map li_len fst snd fold_right].
    f_equal. f_equal. symmetry. exact E.
  - unfold sum_nat in *. cbn [map li_len fst snd fold_right]. rewrite Nat.add_0_r. reflexivity.
Qed.

(* the two premises of C05_v1_intact, separately (directory payload, no --align): where the checker looks
   and with which lengths; what the recorded string is once cut into digests *)
Theorem own_v1_check_paths o rootstr name pl es base f :
  let m := create_v1 H1 false o rootstr name pl (Dir es) in
  let fl := snd (filelist_total rootstr (Dir es)) in
  Permutation fl (files_of [] (Dir es)) /\
  check_paths (info_of m) name base f =
  Some (map (fun x => mk_fi (base ++ fst x) (Z.of_nat (length (snd x))) None None) fl,
        Z.of_nat (sum_nat (map (fun x => length (snd x)) fl))).
Proof.
  cbv zeta. set (m := create_v1 H1 false o rootstr name pl (Dir es)).
  set (fl := snd (filelist_total rootstr (Dir es))).
  destruct (create_v1_dir_files H1 o rootstr name pl es) as (Hp & Ef & El & _). cbv zeta in Hp, Ef, El.
  fold m in Ef, El. fold fl in Hp, Ef. split; [exact Hp|].
  pose proof (create_v1_no_meta_version false o rootstr name pl (Dir es)) as Ev. fold m in Ev.
  pose proof (v1_items_ok false pl fl (filelist_dir_paths_nonempty rootstr es)) as Hok.
  unfold v1_files_value in Hok.
  rewrite (check_paths_v1_dir (info_of m) name base f _ _ El Ev Ef Hok).
  rewrite (map_map layout_descr). change (fun x => mk_fi (base ++ ve_path (layout_descr x))
    (ve_length (layout_descr x)) None (ve_attr (layout_descr x))) with (layout_fi base).
  rewrite sum_lengths_layout. unfold v1_layout. rewrite !map_map. reflexivity.
Qed.

Theorem own_v1_recorded_digests o rootstr name pl es :
  0 < pl -> has_file (Dir es) ->
  let m := create_v1 H1 false o rootstr name pl (Dir es) in
  let fl := snd (filelist_total rootstr (Dir es)) in
  exists pieces, lookup ck_pieces (info_of m) = Some (BStr pieces) /\
    chunks SHA1_LEN pieces = map H1 (chunks pl (concat (map snd fl))).
Proof.
  intros Hpl Hf. cbv zeta. eexists. split.
  - exact (create_v1_dir_pieces H1 o rootstr name pl es Hpl Hf).
  - unfold SHA1_LEN. apply cut_digests; [lia|exact H1_len].
Qed.

End V1.

(* a non-empty file somewhere: the size is positive, so matched = consumed > 0 *)
Lemma tree_size_pos t : (exists p d, In (p, d) (files_of [] t) /\ d <> []) -> 0 < tree_size t.
Proof.
  intros (p & d & Hin & Hd). unfold tree_size.
  induction (files_of [] t) as [|f l IH]; [destruct Hin|]. cbn [map sum_nat fold_right].
  destruct Hin as [->|Hin].
  - cbn [snd]. destruct d; [congruence|cbn [length]; lia].
  - specialize (IH Hin). unfold sum_nat in IH. lia.
Qed.

(* ========================================================================================== *)
(* 5. v2 and hybrid                                                                            *)
(* ========================================================================================== *)

Section V2.
Variable H1 H256 : bytes -> bytes.
Variable B : nat.
Hypothesis HB : 0 < B.
Variable k pl : nat.
Hypothesis Hpl : pl = B * 2 ^ k.
Hypothesis H256_len : forall x, length (H256 x) = 32.

Let pl_pos : 0 < pl := HasherV2Correct.pl_pos B HB k pl Hpl.

Notation root := (bep52_root H256 B).
Notation layer := (bep52_piece_layer H256 B k).
Notation leaf_of := (leaf_of H256 B pl).
Notation leaf_value := (leaf_value H256 B).

(* ---------- digest sizes ---------- *)

Lemma root_len (d : bytes) : d <> [] -> length (root d) = 32.
Proof.
  intros Hd. unfold bep52_root. cbv zeta. apply (tree_root_len H256 H256_len).
  - unfold pad_leaves, leaves. intros C. apply app_eq_nil in C. destruct C as [C _].
    apply map_eq_nil in C. revert C. apply Merkle.chunks_nonempty; assumption.
  - intros x Hx. unfold pad_leaves in Hx. apply in_app_or in Hx. destruct Hx as [Hx|Hx].
    + unfold leaves in Hx. apply in_map_iff in Hx. destruct Hx as (b & <- & _). apply H256_len.
    + apply repeat_spec in Hx. subst x. apply zeros_length.
Qed.

Lemma layer_hashes_32 (d : bytes) : Forall (fun x => length x = 32) (layer d).
Proof.
  unfold bep52_piece_layer. apply Forall_map. apply Forall_forall. intros g Hg.
  pose proof (chunks_elems_nonempty (2 ^ k) (leaves H256 B d) (Merkle.pow2_pos k)) as Hne.
  rewrite Forall_forall in Hne. specialize (Hne g Hg).
  apply (tree_root_len H256 H256_len).
  - unfold pad_leaves. destruct g; [congruence|discriminate].
  - intros x Hx. unfold pad_leaves in Hx. apply in_app_or in Hx. destruct Hx as [Hx|Hx].
    + apply (in_chunks_in _ _ _ _ (Merkle.pow2_pos k) Hg) in Hx. unfold leaves in Hx.
      apply in_map_iff in Hx. destruct Hx as (b & <- & _). apply H256_len.
    + apply repeat_spec in Hx. subst x. apply zeros_length.
Qed.

(* ---------- walk_file_tree over the tree the creators write ---------- *)

Definition root_opt (d : bytes) : option bytes := if length d =? 0 then None else Some (root d).

(* the fileinfo entry of a file: base/<components>, its length, its root unless it is empty *)
Definition fi_of (base : cpath) (f : list bytes * bytes) : fileinfo :=
  mk_fi (base ++ fst f) (Z.of_nat (length (snd f))) (root_opt (snd f)) None.

Lemma leaf_info_value full d :
  leaf_info full (leaf_value d) = Some (mk_fi full (Z.of_nat (length d)) (root_opt d) None).
Proof. destruct d; reflexivity. Qed.

Lemma walk_entries base (es : list (bytes * node)) :
  Forall (fun e => forall partials key,
            walk_val base partials key (BDict (tree_ord leaf_of (snd e))) =
            Some (map (fi_of base) (files_of (partials ++ [key]) (snd e)))) es ->
  forall ps, walk_tree base ps (map (on_snd (fun c => BDict (tree_ord leaf_of c))) es) =
             Some (map (fi_of base) (flat_map (fun e => files_of (ps ++ [fst e]) (snd e)) es)).
Proof.
  induction 1 as [|e es He _ IH]; intros ps; [reflexivity|].
  cbn [map walk_tree flat_map on_snd]. rewrite He, IH, map_app. reflexivity.
Qed.

Lemma walk_val_tree base u : wf_node u -> forall partials key,
  walk_val base partials key (BDict (tree_ord leaf_of u)) =
  Some (map (fi_of base) (files_of (partials ++ [key]) u)).
Proof.
  induction u as [d|es IH] using node_ind'; intros Hwf partials key; rewrite walk_val_dict.
  - cbn [tree_ord]. rewrite (leaf_of_spec H256 B HB k pl Hpl). cbn [lookup Lex.bytes_eqb ck_empty k_empty].
    rewrite leaf_info_value. reflexivity.
  - apply wf_Dir in Hwf. destruct Hwf as [[_ Hok] Hc]. cbn [tree_ord].
    assert (E : lookup ck_empty (map (on_snd (fun c => BDict (tree_ord leaf_of c))) es) = None).
    { apply lookup_None. rewrite map_fst_on_snd. intros Hin. rewrite Forall_forall in Hok.
      destruct (Hok _ Hin) as [C _]. apply C. reflexivity. }
    rewrite E. cbn [files_of]. apply walk_entries.
    rewrite Forall_forall in *. intros e He. apply IH; [exact He|apply Hc; exact He].
Qed.

Lemma single_length_dir info name tree :
  lookup ck_length info = None -> lookup ck_file_tree info = Some (BDict tree) ->
  Forall (fun kv => exists d, snd kv = BDict d) tree ->
  single_length info name false = Some None.
Proof.
  intros El Et Hd. unfold single_length. rewrite El.
  destruct (Nat.eqb (meta_version_of info) 2); [|reflexivity].
  rewrite Et. destruct tree as [|[k0 v] [|kv tree]]; try reflexivity.
  inversion Hd as [|x l (d & Ev) _]; subst. cbn [snd] in Ev. subst v.
  destruct (Lex.bytes_eqb k0 name); [|reflexivity].
  destruct (lookup ck_empty d) as [[| | |leaf]|]; reflexivity.
Qed.

Lemma mv_not_1 info v : lookup ck_meta_version info = Some v ->
  Nat.eqb (meta_version_of info) 1 = false /\ Nat.ltb 1 (meta_version_of info) = true.
Proof.
  intros Ev. unfold meta_version_of, has. rewrite Ev. destruct (lookup ck_pieces info); split; reflexivity.
Qed.

(* a directory payload: one entry per file, in the order of the tree dictionary *)
Lemma check_paths_v2_dir info name base es v :
  wf_node (Dir es) -> lookup ck_length info = None -> lookup ck_meta_version info = Some v ->
  lookup ck_file_tree info = Some (BDict (tree_ord leaf_of (Dir es))) ->
  check_paths info name base false =
  Some (map (fi_of base) (files_of [] (Dir es)), sum_lengths (map (fi_of base) (files_of [] (Dir es)))).
Proof.
  intros Hwf El Ev Et. unfold check_paths.
  rewrite (single_length_dir info name _ El Et).
  2:{ cbn [tree_ord]. apply Forall_map, Forall_forall. intros e _. eexists. reflexivity. }
  destruct (mv_not_1 info v Ev) as [E1 _]. rewrite E1, Et.
  apply wf_Dir in Hwf. destruct Hwf as [_ Hc].
  cbn [tree_ord files_of]. rewrite (walk_entries base es); [reflexivity|].
  rewrite Forall_forall in *. intros e He partials key. apply walk_val_tree. apply Hc. exact He.
Qed.

(* a single-file payload: the root itself *)
Lemma check_paths_v2_single info name base f d v :
  lookup ck_length info = Some (BInt (Z.of_nat (length d))) -> lookup ck_meta_version info = Some v ->
  lookup ck_file_tree info = Some (BDict [(name, BDict [(k_empty, leaf_value d)])]) ->
  check_paths info name base f =
  Some ([mk_fi base (Z.of_nat (length d)) (root_opt d) None], Z.of_nat (length d)).
Proof.
  intros El Ev Et. unfold check_paths, single_length. rewrite El.
  destruct (mv_not_1 info v Ev) as [_ E2]. rewrite E2, Et. cbn [lookup]. rewrite Lex.bytes_eqb_refl.
  destruct d; reflexivity.
Qed.

(* ---------- HashChecker.next_file on such an entry ---------- *)

Lemma hash_file_own fs layers path (d : bytes) :
  disk_entry fs path = Some (Some d) ->
  (pl < length d -> lookup (root d) layers = Some (BStr (concat (layer d)))) ->
  hash_file H256 B fs layers pl (mk_fi path (Z.of_nat (length d)) (root_opt d) None) =
  Some (v2_listed H256 B k pl d (Some d)).
Proof.
  intros Ed El. unfold hash_file. cbn [fi_length fi_path fi_root]. rewrite nat_of_len_of_nat, Ed.
  unfold v2_listed, bep52_recorded, fh_layers, root_opt. cbn [option_map]. unfold SHA256_LEN.
  destruct (pl <? length d) eqn:E.
  - apply Nat.ltb_lt in E. destruct d as [|a d']; [cbn [length] in E; lia|]. cbn [length Nat.eqb].
    rewrite (El E). rewrite chunks_all_full by (lia || apply layer_hashes_32). reflexivity.
  - destruct d as [|a d']; [reflexivity|]. cbn [length Nat.eqb].
    assert (L : length (root (a :: d')) = 32) by (apply root_len; discriminate).
    rewrite chunks_short; [reflexivity|lia| |lia].
    intros C. rewrite C in L. discriminate.
Qed.

(* ---------- the four v2-capable creators ---------- *)

Definition reads_layers (m : value) : Prop :=
  exists meta, m = BDict meta /\ lookup rk_piece_layers meta = Some (BDict (layers_of m)).

Lemma v2_capable_shape o name t m :
  wf_node t -> v2_capable_output H1 H256 B pl o name t m ->
  reads_info m /\ reads_layers m /\
  info_get k_name m = Some (BStr name) /\
  info_get k_piece_length m = Some (BInt (Z.of_nat pl)) /\
  info_get k_meta_version m = Some (BInt 2) /\
  info_get k_file_tree m = Some (file_tree_value H256 B pl name t) /\
  info_get k_length m = match t with File d => Some (BInt (Z.of_nat (length d))) | Dir _ => None end.
Proof.
  intros Hwf Hm.
  assert (Hs : exists INFO, NoDup (map fst INFO) /\
            m = BDict (sort_meta (close_meta (v2_meta H256 B pl o name t) INFO)) /\
            lookup k_name INFO = Some (BStr name) /\
            lookup k_piece_length INFO = Some (BInt (Z.of_nat pl)) /\
            lookup k_meta_version INFO = Some (BInt 2) /\
            lookup k_file_tree INFO = Some (file_tree_value H256 B pl name t) /\
            lookup k_length INFO = match t with File d => Some (BInt (Z.of_nat (length d))) | Dir _ => None end).
  { destruct Hm as [Hm|Hm].
    - exists (v2_info H256 B pl o name t). split; [apply v2_info_NoDup|].
      split; [apply (v2_output_eq H1 H256 B HB k pl Hpl o name t m Hwf Hm)|].
      destruct (v2_info_file_tree H256 B pl o name t) as [E1 E2].
      unfold CreatorsProofs2.v2_info in *. cbv zeta in *.
      repeat split; try assumption; destruct t; lk;
        try apply meta_init_name; try apply meta_init_piece_length; try reflexivity.
      apply meta_init_info_other; neq.
    - exists (hybrid_info H1 H256 B pl o name t). split; [apply hybrid_info_NoDup|].
      split; [apply (hybrid_output_eq H1 H256 B HB k pl Hpl o name t m Hwf Hm)|].
      destruct (hybrid_info_file_tree H1 H256 B pl o name t) as [E1 E2].
      unfold CreatorsProofs2.hybrid_info in *. cbv zeta in *.
      repeat split; try assumption; destruct t; lk;
        try apply meta_init_name; try apply meta_init_piece_length; try reflexivity.
      apply meta_init_info_other; neq. }
  destruct Hs as (INFO & Hn & -> & En & Ep & Ev & Et & El).
  pose proof (v2_meta_NoDup H256 B pl o name t) as Hmn.
  split; [apply written_reads_info; exact Hmn|]. split.
  - eexists. split; [reflexivity|]. unfold layers_of.
    pose proof (layers_of_top_get _ INFO _ Hmn (v2_meta_layers H256 B pl o name t)) as E.
    rewrite E. unfold top_get in E. exact E.
  - rewrite !written_info_get by assumption. repeat split; assumption.
Qed.

(* no two files larger than a piece share a root while having different piece layers (true of SHA-256 as
   far as anyone knows; identical files satisfy it): "piece layers" is keyed by the root alone *)
Definition no_layer_collision (t : node) : Prop :=
  forall p1 d1 p2 d2, In (p1, d1) (files_of [] t) -> In (p2, d2) (files_of [] t) ->
    pl < length d1 -> pl < length d2 -> root d1 = root d2 -> layer d1 = layer d2.

Lemma in_files_of_rel rel t p d : In (p, d) (files_of rel t) -> exists p', In (p', d) (files_of [] t).
Proof.
  rewrite files_of_rel. intros Hin. apply in_map_iff in Hin. destruct Hin as ([p' d'] & E & Hin).
  cbn [fst snd] in E. injection E as _ <-. exists p'. exact Hin.
Qed.

Lemma own_layer_lookup o name t m p d :
  wf_node t -> v2_capable_output H1 H256 B pl o name t m -> no_layer_collision t ->
  In (p, d) (files_of [] t) -> pl < length d ->
  lookup (root d) (layers_of m) = Some (BStr (concat (layer d))).
Proof.
  intros Hwf Hm Hnc Hin Hd.
  apply (piece_layers_own H1 H256 B HB k pl Hpl o name t m (root_rel t ++ p) d Hwf Hm).
  - intros p1 d1 p2 d2 I1 I2. apply in_files_of_rel in I1, I2.
    destruct I1 as [q1 I1]. destruct I2 as [q2 I2]. apply (Hnc q1 d1 q2 d2 I1 I2).
  - rewrite files_of_rel. apply in_map_iff. exists (p, d). split; [reflexivity|exact Hin].
  - exact Hd.
Qed.

Lemma tree_size_sort_tree t : tree_size (sort_tree t) = tree_size t.
Proof. unfold tree_size. apply sum_nat_perm, Permutation_map, files_of_sort_tree. Qed.

(* the first premise of C05_v2_intact_bep52 (directory payload): walk_file_tree lists exactly the files of the
   tree, in per-directory sorted order, each with its length and (unless empty) its BEP 52 root *)
Theorem own_v2_check_paths o name es m base :
  wf_node (Dir es) -> v2_capable_output H1 H256 B pl o name (Dir es) m ->
  check_paths (info_of m) name base false =
  Some (map (fi_of base) (files_of [] (sort_tree (Dir es))), Z.of_nat (tree_size (Dir es))).
Proof.
  intros Hwf Hm.
  destruct (v2_capable_shape o name _ m Hwf Hm) as (_ & _ & _ & _ & Ev & Et & El).
  unfold info_get in Ev, Et, El.
  assert (Hwfs : wf_node (sort_tree (Dir es))) by (apply wf_sort_tree; exact Hwf).
  cbn [sort_tree] in Hwfs.
  rewrite (check_paths_v2_dir (info_of m) name base _ _ Hwfs El Ev).
  - cbn [sort_tree]. f_equal. f_equal. rewrite <- tree_size_sort_tree.
    unfold tree_size. cbn [sort_tree].
    induction (files_of [] (Dir (sort_names (map (on_snd sort_tree) es)))) as [|f l IH]; [reflexivity|].
    cbn [map]. change (sum_lengths (?a :: ?r)) with (fi_length a + sum_lengths r)%Z.
    rewrite IH. cbn [fi_of fi_length]. unfold sum_nat. cbn [fold_right]. rewrite Nat2Z.inj_add. reflexivity.
  - etransitivity; [exact Et|reflexivity].
Qed.

Theorem own_v2_verify o name t m fs base path :
  wf_node t -> v2_capable_output H1 H256 B pl o name t m -> no_layer_collision t ->
  find_root (fs_exists fs) (fs_listdir fs) name path = Some base -> holds fs base t ->
  recheck_model H1 H256 B fs m path = Some (Z.of_nat (tree_size t), tree_size t, tree_size t).
Proof.
  intros Hwf Hm Hnc Hroot Hh.
  destruct (v2_capable_shape o name t m Hwf Hm) as (Hri & (meta & Em & Hlay) & En & Ep & Ev & Et & El).
  pose proof (fun p d => own_layer_lookup o name t m p d Hwf Hm Hnc) as Hlook.
  destruct Hh as (Hex & Hisf & Hfiles).
  unfold info_get in En, Ep, Ev, Et, El.
  assert (Hmv : (meta_version_of (info_of m) =? 1) = false)
    by (apply (mv_not_1 _ _ Ev)).
  (* the files in the order of the tree dictionary *)
  set (files := files_of [] (sort_tree t)).
  assert (Hin : forall f, In f files -> In f (files_of [] t))
    by (intros f; apply Permutation_in, files_of_sort_tree).
  assert (Hcheck : exists fis,
            check_paths (info_of m) name base (fs_isfile fs base) = Some (fis, Z.of_nat (tree_size t)) /\
            all_some (map (hash_file H256 B fs (layers_of m) pl) fis) =
            Some (map (fun d => v2_listed H256 B k pl d (Some d)) (map snd files))).
  { destruct t as [d|es].
    - exists [mk_fi base (Z.of_nat (length d)) (root_opt d) None]. split.
      + rewrite (check_paths_v2_single (info_of m) name base _ d _ El Ev).
        * unfold tree_size. cbn [files_of map snd sum_nat fold_right]. rewrite Nat.add_0_r. reflexivity.
        * etransitivity; [exact Et|]. unfold CreatorsProofs2.file_tree_value, CreatorsProofs2.tree_spec.
          cbn [sort_tree tree_ord]. rewrite (leaf_of_spec H256 B HB k pl Hpl). reflexivity.
      + cbn [map all_some sort_tree files_of snd] in *. unfold files. cbn [sort_tree files_of map snd].
        rewrite hash_file_own; [reflexivity| |].
        * specialize (Hfiles [] d (or_introl eq_refl)). rewrite app_nil_r in Hfiles.
          destruct Hfiles as [E R]. unfold disk_entry. rewrite E, R. reflexivity.
        * apply (Hlook [] d). left; reflexivity.
    - exists (map (fi_of base) files). split.
      + rewrite Hisf. cbn [is_file]. apply (own_v2_check_paths o name es m base Hwf Hm).
      + rewrite !map_map.
        apply (all_some_map_ext _ (fun f => v2_listed H256 B k pl (snd f) (Some (snd f)))).
        apply Forall_forall. intros [p d] Hf. unfold fi_of. cbn [fst snd]. apply hash_file_own.
        * apply (holds_disk_entry fs base (Dir es) p d); [exact (conj Hex (conj Hisf Hfiles))|].
          apply Hin. exact Hf.
        * apply (Hlook p d). apply Hin. exact Hf. }
  destruct Hcheck as (fis & Hcp & Hall).
  rewrite (recheck_model_eq H1 H256 B fs m path name base fis _ Hri En Hroot Hcp).
  rewrite Hmv. subst m. unfold recheck_v2_model, hash_init, piece_length_of.
  change rk_piece_length with k_piece_length. rewrite Ep, nat_of_len_of_nat, Hlay, Hall.
  destruct (C05_v2_bep52 H256 B HB k pl Hpl (map snd files)) as [Cm Cc]. cbv zeta in Cm, Cc.
  unfold matched, consumed in Cm, Cc.
  destruct (iter_hashes _) as [a b]. cbn [fst snd] in Cm, Cc.
  assert (Es : sum_nat (map (@length _) (map snd files)) = tree_size t).
  { rewrite <- tree_size_sort_tree. unfold tree_size, files. rewrite map_map. reflexivity. }
  rewrite Es in Cc. subst a b. reflexivity.
Qed.

End V2.

(* the two pure-v2 creators and the two hybrid creators, separately *)
Theorem own_v2_only_verify H1 H256 B (HB : 0 < B) k pl (Hpl : pl = B * 2 ^ k)
  (H256_len : forall x, length (H256 x) = 32) o name t m fs base path :
  wf_node t -> v2_output H1 H256 B pl o name t m -> no_layer_collision H256 B k pl t ->
  find_root (fs_exists fs) (fs_listdir fs) name path = Some base -> holds fs base t ->
  recheck_model H1 H256 B fs m path = Some (Z.of_nat (tree_size t), tree_size t, tree_size t).
Proof.
  intros Hwf Hm. apply (own_v2_verify H1 H256 B HB k pl Hpl H256_len o name t m fs base path Hwf).
  left; exact Hm.
Qed.

Theorem own_hybrid_verify H1 H256 B (HB : 0 < B) k pl (Hpl : pl = B * 2 ^ k)
  (H256_len : forall x, length (H256 x) = 32) o name t m fs base path :
  wf_node t -> hybrid_output H1 H256 B pl o name t m -> no_layer_collision H256 B k pl t ->
  find_root (fs_exists fs) (fs_listdir fs) name path = Some base -> holds fs base t ->
  recheck_model H1 H256 B fs m path = Some (Z.of_nat (tree_size t), tree_size t, tree_size t).
Proof.
  intros Hwf Hm. apply (own_v2_verify H1 H256 B HB k pl Hpl H256_len o name t m fs base path Hwf).
  right; exact Hm.
Qed.

Lemma feed_entry_padding fs path n r : feed_entry fs (mk_fi path n r (Some ["p"%char])) = Some None.
Proof. reflexivity. Qed.

(* ---------- D39: the reading before the repair ---------- *)
(* FeedChecker.iter_pieces as it was before commit 5b63ee0: `if os.path.exists(path):` without the look at "attr";
   the rest of the checker unchanged.  Kept only to state what the repair changed. *)
Definition feed_init_old (fs : fsys) (info : dict) (fis : list fileinfo)
  : option (nat * list nat * list (option bytes) * list bytes) :=
  match piece_length_of info, lookup ck_pieces info,
        all_some (map (fun fi => nat_of_len (fi_length fi)) fis),
        all_some (map (fun fi => disk_entry fs (fi_path fi)) fis) with
  | Some pl, Some (BStr pieces), Some lens, Some disk => Some (pl, lens, disk, chunks SHA1_LEN pieces)
  | _, _, _, _ => None
  end.

Definition recheck_v1_model_old (H1 : bytes -> bytes) (fs : fsys) (info : dict) (fis : list fileinfo)
  : option (nat * nat) :=
  match feed_init_old fs info fis with
  | Some (pl, lens, disk, recorded) => Some (iter_hashes (feed_trace H1 pl lens disk recorded))
  | None => None
  end.

Definition recheck_model_old (H1 H256 : bytes -> bytes) (B : nat) (fs : fsys) (m : value) (path : cpath)
  : option (Z * nat * nat) :=
  match m with
  | BDict meta =>
      match checker_init (fs_exists fs) (fs_isfile fs) (fs_listdir fs) meta path,
            lookup ck_info meta with
      | Some (_, fis, total), Some (BDict info) =>
          match (if meta_version_of info =? 1 then recheck_v1_model_old H1 fs info fis
                 else recheck_v2_model H256 B fs meta info fis) with
          | Some (mt, cs) => Some (total, mt, cs)
          | None => None
          end
      | _, _ => None
      end
  | _ => None
  end.

(* --align and a payload that itself has a file at a pad path (.pad/<n>): the pad entry's path exists, so the
   old FeedChecker hashed that file's bytes where the creator hashed zeros -- intact content, 50 %.  (Real code
   before the repair: payload {.pad/1 = "x", a = 16383 bytes}, piece length 16 KiB, align=True:
   Checker(...).results() = 50.0.)  With the repair the same payload verifies: d39_payload_verifies. *)
Module PadCollision.
Import CreatorsExamples CreatorsProofs2Examples.
Import String.StringSyntax.
Definition pad_tree : node :=
  Dir [ (bs ".pad", Dir [(bs "1", File (bs "x"))]); (bs "a", File (bs "AAA")) ].
Definition pad_base : cpath := [bs "w"; bs "r"].
Definition pad_name : bytes := bs "r".
Lemma pad_tree_wf : wf_node pad_tree.
Proof. apply wf_nodeb_sound. vm_compute. reflexivity. Qed.
Lemma pad_has_file : has_file pad_tree.
Proof. vm_compute. discriminate. Qed.
Lemma pad_find_root :
  find_root (fs_exists (disk_of pad_base pad_tree)) (fs_listdir (disk_of pad_base pad_tree)) pad_name pad_base
  = Some pad_base.
Proof. reflexivity. Qed.
End PadCollision.

Theorem aligned_pad_path_collision_before_repair_refuted :
  exists (H1 H256 : bytes -> bytes) (B : nat) o rootstr name pl t fs base,
    (forall x, length (H1 x) = 20) /\ 0 < pl /\ wf_node t /\ has_file t /\ last base [] = name /\
    holds fs base t /\
    recheck_model_old H1 H256 B fs (create_v1 H1 true o rootstr name pl t) base = Some (8%Z, 4, 8).
Proof.
  exists CreatorsProofs2Examples.X1, CreatorsProofs2Examples.X256, 2, CreatorsExamples.ex_opts,
    PadCollision.pad_name, PadCollision.pad_name, 4, PadCollision.pad_tree, (disk_of PadCollision.pad_base PadCollision.pad_tree),
    PadCollision.pad_base.
  split; [exact CreatorsProofs2Examples.X1_len|]. split; [lia|]. split; [exact PadCollision.pad_tree_wf|].
  split; [exact PadCollision.pad_has_file|]. split; [reflexivity|].
  split; [apply disk_of_holds, PadCollision.pad_tree_wf|]. vm_compute. reflexivity.
Qed.

(* the very payload of D39 under the repaired code: by the theorem (no side condition left), and its value *)
Example d39_payload_verifies :
  recheck_model CreatorsProofs2Examples.X1 CreatorsProofs2Examples.X256 2
    (disk_of PadCollision.pad_base PadCollision.pad_tree)
    (create_v1 CreatorsProofs2Examples.X1 true CreatorsExamples.ex_opts PadCollision.pad_name PadCollision.pad_name 4
       PadCollision.pad_tree) PadCollision.pad_base = Some (8%Z, 8, 8).
Proof.
  exact (own_v1_aligned_verify CreatorsProofs2Examples.X1 CreatorsProofs2Examples.X256 2
           CreatorsProofs2Examples.X1_len CreatorsExamples.ex_opts PadCollision.pad_name PadCollision.pad_name 4
           PadCollision.pad_tree (disk_of PadCollision.pad_base PadCollision.pad_tree)
           PadCollision.pad_base PadCollision.pad_base (Nat.lt_0_succ 3) PadCollision.pad_tree_wf
           PadCollision.pad_has_file PadCollision.pad_find_root
           (disk_of_holds PadCollision.pad_base PadCollision.pad_tree PadCollision.pad_tree_wf)).
Qed.

(* ---------- examples: the theorems instantiated (toy hashes of the right lengths, B = 2, pl = 4) ---------- *)
Module OwnMetafilesExamples.
Import CreatorsExamples CreatorsProofsExamples CreatorsProofs2Examples.
Import String.StringSyntax.

Definition ex_base : cpath := [bs "w"; bs "r"].
Definition ex_fs : fsys := disk_of ex_base ex_tree.

Lemma ex_holds : holds ex_fs ex_base ex_tree.
Proof. apply disk_of_holds, ex_tree_wf. Qed.

Lemma ex_find_root : find_root (fs_exists ex_fs) (fs_listdir ex_fs) (bs "r") ex_base = Some ex_base.
Proof. apply (holds_find_root ex_fs ex_base ex_tree); [exact ex_holds|reflexivity|left; reflexivity]. Qed.

Lemma ex_has_file : has_file ex_tree.
Proof. vm_compute. discriminate. Qed.

Example ex_own_v1 :
  recheck_model X1 X256 2 ex_fs (create_v1 X1 false ex_opts (bs "r") (bs "r") 4 ex_tree) ex_base =
  Some (18%Z, 18, 18).
Proof.
  exact (own_v1_plain_verify X1 X256 2 X1_len ex_opts (bs "r") (bs "r") 4 ex_tree ex_fs ex_base ex_base
           (Nat.lt_0_succ 3) ex_tree_wf ex_has_file ex_find_root ex_holds).
Qed.

Example ex_own_v1_aligned :
  recheck_model X1 X256 2 ex_fs (create_v1 X1 true ex_opts (bs "r") (bs "r") 4 ex_tree) ex_base =
  Some (24%Z, 24, 24).
Proof.
  exact (own_v1_verify X1 X256 2 X1_len true ex_opts (bs "r") (bs "r") 4 ex_tree ex_fs ex_base ex_base
           (Nat.lt_0_succ 3) ex_tree_wf ex_has_file ex_find_root ex_holds).
Qed.

(* two files larger than pl = 4 ("hello", "0123456789") with different roots *)
Lemma ex_no_collision : no_layer_collision X256 2 1 4 ex_tree.
Proof.
  intros p1 d1 p2 d2 I1 I2. vm_compute in I1, I2.
  destruct I1 as [I1|[I1|[I1|[I1|[]]]]]; injection I1 as <- <-;
  destruct I2 as [I2|[I2|[I2|[I2|[]]]]]; injection I2 as <- <-;
    intros L1 L2 R; try reflexivity; try (vm_compute in L1; lia); try (vm_compute in L2; lia);
    vm_compute in R; discriminate R.
Qed.

Example ex_own_v2 :
  recheck_model X1 X256 2 ex_fs (create_v2_class X256 2 ex_opts (bs "r") 4 ex_tree) ex_base =
  Some (18%Z, 18, 18).
Proof.
  exact (own_v2_only_verify X1 X256 2 HB2 1 4 Hpl4 X256_len ex_opts (bs "r") ex_tree _ ex_fs ex_base ex_base
           ex_tree_wf (out_v2_class X1 X256 2 4 ex_opts (bs "r") ex_tree) ex_no_collision ex_find_root ex_holds).
Qed.

Example ex_own_hybrid :
  recheck_model X1 X256 2 ex_fs (create_assembler X1 X256 2 true ex_opts (bs "r") 4 ex_tree) ex_base =
  Some (18%Z, 18, 18).
Proof.
  exact (own_hybrid_verify X1 X256 2 HB2 1 4 Hpl4 X256_len ex_opts (bs "r") ex_tree _ ex_fs ex_base ex_base
           ex_tree_wf (out_hybrid_assembler X1 X256 2 4 ex_opts (bs "r") ex_tree) ex_no_collision
           ex_find_root ex_holds).
Qed.
End OwnMetafilesExamples.

Print Assumptions disk_of_holds.
Print Assumptions feed_matches_own_stream.
Print Assumptions own_v1_verify.
Print Assumptions own_v1_plain_verify.
Print Assumptions own_v2_verify.
Print Assumptions own_v1_check_paths.
Print Assumptions own_v1_recorded_digests.
Print Assumptions own_v2_check_paths.
Print Assumptions own_v2_only_verify.
Print Assumptions own_hybrid_verify.
Print Assumptions holds_find_root.
Print Assumptions tree_size_pos.
Print Assumptions aligned_pad_path_collision_before_repair_refuted.
Print Assumptions d39_payload_verifies.
Print Assumptions own_v1_aligned_verify.
Print Assumptions v1_recorded_size_aligned.
