(* C16 result arithmetic, locality, and the v1 corollaries C04_v1 / C05_v1. *)
From TF Require Import Lib.Base Lib.Chunks Spec.RecheckSpec Model.Recheck Proofs.RecheckV1.

(* ---------- the loop of Checker.iter_hashes computes the two sums ---------- *)

Lemma iter_hashes_loop_spec tr : forall m c,
  iter_hashes_loop tr m c = (m + matched_of tr, c + consumed_of tr).
Proof.
  unfold matched_of, consumed_of, sum_nat.
  induction tr as [|[v s] tr IH]; intros m c.
  - cbn [iter_hashes_loop map sum_nat fold_right]. rewrite !Nat.add_0_r. reflexivity.
  - cbn [iter_hashes_loop]. rewrite IH. cbn [map sum_nat fold_right fst snd].
    destruct v; f_equal; lia.
Qed.

Lemma matched_spec tr : matched tr = matched_of (verdicts tr).
Proof. unfold matched, iter_hashes. rewrite iter_hashes_loop_spec. reflexivity. Qed.

Lemma consumed_spec tr : consumed tr = consumed_of (verdicts tr).
Proof. unfold consumed, iter_hashes. rewrite iter_hashes_loop_spec. reflexivity. Qed.

Lemma matched_of_cons v s tr :
  matched_of ((v, s) :: tr) = (if v then s else 0) + matched_of tr.
Proof. reflexivity. Qed.

Lemma consumed_of_cons v s tr : consumed_of ((v, s) :: tr) = s + consumed_of tr.
Proof. reflexivity. Qed.

Lemma consumed_of_app a b : consumed_of (a ++ b) = consumed_of a + consumed_of b.
Proof.
  induction a as [|[v s] a IH]; [reflexivity|].
  rewrite <- app_comm_cons, !consumed_of_cons, IH. lia.
Qed.

Theorem matched_le_consumed tr : matched_of tr <= consumed_of tr.
Proof.
  induction tr as [|[v s] tr IH]; [apply le_n|].
  rewrite matched_of_cons, consumed_of_cons. destruct v; lia.
Qed.

Definition piece_ok (vs : bool * nat) : Prop := 0 < snd vs -> fst vs = true.

Theorem matched_eq_consumed_iff tr :
  matched_of tr = consumed_of tr <-> Forall piece_ok tr.
Proof.
  induction tr as [|[v s] tr IH].
  - split; [constructor|reflexivity].
  - rewrite matched_of_cons, consumed_of_cons.
    pose proof (matched_le_consumed tr) as Hle. split.
    + intros E. constructor.
      * unfold piece_ok. cbn [fst snd]. intros Hs. destruct v; [reflexivity|lia].
      * apply IH. destruct v; lia.
    + intros F. inversion F as [|x l Hok Hrest]; subst.
      apply IH in Hrest. unfold piece_ok in Hok. cbn [fst snd] in Hok.
      destruct v; [lia|]. destruct s; [lia|]. assert (false = true) by (apply Hok; lia).
      discriminate.
Qed.

Theorem failed_piece_lt tr s : In (false, s) tr -> 0 < s -> matched_of tr < consumed_of tr.
Proof.
  intros Hin Hs. pose proof (matched_le_consumed tr) as Hle.
  destruct (Nat.eq_dec (matched_of tr) (consumed_of tr)) as [E|]; [|lia].
  apply matched_eq_consumed_iff in E. rewrite Forall_forall in E.
  specialize (E _ Hin Hs). discriminate.
Qed.

(* ---------- bytes_eqb ---------- *)

Lemma bytes_eqb_eq a : forall b, bytes_eqb a b = true <-> a = b.
Proof.
  induction a as [|x a IH]; intros [|y b]; cbn [bytes_eqb]; try (split; congruence).
  rewrite andb_true_iff, Ascii.eqb_eq, IH. split.
  - intros [-> ->]. reflexivity.
  - intros E. injection E. auto.
Qed.

Lemma bytes_eqb_refl a : bytes_eqb a a = true.
Proof. apply bytes_eqb_eq. reflexivity. Qed.

Lemma bytes_eqb_neq a b : a <> b -> bytes_eqb a b = false.
Proof.
  intros N. destruct (bytes_eqb a b) eqn:E; [|reflexivity]. apply bytes_eqb_eq in E. contradiction.
Qed.

(* ---------- chunks: indexing ---------- *)

Lemma skipn_add {A} (l : list A) : forall a b, skipn (a + b) l = skipn b (skipn a l).
Proof.
  induction l as [|x l IH]; intros a b.
  - rewrite !skipn_nil. reflexivity.
  - destruct a as [|a]; [reflexivity|]. cbn [Nat.add skipn]. apply IH.
Qed.

(* piece i is the i-th pl-slice of the stream; it exists iff that slice is not empty *)
Lemma nth_error_chunks {A} pl : 0 < pl -> forall i (s : list A),
  nth_error (chunks pl s) i =
  match firstn pl (skipn (i * pl) s) with [] => None | p => Some p end.
Proof.
  intros Hpl. induction i as [|i IH]; intros s.
  - cbn [Nat.mul skipn]. destruct s as [|a s]; [rewrite firstn_nil; reflexivity|].
    rewrite chunks_cons by (assumption || discriminate). cbn [nth_error].
    destruct pl as [|pl]; [lia|]. reflexivity.
  - destruct s as [|a s].
    + rewrite chunks_nil, skipn_nil, firstn_nil. reflexivity.
    + rewrite chunks_cons by (assumption || discriminate). cbn [nth_error].
      rewrite IH. cbn [Nat.mul]. rewrite skipn_add. reflexivity.
Qed.

Lemma chunks_nonempty {A} pl (s : list A) i p : 0 < pl ->
  nth_error (chunks pl s) i = Some p -> 0 < length p <= pl.
Proof.
  intros Hpl E. rewrite nth_error_chunks in E by assumption.
  assert (Hle : length (firstn pl (skipn (i * pl) s)) <= pl) by (rewrite firstn_length; lia).
  destruct (firstn pl (skipn (i * pl) s)) as [|x l]; [discriminate|].
  injection E as <-. cbn [length] in *. lia.
Qed.

(* every piece except possibly the last is full *)
Lemma chunks_nth_full {A} pl (s : list A) i p : 0 < pl ->
  S i < length (chunks pl s) -> nth_error (chunks pl s) i = Some p -> length p = pl.
Proof.
  intros Hpl Hi E.
  destruct (chunks_full_or_last pl s Hpl) as [ps [r [Ec [F [Hr _]]]]].
  rewrite Ec in Hi, E. rewrite app_length in Hi.
  assert (Hips : i < length ps) by (destruct r; cbn [length] in Hi; lia).
  rewrite nth_error_app1 in E by assumption.
  rewrite Forall_forall in F. apply F. eapply nth_error_In. exact E.
Qed.

(* ---------- the v1 trace ---------- *)

Section V1.
Variable H1 : bytes -> bytes.

Lemma pair_recorded_length recorded ps : forall j, length (pair_recorded H1 recorded j ps) = length ps.
Proof. induction ps as [|p ps IH]; intros j; [reflexivity|]. cbn [pair_recorded length]. rewrite IH. reflexivity. Qed.

Lemma nth_error_pair_recorded recorded ps : forall j i,
  nth_error (pair_recorded H1 recorded j ps) i =
  option_map (fun p => (H1 p, nth (j + i) recorded [], length p)) (nth_error ps i).
Proof.
  induction ps as [|p ps IH]; intros j i.
  - destruct i; reflexivity.
  - destruct i as [|i]; cbn [pair_recorded nth_error option_map].
    + rewrite Nat.add_0_r. reflexivity.
    + rewrite IH. replace (S j + i) with (j + S i) by lia. reflexivity.
Qed.

Lemma nth_error_verdicts tr i : nth_error (verdicts tr) i = option_map verdict_of (nth_error tr i).
Proof.
  unfold verdicts. revert i. induction tr as [|e tr IH]; intros [|i]; cbn [map nth_error option_map];
    try reflexivity. apply IH.
Qed.

(* the verdict of piece i depends only on the i-th pl-slice of the zero-filled stream (and on
   the i-th recorded digest) *)
Lemma spec_verdict_nth pl lens disk recorded i :
  nth_error (verdicts (spec_trace_v1 H1 pl lens disk recorded)) i =
  option_map (fun p => (bytes_eqb (H1 p) (nth i recorded []), length p))
             (nth_error (spec_pieces_v1 pl lens disk) i).
Proof.
  rewrite nth_error_verdicts. unfold spec_trace_v1. rewrite nth_error_pair_recorded.
  destruct (nth_error (spec_pieces_v1 pl lens disk) i); reflexivity.
Qed.

Theorem C16_locality_v1 pl lens disk disk' recorded i : 0 < pl ->
  firstn pl (skipn (i * pl) (spec_stream_v1 lens disk)) =
  firstn pl (skipn (i * pl) (spec_stream_v1 lens disk')) ->
  nth_error (verdicts (spec_trace_v1 H1 pl lens disk recorded)) i =
  nth_error (verdicts (spec_trace_v1 H1 pl lens disk' recorded)) i.
Proof.
  intros Hpl E. rewrite !spec_verdict_nth. unfold spec_pieces_v1, bytes.
  rewrite !nth_error_chunks by assumption. rewrite E. reflexivity.
Qed.

Lemma consumed_pair_recorded recorded ps : forall j,
  consumed_of (verdicts (pair_recorded H1 recorded j ps)) = length (concat ps).
Proof.
  induction ps as [|p ps IH]; intros j; [reflexivity|].
  cbn [pair_recorded verdicts map verdict_of concat]. rewrite consumed_of_cons, app_length.
  f_equal. apply IH.
Qed.

Lemma zero_fill_length L od : file_within L od -> length (zero_fill L od) = L.
Proof.
  destruct od as [d|]; cbn [file_within zero_fill]; intros H.
  - rewrite app_length, zeros_length. lia.
  - apply zeros_length.
Qed.

Lemma spec_stream_length lens : forall disk, length lens = length disk -> disk_within lens disk ->
  length (spec_stream_v1 lens disk) = sum_nat lens.
Proof.
  unfold spec_stream_v1.
  induction lens as [|L lens IH]; intros [|od disk] Hlen Hw; try discriminate; [reflexivity|].
  cbn [map2 concat sum_nat fold_right]. cbn [disk_within] in Hw. destruct Hw as [Hf Hw].
  rewrite app_length, zero_fill_length by assumption. f_equal.
  apply IH; [cbn [length] in Hlen; lia|assumption].
Qed.

(* consumed = total payload *)
Theorem spec_consumed_total pl lens disk recorded :
  0 < pl -> length lens = length disk -> disk_within lens disk ->
  consumed (spec_trace_v1 H1 pl lens disk recorded) = sum_nat lens.
Proof.
  intros Hpl Hlen Hw. rewrite consumed_spec. unfold spec_trace_v1, spec_pieces_v1.
  rewrite consumed_pair_recorded, concat_chunks by assumption. apply spec_stream_length; assumption.
Qed.

(* every entry except possibly the last has size pl; every entry has 0 < size <= pl *)
Theorem spec_sizes pl lens disk recorded i c r sz : 0 < pl ->
  nth_error (spec_trace_v1 H1 pl lens disk recorded) i = Some (c, r, sz) ->
  0 < sz <= pl /\ (S i < length (spec_trace_v1 H1 pl lens disk recorded) -> sz = pl).
Proof.
  intros Hpl E. unfold spec_trace_v1 in *. rewrite pair_recorded_length.
  rewrite nth_error_pair_recorded in E.
  destruct (nth_error (spec_pieces_v1 pl lens disk) i) as [p|] eqn:Ep; [|discriminate].
  cbn [option_map] in E. injection E as _ _ <-. unfold spec_pieces_v1 in *. split.
  - eapply chunks_nonempty; eassumption.
  - intros Hi. eapply chunks_nth_full; eassumption.
Qed.

(* C16_result for v1: the model's two counters are the two sums, and the sum of sizes is the
   total; stated for the model trace *)
Theorem C16_result_v1 pl lens disk recorded :
  0 < pl -> length lens = length disk -> disk_within lens disk ->
  let tr := feed_trace H1 pl lens disk recorded in
  matched tr = matched_of (verdicts tr) /\ consumed tr = consumed_of (verdicts tr) /\
  matched tr <= consumed tr /\ consumed tr = sum_nat lens.
Proof.
  intros Hpl Hlen Hw tr. split; [apply matched_spec|]. split; [apply consumed_spec|]. split.
  - rewrite matched_spec, consumed_spec. apply matched_le_consumed.
  - unfold tr. rewrite feed_trace_exact by assumption. apply spec_consumed_total; assumption.
Qed.

(* C04 for v1.  piece_differs: some piece of the zero-filled disk state hashes to something else
   than the digest recorded for it (for damaged content this is collision resistance of SHA-1,
   see C04_v1_payload). *)
Theorem C04_v1 pl lens disk recorded :
  0 < pl -> length lens = length disk -> disk_within lens disk ->
  (exists i p, nth_error (spec_pieces_v1 pl lens disk) i = Some p /\ H1 p <> nth i recorded []) ->
  matched (feed_trace H1 pl lens disk recorded) < consumed (feed_trace H1 pl lens disk recorded) /\
  consumed (feed_trace H1 pl lens disk recorded) = sum_nat lens.
Proof.
  intros Hpl Hlen Hw [i [p [Ep Hdiff]]].
  rewrite feed_trace_exact by assumption. split; [|apply spec_consumed_total; assumption].
  rewrite matched_spec, consumed_spec.
  apply (failed_piece_lt _ (length p)).
  - eapply nth_error_In with (n := i). rewrite spec_verdict_nth, Ep. cbn [option_map].
    rewrite bytes_eqb_neq by assumption. reflexivity.
  - unfold spec_pieces_v1 in Ep. eapply chunks_nonempty; eassumption.
Qed.

(* the same with the metafile described by the payload it was made from: the disk state differs
   from the payload on piece i, and the two pieces do not collide under H1 *)
Theorem C04_v1_payload pl (payload : list bytes) disk :
  0 < pl -> length payload = length disk -> disk_within (map (@length _) payload) disk ->
  (exists i p q, nth_error (spec_pieces_v1 pl (map (@length _) payload) disk) i = Some p /\
                 nth_error (chunks pl (concat payload)) i = Some q /\
                 p <> q /\ (p <> q -> H1 p <> H1 q)) ->
  let lens := map (@length _) payload in
  let recorded := map H1 (chunks pl (concat payload)) in
  matched (feed_trace H1 pl lens disk recorded) < consumed (feed_trace H1 pl lens disk recorded) /\
  consumed (feed_trace H1 pl lens disk recorded) = sum_nat lens.
Proof.
  intros Hpl Hlen Hw [i [p [q [Ep [Eq [Hpq Hcr]]]]]] lens recorded.
  apply C04_v1; [assumption|unfold lens; rewrite map_length; assumption|assumption|].
  exists i, p. split; [exact Ep|].
  unfold recorded. rewrite (nth_error_nth _ _ _ (map_nth_error H1 i _ Eq)). auto.
Qed.

(* C05 for v1 *)
Lemma intact_stream (files : list bytes) :
  spec_stream_v1 (map (@length _) files) (map Some files) = concat files.
Proof.
  unfold spec_stream_v1. induction files as [|d files IH]; [reflexivity|].
  cbn [map map2 concat zero_fill]. rewrite IH, Nat.sub_diag. cbn [zeros repeat].
  rewrite app_nil_r. reflexivity.
Qed.

Lemma intact_within (files : list bytes) : disk_within (map (@length _) files) (map Some files).
Proof.
  induction files as [|d files IH]; [exact I|]. cbn [map disk_within file_within].
  split; [apply le_n|exact IH].
Qed.

Lemma pair_recorded_self ps : forall pre,
  Forall piece_ok (verdicts (pair_recorded H1 (pre ++ map H1 ps) (length pre) ps)).
Proof.
  induction ps as [|p ps IH]; intros pre; [constructor|].
  cbn [pair_recorded verdicts map verdict_of]. constructor.
  - unfold piece_ok. cbn [fst snd]. intros _.
    rewrite app_nth2, Nat.sub_diag by lia. cbn [nth]. apply bytes_eqb_refl.
  - specialize (IH (pre ++ [H1 p])). rewrite <- app_assoc, app_length in IH.
    cbn [length app] in IH. rewrite Nat.add_1_r in IH. exact IH.
Qed.

Theorem C05_v1 pl (files : list bytes) : 0 < pl ->
  let lens := map (@length _) files in
  let disk := map Some files in
  let recorded := map H1 (chunks pl (concat files)) in
  matched (feed_trace H1 pl lens disk recorded) = consumed (feed_trace H1 pl lens disk recorded) /\
  consumed (feed_trace H1 pl lens disk recorded) = sum_nat lens.
Proof.
  intros Hpl lens disk recorded.
  assert (Hlen : length lens = length disk) by (unfold lens, disk; rewrite !map_length; reflexivity).
  assert (Hw : disk_within lens disk) by apply intact_within.
  rewrite feed_trace_exact by assumption. split; [|apply spec_consumed_total; assumption].
  rewrite matched_spec, consumed_spec. apply matched_eq_consumed_iff.
  unfold spec_trace_v1, spec_pieces_v1, lens, disk, recorded. rewrite intact_stream.
  apply (pair_recorded_self (chunks pl (concat files)) []).
Qed.

End V1.

(* ---------- examples ---------- *)

Local Open Scope char_scope.

(* H1 := identity (injective, so piece_differs holds for any two different pieces).  Payload
   "ab" | "" | "cde" with pl = 2; on disk the last file is truncated to "c". *)
Example C04_v1_example :
  let payload := [["a"; "b"]; []; ["c"; "d"; "e"]] in
  let disk := [Some ["a"; "b"]; Some []; Some ["c"]] in
  let tr := feed_trace (fun x => x) 2 (map (@length _) payload) disk
                       (map (fun x => x) (chunks 2 (concat payload))) in
  verdicts tr = [(true, 2); (false, 2); (false, 1)] /\ matched tr = 2 /\ consumed tr = 5.
Proof. vm_compute. repeat split. Qed.

Example C05_v1_example :
  let files := [["a"; "b"]; []; ["c"; "d"; "e"]] in
  let tr := feed_trace (fun x => x) 2 (map (@length _) files) (map Some files)
                       (map (fun x => x) (chunks 2 (concat files))) in
  matched tr = 5 /\ consumed tr = 5.
Proof. vm_compute. split; reflexivity. Qed.

Print Assumptions matched_le_consumed.
Print Assumptions matched_eq_consumed_iff.
Print Assumptions failed_piece_lt.
Print Assumptions spec_consumed_total.
Print Assumptions spec_sizes.
Print Assumptions C16_locality_v1.
Print Assumptions C16_result_v1.
Print Assumptions C04_v1.
Print Assumptions C04_v1_payload.
Print Assumptions C05_v1.
