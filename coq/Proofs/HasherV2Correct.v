(* C02 / C03 / C10 at the level of one file: the three v2 hashers of torrentfile/hasher.py
   compute the BEP 52 pieces root and piece layer, agree with each other, and the hybrid ones
   feed sha1 with the pl-slices of the file (last one zero-extended when `padding`). *)
From TF Require Import Lib.Base Lib.Chunks Lib.Merkle Spec.Bep52 Model.HasherV2 Proofs.MerkleProofs.

Lemma map_repeat {A C} (f : A -> C) x n : map f (repeat x n) = repeat (f x) n.
Proof. induction n as [|n IH]; [reflexivity|]. cbn [repeat map]. rewrite IH. reflexivity. Qed.

Lemma firstn_add {A} a b (l : list A) : firstn (a + b) l = firstn a l ++ firstn b (skipn a l).
Proof.
  revert l. induction a as [|a IH]; intros l; [reflexivity|].
  destruct l as [|x l]; [rewrite skipn_nil, !firstn_nil; reflexivity|].
  cbn [Nat.add firstn skipn app]. rewrite IH. reflexivity.
Qed.

Definition is_nil {A} (l : list A) : bool := match l with [] => true | _ :: _ => false end.

Lemma is_nil_snoc {A} (l : list A) x : is_nil (l ++ [x]) = false.
Proof. destruct l; reflexivity. Qed.

Lemma length_concat_full {A} c (ps : list (list A)) :
  Forall (fun p => length p = c) ps -> length (concat ps) = length ps * c.
Proof.
  intros F. induction F as [|p ps Hp _ IH]; [reflexivity|].
  cbn [concat length]. rewrite app_length, IH, Hp. lia.
Qed.

Section Correct.
Variable H256 : bytes -> bytes.
Variable H1 : bytes -> bytes.
Variable B : nat.
Hypothesis HB : 0 < B.
Variable k pl : nat.
Hypothesis Hpl : pl = B * 2 ^ k.

Notation tree_root := (tree_root H256).
Notation merkle_root := (merkle_root H256).
Notation leaves := (leaves H256 B).
Notation bep52_root := (bep52_root H256 B).
Notation bep52_piece_layer := (bep52_piece_layer H256 B).
Notation hasher_v2 := (hasher_v2 H256 B).
Notation hasher_hybrid := (hasher_hybrid H256 B).
Notation file_hasher := (file_hasher H256 B).
Notation file_hasher_run := (file_hasher_run H256 B).
Notation v2_calculate_root := (v2_calculate_root H256).
Notation hy_calculate_root := (hy_calculate_root H256).

Lemma pl_div : pl / B = 2 ^ k.
Proof. rewrite Hpl, Nat.mul_comm. apply Nat.div_mul. lia. Qed.

Lemma pl_pos : 0 < pl.
Proof. rewrite Hpl. apply Nat.mul_pos_pos; [assumption|apply pow2_pos]. Qed.

Lemma amount_B : 2 ^ k * B = pl.
Proof. rewrite Hpl. apply Nat.mul_comm. Qed.

(* ---------- the inner read loops ---------- *)

Lemma chunks_firstn_step n (cur : bytes) : cur <> [] ->
  chunks B (firstn (S n * B) cur) = firstn B cur :: chunks B (firstn (n * B) (skipn B cur)).
Proof.
  intros Hne. replace (S n * B) with (B + n * B) by lia.
  rewrite chunks_cons; [|assumption|].
  - rewrite firstn_firstn. replace (Nat.min B (B + n * B)) with B by lia.
    rewrite skipn_firstn_comm. replace (B + n * B - B) with (n * B) by lia. reflexivity.
  - destruct cur as [|x cur]; [congruence|]. destruct B; [lia|]. discriminate.
Qed.

Lemma firstn_B_size (cur : bytes) : cur <> [] -> (length (firstn B cur) =? 0) = false.
Proof.
  intros Hne. apply Nat.eqb_neq. rewrite firstn_length.
  destruct cur; [congruence|]. cbn [length]. lia.
Qed.

Lemma v2_read_blocks_spec n : forall cur acc,
  v2_read_blocks H256 B n cur acc =
  (acc ++ map H256 (chunks B (firstn (n * B) cur)), skipn (n * B) cur).
Proof.
  induction n as [|n IH]; intros cur acc.
  - cbn [v2_read_blocks Nat.mul firstn skipn]. rewrite chunks_nil, app_nil_r. reflexivity.
  - cbn [v2_read_blocks]. destruct cur as [|x cur0] eqn:E.
    + rewrite !firstn_nil, !skipn_nil, chunks_nil, app_nil_r. reflexivity.
    + rewrite <- E in *. assert (Hne : cur <> []) by (subst cur; discriminate).
      rewrite firstn_B_size by assumption. rewrite IH.
      rewrite chunks_firstn_step by assumption. cbn [map].
      rewrite <- app_assoc. cbn [app]. rewrite skipn_skipn'.
      replace (S n * B) with (B + n * B) by lia. reflexivity.
Qed.

Lemma hy_read_blocks_spec hybrid n : forall cur acc piece plen,
  hy_read_blocks H256 B hybrid n cur acc piece plen =
  (acc ++ map H256 (chunks B (firstn (n * B) cur)),
   (if hybrid then piece ++ firstn (n * B) cur else piece),
   plen - length (firstn (n * B) cur),
   skipn (n * B) cur,
   (0 <? n) && (length cur <=? (n - 1) * B)).
Proof.
  induction n as [|n IH]; intros cur acc piece plen.
  - cbn [hy_read_blocks Nat.mul firstn skipn length]. rewrite chunks_nil, !app_nil_r, Nat.sub_0_r.
    destruct hybrid; reflexivity.
  - cbn [hy_read_blocks]. destruct cur as [|x cur0] eqn:E.
    + rewrite !firstn_nil, !skipn_nil, chunks_nil, !app_nil_r. cbn [length].
      rewrite Nat.sub_0_r. destruct hybrid; reflexivity.
    + rewrite <- E in *. assert (Hne : cur <> []) by (subst cur; discriminate).
      assert (Hlen : 0 < length cur) by (subst cur; cbn [length]; lia).
      rewrite firstn_B_size by assumption. rewrite IH.
      rewrite chunks_firstn_step by assumption. cbn [map].
      rewrite <- app_assoc. cbn [app]. rewrite skipn_skipn'.
      replace (S n * B) with (B + n * B) by lia. rewrite (firstn_add B (n * B) cur).
      rewrite app_length.
      assert (Hflag : (0 <? n) && (length (skipn B cur) <=? (n - 1) * B)
                      = (0 <? S n) && (length cur <=? (S n - 1) * B)).
      { rewrite skipn_length. change (0 <? S n) with true. cbn [andb].
        replace (S n - 1) with n by lia. destruct n as [|n'].
        - cbn [Nat.ltb Nat.leb andb Nat.mul]. symmetry. apply Nat.leb_gt. lia.
        - change (0 <? S n') with true. cbn [andb]. replace (S n' - 1) with n' by lia.
          destruct (Nat.leb_spec (length cur - B) (n' * B));
            destruct (Nat.leb_spec (length cur) (S n' * B)); try reflexivity; lia. }
      rewrite Hflag.
      replace (plen - length (firstn B cur) - length (firstn (n * B) (skipn B cur)))
        with (plen - (length (firstn B cur) + length (firstn (n * B) (skipn B cur)))) by lia.
      destruct hybrid; [rewrite <- app_assoc|]; reflexivity.
Qed.

(* ---------- one piece ---------- *)

Definition blocks_of (p : bytes) : list bytes := map H256 (chunks B p).

(* the layer hash the code computes for the piece p; `first` = (layer_hashes is empty) *)
Definition piece_hash (first : bool) (p : bytes) : bytes :=
  let blocks := blocks_of p in
  merkle_root
    (if negb (length blocks =? 2 ^ k)
     then blocks ++ repeat zero32
            ((if first then next_power_2_nat (length blocks) else 2 ^ k) - length blocks)
     else blocks).

Fixpoint layer_of (first : bool) (ps : list bytes) : list bytes :=
  match ps with [] => [] | p :: r => piece_hash first p :: layer_of false r end.

Lemma layer_of_false ps : layer_of false ps = map (piece_hash false) ps.
Proof. induction ps as [|p r IH]; [reflexivity|]. cbn [layer_of map]. rewrite IH. reflexivity. Qed.

Lemma layer_of_length first ps : length (layer_of first ps) = length ps.
Proof.
  destruct ps as [|p r]; [reflexivity|]. cbn [layer_of length].
  rewrite layer_of_false, map_length. reflexivity.
Qed.

Lemma v2_pad_blocks_eq lh p :
  merkle_root (v2_pad_blocks (2 ^ k) lh (blocks_of p)) = piece_hash (is_nil lh) p.
Proof. unfold v2_pad_blocks, piece_hash. destruct lh; reflexivity. Qed.

Lemma hy_pad_blocks_eq lh p :
  merkle_root (if negb (length (blocks_of p) =? 2 ^ k)
               then blocks_of p ++ pad_remaining (2 ^ k) lh (length (blocks_of p))
               else blocks_of p) = piece_hash (is_nil lh) p.
Proof. unfold pad_remaining, piece_hash. destruct lh; reflexivity. Qed.

Lemma blocks_of_nonempty p : p <> [] -> blocks_of p <> [].
Proof.
  intros Hp Hb. apply map_eq_nil in Hb. revert Hb. apply chunks_nonempty; assumption.
Qed.

Lemma blocks_of_count_le p : length p <= pl -> length (blocks_of p) <= 2 ^ k.
Proof.
  intros Hp. unfold blocks_of. rewrite map_length. apply length_chunks_le; [assumption|].
  rewrite amount_B. exact Hp.
Qed.

(* a piece that is not the first of a file, or is full: zero-padded to 2^k leaves *)
Lemma piece_hash_padded first p : length p <= pl ->
  first = false \/ length (blocks_of p) = 2 ^ k ->
  piece_hash first p = tree_root k (pad_leaves (2 ^ k) (blocks_of p)).
Proof.
  intros Hp Hc. pose proof (blocks_of_count_le p Hp) as Hn.
  unfold piece_hash, pad_leaves. cbv zeta.
  destruct (length (blocks_of p) =? 2 ^ k) eqn:E; cbn [negb].
  - apply Nat.eqb_eq in E. rewrite E, Nat.sub_diag. cbn [repeat]. rewrite app_nil_r.
    apply merkle_root_tree_root. exact E.
  - apply Nat.eqb_neq in E. destruct Hc as [-> | Hc]; [|congruence].
    apply merkle_root_tree_root. rewrite app_length, repeat_length. lia.
Qed.

(* the only piece of a file of at most one piece: padded to the next power of two *)
Lemma piece_hash_single p : p <> [] -> length p <= pl -> piece_hash true p = bep52_root p.
Proof.
  intros Hne Hp. pose proof (blocks_of_count_le p Hp) as Hn.
  assert (Hpos : 1 <= length (blocks_of p)).
  { pose proof (blocks_of_nonempty p Hne). destruct (blocks_of p); [congruence|cbn [length]; lia]. }
  unfold piece_hash, Bep52.bep52_root, pad_leaves, log2_up_nat, Bep52.leaves. cbv zeta.
  fold (blocks_of p). set (bs := blocks_of p) in *. set (n := length bs) in *.
  destruct (log2_up_least n ltac:(lia)) as [Hup _].
  destruct (n =? 2 ^ k) eqn:E; cbn [negb].
  - apply Nat.eqb_eq in E. rewrite E, Nat.log2_up_pow2 by lia.
    rewrite Nat.sub_diag. cbn [repeat]. rewrite app_nil_r.
    apply merkle_root_tree_root. exact E.
  - rewrite next_power_2_nat_spec by lia.
    apply merkle_root_tree_root. rewrite app_length, repeat_length. lia.
Qed.

(* ---------- HasherV2.process_file ---------- *)

Lemma v2_loop_spec : forall fuel cur lh, length cur < fuel ->
  v2_loop H256 B fuel (2 ^ k) cur lh = lh ++ layer_of (is_nil lh) (chunks pl cur).
Proof.
  induction fuel as [|f IH]; intros cur lh Hf; [lia|].
  cbn [v2_loop]. rewrite v2_read_blocks_spec, amount_B. cbn [app].
  destruct cur as [|x cur0] eqn:E.
  - rewrite firstn_nil, !chunks_nil. cbn [map layer_of]. rewrite app_nil_r. reflexivity.
  - rewrite <- E in *. assert (Hne : cur <> []) by (subst cur; discriminate).
    assert (Hlen : 0 < length cur) by (subst cur; cbn [length]; lia).
    pose proof pl_pos as Hplpos.
    assert (Hfn : firstn pl cur <> []).
    { intro H0. apply (f_equal (@length _)) in H0. rewrite firstn_length in H0.
      cbn [length] in H0. lia. }
    fold (blocks_of (firstn pl cur)).
    destruct (blocks_of (firstn pl cur)) as [|b0 bs] eqn:Eb.
    + exfalso. revert Eb. apply blocks_of_nonempty. exact Hfn.
    + rewrite <- Eb. rewrite v2_pad_blocks_eq.
      rewrite IH by (rewrite skipn_length; lia).
      rewrite is_nil_snoc. rewrite (chunks_cons pl cur) by assumption.
      cbn [layer_of]. rewrite <- app_assoc. reflexivity.
Qed.

(* the layer of a file of several pieces *)
Lemma layer_of_multi data : pl < length data ->
  layer_of true (chunks pl data) = bep52_piece_layer k data.
Proof.
  intros Hlen. pose proof pl_pos as Hplpos. pose proof (pow2_pos k) as Hkpos.
  assert (Hne : data <> []) by (destruct data; [cbn [length] in Hlen; lia|discriminate]).
  unfold Bep52.bep52_piece_layer, Bep52.leaves.
  rewrite map_chunks by assumption. unfold bytes. rewrite chunks_chunks by assumption.
  rewrite <- Hpl. rewrite !map_map.
  rewrite (chunks_cons pl data) by assumption. cbn [layer_of map].
  assert (Hf : length (firstn pl data) = pl) by (rewrite firstn_length; lia).
  f_equal.
  - apply piece_hash_padded; [lia|]. right. unfold blocks_of. rewrite map_length.
    apply length_chunks_exact; [assumption|]. rewrite amount_B. exact Hf.
  - rewrite layer_of_false. apply map_ext_in. intros p Hin.
    apply piece_hash_padded; [|left; reflexivity].
    pose proof (chunks_length_le pl (skipn pl data) Hplpos) as F.
    rewrite Forall_forall in F. apply F. exact Hin.
Qed.

Lemma layer_of_single data : data <> [] -> length data <= pl ->
  layer_of true (chunks pl data) = [bep52_root data].
Proof.
  intros Hne Hlen. rewrite chunks_short by (try assumption; apply pl_pos).
  cbn [layer_of]. rewrite piece_hash_single by assumption. reflexivity.
Qed.

(* ---------- _calculate_root ---------- *)

Lemma calculate_root_multi data : pl < length data ->
  merkle_root
    (bep52_piece_layer k data ++
     repeat (merkle_root (repeat zero32 (2 ^ k)))
       (next_power_2_nat (length (bep52_piece_layer k data)) - length (bep52_piece_layer k data)))
  = bep52_root data.
Proof.
  intros Hlen. pose proof pl_pos as Hplpos. pose proof (pow2_pos k) as Hkpos.
  assert (Hne : data <> []) by (destruct data; [cbn [length] in Hlen; lia|discriminate]).
  assert (Hlne : leaves data <> []).
  { unfold Bep52.leaves. intro H0. apply map_eq_nil in H0. revert H0.
    apply chunks_nonempty; assumption. }
  set (ls := leaves data) in *. set (n := length ls).
  set (m := length (chunks (2 ^ k) ls)).
  assert (HLm : length (bep52_piece_layer k data) = m).
  { unfold Bep52.bep52_piece_layer. rewrite map_length. reflexivity. }
  rewrite HLm.
  destruct (length_chunks_bounds (2 ^ k) ls Hkpos Hlne) as [Hm1 [Hmlo Hmhi]].
  fold m in Hm1, Hmlo, Hmhi. fold n in Hmlo, Hmhi.
  (* more than one piece *)
  assert (Hm : 1 < m).
  { unfold m, ls, Bep52.leaves. rewrite map_chunks by assumption.
    unfold bytes. rewrite chunks_chunks by assumption. rewrite <- Hpl, !map_length.
    destruct (length_chunks_bounds pl data Hplpos Hne) as [_ [_ Hhi]].
    destruct (length (chunks pl data)) as [|[|q]]; lia. }
  set (a := Nat.log2_up m).
  assert (Hh : Nat.log2_up n = a + k) by (apply log2_up_groups; assumption).
  destruct (log2_up_least m ltac:(lia)) as [Hma _]. fold a in Hma.
  rewrite next_power_2_nat_spec by lia. fold a.
  rewrite (merkle_root_tree_root H256 k (repeat zero32 (2 ^ k))) by apply repeat_length.
  rewrite (merkle_root_tree_root H256 a)
    by (rewrite app_length, repeat_length, HLm; lia).
  unfold Bep52.bep52_root, log2_up_nat. cbv zeta. fold ls. fold n. rewrite Hh.
  assert (Hn : n <= 2 ^ a * 2 ^ k).
  { rewrite <- Nat.pow_add_r, <- Hh. apply log2_up_least.
    destruct ls; [congruence|unfold n; cbn [length]; lia]. }
  rewrite tree_root_split
    by (unfold pad_leaves; rewrite app_length, repeat_length, Nat.pow_add_r; fold n; lia).
  unfold pad_leaves. rewrite Nat.pow_add_r. fold n.
  unfold n. rewrite chunks_pad by (try assumption; fold n; exact Hn).
  rewrite map_app, map_map, map_repeat. fold m.
  unfold Bep52.bep52_piece_layer, pad_leaves. fold ls. reflexivity.
Qed.

(* ---------- HasherV2: main theorems ---------- *)

Lemma hasher_v2_eq data :
  hasher_v2 pl data = v2_calculate_root (2 ^ k) (layer_of true (chunks pl data)).
Proof.
  unfold HasherV2.hasher_v2. cbv zeta. rewrite pl_div.
  rewrite v2_loop_spec by lia. reflexivity.
Qed.

Theorem hasher_v2_root data : data <> [] -> fst (hasher_v2 pl data) = bep52_root data.
Proof.
  intros Hne. rewrite hasher_v2_eq. unfold HasherV2.v2_calculate_root. cbv zeta. cbn [fst].
  destruct (le_lt_dec (length data) pl) as [Hle|Hgt].
  - rewrite layer_of_single by assumption. reflexivity.
  - rewrite layer_of_multi by assumption.
    assert (Hm : (1 <? length (bep52_piece_layer k data)) = true).
    { apply Nat.ltb_lt. rewrite <- (layer_of_multi data Hgt), layer_of_length.
      destruct (length_chunks_bounds pl data pl_pos Hne) as [_ [_ Hhi]].
      unfold bytes in Hhi |- *.
      destruct (length (chunks pl data)) as [|[|q]]; lia. }
    rewrite Hm. apply calculate_root_multi. exact Hgt.
Qed.

(* the piece layer of a file longer than one piece (the only files for which BEP 52 and the
   metafile writers use it) *)
Theorem hasher_v2_layer data : pl < length data ->
  snd (hasher_v2 pl data) = bep52_piece_layer k data.
Proof.
  intros Hgt. rewrite hasher_v2_eq. unfold HasherV2.v2_calculate_root. cbv zeta. cbn [snd].
  apply layer_of_multi. exact Hgt.
Qed.

(* a file of at most one piece: the single layer hash is the root itself (leaves padded only
   to the next power of two of the block count, NOT to a whole piece) *)
Theorem hasher_v2_layer_one_piece data : data <> [] -> length data <= pl ->
  snd (hasher_v2 pl data) = [bep52_root data].
Proof.
  intros Hne Hle. rewrite hasher_v2_eq. unfold HasherV2.v2_calculate_root. cbv zeta. cbn [snd].
  apply layer_of_single; assumption.
Qed.

Corollary hasher_v2_layer_length data :
  length (snd (hasher_v2 pl data)) = ceil_div (length data) pl.
Proof.
  rewrite hasher_v2_eq. unfold HasherV2.v2_calculate_root. cbv zeta. cbn [snd].
  rewrite layer_of_length. apply length_chunks. apply pl_pos.
Qed.

Corollary bep52_piece_layer_length data :
  length (bep52_piece_layer k data) = ceil_div (length data) pl.
Proof.
  unfold Bep52.bep52_piece_layer, Bep52.leaves. rewrite map_length.
  rewrite map_chunks by apply pow2_pos. unfold bytes.
  rewrite chunks_chunks by (assumption || apply pow2_pos).
  rewrite <- Hpl, !map_length. apply length_chunks. apply pl_pos.
Qed.

End Correct.
