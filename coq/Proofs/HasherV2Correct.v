(* C02 / C03 / C10 at the level of one file: the three v2 hashers of torrentfile/hasher.py
   compute the BEP 52 pieces root and piece layer, agree with each other, and the hybrid ones
   feed sha1 with the pl-slices of the file (last one zero-extended when `padding`). *)
From TF Require Import Lib.Base Lib.Chunks Lib.Merkle Spec.Bep52 Model.HasherV2 Proofs.MerkleProofs.

Lemma map_repeat {A C} (f : A -> C) x n : map f (repeat x n) = repeat (f x) n.
Proof. induction n as [|n IH]; [reflexivity|]. cbn [repeat map]. rewrite IH. reflexivity. Qed.

Lemma firstn_add {A} a b (l : list A) : firstn (a + b) l = firstn a l ++ firstn b (skipn a l).
Proof.
  revert l. induction a as [|a IH]; intros l; [reflexivity|].
  destruct l as [|x l]; [rewrite skipn_nil, !firstn_nil; reflexivity|].
  cbn [Nat.add firstn skipn app]. rewrite IH. reflexivity.
Qed.

Definition is_nil {A} (l : list A) : bool := match l with [] => true | _ :: _ => false end.

Lemma is_nil_snoc {A} (l : list A) x : is_nil (l ++ [x]) = false.
Proof. destruct l; reflexivity. Qed.

Lemma length_concat_full {A} c (ps : list (list A)) :
  Forall (fun p => length p = c) ps -> length (concat ps) = length ps * c.
Proof.
  intros F. induction F as [|p ps Hp _ IH]; [reflexivity|].
  cbn [concat length]. rewrite app_length, IH, Hp. lia.
Qed.

Section Correct.
Variable H256 : bytes -> bytes.
Variable H1 : bytes -> bytes.
Variable B : nat.
Hypothesis HB : 0 < B.
Variable k pl : nat.
Hypothesis Hpl : pl = B * 2 ^ k.

Notation tree_root := (tree_root H256).
Notation merkle_root := (merkle_root H256).
Notation leaves := (leaves H256 B).
Notation bep52_root := (bep52_root H256 B).
Notation bep52_piece_layer := (bep52_piece_layer H256 B).
Notation hasher_v2 := (hasher_v2 H256 B).
Notation hasher_hybrid := (hasher_hybrid H256 B).
Notation file_hasher := (file_hasher H256 B).
Notation file_hasher_run := (file_hasher_run H256 B).
Notation v2_calculate_root := (v2_calculate_root H256).
Notation hy_calculate_root := (hy_calculate_root H256).

Lemma pl_div : pl / B = 2 ^ k.
Proof. rewrite Hpl, Nat.mul_comm. apply Nat.div_mul. lia. Qed.

Lemma pl_pos : 0 < pl.
Proof. rewrite Hpl. apply Nat.mul_pos_pos; [assumption|apply pow2_pos]. Qed.

Lemma amount_B : 2 ^ k * B = pl.
Proof. rewrite Hpl. apply Nat.mul_comm. Qed.

(* ---------- the inner read loops ---------- *)

Lemma chunks_firstn_step n (cur : bytes) : cur <> [] ->
  chunks B (firstn (S n * B) cur) = firstn B cur :: chunks B (firstn (n * B) (skipn B cur)).
Proof.
  intros Hne. replace (S n * B) with (B + n * B) by lia.
  rewrite chunks_cons; [|assumption|].
  - rewrite firstn_firstn. replace (Nat.min B (B + n * B)) with B by lia.
    rewrite skipn_firstn_comm. replace (B + n * B - B) with (n * B) by lia. reflexivity.
  - destruct cur as [|x cur]; [congruence|]. destruct B; [lia|]. discriminate.
Qed.

Lemma firstn_B_size (cur : bytes) : cur <> [] -> (length (firstn B cur) =? 0) = false.
Proof.
  intros Hne. apply Nat.eqb_neq. rewrite firstn_length.
  destruct cur; [congruence|]. cbn [length]. lia.
Qed.

Lemma v2_read_blocks_spec n : forall cur acc,
  v2_read_blocks H256 B n cur acc =
  (acc ++ map H256 (chunks B (firstn (n * B) cur)), skipn (n * B) cur).
Proof.
  induction n as [|n IH]; intros cur acc.
  - cbn [v2_read_blocks Nat.mul firstn skipn]. rewrite chunks_nil, app_nil_r. reflexivity.
  - cbn [v2_read_blocks]. destruct cur as [|x cur0] eqn:E.
    + rewrite !firstn_nil, !skipn_nil, chunks_nil, app_nil_r. reflexivity.
    + rewrite <- E in *. assert (Hne : cur <> []) by (subst cur; discriminate).
      rewrite firstn_B_size by assumption. rewrite IH.
      rewrite chunks_firstn_step by assumption. cbn [map].
      rewrite <- app_assoc. cbn [app]. rewrite skipn_skipn'.
      replace (S n * B) with (B + n * B) by lia. reflexivity.
Qed.

Lemma hy_read_blocks_spec hybrid n : forall cur acc piece plen,
  hy_read_blocks H256 B hybrid n cur acc piece plen =
  (acc ++ map H256 (chunks B (firstn (n * B) cur)),
   (if hybrid then piece ++ firstn (n * B) cur else piece),
   plen - length (firstn (n * B) cur),
   skipn (n * B) cur,
   (0 <? n) && (length cur <=? (n - 1) * B)).
Proof.
  induction n as [|n IH]; intros cur acc piece plen.
  - cbn [hy_read_blocks Nat.mul firstn skipn length]. rewrite chunks_nil, !app_nil_r, Nat.sub_0_r.
    destruct hybrid; reflexivity.
  - cbn [hy_read_blocks]. destruct cur as [|x cur0] eqn:E.
    + rewrite !firstn_nil, !skipn_nil, chunks_nil, !app_nil_r. cbn [length].
      rewrite Nat.sub_0_r. destruct hybrid; reflexivity.
    + rewrite <- E in *. assert (Hne : cur <> []) by (subst cur; discriminate).
      assert (Hlen : 0 < length cur) by (subst cur; cbn [length]; lia).
      rewrite firstn_B_size by assumption. rewrite IH.
      rewrite chunks_firstn_step by assumption. cbn [map].
      rewrite <- app_assoc. cbn [app]. rewrite skipn_skipn'.
      replace (S n * B) with (B + n * B) by lia. rewrite (firstn_add B (n * B) cur).
      rewrite app_length.
      assert (Hflag : (0 <? n) && (length (skipn B cur) <=? (n - 1) * B)
                      = (0 <? S n) && (length cur <=? (S n - 1) * B)).
      { rewrite skipn_length. change (0 <? S n) with true. cbn [andb].
        replace (S n - 1) with n by lia. destruct n as [|n'].
        - cbn [Nat.ltb Nat.leb andb Nat.mul]. symmetry. apply Nat.leb_gt. lia.
        - change (0 <? S n') with true. cbn [andb]. replace (S n' - 1) with n' by lia.
          destruct (Nat.leb_spec (length cur - B) (n' * B));
            destruct (Nat.leb_spec (length cur) (S n' * B)); try reflexivity; lia. }
      rewrite Hflag.
      replace (plen - length (firstn B cur) - length (firstn (n * B) (skipn B cur)))
        with (plen - (length (firstn B cur) + length (firstn (n * B) (skipn B cur)))) by lia.
      destruct hybrid; [rewrite <- app_assoc|]; reflexivity.
Qed.

(* ---------- one piece ---------- *)

Definition blocks_of (p : bytes) : list bytes := map H256 (chunks B p).

(* the layer hash the code computes for the piece p; `first` = (layer_hashes is empty) *)
Definition piece_hash (first : bool) (p : bytes) : bytes :=
  let blocks := blocks_of p in
  merkle_root
    (if negb (length blocks =? 2 ^ k)
     then blocks ++ repeat zero32
            ((if first then next_power_2_nat (length blocks) else 2 ^ k) - length blocks)
     else blocks).

Fixpoint layer_of (first : bool) (ps : list bytes) : list bytes :=
  match ps with [] => [] | p :: r => piece_hash first p :: layer_of false r end.

Lemma layer_of_false ps : layer_of false ps = map (piece_hash false) ps.
Proof. induction ps as [|p r IH]; [reflexivity|]. cbn [layer_of map]. rewrite IH. reflexivity. Qed.

Lemma layer_of_length first ps : length (layer_of first ps) = length ps.
Proof.
  destruct ps as [|p r]; [reflexivity|]. cbn [layer_of length].
  rewrite layer_of_false, map_length. reflexivity.
Qed.

Lemma v2_pad_blocks_eq lh p :
  merkle_root (v2_pad_blocks (2 ^ k) lh (blocks_of p)) = piece_hash (is_nil lh) p.
Proof. unfold v2_pad_blocks, piece_hash. destruct lh; reflexivity. Qed.

Lemma hy_pad_blocks_eq lh p :
  merkle_root (if negb (length (blocks_of p) =? 2 ^ k)
               then blocks_of p ++ pad_remaining (2 ^ k) lh (length (blocks_of p))
               else blocks_of p) = piece_hash (is_nil lh) p.
Proof. unfold pad_remaining, piece_hash. destruct lh; reflexivity. Qed.

Lemma blocks_of_nonempty p : p <> [] -> blocks_of p <> [].
Proof.
  intros Hp Hb. apply map_eq_nil in Hb. revert Hb. apply chunks_nonempty; assumption.
Qed.

Lemma blocks_of_count_le p : length p <= pl -> length (blocks_of p) <= 2 ^ k.
Proof.
  intros Hp. unfold blocks_of. rewrite map_length. apply length_chunks_le; [assumption|].
  rewrite amount_B. exact Hp.
Qed.

(* a piece that is not the first of a file, or is full: zero-padded to 2^k leaves *)
Lemma piece_hash_padded first p : length p <= pl ->
  first = false \/ length (blocks_of p) = 2 ^ k ->
  piece_hash first p = tree_root k (pad_leaves (2 ^ k) (blocks_of p)).
Proof.
  intros Hp Hc. pose proof (blocks_of_count_le p Hp) as Hn.
  unfold piece_hash, pad_leaves. cbv zeta.
  destruct (length (blocks_of p) =? 2 ^ k) eqn:E; cbn [negb].
  - apply Nat.eqb_eq in E. rewrite E, Nat.sub_diag. cbn [repeat]. rewrite app_nil_r.
    apply merkle_root_tree_root. exact E.
  - apply Nat.eqb_neq in E. destruct Hc as [-> | Hc]; [|congruence].
    apply merkle_root_tree_root. rewrite app_length, repeat_length. lia.
Qed.

(* the only piece of a file of at most one piece: padded to the next power of two *)
Lemma piece_hash_single p : p <> [] -> length p <= pl -> piece_hash true p = bep52_root p.
Proof.
  intros Hne Hp. pose proof (blocks_of_count_le p Hp) as Hn.
  assert (Hpos : 1 <= length (blocks_of p)).
  { pose proof (blocks_of_nonempty p Hne). destruct (blocks_of p); [congruence|cbn [length]; lia]. }
  unfold piece_hash, Bep52.bep52_root, pad_leaves, log2_up_nat, Bep52.leaves. cbv zeta.
  fold (blocks_of p). set (bs := blocks_of p) in *. set (n := length bs) in *.
  destruct (log2_up_least n ltac:(lia)) as [Hup _].
  destruct (n =? 2 ^ k) eqn:E; cbn [negb].
  - apply Nat.eqb_eq in E. rewrite E, Nat.log2_up_pow2 by lia.
    rewrite Nat.sub_diag. cbn [repeat]. rewrite app_nil_r.
    apply merkle_root_tree_root. exact E.
  - rewrite next_power_2_nat_spec by lia.
    apply merkle_root_tree_root. rewrite app_length, repeat_length. lia.
Qed.

(* ---------- HasherV2.process_file ---------- *)

Lemma v2_loop_spec : forall fuel cur lh, length cur < fuel ->
  v2_loop H256 B fuel (2 ^ k) cur lh = lh ++ layer_of (is_nil lh) (chunks pl cur).
Proof.
  induction fuel as [|f IH]; intros cur lh Hf; [lia|].
  cbn [v2_loop]. rewrite v2_read_blocks_spec, amount_B. cbn [app].
  destruct cur as [|x cur0] eqn:E.
  - rewrite firstn_nil, !chunks_nil. cbn [map layer_of]. rewrite app_nil_r. reflexivity.
  - rewrite <- E in *. assert (Hne : cur <> []) by (subst cur; discriminate).
    assert (Hlen : 0 < length cur) by (subst cur; cbn [length]; lia).
    pose proof pl_pos as Hplpos.
    assert (Hfn : firstn pl cur <> []).
    { intro H0. apply (f_equal (@length _)) in H0. rewrite firstn_length in H0.
      cbn [length] in H0. lia. }
    fold (blocks_of (firstn pl cur)).
    destruct (blocks_of (firstn pl cur)) as [|b0 bs] eqn:Eb.
    + exfalso. revert Eb. apply blocks_of_nonempty. exact Hfn.
    + rewrite <- Eb. rewrite v2_pad_blocks_eq.
      rewrite IH by (rewrite skipn_length; lia).
      rewrite is_nil_snoc. rewrite (chunks_cons pl cur) by assumption.
      cbn [layer_of]. rewrite <- app_assoc. reflexivity.
Qed.

(* the layer of a file of several pieces *)
Lemma layer_of_multi data : pl < length data ->
  layer_of true (chunks pl data) = bep52_piece_layer k data.
Proof.
  intros Hlen. pose proof pl_pos as Hplpos. pose proof (pow2_pos k) as Hkpos.
  assert (Hne : data <> []) by (destruct data; [cbn [length] in Hlen; lia|discriminate]).
  unfold Bep52.bep52_piece_layer, Bep52.leaves.
  rewrite map_chunks by assumption. unfold bytes. rewrite chunks_chunks by assumption.
  rewrite <- Hpl. rewrite !map_map.
  rewrite (chunks_cons pl data) by assumption. cbn [layer_of map].
  assert (Hf : length (firstn pl data) = pl) by (rewrite firstn_length; lia).
  f_equal.
  - apply piece_hash_padded; [lia|]. right. unfold blocks_of. rewrite map_length.
    apply length_chunks_exact; [assumption|]. rewrite amount_B. exact Hf.
  - rewrite layer_of_false. apply map_ext_in. intros p Hin.
    apply piece_hash_padded; [|left; reflexivity].
    pose proof (chunks_length_le pl (skipn pl data) Hplpos) as F.
    rewrite Forall_forall in F. apply F. exact Hin.
Qed.

Lemma layer_of_single data : data <> [] -> length data <= pl ->
  layer_of true (chunks pl data) = [bep52_root data].
Proof.
  intros Hne Hlen. rewrite chunks_short by (try assumption; apply pl_pos).
  cbn [layer_of]. rewrite piece_hash_single by assumption. reflexivity.
Qed.

(* ---------- _calculate_root ---------- *)

Lemma calculate_root_multi data : pl < length data ->
  merkle_root
    (bep52_piece_layer k data ++
     repeat (merkle_root (repeat zero32 (2 ^ k)))
       (next_power_2_nat (length (bep52_piece_layer k data)) - length (bep52_piece_layer k data)))
  = bep52_root data.
Proof.
  intros Hlen. pose proof pl_pos as Hplpos. pose proof (pow2_pos k) as Hkpos.
  assert (Hne : data <> []) by (destruct data; [cbn [length] in Hlen; lia|discriminate]).
  assert (Hlne : leaves data <> []).
  { unfold Bep52.leaves. intro H0. apply map_eq_nil in H0. revert H0.
    apply chunks_nonempty; assumption. }
  set (ls := leaves data) in *. set (n := length ls).
  set (m := length (chunks (2 ^ k) ls)).
  assert (HLm : length (bep52_piece_layer k data) = m).
  { unfold Bep52.bep52_piece_layer. rewrite map_length. reflexivity. }
  rewrite HLm.
  destruct (length_chunks_bounds (2 ^ k) ls Hkpos Hlne) as [Hm1 [Hmlo Hmhi]].
  fold m in Hm1, Hmlo, Hmhi. fold n in Hmlo, Hmhi.
  (* more than one piece *)
  assert (Hm : 1 < m).
  { unfold m, ls, Bep52.leaves. rewrite map_chunks by assumption.
    unfold bytes. rewrite chunks_chunks by assumption. rewrite <- Hpl, !map_length.
    destruct (length_chunks_bounds pl data Hplpos Hne) as [_ [_ Hhi]].
    destruct (length (chunks pl data)) as [|[|q]]; lia. }
  set (a := Nat.log2_up m).
  assert (Hh : Nat.log2_up n = a + k) by (apply log2_up_groups; assumption).
  destruct (log2_up_least m ltac:(lia)) as [Hma _]. fold a in Hma.
  rewrite next_power_2_nat_spec by lia. fold a.
  rewrite (merkle_root_tree_root H256 k (repeat zero32 (2 ^ k))) by apply repeat_length.
  rewrite (merkle_root_tree_root H256 a)
    by (rewrite app_length, repeat_length, HLm; lia).
  unfold Bep52.bep52_root, log2_up_nat. cbv zeta. fold ls. fold n. rewrite Hh.
  assert (Hn : n <= 2 ^ a * 2 ^ k).
  { rewrite <- Nat.pow_add_r, <- Hh. apply log2_up_least.
    destruct ls; [congruence|unfold n; cbn [length]; lia]. }
  rewrite tree_root_split
    by (unfold pad_leaves; rewrite app_length, repeat_length, Nat.pow_add_r; fold n; lia).
  unfold pad_leaves. rewrite Nat.pow_add_r. fold n.
  unfold n. rewrite chunks_pad by (try assumption; fold n; exact Hn).
  rewrite map_app, map_map, map_repeat. fold m.
  unfold Bep52.bep52_piece_layer, pad_leaves. fold ls. reflexivity.
Qed.

(* ---------- HasherV2: main theorems ---------- *)

Lemma hasher_v2_eq data :
  hasher_v2 pl data = v2_calculate_root (2 ^ k) (layer_of true (chunks pl data)).
Proof.
  unfold HasherV2.hasher_v2. cbv zeta. rewrite pl_div.
  rewrite v2_loop_spec by lia. reflexivity.
Qed.

Theorem hasher_v2_root data : data <> [] -> fst (hasher_v2 pl data) = bep52_root data.
Proof.
  intros Hne. rewrite hasher_v2_eq. unfold HasherV2.v2_calculate_root. cbv zeta. cbn [fst].
  destruct (le_lt_dec (length data) pl) as [Hle|Hgt].
  - rewrite layer_of_single by assumption. reflexivity.
  - rewrite layer_of_multi by assumption.
    assert (Hm : (1 <? length (bep52_piece_layer k data)) = true).
    { apply Nat.ltb_lt. rewrite <- (layer_of_multi data Hgt), layer_of_length.
      destruct (length_chunks_bounds pl data pl_pos Hne) as [_ [_ Hhi]].
      unfold bytes in Hhi |- *.
      destruct (length (chunks pl data)) as [|[|q]]; lia. }
    rewrite Hm. apply calculate_root_multi. exact Hgt.
Qed.

(* the piece layer of a file longer than one piece (the only files for which BEP 52 and the
   metafile writers use it) *)
Theorem hasher_v2_layer data : pl < length data ->
  snd (hasher_v2 pl data) = bep52_piece_layer k data.
Proof.
  intros Hgt. rewrite hasher_v2_eq. unfold HasherV2.v2_calculate_root. cbv zeta. cbn [snd].
  apply layer_of_multi. exact Hgt.
Qed.

(* a file of at most one piece: the single layer hash is the root itself (leaves padded only
   to the next power of two of the block count, NOT to a whole piece) *)
Theorem hasher_v2_layer_one_piece data : data <> [] -> length data <= pl ->
  snd (hasher_v2 pl data) = [bep52_root data].
Proof.
  intros Hne Hle. rewrite hasher_v2_eq. unfold HasherV2.v2_calculate_root. cbv zeta. cbn [snd].
  apply layer_of_single; assumption.
Qed.

Corollary hasher_v2_layer_length data :
  length (snd (hasher_v2 pl data)) = ceil_div (length data) pl.
Proof.
  rewrite hasher_v2_eq. unfold HasherV2.v2_calculate_root. cbv zeta. cbn [snd].
  rewrite layer_of_length. apply length_chunks. apply pl_pos.
Qed.

Corollary bep52_piece_layer_length data :
  length (bep52_piece_layer k data) = ceil_div (length data) pl.
Proof.
  unfold Bep52.bep52_piece_layer, Bep52.leaves. rewrite map_length.
  rewrite map_chunks by apply pow2_pos. unfold bytes.
  rewrite chunks_chunks by (assumption || apply pow2_pos).
  rewrite <- Hpl, !map_length. apply length_chunks. apply pl_pos.
Qed.

(* ---------- HasherHybrid ---------- *)

(* what the code feeds to sha1 for the piece p, and what it does to padding_file *)
Definition hy_piece (padding : bool) (p : bytes) : bytes :=
  if (0 <? pl - length p) && padding then p ++ zeros (pl - length p) else p.
Definition hy_pf (padding : bool) (pf : option nat) (p : bytes) : option nat :=
  if (0 <? pl - length p) && padding then Some (pl - length p) else pf.

Lemma firstn_pl_nonempty (cur : bytes) : cur <> [] -> firstn pl cur <> [].
Proof.
  intros Hne H0. pose proof pl_pos. apply (f_equal (@length _)) in H0.
  rewrite firstn_length in H0. destruct cur; [congruence|]. cbn [length] in H0. lia.
Qed.

Lemma hy_loop_spec padding : forall fuel cur lh ps pf, length cur < fuel ->
  hy_loop H256 B fuel padding pl (2 ^ k) cur lh ps pf =
  (lh ++ layer_of (is_nil lh) (chunks pl cur),
   ps ++ map (hy_piece padding) (chunks pl cur),
   fold_left (hy_pf padding) (chunks pl cur) pf).
Proof.
  induction fuel as [|f IH]; intros cur lh ps pf Hf; [lia|].
  cbn [hy_loop]. rewrite hy_read_blocks_spec, amount_B. cbn [app].
  destruct cur as [|x cur0] eqn:E.
  - rewrite firstn_nil, !chunks_nil. cbn [map layer_of fold_left]. rewrite !app_nil_r. reflexivity.
  - rewrite <- E in *. assert (Hne : cur <> []) by (subst cur; discriminate).
    assert (Hlen : 0 < length cur) by (subst cur; cbn [length]; lia).
    pose proof pl_pos as Hplpos.
    fold (blocks_of (firstn pl cur)).
    destruct (blocks_of (firstn pl cur)) as [|b0 bs] eqn:Eb.
    + exfalso. revert Eb. apply blocks_of_nonempty, firstn_pl_nonempty. exact Hne.
    + rewrite <- Eb. rewrite hy_pad_blocks_eq.
      rewrite (chunks_cons pl cur) by assumption. cbn [layer_of map fold_left].
      unfold hy_piece at 1. unfold hy_pf at 2.
      destruct ((0 <? pl - length (firstn pl cur)) && padding) eqn:Ep;
        rewrite IH by (rewrite skipn_length; lia);
        rewrite is_nil_snoc, <- !app_assoc; reflexivity.
Qed.

Lemma calculate_root_same lh :
  hy_calculate_root (2 ^ k) lh =
  (fst (v2_calculate_root (2 ^ k) lh), snd (v2_calculate_root (2 ^ k) lh),
   snd (hy_calculate_root (2 ^ k) lh)).
Proof. reflexivity. Qed.

Lemma hasher_hybrid_eq padding data :
  hasher_hybrid padding pl data =
  (fst (hasher_v2 pl data), snd (hasher_v2 pl data),
   map (hy_piece padding) (chunks pl data),
   fold_left (hy_pf padding) (chunks pl data) None).
Proof.
  unfold HasherV2.hasher_hybrid. cbv zeta. rewrite pl_div, hy_loop_spec by lia.
  cbn [app is_nil]. rewrite hasher_v2_eq, calculate_root_same. reflexivity.
Qed.

Lemma hy_piece_false p : hy_piece false p = p.
Proof. unfold hy_piece. rewrite andb_false_r. reflexivity. Qed.

Lemma hy_piece_true p : hy_piece true p = pad_piece pl p.
Proof.
  unfold hy_piece, pad_piece. rewrite andb_true_r.
  destruct (0 <? pl - length p) eqn:E; [reflexivity|].
  apply Nat.ltb_ge in E. replace (pl - length p) with 0 by lia.
  cbn [zeros repeat]. rewrite app_nil_r. reflexivity.
Qed.

(* full pieces, then possibly one short rest whose length is length data mod pl *)
Lemma chunks_decomp (data : bytes) : exists ps r,
  chunks pl data = ps ++ (match r with [] => [] | _ => [r] end) /\
  Forall (fun p => length p = pl) ps /\ length r < pl /\ data = concat ps ++ r /\
  length data mod pl = length r.
Proof.
  destruct (chunks_full_or_last pl data pl_pos) as [ps [r [E [F [Hr C]]]]].
  exists ps, r. repeat split; try assumption.
  rewrite C at 1. rewrite app_length, (length_concat_full pl) by assumption.
  rewrite Nat.add_comm, Nat.mod_add by lia. apply Nat.mod_small. assumption.
Qed.

Lemma fold_hy_pf_full padding ps : Forall (fun p => length p = pl) ps ->
  forall pf, fold_left (hy_pf padding) ps pf = pf.
Proof.
  intros F. induction F as [|p ps Hp _ IH]; intros pf; [reflexivity|].
  cbn [fold_left]. rewrite IH. unfold hy_pf. rewrite Hp, Nat.sub_diag. reflexivity.
Qed.

Lemma hybrid_padding_file padding data :
  fold_left (hy_pf padding) (chunks pl data) None =
  if padding then pad_file_length pl data else None.
Proof.
  destruct (chunks_decomp data) as [ps [r [E [F [Hr [C M]]]]]].
  rewrite E, fold_left_app, (fold_hy_pf_full padding ps F).
  unfold pad_file_length. rewrite M. destruct r as [|x r].
  - cbn [fold_left length Nat.eqb]. destruct padding; reflexivity.
  - cbn [fold_left]. unfold hy_pf.
    assert (E1 : (0 <? pl - length (x :: r)) = true) by (apply Nat.ltb_lt; lia).
    rewrite E1. cbn [andb length Nat.eqb]. reflexivity.
Qed.

Lemma hybrid_pieces padding data :
  map (hy_piece padding) (chunks pl data) =
  if padding then v1_inputs_padded pl data else v1_inputs_plain pl data.
Proof.
  destruct padding.
  - unfold v1_inputs_padded. apply map_ext. apply hy_piece_true.
  - unfold v1_inputs_plain. rewrite (map_ext _ (fun p => p)) by apply hy_piece_false.
    apply map_id.
Qed.

(* "the last chunk zero-extended": the padded inputs are the pl-slices of the file followed
   by its pad file *)
Theorem v1_inputs_padded_chunks data :
  v1_inputs_padded pl data =
  chunks pl (data ++ zeros (match pad_file_length pl data with Some n => n | None => 0 end)).
Proof.
  pose proof pl_pos as Hplpos.
  destruct (chunks_decomp data) as [ps [r [E [F [Hr [C M]]]]]].
  unfold v1_inputs_padded, pad_file_length. rewrite E, M, map_app.
  rewrite (map_id_Forall (pad_piece pl) (fun p => length p = pl)); [|
    intros p Hp; unfold pad_piece; rewrite Hp, Nat.sub_diag; apply app_nil_r | assumption].
  destruct r as [|x r].
  - cbn [length Nat.eqb map zeros repeat]. rewrite !app_nil_r. rewrite C, app_nil_r.
    symmetry. apply chunks_all_full; assumption.
  - cbn [length Nat.eqb map]. rewrite C at 1. rewrite <- app_assoc.
    rewrite chunks_app_multiple
      by (try assumption; exists (length ps); apply length_concat_full; assumption).
    rewrite chunks_all_full by assumption. f_equal.
    symmetry. apply chunks_short; [assumption|discriminate|].
    unfold pad_piece. rewrite app_length, zeros_length. cbn [length] in *. lia.
Qed.

(* everything but the last v1 input is a pl-slice of the file *)
Theorem hasher_hybrid_correct padding data : data <> [] ->
  hasher_hybrid padding pl data =
  (bep52_root data, snd (hasher_v2 pl data),
   (if padding then v1_inputs_padded pl data else v1_inputs_plain pl data),
   (if padding then pad_file_length pl data else None)).
Proof.
  intros Hne. rewrite hasher_hybrid_eq, hybrid_pieces, hybrid_padding_file.
  rewrite hasher_v2_root by assumption. reflexivity.
Qed.

(* C10, hashers: same root and same layer *)
Corollary hasher_hybrid_agrees_v2 padding data :
  fst (fst (hasher_hybrid padding pl data)) = hasher_v2 pl data.
Proof. rewrite hasher_hybrid_eq. cbn [fst]. symmetry. apply surjective_pairing. Qed.

Lemma pad_file_length_spec data n :
  pad_file_length pl data = Some n <->
  length data mod pl <> 0 /\ n = pl - length data mod pl.
Proof.
  unfold pad_file_length. destruct (length data mod pl =? 0) eqn:E.
  - apply Nat.eqb_eq in E. split; [discriminate|]. intros [H0 _]. congruence.
  - apply Nat.eqb_neq in E. split.
    + intros H0. injection H0 as <-. split; [assumption|reflexivity].
    + intros [_ ->]. reflexivity.
Qed.

(* the v1 digests of a hybrid single file *)
Corollary hasher_hybrid_v1_digests padding data :
  map H1 (snd (fst (hasher_hybrid padding pl data))) =
  map H1 (if padding then v1_inputs_padded pl data else chunks pl data).
Proof. rewrite hasher_hybrid_eq. cbn [fst snd]. rewrite hybrid_pieces. reflexivity. Qed.

(* ---------- FileHasher ---------- *)

Definition fh_obs (r : fh_state * list bytes * list bytes) :=
  let '(st, yl, yp) := r in
  (fh_root st, fh_piece_layer st, fh_pieces st, fh_padding_file st, yl, yp).

Lemma fh_drive_spec hybrid padding : forall fuel cur lh ps pf yl yp,
  length cur + 2 <= fuel ->
  fh_obs (fh_drive H256 B fuel hybrid padding pl (2 ^ k)
            (mk_fh cur lh ps pf false None None) yl yp) =
  (Some (fst (v2_calculate_root (2 ^ k) (lh ++ layer_of (is_nil lh) (chunks pl cur)))),
   Some (lh ++ layer_of (is_nil lh) (chunks pl cur)),
   (if hybrid then ps ++ map (hy_piece padding) (chunks pl cur) else ps),
   (if hybrid then fold_left (hy_pf padding) (chunks pl cur) pf else pf),
   yl ++ layer_of (is_nil lh) (chunks pl cur),
   (if hybrid then yp ++ map (hy_piece padding) (chunks pl cur) else yp)).
Proof.
  induction fuel as [|f IH]; intros cur lh ps pf yl yp Hf; [lia|].
  cbn [fh_drive]. unfold fh_next.
  cbn [fh_end fh_cur fh_layer_hashes fh_pieces fh_padding_file fh_root fh_piece_layer].
  rewrite hy_read_blocks_spec, amount_B. cbn [app].
  destruct cur as [|x cur0] eqn:E.
  - rewrite firstn_nil, !chunks_nil. cbn [map layer_of fold_left].
    unfold fh_do_calculate_root.
    cbn [fh_end fh_cur fh_layer_hashes fh_pieces fh_padding_file fh_root fh_piece_layer].
    rewrite calculate_root_same. cbn [fh_obs].
    cbn [fh_end fh_cur fh_layer_hashes fh_pieces fh_padding_file fh_root fh_piece_layer].
    rewrite !app_nil_r. destruct hybrid; reflexivity.
  - rewrite <- E in *. assert (Hne : cur <> []) by (subst cur; discriminate).
    assert (Hlen : 0 < length cur) by (subst cur; cbn [length]; lia).
    pose proof pl_pos as Hplpos.
    fold (blocks_of (firstn pl cur)).
    destruct (blocks_of (firstn pl cur)) as [|b0 bs] eqn:Eb.
    + exfalso. revert Eb. apply blocks_of_nonempty, firstn_pl_nonempty. exact Hne.
    + rewrite <- Eb.
      cbn [fh_end fh_cur fh_layer_hashes fh_pieces fh_padding_file fh_root fh_piece_layer].
      rewrite hy_pad_blocks_eq.
      rewrite (chunks_cons pl cur) by assumption. cbn [layer_of map fold_left].
      set (lhash := piece_hash (is_nil lh) (firstn pl cur)).
      assert (Hpiece : hy_piece padding (firstn pl cur) =
                       if (0 <? pl - length (firstn pl cur)) && padding
                       then firstn pl cur ++ zeros (pl - length (firstn pl cur))
                       else firstn pl cur) by reflexivity.
      assert (Hpf : forall pf0, hy_pf padding pf0 (firstn pl cur) =
                       if (0 <? pl - length (firstn pl cur)) && padding
                       then Some (pl - length (firstn pl cur)) else pf0) by reflexivity.
      destruct ((0 <? 2 ^ k) && (length cur <=? (2 ^ k - 1) * B)) eqn:Ehit.
      * (* a read returned 0 bytes inside this piece: it is the last one *)
        apply andb_prop in Ehit. destruct Ehit as [_ Ehit]. apply Nat.leb_le in Ehit.
        assert (Hshort : length cur < pl).
        { rewrite <- amount_B. pose proof (pow2_pos k).
          rewrite Nat.mul_sub_distr_r in Ehit. lia. }
        rewrite (skipn_all2 cur) by lia. rewrite chunks_nil.
        cbn [layer_of map fold_left].
        unfold fh_do_calculate_root.
        cbn [fh_end fh_cur fh_layer_hashes fh_pieces fh_padding_file fh_root fh_piece_layer].
        rewrite calculate_root_same.
        destruct f as [|f']; [lia|].
        destruct hybrid.
        -- rewrite Hpiece, Hpf.
           destruct ((0 <? pl - length (firstn pl cur)) && padding) eqn:Ep;
             cbn [fh_drive]; unfold fh_next;
             cbn [fh_end fh_cur fh_layer_hashes fh_pieces fh_padding_file fh_root
                  fh_piece_layer fh_obs];
             reflexivity.
        -- cbn [fh_drive]. unfold fh_next.
           cbn [fh_end fh_cur fh_layer_hashes fh_pieces fh_padding_file fh_root
                fh_piece_layer fh_obs].
           reflexivity.
      * (* the piece was read without meeting the end of the file *)
        assert (Hf' : length (skipn pl cur) + 2 <= f) by (rewrite skipn_length; lia).
        destruct hybrid.
        -- rewrite Hpiece, Hpf.
           destruct ((0 <? pl - length (firstn pl cur)) && padding) eqn:Ep;
             cbn [fh_end fh_cur fh_layer_hashes fh_pieces fh_padding_file fh_root
                  fh_piece_layer];
             rewrite IH by exact Hf';
             rewrite is_nil_snoc, <- !app_assoc; reflexivity.
        -- cbn [fh_end fh_cur fh_layer_hashes fh_pieces fh_padding_file fh_root
                fh_piece_layer].
           rewrite IH by exact Hf'.
           rewrite is_nil_snoc, <- !app_assoc; reflexivity.
Qed.

Lemma file_hasher_run_spec hybrid padding data :
  let r := file_hasher_run hybrid padding pl data in
  fhr_root r = Some (fst (hasher_v2 pl data)) /\
  fhr_piece_layer r = Some (snd (hasher_v2 pl data)) /\
  fhr_pieces r = (if hybrid then map (hy_piece padding) (chunks pl data) else []) /\
  fhr_padding_file r =
    (if hybrid then fold_left (hy_pf padding) (chunks pl data) None else None) /\
  fhr_yielded_layers r = snd (hasher_v2 pl data) /\
  fhr_yielded_pieces r = fhr_pieces r.
Proof.
  cbv zeta. unfold HasherV2.file_hasher_run. cbv zeta. rewrite pl_div. unfold fh_init.
  pose proof (fh_drive_spec hybrid padding (length data + 2) data [] [] None [] []
                (Nat.le_refl _)) as S.
  destruct (fh_drive H256 B (length data + 2) hybrid padding pl (2 ^ k)
              (mk_fh data [] [] None false None None) [] []) as [[st yl] yp].
  cbn [fh_obs app is_nil] in S. rewrite <- hasher_v2_eq in S.
  injection S as S1 S2 S3 S4 S5 S6.
  cbn [fhr_root fhr_piece_layer fhr_pieces fhr_padding_file fhr_yielded_layers
       fhr_yielded_pieces].
  rewrite S1, S2, S3, S4, S5, S6.
  assert (E2 : snd (hasher_v2 pl data) = layer_of true (chunks pl data))
    by (rewrite hasher_v2_eq; reflexivity).
  rewrite E2. repeat split; reflexivity.
Qed.

(* FileHasher(hybrid=True) = HasherHybrid *)
Theorem file_hasher_hybrid padding data :
  file_hasher true padding pl data = hasher_hybrid padding pl data.
Proof.
  destruct (file_hasher_run_spec true padding data) as [R [L [P [F _]]]].
  cbv zeta in R, L, P, F. unfold HasherV2.file_hasher. cbv zeta.
  rewrite R, L, P, F, hasher_hybrid_eq. reflexivity.
Qed.

(* FileHasher(hybrid=False) = HasherV2; no pieces, no padding file *)
Theorem file_hasher_v2 padding data :
  file_hasher false padding pl data =
  (fst (hasher_v2 pl data), snd (hasher_v2 pl data), [], None).
Proof.
  destruct (file_hasher_run_spec false padding data) as [R [L [P [F _]]]].
  cbv zeta in R, L, P, F. unfold HasherV2.file_hasher. cbv zeta.
  rewrite R, L, P, F. reflexivity.
Qed.

(* what the iterator yields is what it stores *)
Theorem file_hasher_yields hybrid padding data :
  let r := file_hasher_run hybrid padding pl data in
  Some (fhr_yielded_layers r) = fhr_piece_layer r /\ fhr_yielded_pieces r = fhr_pieces r.
Proof.
  destruct (file_hasher_run_spec hybrid padding data) as [_ [L [_ [_ [Y P]]]]].
  cbv zeta in *. rewrite L, Y. split; [reflexivity|exact P].
Qed.

Theorem file_hasher_correct hybrid padding data : data <> [] ->
  file_hasher hybrid padding pl data =
  (bep52_root data, snd (hasher_v2 pl data),
   (if hybrid then if padding then v1_inputs_padded pl data else v1_inputs_plain pl data
    else []),
   (if hybrid then if padding then pad_file_length pl data else None else None)).
Proof.
  intros Hne. destruct hybrid.
  - rewrite file_hasher_hybrid. apply hasher_hybrid_correct. exact Hne.
  - rewrite file_hasher_v2, hasher_v2_root by assumption. reflexivity.
Qed.

(* C10 for the hashers (DESIGN C10_hashers_agree) *)
Theorem C10_hashers_agree padding data r l :
  hasher_v2 pl data = (r, l) ->
  exists ps pad,
    hasher_hybrid padding pl data = (r, l, ps, pad) /\
    file_hasher true padding pl data = (r, l, ps, pad) /\
    file_hasher false padding pl data = (r, l, [], None).
Proof.
  intros E.
  exists (map (hy_piece padding) (chunks pl data)),
         (fold_left (hy_pf padding) (chunks pl data) None).
  rewrite file_hasher_hybrid, file_hasher_v2, hasher_hybrid_eq, E. cbn [fst snd].
  repeat split; reflexivity.
Qed.

(* the layer of every hasher has one entry per piece that contains data *)
Corollary layer_length_all hybrid padding data :
  length (snd (hasher_v2 pl data)) = ceil_div (length data) pl /\
  length (snd (fst (fst (hasher_hybrid padding pl data)))) = ceil_div (length data) pl /\
  length (snd (fst (fst (file_hasher hybrid padding pl data)))) = ceil_div (length data) pl.
Proof.
  rewrite hasher_hybrid_eq. cbn [fst snd].
  destruct hybrid; [rewrite file_hasher_hybrid, hasher_hybrid_eq|rewrite file_hasher_v2];
    cbn [fst snd]; repeat split; apply hasher_v2_layer_length.
Qed.

End Correct.

(* ---------- examples (toy hash, B = 2 or 4, k = 1 or 2) ---------- *)
Section Examples.
Open Scope char_scope.
Let H (x : bytes) : bytes := "<" :: x ++ [">"].
Let alphabet : bytes :=
  ["a";"b";"c";"d";"e";"f";"g";"h";"i";"j";"k";"l";"m";"n";"o";"p";"q";"r";"s";"t";"u";"v";"w";
   "x";"y";"z";"A";"B";"C";"D";"E";"F";"G";"H";"I";"J";"K";"L";"M";"N"].
Let d (n : nat) : bytes := firstn n alphabet.

(* B = 2, k = 2, pl = 8: sizes < B, = B, B+1, = pl, pl+1, 2pl+3, 3pl, 4pl *)
Let sizes2 : list nat := [1; 2; 3; 8; 9; 19; 24; 32].
(* B = 4, k = 1, pl = 8 *)
Let sizes4 : list nat := [3; 4; 5; 8; 9; 21; 24; 32].

Example ex_v2_root_B2 :
  map (fun n => fst (hasher_v2 H 2 8 (d n))) sizes2 = map (fun n => bep52_root H 2 (d n)) sizes2.
Proof. vm_compute. reflexivity. Qed.

Example ex_v2_root_B4 :
  map (fun n => fst (hasher_v2 H 4 8 (d n))) sizes4 = map (fun n => bep52_root H 4 (d n)) sizes4.
Proof. vm_compute. reflexivity. Qed.

(* files longer than one piece: pl+1, 2pl+3, 3pl (3 pieces: not a power of two), 4pl *)
Example ex_v2_layer_B2 :
  map (fun n => snd (hasher_v2 H 2 8 (d n))) [9; 19; 24; 32]
  = map (fun n => bep52_piece_layer H 2 2 (d n)) [9; 19; 24; 32].
Proof. vm_compute. reflexivity. Qed.

Example ex_v2_layer_B4 :
  map (fun n => snd (hasher_v2 H 4 8 (d n))) [9; 21; 24; 32]
  = map (fun n => bep52_piece_layer H 4 1 (d n)) [9; 21; 24; 32].
Proof. vm_compute. reflexivity. Qed.

(* files of at most one piece: the layer is [root] *)
Example ex_v2_layer_one_piece :
  map (fun n => snd (hasher_v2 H 2 8 (d n))) [1; 2; 3; 8]
  = map (fun n => [bep52_root H 2 (d n)]) [1; 2; 3; 8].
Proof. vm_compute. reflexivity. Qed.

(* ... and for a file of at most HALF a piece that is NOT the piece-layer node of the tree
   (the tree of such a file is lower than a piece): the unconditional statement
   `snd (hasher_v2 pl data) = bep52_piece_layer k data` is false. *)
Example ex_layer_small_file_differs :
  snd (hasher_v2 H 2 8 (d 3)) <> bep52_piece_layer H 2 2 (d 3).
Proof. intro E. vm_compute in E. discriminate E. Qed.

Example ex_root_value : (* 3 bytes, B = 2: two leaves, no padding to a whole piece *)
  fst (hasher_v2 H 2 8 (d 3)) = H (H ["a"; "b"] ++ H ["c"]).
Proof. vm_compute. reflexivity. Qed.

Example ex_hybrid_B2 :
  map (fun n => hasher_hybrid H 2 true 8 (d n)) sizes2
  = map (fun n => (bep52_root H 2 (d n), snd (hasher_v2 H 2 8 (d n)),
                   v1_inputs_padded 8 (d n), pad_file_length 8 (d n))) sizes2.
Proof. vm_compute. reflexivity. Qed.

Example ex_hybrid_nopad_B4 :
  map (fun n => hasher_hybrid H 4 false 8 (d n)) sizes4
  = map (fun n => (bep52_root H 4 (d n), snd (hasher_v2 H 4 8 (d n)),
                   chunks 8 (d n), None)) sizes4.
Proof. vm_compute. reflexivity. Qed.

Example ex_hybrid_pieces_19 :
  snd (fst (hasher_hybrid H 2 true 8 (d 19))) =
  [d 8; skipn 8 (d 16); ["q"; "r"; "s"] ++ zeros 5]
  /\ snd (hasher_hybrid H 2 true 8 (d 19)) = Some 5
  /\ snd (hasher_hybrid H 2 true 8 (d 24)) = None.
Proof. vm_compute. repeat split; reflexivity. Qed.

Example ex_file_hasher_B2 :
  map (fun n => file_hasher H 2 true true 8 (d n)) sizes2
  = map (fun n => hasher_hybrid H 2 true 8 (d n)) sizes2
  /\ map (fun n => file_hasher H 2 false true 8 (d n)) sizes2
  = map (fun n => (fst (hasher_v2 H 2 8 (d n)), snd (hasher_v2 H 2 8 (d n)), [], None)) sizes2.
Proof. vm_compute. split; reflexivity. Qed.

(* the `end` flag: an exact multiple of pl takes one more __next__ that reads 0 bytes and
   leaves end = True; a short last piece sets and then clears it *)
Example ex_file_hasher_end_flag :
  fhr_end (file_hasher_run H 2 true true 8 (d 16)) = true /\
  fhr_end (file_hasher_run H 2 true true 8 (d 13)) = false /\
  fhr_end (file_hasher_run H 2 true true 8 (d 15)) = true.
Proof. vm_compute. repeat split; reflexivity. Qed.

End Examples.

Print Assumptions merkle_root_tree_root.
Print Assumptions tree_root_split.
Print Assumptions pair_up_app.
Print Assumptions iter_pair_app.
Print Assumptions iter_pair_tree_root.
Print Assumptions next_power_2_nat_spec.
Print Assumptions next_power_2_nat_least.
Print Assumptions hasher_v2_root.
Print Assumptions hasher_v2_layer.
Print Assumptions hasher_v2_layer_one_piece.
Print Assumptions hasher_v2_layer_length.
Print Assumptions bep52_piece_layer_length.
Print Assumptions hasher_hybrid_correct.
Print Assumptions hasher_hybrid_agrees_v2.
Print Assumptions v1_inputs_padded_chunks.
Print Assumptions pad_file_length_spec.
Print Assumptions hasher_hybrid_v1_digests.
Print Assumptions file_hasher_hybrid.
Print Assumptions file_hasher_v2.
Print Assumptions file_hasher_yields.
Print Assumptions file_hasher_correct.
Print Assumptions C10_hashers_agree.
Print Assumptions layer_length_all.
