(* C20, part 3: the three routes, the class dispatch and the landing in the metafile, for ANY
   tables accepted by the checker `route_table_ok`. *)
From Coq Require Import String List Bool Ascii Arith Lia.
From TF Require Import Model.ArgParse Model.Routes Proofs.RoutesProofs Proofs.RoutesInit.
Import ListNotations.
Open Scope string_scope.

(* ------------------------------------------------------------------ remaining checkers *)
Definition tr_of (s : shape) : cfg_transform :=
  match s with ShList => TLines | ShBool => TBoolTrue | ShStr => TVerbatim end.

Definition tr_eqb (a b : cfg_transform) : bool :=
  match a, b with
  | TVerbatim, TVerbatim | TLines, TLines | TBoolTrue, TBoolTrue => true
  | _, _ => false
  end.

(* parse_config_file stores the documented key under the documented keyword, in the shape the
   command line delivers; values are read verbatim (no interpolation) *)
Definition cfg_key_ok (T : tables) (k : okey) : bool :=
  let (kw, tr) := t_cfg T (doc_cfg_key k) in (kw =? doc_kw k) && tr_eqb tr (tr_of (doc_shape k)).

Definition cfg_ok (T : tables) : bool := t_interp_none T && forallb (cfg_key_ok T) all_keys.

Definition dispatch_ok (T : tables) : bool :=
  let '(a, lit, c1, c2) := t_dispatch T in
  (a =? "meta_version") && (lit =? "1") && (c1 =? "TorrentFile") && (c2 =? "TorrentAssembler").

Definition landing_eqb (a b : landing) : bool :=
  (l_param a =? l_param b) && Bool.eqb (l_info a) (l_info b) && (l_key a =? l_key b)
  && Bool.eqb (l_one a) (l_one b).

Fixpoint landings_eqb (a b : list landing) : bool :=
  match a, b with
  | [], [] => true
  | x :: a', y :: b' => landing_eqb x y && landings_eqb a' b'
  | _, _ => false
  end.

Definition doc_landings : list landing :=
  [ mk_landing "comment" true "comment" false;
    mk_landing "private" true "private" true;
    mk_landing "source" true "source" false;
    mk_landing "url_list" false "url-list" false;
    mk_landing "httpseeds" false "httpseeds" false ].

Definition hand_fields : list string := ["announce"; "announce-list"; "info.piece length"].

Definition writes (f : string) (l : landing) : bool := field_name l =? f.

(* each documented field is written by exactly one landing, the documented one; no landing
   overwrites a field the hand-written part of the model writes *)
Definition landings_ok (T : tables) : bool :=
  forallb (fun e => landings_eqb (filter (writes (field_name e)) (t_landings T)) [e]) doc_landings
  && forallb (fun l => negb (mem_str (field_name l) hand_fields)) (t_landings T).

(* THE checker over the generated tables *)
Definition route_table_ok (T : tables) : bool :=
  cli_ok (t_cli T) && cfg_ok T && init_ok T && dispatch_ok T && landings_ok T && snd (t_hybrid T).

Lemma route_table_ok_parts : forall T, route_table_ok T = true ->
  cli_ok (t_cli T) = true /\ cfg_ok T = true /\ init_ok T = true /\ dispatch_ok T = true
  /\ landings_ok T = true /\ snd (t_hybrid T) = true.
Proof.
  intros T. unfold route_table_ok. rewrite !andb_true_iff. tauto.
Qed.

(* ------------------------------------------------------------------ small facts *)
Lemma hybrid_of_str : forall T s, fst (t_hybrid T) = "3" -> hybrid_of T (VStr s) = (s =? "3").
Proof.
  intros T s H. unfold hybrid_of. destruct (t_hybrid T) as [lit ts]. simpl in H. subst.
  destruct ts; reflexivity.
Qed.

Lemma cli_expected_matches : forall T o k, fst (t_hybrid T) = "3" ->
  key_matches T o k (cli_expected o k).
Proof.
  intros T o k H. unfold key_matches, cli_expected. destruct (opt_value o k); [reflexivity|].
  unfold absent_ok. destruct k; try reflexivity. simpl. rewrite hybrid_of_str by exact H. reflexivity.
Qed.

Lemma list_value_urls : forall o k l, opt_value o k = Some (VList l) -> incl l (urls o).
Proof.
  intros o k l H u Hu. unfold urls.
  destruct k; simpl in H; unfold lv, bv, sv in H;
    repeat match goal with
           | H : match ?x with _ => _ end = _ |- _ => destruct x eqn:?; try discriminate
           end; inversion H; subst; rewrite !in_app_iff; tauto.
Qed.

Lemma dispatch_spec : forall T o N, dispatch_ok T = true ->
  lookup N "meta_version" = Some (cli_expected o KMetaVersion) -> dispatch T N = doc_class o.
Proof.
  intros T o N Hd HN. unfold dispatch_ok in Hd. unfold dispatch.
  destruct (t_dispatch T) as [[[a lit] c1] c2]. rewrite !andb_true_iff in Hd.
  destruct Hd as [[[Ha Hl] H1] H2].
  apply String.eqb_eq in Ha, Hl, H1, H2. subst. unfold getv. rewrite HN.
  unfold cli_expected, doc_class. simpl. destruct (o_meta_version o); reflexivity.
Qed.

Lemma hybrid_int : forall T n, fst (t_hybrid T) = "3" -> snd (t_hybrid T) = true ->
  hybrid_of T (VInt n) = Nat.eqb n 3 \/ 10 <= n.
Proof.
  intros T n Hl Hs. unfold hybrid_of. destruct (t_hybrid T) as [lit ts]. simpl in Hs, Hl. subst lit ts.
  do 10 (destruct n as [|n]; [left; reflexivity|]). right. lia.
Qed.

Lemma no_writer : forall ls f, mem_str f hand_fields = true ->
  forallb (fun l => negb (mem_str (field_name l) hand_fields)) ls = true ->
  filter (writes f) ls = [].
Proof.
  induction ls as [|l ls IH]; intros f Hf H2; [reflexivity|].
  cbn [forallb] in H2. apply andb_true_iff in H2. destruct H2 as [Hl Hls].
  cbn [filter]. unfold writes at 1. destruct (field_name l =? f) eqn:E.
  - apply String.eqb_eq in E. subst f. rewrite Hf in Hl. discriminate.
  - apply IH; assumption.
Qed.

(* ------------------------------------------------------------------ command line *)
Section Routes.
Variable exists_ : string -> bool.
Variable T : tables.
Hypothesis HT : route_table_ok T = true.

Let Hcli := proj1 (route_table_ok_parts T HT).
Let Hcfg := proj1 (proj2 (route_table_ok_parts T HT)).
Let Hini := proj1 (proj2 (proj2 (route_table_ok_parts T HT))).
Let Hdis := proj1 (proj2 (proj2 (proj2 (route_table_ok_parts T HT)))).

Lemma Hlit : fst (t_hybrid T) = "3".
Proof. destruct (init_ok_parts T Hini) as [_ [_ [_ [_ [_ [_ [H _]]]]]]]. exact H. Qed.

Lemma content_param : exists d, lookup (t_params T) "content" = Some d /\ truthy d = false.
Proof.
  destruct (init_ok_parts T Hini) as [_ [_ [_ [_ [_ [H _]]]]]]. unfold falsy_default in H.
  destruct (lookup (t_params T) "content") as [d|]; [|discriminate].
  exists d. split; [reflexivity | apply negb_true_iff; exact H].
Qed.

Lemma path_param : exists d, lookup (t_params T) "path" = Some d /\ truthy d = false.
Proof.
  destruct (init_ok_parts T Hini) as [_ [_ [_ [_ [H _]]]]]. unfold falsy_default in H.
  destruct (lookup (t_params T) "path") as [d|]; [|discriminate].
  exists d. split; [reflexivity | apply negb_true_iff; exact H].
Qed.

Lemma getv_locals_kw : forall N k v, lookup N (doc_kw k) = Some v ->
  getv (locals T N) (doc_kw k) = v.
Proof.
  intros N k v H. destruct (kw_lookup T Hini k) as [d Hd].
  rewrite (getv_locals T N _ d Hd), H. reflexivity.
Qed.

Theorem cli_route : forall o sel order pos,
  cli_values_ok exists_ o = true ->
  NoDup order -> (forall k, opt_value o k <> None -> In k order) ->
  exists N, parse (t_cli T) (render_argv o sel order pos) = PR_ok N
            /\ init_params exists_ T N = IOk (params_of o)
            /\ dispatch T N = doc_class o.
Proof.
  intros o sel order pos Hv Hnd Hcov.
  unfold cli_values_ok in Hv. rewrite !andb_true_iff in Hv.
  destruct Hv as [[[[[[Hcf Hcne] Hcex] Huf] Hue] Hsf] Hver].
  destruct (parse_render_argv (t_cli T) Hcli o sel Huf Hsf Hver order pos Hcf Hnd Hcov)
    as [N [HN [Hnp Hout]]].
  exists N. split; [exact HN|].
  destruct Hout as [[Hc Hk] | [Hc [k0 [l [Hsh0 [Hv0 [Hl [Hk0 Hk]]]]]]]].
  - (* content set *)
    split.
    + apply (init_direct exists_ T Hini o N Hcne).
      * left. destruct content_param as [d [Hd _]]. rewrite (getv_locals T N _ d Hd), Hc. reflexivity.
      * intros k. rewrite (getv_locals_kw N k _ (Hk k)). apply cli_expected_matches. exact Hlit.
    + apply dispatch_spec; [exact Hdis | exact (Hk KMetaVersion)].
  - (* swallowed by k0 *)
    split.
    2:{ apply dispatch_spec; [exact Hdis|]. apply (Hk KMetaVersion). intros <-. discriminate. }
    unfold init_params. rewrite (init_locals_start exists_ T Hini). cbv zeta. unfold alias_step.
    destruct content_param as [dc [Hdc _]]. destruct path_param as [dp [Hdp Hdpf]].
    rewrite (getv_locals T N _ dc Hdc), Hc. cbn [truthy].
    rewrite (getv_locals T N _ dp Hdp), Hnp, Hdpf.
    destruct (init_ok_parts T Hini) as [_ [_ [_ [_ [_ [_ [_ Hrec]]]]]]].
    unfold recovery_ok in Hrec. apply andb_true_iff in Hrec. destruct Hrec as [Hr1 Hr2].
    rewrite forallb_forall in Hr1, Hr2.
    assert (Hoth : forall k, k <> k0 -> getv (locals T N) (doc_kw k) = cli_expected o k).
    { intros k Hne. apply getv_locals_kw. apply Hk. exact Hne. }
    rewrite (recover_swallowed exists_ (t_recovery T) (locals T N) k0 l (o_content o)).
    + apply params_of_locals_ok; [exact Hlit|]. split.
      * rewrite getv_set, String.eqb_refl. reflexivity.
      * intros k. rewrite getv_set, String.eqb_sym, doc_kw_not_path, getv_set, doc_kw_eqb.
        destruct (okey_eqb k0 k) eqn:He.
        -- apply okey_eqb_eq in He. subst k. unfold key_matches. rewrite Hv0. reflexivity.
        -- rewrite Hoth; [apply cli_expected_matches; exact Hlit|].
           intros ->. rewrite okey_eqb_refl in He. discriminate.
    + exact Hr2.
    + apply Hr1. destruct k0; try discriminate; simpl; tauto.
    + exact Hl.
    + exact Hcex.
    + apply getv_locals_kw. exact Hk0.
    + intros k Hne Hsh. rewrite (Hoth k Hne). unfold cli_expected.
      destruct (opt_value o k) as [v|] eqn:Hvk.
      * pose proof (opt_value_shape o k v Hvk) as Hs. rewrite Hsh in Hs. destruct Hs as [l' [-> _]].
        rewrite forallb_forall. intros u Hu. rewrite forallb_forall in Hue. apply Hue.
        apply (list_value_urls o k l' Hvk). exact Hu.
      * destruct k; try discriminate; reflexivity.
Qed.

(* ------------------------------------------------------------------ keyword arguments *)
Lemma lookup_kw_concat : forall o ks k,
  lookup (concat (map (kw_opt o) ks)) (doc_kw k) = if mem_key k ks then opt_value o k else None.
Proof.
  intros o ks k. induction ks as [|k0 ks IH]; cbn [map concat mem_key existsb].
  - reflexivity.
  - fold (mem_key k ks). unfold kw_opt at 1. destruct (okey_eqb k k0) eqn:He.
    + apply okey_eqb_eq in He. subst k0. cbn [orb]. destruct (opt_value o k) eqn:Hv.
      * cbn [app lookup]. rewrite String.eqb_refl. reflexivity.
      * cbn [app]. rewrite IH. destruct (mem_key k ks); congruence.
    + cbn [orb]. destruct (opt_value o k0); cbn [app lookup]; [|exact IH].
      rewrite doc_kw_eqb. replace (okey_eqb k0 k) with false; [exact IH|].
      destruct k0, k; simpl in *; congruence.
Qed.

Lemma lookup_kw_concat_other : forall o ks d, (forall k, (doc_kw k =? d) = false) ->
  lookup (concat (map (kw_opt o) ks)) d = None.
Proof.
  intros o ks d Hd. induction ks as [|k0 ks IH]; cbn [map concat]; [reflexivity|].
  unfold kw_opt at 1. destruct (opt_value o k0); cbn [app lookup]; [rewrite Hd|]; exact IH.
Qed.

Theorem keyword_route : forall o, kw_values_ok o = true ->
  init_params exists_ T (kwargs_of o) = IOk (params_of o).
Proof.
  intros o Hne. unfold kw_values_ok in Hne.
  apply (init_direct exists_ T Hini o _ Hne).
  - right. destruct content_param as [dc [Hdc Hdcf]]. destruct path_param as [dp [Hdp _]].
    rewrite (getv_locals T _ _ dc Hdc), (getv_locals T _ _ dp Hdp). unfold kwargs_of.
    cbn [lookup]. change ("path" =? "content") with false. cbv iota.
    rewrite lookup_kw_concat_other by apply doc_kw_not_content.
    rewrite String.eqb_refl. split; [exact Hdcf | reflexivity].
  - intros k. destruct (kw_lookup T Hini k) as [d Hd].
    rewrite (getv_locals T _ _ d Hd). unfold kwargs_of. cbn [lookup].
    rewrite String.eqb_sym, doc_kw_not_path, lookup_kw_concat.
    replace (mem_key k all_keys) with true by (symmetry; apply mem_key_In; apply in_all_keys).
    unfold key_matches. destruct (opt_value o k); [reflexivity|].
    apply (default_absent_ok T Hini). exact Hd.
Qed.

(* meta_version given as the documented int *)
Theorem keyword_int_hybrid : forall n, hybrid_of T (VInt n) = Nat.eqb n 3 \/ 10 <= n.
Proof.
  intros n. apply hybrid_int; [exact Hlit|].
  exact (proj2 (proj2 (proj2 (proj2 (proj2 (route_table_ok_parts T HT)))))).
Qed.

(* ------------------------------------------------------------------ configuration file *)
Lemma no_nl_split : forall s, contains_char nl s = false -> split_nl s = [s].
Proof.
  induction s as [|c s IH]; intros H; cbn [split_nl].
  - reflexivity.
  - cbn [contains_char] in H. apply orb_false_iff in H. destruct H as [Hc Hs].
    rewrite Ascii.eqb_sym, Hc, (IH Hs). reflexivity.
Qed.

Lemma split_nl_app : forall s r, contains_char nl s = false ->
  split_nl (s ++ String nl r) = s :: split_nl r.
Proof.
  induction s as [|c s IH]; intros r H; cbn [append split_nl].
  - rewrite Ascii.eqb_refl. reflexivity.
  - cbn [contains_char] in H. apply orb_false_iff in H. destruct H as [Hc Hs].
    rewrite Ascii.eqb_sym, Hc, (IH r Hs). reflexivity.
Qed.

Lemma split_join : forall l, l <> [] ->
  forallb (fun u => nonempty u && negb (contains_char nl u)) l = true ->
  filter nonempty (split_nl (join_nl l)) = l.
Proof.
  induction l as [|x l IH]; intros Hne H; [congruence|].
  cbn [forallb] in H. rewrite !andb_true_iff in H. destruct H as [[Hx Hn] Hl].
  apply negb_true_iff in Hn. destruct l as [|y l'].
  - cbn [join_nl]. rewrite (no_nl_split x Hn). cbn [filter]. rewrite Hx. reflexivity.
  - change (join_nl (x :: y :: l')) with (x ++ String nl (join_nl (y :: l'))).
    rewrite (split_nl_app x _ Hn). cbn [filter]. rewrite Hx. f_equal. apply IH; [congruence | exact Hl].
Qed.

Definition cfg_val (o : optrec) (ef : bool) (k : okey) : option value :=
  match doc_shape k, opt_value o k with
  | ShBool, None => if ef then Some (VBool false) else None
  | _, x => x
  end.

Lemma lower_cfg_key : forall k, lower (doc_cfg_key k) = doc_cfg_key k.
Proof. destruct k; reflexivity. Qed.

Lemma cfg_ok_key : forall k, t_cfg T (doc_cfg_key k) = (doc_kw k, tr_of (doc_shape k)).
Proof.
  intros k. pose proof Hcfg as H. unfold cfg_ok in H. apply andb_true_iff in H. destruct H as [_ H].
  rewrite forallb_forall in H. specialize (H k (in_all_keys k)). unfold cfg_key_ok in H.
  destruct (t_cfg T (doc_cfg_key k)) as [kw tr]. apply andb_true_iff in H. destruct H as [H1 H2].
  apply String.eqb_eq in H1. subst kw. f_equal. destruct tr, (doc_shape k); simpl in *; congruence.
Qed.

Lemma cfg_group : forall o ef k N,
  forallb (fun u => nonempty u && negb (contains_char nl u)) (urls o) = true ->
  fold_left (cfg_step T) (ini_opt o ef k) N = apply_key_f (cfg_val o ef) k N.
Proof.
  intros o ef k N Hu. unfold ini_opt, apply_key_f, cfg_val.
  assert (Hstep : forall s, cfg_step T N (doc_cfg_key k, s)
                            = set (doc_kw k) (cfg_value (tr_of (doc_shape k)) s) N).
  { intros s. unfold cfg_step. cbn [fst snd]. rewrite lower_cfg_key, cfg_ok_key. reflexivity. }
  destruct (opt_value o k) as [v|] eqn:Hv.
  - pose proof (opt_value_shape o k v Hv) as Hs. destruct (doc_shape k) eqn:Hsh.
    + destruct Hs as [l [-> Hl]]. cbn [fold_left]. rewrite Hstep. cbn [tr_of cfg_value].
      rewrite split_join; [reflexivity | exact Hl |].
      rewrite forallb_forall in Hu. rewrite forallb_forall. intros u Hin. apply Hu.
      apply (list_value_urls o k l Hv). exact Hin.
    + subst v. cbn [fold_left]. rewrite Hstep. reflexivity.
    + destruct Hs as [s ->]. cbn [fold_left]. rewrite Hstep. reflexivity.
  - destruct (doc_shape k) eqn:Hsh; try reflexivity.
    destruct ef; [|reflexivity]. cbn [fold_left]. rewrite Hstep. reflexivity.
Qed.

Lemma cfg_fold : forall o ef order N,
  forallb (fun u => nonempty u && negb (contains_char nl u)) (urls o) = true ->
  fold_left (cfg_step T) (render_ini o ef order) N = apply_keys_f (cfg_val o ef) order N.
Proof.
  intros o ef order. induction order as [|k ks IH]; intros N Hu; unfold render_ini; cbn [map concat].
  - reflexivity.
  - rewrite fold_left_app, cfg_group by exact Hu. cbn [apply_keys_f fold_left].
    apply IH. exact Hu.
Qed.

(* the namespace `torrentfile create <content> --config` starts from *)
Definition cfg_start (o : optrec) (N0 : namespace) : Prop :=
  lookup N0 "content" = Some (VStr (o_content o))
  /\ forall k, lookup N0 (doc_kw k) = Some (doc_default k).

Theorem config_route : forall o ef order N0,
  cfg_values_ok o = true ->
  (forall k, opt_value o k <> None -> In k order) ->
  cfg_start o N0 ->
  exists N, apply_cfg T (render_ini o ef order) N0 = Some N
            /\ init_params exists_ T N = IOk (params_of o)
            /\ dispatch T N = doc_class o.
Proof.
  intros o ef order N0 Hv Hcov [Hc0 Hk0].
  unfold cfg_values_ok in Hv. apply andb_true_iff in Hv. destruct Hv as [Hne Hu].
  assert (Hin : t_interp_none T = true).
  { pose proof Hcfg as H. unfold cfg_ok in H. apply andb_true_iff in H. apply H. }
  unfold apply_cfg. rewrite Hin. cbn [orb]. rewrite (cfg_fold o ef order N0 Hu).
  eexists. split; [reflexivity|].
  set (N := apply_keys_f (cfg_val o ef) order N0).
  assert (HkN : forall k, exists v, lookup N (doc_kw k) = Some v /\ key_matches T o k v
                                    /\ (k = KMetaVersion -> v = cli_expected o k)).
  { intros k. unfold N. rewrite lookup_apply_keys_f_kw, Hk0. unfold key_matches.
    destruct (opt_value o k) as [v|] eqn:Hvk.
    - assert (Hm : mem_key k order = true) by (apply mem_key_In; apply Hcov; congruence).
      rewrite Hm. unfold cfg_val. rewrite Hvk.
      exists v. split; [destruct (doc_shape k); reflexivity|]. split; [reflexivity|].
      intros _. unfold cli_expected. rewrite Hvk. reflexivity.
    - unfold cfg_val. rewrite Hvk.
      assert (Hd : absent_ok T k (doc_default k)).
      { pose proof (cli_expected_matches T o k Hlit) as H. unfold key_matches, cli_expected in H.
        rewrite Hvk in H. exact H. }
      assert (He : k = KMetaVersion -> doc_default k = cli_expected o k).
      { intros _. unfold cli_expected. rewrite Hvk. reflexivity. }
      destruct (mem_key k order); [|eauto].
      destruct (doc_shape k) eqn:Hsh; [eauto| |eauto].
      destruct ef; [|eauto]. exists (VBool false). split; [reflexivity|].
      split; [destruct k; try discriminate; reflexivity | intros ->; discriminate]. }
  split.
  - apply (init_direct exists_ T Hini o N Hne).
    + left. destruct content_param as [d [Hd _]]. rewrite (getv_locals T N _ d Hd).
      unfold N. rewrite lookup_apply_keys_f_other by apply doc_kw_not_content. rewrite Hc0. reflexivity.
    + intros k. destruct (HkN k) as [v [Hl [Hm _]]]. rewrite (getv_locals_kw N k v Hl). exact Hm.
  - apply dispatch_spec; [exact Hdis|]. destruct (HkN KMetaVersion) as [v [Hl [_ He]]].
    cbn [doc_kw] in Hl. rewrite Hl, (He eq_refl). reflexivity.
Qed.

Lemma cfg_start_defaults : forall o,
  cfg_start o (set "content" (VStr (o_content o)) (defaults (t_cli T))).
Proof.
  intros o. split.
  - rewrite lookup_set, String.eqb_refl. reflexivity.
  - intros k. rewrite lookup_set, String.eqb_sym, doc_kw_not_content. apply cli_ok_default. exact Hcli.
Qed.

(* ------------------------------------------------------------------ landing in the metafile *)
Lemma mfield_mset : forall m f v f',
  mfield (mset f v m) f' = if f =? f' then Some v else mfield m f'.
Proof.
  induction m as [|[f0 v0] t IH]; intros f v f'; cbn [mset mfield].
  - reflexivity.
  - destruct (f0 =? f) eqn:E0.
    + apply String.eqb_eq in E0. subst f0. cbn [mfield]. destruct (f =? f'); reflexivity.
    + cbn [mfield]. destruct (f0 =? f') eqn:E1.
      * apply String.eqb_eq in E1. subst f0. rewrite String.eqb_sym in E0. rewrite E0. reflexivity.
      * apply IH.
Qed.

Lemma landing_eqb_eq : forall a b, landing_eqb a b = true -> a = b.
Proof.
  intros [p1 i1 k1 o1] [p2 i2 k2 o2]. unfold landing_eqb. cbn [l_param l_info l_key l_one].
  rewrite !andb_true_iff. intros [[[H1 H2] H3] H4].
  apply String.eqb_eq in H1, H3. apply Bool.eqb_prop in H2, H4. congruence.
Qed.

Lemma landings_eqb_eq : forall a b, landings_eqb a b = true -> a = b.
Proof.
  induction a as [|x a IH]; destruct b as [|y b]; simpl; try congruence.
  rewrite andb_true_iff. intros [H1 H2]. apply landing_eqb_eq in H1. f_equal; [exact H1 | apply IH; exact H2].
Qed.

Lemma landings_none : forall p ls m f, filter (writes f) ls = [] ->
  mfield (fold_left (apply_landing p) ls m) f = mfield m f.
Proof.
  intros p. induction ls as [|l ls IH]; intros m f H; cbn [fold_left]; [reflexivity|].
  cbn [filter] in H. destruct (writes f l) eqn:Hw; [discriminate|].
  rewrite IH by exact H. unfold apply_landing. destruct (truthy (pget p (l_param l))); [|reflexivity].
  rewrite mfield_mset. unfold writes in Hw. rewrite Hw. reflexivity.
Qed.

Lemma landings_one : forall p ls m e, filter (writes (field_name e)) ls = [e] ->
  mfield (fold_left (apply_landing p) ls m) (field_name e) =
  if truthy (pget p (l_param e))
  then Some (MVal (if l_one e then VInt 1 else pget p (l_param e)))
  else mfield m (field_name e).
Proof.
  intros p. induction ls as [|l ls IH]; intros m e H; cbn [fold_left]; [discriminate|].
  cbn [filter] in H. destruct (writes (field_name e) l) eqn:Hw.
  - inversion H as [[H1 H2]]. subst l. rewrite landings_none by exact H2.
    unfold apply_landing. destruct (truthy (pget p (l_param e))); [|reflexivity].
    rewrite mfield_mset, String.eqb_refl. reflexivity.
  - rewrite IH by exact H. unfold apply_landing.
    destruct (truthy (pget p (l_param l))); [|reflexivity].
    rewrite mfield_mset. unfold writes in Hw. rewrite Hw. reflexivity.
Qed.

Variable normalize_pl : value -> nat.
Variable path_pl : string -> nat.

Hypothesis Hland : landings_ok T = true.

Lemma landing_field : forall p e, In e doc_landings ->
  mfield (meta_of T normalize_pl path_pl p) (field_name e) =
  if truthy (pget p (l_param e))
  then Some (MVal (if l_one e then VInt 1 else pget p (l_param e)))
  else None.
Proof.
  intros p e Hin. unfold landings_ok in Hland. apply andb_true_iff in Hland. destruct Hland as [H1 _].
  rewrite forallb_forall in H1. specialize (H1 e Hin). apply landings_eqb_eq in H1.
  unfold meta_of. rewrite mfield_mset.
  replace ("info.piece length" =? field_name e) with false
    by (simpl in Hin; repeat (destruct Hin as [<-|Hin]; [reflexivity|]); contradiction).
  rewrite (landings_one p _ _ e H1).
  destruct (truthy (pget p (l_param e))); [reflexivity|].
  destruct (nonempty (p_announce p)); [|reflexivity].
  rewrite !mfield_mset.
  simpl in Hin; repeat (destruct Hin as [<-|Hin]; [reflexivity|]); contradiction.
Qed.

Lemma hand_field_untouched : forall p f m, mem_str f hand_fields = true ->
  mfield (fold_left (apply_landing p) (t_landings T) m) f = mfield m f.
Proof.
  intros p f m Hf. apply landings_none. apply no_writer; [exact Hf|].
  unfold landings_ok in Hland. apply andb_true_iff in Hland. apply Hland.
Qed.

Theorem params_land : forall o f v, In (f, v) (doc_fields normalize_pl path_pl o) ->
  mfield (meta_of T normalize_pl path_pl (params_of o)) f = v.
Proof.
  intros o f v Hin. unfold doc_fields in Hin. cbn [In] in Hin.
  destruct Hin as [H|[H|[H|[H|[H|[H|[H|[H|[]]]]]]]]]; inversion H; subst f v; clear H.
  - (* announce *)
    unfold meta_of. rewrite mfield_mset. change ("info.piece length" =? "announce") with false. cbv iota.
    rewrite hand_field_untouched by reflexivity. cbn [params_of p_announce p_announce_list].
    destruct (o_announce o) as [|a l]; [reflexivity|]. cbn [hd]. destruct (nonempty a); [|reflexivity].
    rewrite !mfield_mset. reflexivity.
  - (* announce-list *)
    unfold meta_of. rewrite mfield_mset. change ("info.piece length" =? "announce-list") with false. cbv iota.
    rewrite hand_field_untouched by reflexivity. cbn [params_of p_announce p_announce_list].
    destruct (o_announce o) as [|a l]; [reflexivity|]. cbn [hd]. destruct (nonempty a); [|reflexivity].
    rewrite !mfield_mset. reflexivity.
  - (* url-list *)
    change "url-list" with (field_name (mk_landing "url_list" false "url-list" false)).
    rewrite landing_field by (simpl; tauto). cbn [l_param l_one].
    change (pget (params_of o) "url_list") with (listv (o_webseed o)).
    destruct (o_webseed o); reflexivity.
  - (* httpseeds *)
    change "httpseeds" with (field_name (mk_landing "httpseeds" false "httpseeds" false)).
    rewrite landing_field by (simpl; tauto). cbn [l_param l_one].
    change (pget (params_of o) "httpseeds") with (listv (o_httpseed o)).
    destruct (o_httpseed o); reflexivity.
  - (* comment *)
    change "info.comment" with (field_name (mk_landing "comment" true "comment" false)).
    rewrite landing_field by (simpl; tauto). cbn [l_param l_one].
    change (pget (params_of o) "comment") with (strv (dflt (o_comment o))).
    destruct (o_comment o) as [s|]; [|reflexivity]. cbn [dflt]. unfold strv.
    destruct (nonempty s) eqn:E; cbn [truthy]; [rewrite E|]; reflexivity.
  - (* source *)
    change "info.source" with (field_name (mk_landing "source" true "source" false)).
    rewrite landing_field by (simpl; tauto). cbn [l_param l_one].
    change (pget (params_of o) "source") with (strv (dflt (o_source o))).
    destruct (o_source o) as [s|]; [|reflexivity]. cbn [dflt]. unfold strv.
    destruct (nonempty s) eqn:E; cbn [truthy]; [rewrite E|]; reflexivity.
  - (* private *)
    change "info.private" with (field_name (mk_landing "private" true "private" true)).
    rewrite landing_field by (simpl; tauto). cbn [l_param l_one].
    change (pget (params_of o) "private") with (VBool (o_private o)).
    destruct (o_private o); reflexivity.
  - (* piece length *)
    unfold meta_of. rewrite mfield_mset, String.eqb_refl. cbn [params_of p_piece_length p_path].
    destruct (o_piece_length o) as [s|]; [|reflexivity]. cbn [dflt]. unfold strv.
    destruct (nonempty s); reflexivity.
Qed.

End Routes.
