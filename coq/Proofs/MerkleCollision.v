(* The BEP 52 tree root binds its leaves: two different lists of 2^h thirty-two byte leaves with the
   same root exhibit an explicit SHA-256 collision.  So "the pieces root matches" (recheck, rebuild,
   C02 / C04 / C13) can only be wrong about the leaves if the hash function itself is broken --
   the dependency on collision resistance, stated as a theorem instead of an assumption. *)
From TF Require Import Lib.Base Lib.Chunks Lib.Merkle Spec.Bep52 Model.HasherV2 Proofs.MerkleProofs.

Lemma Forall_firstn' {A} (P : A -> Prop) n l : Forall P l -> Forall P (firstn n l).
Proof.
  intros Hf. apply Forall_forall. intros x Hx.
  rewrite <- (firstn_skipn n l) in Hf. apply Forall_app in Hf. destruct Hf as [Hf _].
  apply (proj1 (Forall_forall P _) Hf), Hx.
Qed.
Lemma Forall_skipn' {A} (P : A -> Prop) n l : Forall P l -> Forall P (skipn n l).
Proof.
  intros Hf. apply Forall_forall. intros x Hx.
  rewrite <- (firstn_skipn n l) in Hf. apply Forall_app in Hf. destruct Hf as [_ Hf].
  apply (proj1 (Forall_forall P _) Hf), Hx.
Qed.

Lemma app_inv_len {A} (a b a' b' : list A) : length a = length a' -> a ++ b = a' ++ b' -> a = a' /\ b = b'.
Proof.
  revert a'. induction a as [|x a IH]; intros [|y a'] Hl He; try discriminate Hl.
  - split; [reflexivity|exact He].
  - cbn in He. injection He as Hx He. injection Hl as Hl.
    destruct (IH a' Hl He) as [-> ->]. subst. split; reflexivity.
Qed.

Section MerkleCollision.
Variable H256 : bytes -> bytes.
Hypothesis H256_len : forall x, length (H256 x) = 32.
Notation tree_root := (tree_root H256).

Definition collision : Prop := exists x y : bytes, x <> y /\ H256 x = H256 y.

Lemma bytes_eq_dec (x y : bytes) : {x = y} + {x <> y}.
Proof. apply list_eq_dec, ascii_dec. Qed.

Lemma tree_root_len h : forall l, length l = 2 ^ h -> Forall (fun x => length x = 32) l ->
  length (tree_root h l) = 32.
Proof.
  destruct h as [|h]; intros l Hl Hf.
  - destruct l as [|x l]; [discriminate Hl|]. cbn. inversion Hf; assumption.
  - cbn [Bep52.tree_root]. apply H256_len.
Qed.

Lemma pow2_S' h : 2 ^ S h = 2 ^ h + 2 ^ h.
Proof. cbn [Nat.pow]. lia. Qed.

Theorem tree_root_binds h : forall l l',
  length l = 2 ^ h -> length l' = 2 ^ h ->
  Forall (fun x => length x = 32) l -> Forall (fun x => length x = 32) l' ->
  tree_root h l = tree_root h l' -> l = l' \/ collision.
Proof.
  induction h as [|h IH]; intros l l' Hl Hl' Hf Hf' He.
  - destruct l as [|x [|? ?]]; try discriminate Hl.
    destruct l' as [|y [|? ?]]; try discriminate Hl'.
    cbn in He. left. congruence.
  - cbn [Bep52.tree_root] in He.
    assert (L1 : length (firstn (2 ^ h) l) = 2 ^ h) by (rewrite firstn_length, Hl, pow2_S'; lia).
    assert (L2 : length (skipn (2 ^ h) l) = 2 ^ h) by (rewrite skipn_length, Hl, pow2_S'; lia).
    assert (L1' : length (firstn (2 ^ h) l') = 2 ^ h) by (rewrite firstn_length, Hl', pow2_S'; lia).
    assert (L2' : length (skipn (2 ^ h) l') = 2 ^ h) by (rewrite skipn_length, Hl', pow2_S'; lia).
    assert (F1 : Forall (fun x => length x = 32) (firstn (2 ^ h) l)) by (apply Forall_firstn', Hf).
    assert (F2 : Forall (fun x => length x = 32) (skipn (2 ^ h) l)) by (apply Forall_skipn', Hf).
    assert (F1' : Forall (fun x => length x = 32) (firstn (2 ^ h) l')) by (apply Forall_firstn', Hf').
    assert (F2' : Forall (fun x => length x = 32) (skipn (2 ^ h) l')) by (apply Forall_skipn', Hf').
    set (a := tree_root h (firstn (2 ^ h) l)) in *. set (b := tree_root h (skipn (2 ^ h) l)) in *.
    set (a' := tree_root h (firstn (2 ^ h) l')) in *. set (b' := tree_root h (skipn (2 ^ h) l')) in *.
    destruct (bytes_eq_dec (a ++ b) (a' ++ b')) as [Eab|Nab].
    + assert (La : length a = length a').
      { unfold a, a'. rewrite !tree_root_len by assumption. reflexivity. }
      destruct (app_inv_len a b a' b' La Eab) as [Ea Eb].
      destruct (IH _ _ L1 L1' F1 F1' Ea) as [E1|C]; [|right; exact C].
      destruct (IH _ _ L2 L2' F2 F2' Eb) as [E2|C]; [|right; exact C].
      left. rewrite <- (firstn_skipn (2 ^ h) l), <- (firstn_skipn (2 ^ h) l'), E1, E2. reflexivity.
    + right. exists (a ++ b), (a' ++ b'). split; assumption.
Qed.

(* the same for the loop the code runs (hasher.merkle_root, Model/HasherV2.v), through merkle_root = tree_root *)
Theorem merkle_root_binds k : forall l l',
  length l = 2 ^ k -> length l' = 2 ^ k ->
  Forall (fun x => length x = 32) l -> Forall (fun x => length x = 32) l' ->
  merkle_root H256 l = merkle_root H256 l' -> l = l' \/ collision.
Proof.
  intros l l' Hl Hl' Hf Hf' He.
  rewrite (merkle_root_tree_root H256 k l Hl), (merkle_root_tree_root H256 k l' Hl') in He.
  exact (tree_root_binds k l l' Hl Hl' Hf Hf' He).
Qed.

(* ... and for the padded tree of BEP 52: two leaf lists of the same length n <= 2^h (the blocks of two files of
   the same size) under one root are equal, or there is a collision *)
Theorem padded_root_binds h : forall ls ls',
  length ls = length ls' -> length ls <= 2 ^ h ->
  Forall (fun x => length x = 32) ls -> Forall (fun x => length x = 32) ls' ->
  tree_root h (pad_leaves (2 ^ h) ls) = tree_root h (pad_leaves (2 ^ h) ls') -> ls = ls' \/ collision.
Proof.
  intros ls ls' Hl Hle Hf Hf' He.
  assert (P : forall l, length l <= 2 ^ h -> Forall (fun x => length x = 32) l ->
              length (pad_leaves (2 ^ h) l) = 2 ^ h /\ Forall (fun x => length x = 32) (pad_leaves (2 ^ h) l)).
  { intros l Hl0 Hf0. unfold pad_leaves. split.
    - rewrite app_length, repeat_length, Nat.add_comm. apply Nat.sub_add, Hl0.
    - apply Forall_app. split; [exact Hf0|]. apply Forall_forall. intros x Hx.
      apply repeat_spec in Hx. subst x. apply zeros_length. }
  assert (Hle' : length ls' <= 2 ^ h) by (rewrite <- Hl; exact Hle).
  destruct (P ls Hle Hf) as [A1 A2]. destruct (P ls' Hle' Hf') as [B1 B2].
  destruct (tree_root_binds h _ _ A1 B1 A2 B2 He) as [E|C]; [left|right; exact C].
  unfold pad_leaves in E. apply (app_inv_len _ _ _ _ Hl E).
Qed.

Lemma map_hash_binds : forall cs cs' : list bytes,
  map H256 cs = map H256 cs' -> cs = cs' \/ collision.
Proof.
  induction cs as [|c cs IH]; intros [|c' cs'] He; try discriminate He.
  - left; reflexivity.
  - cbn [map] in He. injection He as Hc Hr.
    destruct (bytes_eq_dec c c') as [->|N]; [|right; exists c, c'; split; assumption].
    destruct (IH cs' Hr) as [->|C]; [left; reflexivity|right; exact C].
Qed.

(* the pieces root binds the CONTENT: two files of the same length with the same BEP 52 root are the same
   bytes, or an explicit collision of H256 exists -- for every block size B > 0 *)
Theorem bep52_root_binds (B : nat) : 0 < B -> forall data data' : bytes,
  length data = length data' ->
  bep52_root H256 B data = bep52_root H256 B data' -> data = data' \/ collision.
Proof.
  intros HB data data' Hl He. unfold bep52_root, log2_up_nat in He.
  assert (Ll : length (leaves H256 B data) = length (leaves H256 B data')).
  { unfold leaves. rewrite !map_length.
    etransitivity; [apply length_chunks; exact HB|]. rewrite Hl. symmetry. apply length_chunks; exact HB. }
  rewrite <- Ll in He.
  assert (F : forall d, Forall (fun x => length x = 32) (leaves H256 B d)).
  { intros d. unfold leaves. apply Forall_forall. intros x Hx. apply in_map_iff in Hx.
    destruct Hx as [y [<- _]]. apply H256_len. }
  assert (Hle : length (leaves H256 B data) <= 2 ^ Nat.log2_up (length (leaves H256 B data))).
  { destruct (length (leaves H256 B data)) as [|n]; [cbn; lia|].
    apply Nat.log2_log2_up_spec. lia. }
  destruct (padded_root_binds _ _ _ Ll Hle (F data) (F data') He) as [E|C]; [|right; exact C].
  unfold leaves in E. destruct (map_hash_binds _ _ E) as [Ec|C]; [left|right; exact C].
  rewrite <- (concat_chunks B data HB), <- (concat_chunks B data' HB), Ec. reflexivity.
Qed.

End MerkleCollision.

(* non-vacuity of `collision` as a notion: a constant "hash" has one, and then the theorem's
   right-hand alternative is the one that holds for differing leaves *)
Example constant_hash_collides : collision (fun _ => repeat Ascii.zero 32).
Proof. exists [], [Ascii.zero]. split; [discriminate|reflexivity]. Qed.

Print Assumptions tree_root_binds.
Print Assumptions merkle_root_binds.
Print Assumptions padded_root_binds.
Print Assumptions bep52_root_binds.
