(* C12: theorems about the functions GENERATED from torrentfile/utils.py
   (Gen/GenPieceLength.v is rewritten from /repo on every run). *)
From Coq Require Import ZArith Lia Bool String List.
From TF Require Import Lib.Pow2 Gen.GenPieceLength.
Open Scope Z_scope.

Definition MIN_PL : Z := 16384.

(* what the property calls a valid piece length *)
Definition valid_piece_length (n : Z) : Prop := MIN_PL <= n /\ is_pow2 n.

Lemma shiftl_1_14 : Z.shiftl 1 14 = 16384.
Proof. reflexivity. Qed.

(* --- the integer path ------------------------------------------------- *)

Lemma normalize_int_sound n r :
  normalize_piece_length_int n = Ret r ->
  (valid_piece_length n /\ r = n) \/ (14 <= n <= 29 /\ r = 2 ^ n).
Proof.
  unfold normalize_piece_length_int, valid_piece_length, MIN_PL.
  rewrite shiftl_1_14.
  destruct (Z.gtb n 16384) eqn:Hgt.
  - destruct (Z.eqb (Z.land n (n - 1)) 0) eqn:Hbit; [|discriminate].
    intro H. injection H as <-. left.
    apply Z.gtb_lt in Hgt. apply Z.eqb_eq in Hbit.
    split; [split; [lia|]|reflexivity].
    apply pow2_bit_test; [lia|assumption].
  - destruct (andb (Z.ltb 13 n) (Z.ltb n 26)) eqn:Hrng.
    + intro H. injection H as <-. right.
      apply andb_prop in Hrng. destruct Hrng as [H1 H2].
      apply Z.ltb_lt in H1. apply Z.ltb_lt in H2. split; [lia|reflexivity].
    + destruct (Z.eqb n 16384) eqn:Heq; [|discriminate].
      intro H. injection H as <-. left. apply Z.eqb_eq in Heq. subst n.
      split; [split; [lia|]|reflexivity].
      exists 14. split; [lia|reflexivity].
Qed.

Lemma normalize_int_complete_direct n :
  valid_piece_length n -> normalize_piece_length_int n = Ret n.
Proof.
  unfold normalize_piece_length_int, valid_piece_length, MIN_PL.
  rewrite shiftl_1_14. intros [Hge Hp].
  destruct (Z.gtb n 16384) eqn:Hgt.
  - apply Z.gtb_lt in Hgt.
    assert (Hbit : Z.land n (n - 1) = 0) by (apply pow2_bit_test; [lia|assumption]).
    rewrite Hbit. reflexivity.
  - assert (Hn : n = 16384).
    { destruct (Z.gtb_spec n 16384); [discriminate|lia]. }
    subst n. reflexivity.
Qed.

Lemma normalize_int_complete_exponent n :
  14 <= n <= 25 -> normalize_piece_length_int n = Ret (2 ^ n).
Proof.
  unfold normalize_piece_length_int. rewrite shiftl_1_14. intro H.
  destruct (Z.gtb_spec n 16384); [lia|].
  destruct (Z.ltb_spec 13 n); [|lia].
  destruct (Z.ltb_spec n 26); [|lia].
  reflexivity.
Qed.

Lemma normalize_int_total n :
  (exists r, normalize_piece_length_int n = Ret r) \/
  normalize_piece_length_int n = Raise E_PieceLengthValueError.
Proof.
  unfold normalize_piece_length_int.
  destruct (Z.gtb n (Z.shiftl 1 14)).
  - destruct (Z.eqb (Z.land n (n - 1)) 0); [left; eexists; reflexivity|right; reflexivity].
  - destruct (andb (Z.ltb 13 n) (Z.ltb n 26)); [left; eexists; reflexivity|].
    destruct (Z.eqb n (Z.shiftl 1 14)); [left; eexists; reflexivity|right; reflexivity].
Qed.

(* every value that is neither a valid piece length nor an exponent 14..29
   is rejected, and with the piece-length error *)
Lemma normalize_int_rejects n :
  ~ valid_piece_length n -> ~ (14 <= n <= 29) ->
  normalize_piece_length_int n = Raise E_PieceLengthValueError.
Proof.
  intros Hv He. destruct (normalize_int_total n) as [[r Hr]|]; [|assumption].
  exfalso. apply normalize_int_sound in Hr. destruct Hr as [[Hr _]|[Hr _]]; tauto.
Qed.

(* the accepted value is always a valid piece length *)
Lemma normalize_int_result_valid n r :
  normalize_piece_length_int n = Ret r -> valid_piece_length r.
Proof.
  intro H. apply normalize_int_sound in H. destruct H as [[Hv ->]|[Hr ->]]; [assumption|].
  unfold valid_piece_length, MIN_PL. split.
  - change 16384 with (2 ^ 14). apply Z.pow_le_mono_r; lia.
  - apply is_pow2_pow. lia.
Qed.

(* --- the string path --------------------------------------------------- *)
Section Str.
Variable str_isnumeric : string -> bool.
Variable str_int : string -> option Z.

Lemma normalize_str_reduces s :
  normalize_piece_length_str str_isnumeric str_int s =
  if negb (str_isnumeric s) then Raise E_PieceLengthValueError
  else match str_int s with
       | Some n => normalize_piece_length_int n
       | None => Raise E_PieceLengthValueError
       end.
Proof. reflexivity. Qed.

Lemma normalize_str_sound s r :
  normalize_piece_length_str str_isnumeric str_int s = Ret r ->
  exists n, str_isnumeric s = true /\ str_int s = Some n /\
            normalize_piece_length_int n = Ret r.
Proof.
  rewrite normalize_str_reduces.
  destruct (str_isnumeric s); simpl; [|discriminate].
  destruct (str_int s) as [n|]; [|discriminate].
  intro H. exists n. auto.
Qed.

Lemma normalize_str_total s :
  (exists r, normalize_piece_length_str str_isnumeric str_int s = Ret r) \/
  normalize_piece_length_str str_isnumeric str_int s = Raise E_PieceLengthValueError.
Proof.
  rewrite normalize_str_reduces.
  destruct (str_isnumeric s); simpl; [|right; reflexivity].
  destruct (str_int s) as [n|]; [|right; reflexivity].
  apply normalize_int_total.
Qed.
End Str.

(* --- automatic choice --------------------------------------------------- *)

Lemma gpl_loop_spec fuel size e :
  14 <= e <= 24 -> (Z.to_nat (24 - e) < fuel)%nat ->
  exists e', e <= e' <= 24 /\ get_piece_length_loop1 fuel size e = Some e' /\
             (e' < 24 -> size <= 1000 * 2 ^ e') /\
             (forall j, e <= j < e' -> size > 1000 * 2 ^ j).
Proof.
  revert e. induction fuel as [|f IH]; intros e He Hf; [lia|].
  cbn [get_piece_length_loop1].
  destruct (Z.gtb_spec size (1000 * 2 ^ e)) as [Hgt|Hle];
    destruct (Z.ltb_spec e 24) as [Hlt|Hge]; cbn [andb].
  - destruct (IH (e + 1)) as [e' [Hr [Heq [Hst Hall]]]]; [lia|lia|].
    exists e'. split; [lia|]. split; [exact Heq|]. split; [exact Hst|].
    intros j Hj. destruct (Z.eq_dec j e) as [->|]; [lia|]. apply Hall. lia.
  - exists e. split; [lia|]. split; [reflexivity|]. split; [lia|]. intros; lia.
  - exists e. split; [lia|]. split; [reflexivity|]. split; [lia|]. intros; lia.
  - exists e. split; [lia|]. split; [reflexivity|]. split; [lia|]. intros; lia.
Qed.

Definition GPL_FUEL : nat := 16.

Lemma gpl_range size :
  exists e, 14 <= e <= 24 /\ get_piece_length GPL_FUEL size = Ret (2 ^ e).
Proof.
  unfold get_piece_length.
  destruct (gpl_loop_spec GPL_FUEL size 14) as [e' [Hr [Heq _]]]; [lia|unfold GPL_FUEL; simpl; lia|].
  rewrite Heq. exists e'. split; [lia|reflexivity].
Qed.

Lemma gpl_monotone s s' e e' :
  s <= s' ->
  get_piece_length GPL_FUEL s = Ret (2 ^ e) -> 14 <= e <= 24 ->
  get_piece_length GPL_FUEL s' = Ret (2 ^ e') -> 14 <= e' <= 24 ->
  2 ^ e <= 2 ^ e'.
Proof.
  unfold get_piece_length. intros Hs H1 He H2 He'.
  destruct (gpl_loop_spec GPL_FUEL s 14) as [a [Ha [Haeq [Hast Haall]]]]; [lia|unfold GPL_FUEL; simpl; lia|].
  destruct (gpl_loop_spec GPL_FUEL s' 14) as [b [Hb [Hbeq [Hbst Hball]]]]; [lia|unfold GPL_FUEL; simpl; lia|].
  rewrite Haeq in H1. rewrite Hbeq in H2.
  injection H1 as H1. injection H2 as H2.
  apply Z.pow_inj_r in H1; [|lia|lia|lia]. apply Z.pow_inj_r in H2; [|lia|lia|lia]. subst a b.
  apply Z.pow_le_mono_r; [lia|].
  destruct (Z_le_gt_dec e e') as [|Hgt]; [assumption|exfalso].
  (* e' < e: s > 1000*2^e' (all j < e) but s' <= 1000*2^e' *)
  assert (s > 1000 * 2 ^ e') by (apply Haall; lia).
  assert (s' <= 1000 * 2 ^ e') by (apply Hbst; lia). lia.
Qed.

(* --- next_power_2 -------------------------------------------------------- *)

Lemma np2_loop_spec fuel v k :
  0 <= k -> 2 ^ k < 2 * v -> (Z.to_nat (Z.log2_up v - k) < fuel)%nat -> 1 <= v ->
  (k = 0 \/ 2 ^ (k - 1) < v) ->
  exists j, k <= j /\ next_power_2_loop1 fuel v (2 ^ k) = Some (2 ^ j) /\
            v <= 2 ^ j /\ (j = 0 \/ 2 ^ (j - 1) < v).
Proof.
  revert k. induction fuel as [|f IH]; intros k Hk Hlt Hf Hv Hprev; [lia|].
  cbn [next_power_2_loop1].
  destruct (Z.ltb_spec (2 ^ k) v) as [Hl|Hge].
  - rewrite Z.shiftl_mul_pow2 by lia. change (2 ^ 1) with 2.
    replace (2 ^ k * 2) with (2 ^ (k + 1)) by (rewrite Z.pow_add_r by lia; reflexivity).
    assert (Hklog : k < Z.log2_up v).
    { apply Z.log2_up_lt_pow2; lia. }
    destruct (IH (k + 1)) as [j [Hj [Heq [Hle Hpj]]]]; try lia.
    + rewrite Z.pow_add_r by lia. change (2 ^ 1) with 2. lia.
    + right. replace (k + 1 - 1) with k by lia. assumption.
    + exists j. split; [lia|]. split; [exact Heq|]. split; assumption.
  - exists k. split; [lia|]. split; [reflexivity|]. split; [lia|assumption].
Qed.

(* next_power_2 v is the least power of two >= v, for v >= 1 *)
Lemma next_power_2_spec v :
  1 <= v ->
  exists j, 0 <= j /\ next_power_2 (S (Z.to_nat (Z.log2_up v))) v = Ret (2 ^ j) /\
            v <= 2 ^ j /\ (j = 0 \/ 2 ^ (j - 1) < v).
Proof.
  intro Hv. unfold next_power_2.
  destruct (Z.eqb_spec (Z.land v (v - 1)) 0) as [Hbit|Hbit]; cbn [negb andb].
  - destruct (Z.eqb_spec v 0); [lia|]. cbn [negb].
    apply pow2_bit_test in Hbit; [|lia]. destruct Hbit as [k [Hk ->]].
    exists k. split; [assumption|]. split; [reflexivity|]. split; [lia|].
    destruct (Z.eq_dec k 0); [left; assumption|right].
    apply Z.pow_lt_mono_r; lia.
  - pose proof (Z.log2_up_nonneg v) as Hlog.
    destruct (np2_loop_spec (S (Z.to_nat (Z.log2_up v))) v 0) as [j [Hj [Heq R]]]; try lia.
    change (2 ^ 0) with 1 in Heq. rewrite Heq. exists j. split; [lia|]. split; [reflexivity|exact R].
Qed.

Lemma next_power_2_log2_up v :
  1 <= v -> next_power_2 (S (Z.to_nat (Z.log2_up v))) v = Ret (2 ^ Z.log2_up v).
Proof.
  intro Hv. destruct (next_power_2_spec v Hv) as [j [Hj [Heq [Hle Hp]]]].
  rewrite Heq. f_equal. f_equal.
  destruct (Z.eq_dec v 1) as [->|Hne].
  - destruct Hp as [->|Hp]; [reflexivity|].
    destruct (Z.eq_dec j 0) as [->|Hj0]; [reflexivity|].
    exfalso. assert (0 < 2 ^ (j - 1)) by (apply Z.pow_pos_nonneg; lia). lia.
  - destruct Hp as [->|Hp]; [simpl in Hle; lia|].
    destruct (Z.eq_dec j 0) as [->|Hj0]; [simpl in Hle; lia|].
    symmetry. apply Z.log2_up_unique; [lia|]. replace (Z.pred j) with (j - 1) by lia. lia.
Qed.
