(* C12: theorems about the functions GENERATED from torrentfile/utils.py
   (Gen/GenPieceLength.v is rewritten from /repo on every run). *)
From Coq Require Import ZArith Lia Bool String List ZifyBool.
From TF Require Import Lib.Pow2 Gen.GenPieceLength.
Open Scope Z_scope.

Definition MIN_PL : Z := 16384.

(* what the property calls a valid piece length *)
Definition valid_piece_length (n : Z) : Prop := MIN_PL <= n /\ is_pow2 n.

Lemma shiftl_1_14 : Z.shiftl 1 14 = 16384.
Proof. reflexivity. Qed.

(* ------------------------------------------------------------------------------------------------------------
   The theorems below are proved about STABLE specifications (norm_spec, gpl_exp); the generated functions are
   tied to them by equivalence lemmas whose proofs do not depend on the shape of the generated term: unfold
   everything, case-split on every boolean test that is left, close each leaf by computation or by lia.  A
   rewrite of utils.py that reorders comparisons, names constants, inverts a test or turns the `while` into a
   `for ... in range` changes the generated text but not these proofs; a rewrite that changes the FUNCTION makes
   some leaf unprovable, and the check then reports the broken proof.
   ------------------------------------------------------------------------------------------------------------ *)

Ltac split_ifs :=
  repeat match goal with
         | |- context[match ?x with Some _ => _ | None => _ end] =>
             lazymatch x with
             | context[if _ then _ else _] => fail
             | _ => let E := fresh "E" in destruct x eqn:E
             end
         | |- context[if ?b then _ else _] =>
             lazymatch b with
             | context[if _ then _ else _] => fail
             | _ => let E := fresh "E" in destruct b eqn:E
             end
         end.

Ltac leaf :=
  first [ reflexivity
        | exfalso; lia
        | f_equal; rewrite ?Z.shiftl_1_l; first [reflexivity | lia] ].

(* --- the integer path ------------------------------------------------- *)

Definition norm_spec (n : Z) : result :=
  if n >? 16384 then
    if Z.land n (n - 1) =? 0 then Ret n else Raise E_PieceLengthValueError
  else if (13 <? n) && (n <? 26) then Ret (2 ^ n)
  else if n =? 16384 then Ret n else Raise E_PieceLengthValueError.

Lemma normalize_int_is_spec n : normalize_piece_length_int n = norm_spec n.
Proof.
  unfold normalize_piece_length_int, norm_spec. cbv zeta.
  change (Z.shiftl 1 14) with 16384.
  generalize (Z.land n (n - 1)). intro L.
  split_ifs; leaf.
Qed.

Lemma normalize_int_sound n r :
  normalize_piece_length_int n = Ret r ->
  (valid_piece_length n /\ r = n) \/ (14 <= n <= 29 /\ r = 2 ^ n).
Proof.
  rewrite normalize_int_is_spec.
  unfold norm_spec, valid_piece_length, MIN_PL.
  destruct (Z.gtb n 16384) eqn:Hgt.
  - destruct (Z.eqb (Z.land n (n - 1)) 0) eqn:Hbit; [|discriminate].
    intro H. injection H as <-. left.
    apply Z.gtb_lt in Hgt. apply Z.eqb_eq in Hbit.
    split; [split; [lia|]|reflexivity].
    apply pow2_bit_test; [lia|assumption].
  - destruct (andb (Z.ltb 13 n) (Z.ltb n 26)) eqn:Hrng.
    + intro H. injection H as <-. right.
      apply andb_prop in Hrng. destruct Hrng as [H1 H2].
      apply Z.ltb_lt in H1. apply Z.ltb_lt in H2. split; [lia|reflexivity].
    + destruct (Z.eqb n 16384) eqn:Heq; [|discriminate].
      intro H. injection H as <-. left. apply Z.eqb_eq in Heq. subst n.
      split; [split; [lia|]|reflexivity].
      exists 14. split; [lia|reflexivity].
Qed.

Lemma normalize_int_complete_direct n :
  valid_piece_length n -> normalize_piece_length_int n = Ret n.
Proof.
  rewrite normalize_int_is_spec.
  unfold norm_spec, valid_piece_length, MIN_PL. intros [Hge Hp].
  destruct (Z.gtb n 16384) eqn:Hgt.
  - apply Z.gtb_lt in Hgt.
    assert (Hbit : Z.land n (n - 1) = 0) by (apply pow2_bit_test; [lia|assumption]).
    rewrite Hbit. reflexivity.
  - assert (Hn : n = 16384).
    { destruct (Z.gtb_spec n 16384); [discriminate|lia]. }
    subst n. reflexivity.
Qed.

Lemma normalize_int_complete_exponent n :
  14 <= n <= 25 -> normalize_piece_length_int n = Ret (2 ^ n).
Proof.
  rewrite normalize_int_is_spec. unfold norm_spec. intro H.
  destruct (Z.gtb_spec n 16384); [lia|].
  destruct (Z.ltb_spec 13 n); [|lia].
  destruct (Z.ltb_spec n 26); [|lia].
  reflexivity.
Qed.

Lemma normalize_int_total n :
  (exists r, normalize_piece_length_int n = Ret r) \/
  normalize_piece_length_int n = Raise E_PieceLengthValueError.
Proof.
  rewrite normalize_int_is_spec. unfold norm_spec.
  destruct (Z.gtb n 16384).
  - destruct (Z.eqb (Z.land n (n - 1)) 0); [left; eexists; reflexivity|right; reflexivity].
  - destruct (andb (Z.ltb 13 n) (Z.ltb n 26)); [left; eexists; reflexivity|].
    destruct (Z.eqb n 16384); [left; eexists; reflexivity|right; reflexivity].
Qed.

(* every value that is neither a valid piece length nor an exponent 14..29
   is rejected, and with the piece-length error *)
Lemma normalize_int_rejects n :
  ~ valid_piece_length n -> ~ (14 <= n <= 29) ->
  normalize_piece_length_int n = Raise E_PieceLengthValueError.
Proof.
  intros Hv He. destruct (normalize_int_total n) as [[r Hr]|]; [|assumption].
  exfalso. apply normalize_int_sound in Hr. destruct Hr as [[Hr _]|[Hr _]]; tauto.
Qed.

(* the accepted value is always a valid piece length *)
Lemma normalize_int_result_valid n r :
  normalize_piece_length_int n = Ret r -> valid_piece_length r.
Proof.
  intro H. apply normalize_int_sound in H. destruct H as [[Hv ->]|[Hr ->]]; [assumption|].
  unfold valid_piece_length, MIN_PL. split.
  - change 16384 with (2 ^ 14). apply Z.pow_le_mono_r; lia.
  - apply is_pow2_pow. lia.
Qed.

(* --- the string path --------------------------------------------------- *)
Section Str.
Variable str_isnumeric : string -> bool.
Variable str_int : string -> option Z.

Lemma normalize_str_reduces s :
  normalize_piece_length_str str_isnumeric str_int s =
  if negb (str_isnumeric s) then Raise E_PieceLengthValueError
  else match str_int s with
       | Some n => normalize_piece_length_int n
       | None => Raise E_PieceLengthValueError
       end.
Proof.
  unfold normalize_piece_length_str. cbv zeta.
  destruct (str_isnumeric s) eqn:Hnum; cbn [negb];
    destruct (str_int s) as [n|] eqn:Hint; try reflexivity;
    rewrite ?normalize_int_is_spec; unfold norm_spec;
    change (Z.shiftl 1 14) with 16384;
    try (generalize (Z.land n (n - 1)); intro L);
    split_ifs; leaf.
Qed.

Lemma normalize_str_sound s r :
  normalize_piece_length_str str_isnumeric str_int s = Ret r ->
  exists n, str_isnumeric s = true /\ str_int s = Some n /\
            normalize_piece_length_int n = Ret r.
Proof.
  rewrite normalize_str_reduces.
  destruct (str_isnumeric s); simpl; [|discriminate].
  destruct (str_int s) as [n|]; [|discriminate].
  intro H. exists n. auto.
Qed.

Lemma normalize_str_total s :
  (exists r, normalize_piece_length_str str_isnumeric str_int s = Ret r) \/
  normalize_piece_length_str str_isnumeric str_int s = Raise E_PieceLengthValueError.
Proof.
  rewrite normalize_str_reduces.
  destruct (str_isnumeric s); simpl; [|right; reflexivity].
  destruct (str_int s) as [n|]; [|right; reflexivity].
  apply normalize_int_total.
Qed.
End Str.

(* --- automatic choice --------------------------------------------------- *)

(* the exponent chosen for a payload of `size` bytes: the first e in 14..23 with size <= 1000 * 2^e, else 24 *)
Fixpoint gpl_search (es : list Z) (size : Z) : Z :=
  match es with
  | nil => 24
  | e :: rest => if size <=? 1000 * 2 ^ e then e else gpl_search rest size
  end.
Definition gpl_exp (size : Z) : Z := gpl_search (14 :: 15 :: 16 :: 17 :: 18 :: 19 :: 20 :: 21 :: 22 :: 23 :: nil) size.

Definition GPL_FUEL : nat := 16.

(* comparisons between closed terms are computed; comparisons that mention `size` stay *)
Ltac closed_cmp size :=
  repeat match goal with
         | |- context[?op ?a ?b] =>
             lazymatch op with
             | Z.ltb => idtac | Z.gtb => idtac | Z.leb => idtac | Z.geb => idtac | Z.eqb => idtac
             end;
             lazymatch a with context[size] => fail | _ => idtac end;
             lazymatch b with context[size] => fail | _ => idtac end;
             let v := eval vm_compute in (op a b) in change (op a b) with v
         end.

Lemma gpl_is_spec size : get_piece_length GPL_FUEL size = Ret (2 ^ gpl_exp size).
Proof.
  unfold gpl_exp.
  cbv -[Z.gtb Z.ltb Z.leb Z.geb Z.eqb andb negb orb].
  closed_cmp size.
  rewrite ?andb_true_r, ?andb_false_r, ?andb_true_l, ?andb_false_l, ?orb_true_r, ?orb_false_r, ?orb_true_l, ?orb_false_l.
  cbn [negb].
  split_ifs; leaf.
Qed.

Lemma gpl_exp_range size : 14 <= gpl_exp size <= 24.
Proof. unfold gpl_exp. cbn [gpl_search]. split_ifs; lia. Qed.

Lemma gpl_exp_monotone s s' : s <= s' -> gpl_exp s <= gpl_exp s'.
Proof.
  intro H. unfold gpl_exp. cbv -[Z.leb Z.le]. split_ifs; lia.
Qed.

Lemma gpl_range size :
  exists e, 14 <= e <= 24 /\ get_piece_length GPL_FUEL size = Ret (2 ^ e).
Proof.
  exists (gpl_exp size). split; [apply gpl_exp_range | apply gpl_is_spec].
Qed.

Lemma gpl_monotone s s' e e' :
  s <= s' ->
  get_piece_length GPL_FUEL s = Ret (2 ^ e) -> 14 <= e <= 24 ->
  get_piece_length GPL_FUEL s' = Ret (2 ^ e') -> 14 <= e' <= 24 ->
  2 ^ e <= 2 ^ e'.
Proof.
  intros Hs H1 He H2 He'.
  rewrite gpl_is_spec in H1, H2.
  injection H1 as H1. injection H2 as H2.
  pose proof (gpl_exp_range s). pose proof (gpl_exp_range s').
  apply Z.pow_inj_r in H1; [|lia|lia|lia]. apply Z.pow_inj_r in H2; [|lia|lia|lia].
  subst e e'. apply Z.pow_le_mono_r; [lia|]. apply gpl_exp_monotone. exact Hs.
Qed.

(* --- next_power_2 -------------------------------------------------------- *)

(* stable specification of the doubling loop and of the function; the generated text is tied to it shape-independently *)
Fixpoint np2_spec_loop (fuel : nat) (v s : Z) : option Z :=
  match fuel with
  | O => None
  | S f => if s <? v then np2_spec_loop f v (s * 2) else Some s
  end.

Definition np2_spec (fuel : nat) (v : Z) : result :=
  if (Z.land v (v - 1) =? 0) && negb (v =? 0) then Ret v
  else match np2_spec_loop fuel v 1 with None => OutOfFuel | Some x => Ret x end.

Lemma np2_loop_is_spec fuel : forall v s, next_power_2_loop1 fuel v s = np2_spec_loop fuel v s.
Proof.
  induction fuel as [|f IH]; intros v s; [reflexivity|].
  cbn [next_power_2_loop1 np2_spec_loop]. cbv zeta.
  rewrite ?Z.shiftl_mul_pow2 by lia. change (2 ^ 1) with 2.
  replace (2 * s) with (s * 2) by lia.
  rewrite ?IH.
  split_ifs; leaf.
Qed.

Lemma np2_is_spec fuel v : next_power_2 fuel v = np2_spec fuel v.
Proof.
  unfold next_power_2, np2_spec. cbv zeta. rewrite ?np2_loop_is_spec.
  destruct (np2_spec_loop fuel v 1);
    generalize (Z.land v (v - 1)); intro L; split_ifs; leaf.
Qed.

Lemma np2_loop_spec fuel v k :
  0 <= k -> 2 ^ k < 2 * v -> (Z.to_nat (Z.log2_up v - k) < fuel)%nat -> 1 <= v ->
  (k = 0 \/ 2 ^ (k - 1) < v) ->
  exists j, k <= j /\ np2_spec_loop fuel v (2 ^ k) = Some (2 ^ j) /\
            v <= 2 ^ j /\ (j = 0 \/ 2 ^ (j - 1) < v).
Proof.
  revert k. induction fuel as [|f IH]; intros k Hk Hlt Hf Hv Hprev; [lia|].
  cbn [np2_spec_loop].
  destruct (Z.ltb_spec (2 ^ k) v) as [Hl|Hge].
  - replace (2 ^ k * 2) with (2 ^ (k + 1)) by (rewrite Z.pow_add_r by lia; reflexivity).
    assert (Hklog : k < Z.log2_up v).
    { apply Z.log2_up_lt_pow2; lia. }
    destruct (IH (k + 1)) as [j [Hj [Heq [Hle Hpj]]]]; try lia.
    + rewrite Z.pow_add_r by lia. change (2 ^ 1) with 2. lia.
    + right. replace (k + 1 - 1) with k by lia. assumption.
    + exists j. split; [lia|]. split; [exact Heq|]. split; assumption.
  - exists k. split; [lia|]. split; [reflexivity|]. split; [lia|assumption].
Qed.

(* next_power_2 v is the least power of two >= v, for v >= 1 *)
Lemma next_power_2_spec v :
  1 <= v ->
  exists j, 0 <= j /\ next_power_2 (S (Z.to_nat (Z.log2_up v))) v = Ret (2 ^ j) /\
            v <= 2 ^ j /\ (j = 0 \/ 2 ^ (j - 1) < v).
Proof.
  intro Hv. rewrite np2_is_spec. unfold np2_spec.
  destruct (Z.eqb_spec (Z.land v (v - 1)) 0) as [Hbit|Hbit]; cbn [negb andb].
  - destruct (Z.eqb_spec v 0); [lia|]. cbn [negb].
    apply pow2_bit_test in Hbit; [|lia]. destruct Hbit as [k [Hk ->]].
    exists k. split; [assumption|]. split; [reflexivity|]. split; [lia|].
    destruct (Z.eq_dec k 0); [left; assumption|right].
    apply Z.pow_lt_mono_r; lia.
  - pose proof (Z.log2_up_nonneg v) as Hlog.
    destruct (np2_loop_spec (S (Z.to_nat (Z.log2_up v))) v 0) as [j [Hj [Heq R]]]; try lia.
    change (2 ^ 0) with 1 in Heq. rewrite Heq. exists j. split; [lia|]. split; [reflexivity|exact R].
Qed.

Lemma next_power_2_log2_up v :
  1 <= v -> next_power_2 (S (Z.to_nat (Z.log2_up v))) v = Ret (2 ^ Z.log2_up v).
Proof.
  intro Hv. destruct (next_power_2_spec v Hv) as [j [Hj [Heq [Hle Hp]]]].
  rewrite Heq. f_equal. f_equal.
  destruct (Z.eq_dec v 1) as [->|Hne].
  - destruct Hp as [->|Hp]; [reflexivity|].
    destruct (Z.eq_dec j 0) as [->|Hj0]; [reflexivity|].
    exfalso. assert (0 < 2 ^ (j - 1)) by (apply Z.pow_pos_nonneg; lia). lia.
  - destruct Hp as [->|Hp]; [simpl in Hle; lia|].
    destruct (Z.eq_dec j 0) as [->|Hj0]; [simpl in Hle; lia|].
    symmetry. apply Z.log2_up_unique; [lia|]. replace (Z.pred j) with (j - 1) by lia. lia.
Qed.
