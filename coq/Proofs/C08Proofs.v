(* C08, creator level: the written metafile as a function of the options and of the root string.
     1. [keep p]: dropping top-level keys commutes with update / sort_keys / sort_meta
     2. every creator is "shaped": raw o = close_meta (Mf (meta part of meta_init o)) (If (info part)),
        Mf the identity or `meta["piece layers"] = L`, with Mf, If independent of o
     3. consequences: the info dictionary depends on (comment, private, source) only; the rest of the
        file differs at most in the six outer keys; a different clock changes "creation date" only
     4. the v1 creator: the root string is a common prefix of all sorted strings, hence irrelevant
   The v2-capable creators (create_v2_class, create_hybrid_class, create_assembler) do not take the
   root string at all: their _traverse sorts NAMES per directory (Model/Creators.v [traverse]). *)
From TF Require Import Lib.Base Lib.Lex Lib.Decimal Lib.Chunks Spec.Bep52
                       Model.Bencode Model.Hasher Model.HasherV2 Model.Creators
                       Proofs.BencodeProofs Proofs.CreatorsProofs.
From Coq Require Import Permutation Sorted.

(* ========================================================================================== *)
(* 1. dropping keys                                                                            *)
(* ========================================================================================== *)

Definition dict_of (v : value) : dict := match v with BDict d => d | _ => [] end.

(* keep the entries whose key satisfies p *)
Definition keep (p : bytes -> bool) (d : dict) : dict := filter (fun kv => p (fst kv)) d.

Section Keep.
Variable p : bytes -> bool.

Lemma keep_update_out k v d : p k = false -> keep p (update k v d) = keep p d.
Proof.
  intros Hk. induction d as [|[k0 v0] d IH]; cbn [update keep filter fst].
  - rewrite Hk. reflexivity.
  - destruct (bytes_eqb_spec k0 k) as [->|N]; cbn [keep filter fst].
    + rewrite Hk. reflexivity.
    + fold (keep p (update k v d)). fold (keep p d). rewrite IH. reflexivity.
Qed.

Lemma keep_update_in k v d : p k = true -> keep p (update k v d) = update k v (keep p d).
Proof.
  intros Hk. induction d as [|[k0 v0] d IH]; cbn [update keep filter fst].
  - rewrite Hk. reflexivity.
  - destruct (bytes_eqb_spec k0 k) as [->|N]; cbn [keep filter fst].
    + rewrite Hk. cbn [update]. rewrite bytes_eqb_refl. reflexivity.
    + fold (keep p (update k v d)). fold (keep p d). rewrite IH.
      destruct (p k0); [|reflexivity]. cbn [update].
      destruct (bytes_eqb_spec k0 k); [contradiction|reflexivity].
Qed.

Lemma lookup_keep k d : p k = true -> lookup k (keep p d) = lookup k d.
Proof.
  intros Hk. induction d as [|[k0 v0] d IH]; [reflexivity|]. cbn [keep filter fst lookup].
  fold (keep p d). destruct (bytes_eqb_spec k0 k) as [->|N].
  - rewrite Hk. cbn [lookup]. rewrite bytes_eqb_refl. reflexivity.
  - destruct (p k0); [|exact IH]. cbn [lookup].
    destruct (bytes_eqb_spec k0 k); [contradiction|exact IH].
Qed.

Lemma in_keys_keep k d : In k (map fst (keep p d)) -> In k (map fst d).
Proof.
  unfold keep. rewrite !in_map_iff. intros (x & E & Hx). apply filter_In in Hx.
  exists x. split; [exact E|apply Hx].
Qed.

Lemma keep_NoDup d : NoDup (map fst d) -> NoDup (map fst (keep p d)).
Proof.
  induction d as [|[k0 v0] d IH]; cbn [keep filter map fst]; intros H; [constructor|].
  inversion H as [|x l Hx Hl]; subst. fold (keep p d).
  destruct (p k0); [|apply IH; exact Hl]. cbn [map fst]. constructor; [|apply IH; exact Hl].
  intros C. apply Hx. apply in_keys_keep. exact C.
Qed.

Lemma keep_perm d d' : Permutation d d' -> Permutation (keep p d) (keep p d').
Proof.
  induction 1 as [|x d d' Hp IH|x y d|d d' d'' H1 IH1 H2 IH2]; cbn [keep filter].
  - constructor.
  - destruct (p (fst x)); [apply perm_skip|]; exact IH.
  - destruct (p (fst x)); destruct (p (fst y)); try apply Permutation_refl. apply perm_swap.
  - eapply perm_trans; eassumption.
Qed.

Lemma keep_sorted d : StronglySorted key_lt d -> StronglySorted key_lt (keep p d).
Proof.
  induction 1 as [|a d Hs IH Ha]; cbn [keep filter]; [constructor|].
  fold (keep p d). destruct (p (fst a)); [|exact IH]. constructor; [exact IH|].
  rewrite Forall_forall in *. intros x Hx. apply Ha. unfold keep in Hx. apply filter_In in Hx.
  apply Hx.
Qed.

Lemma keep_sort_keys d : NoDup (map fst d) -> keep p (sort_keys d) = sort_keys (keep p d).
Proof.
  intros Hn.
  rewrite (sort_keys_perm_eq (keep p d) (keep p (sort_keys d))).
  - symmetry. apply sort_keys_sorted_id, keep_sorted, sort_keys_sorted, Hn.
  - apply keep_perm, Permutation_sym, sort_keys_perm.
  - apply keep_NoDup, Hn.
Qed.

Definition sort_sub (k : bytes) (meta : dict) : dict :=
  match lookup k meta with
  | Some (BDict i) => update k (BDict (sort_keys i)) meta
  | _ => meta
  end.

Lemma keep_sort_sub k meta : p k = true -> keep p (sort_sub k meta) = sort_sub k (keep p meta).
Proof.
  intros Hk. unfold sort_sub. rewrite (lookup_keep k meta Hk).
  destruct (lookup k meta) as [[| | |i]|]; try reflexivity. apply keep_update_in, Hk.
Qed.

Lemma sort_sub_NoDup k meta : NoDup (map fst meta) -> NoDup (map fst (sort_sub k meta)).
Proof.
  intros Hn. unfold sort_sub. destruct (lookup k meta) as [[| | |i]|]; try exact Hn.
  apply update_NoDup, Hn.
Qed.

Lemma sort_meta_sub meta : sort_meta meta = sort_keys (sort_sub k_piece_layers (sort_sub k_info meta)).
Proof. reflexivity. Qed.

Hypothesis p_info : p k_info = true.
Hypothesis p_layers : p k_piece_layers = true.

(* dropping other top-level keys after sort_meta = dropping them before *)
Lemma keep_sort_meta meta : NoDup (map fst meta) -> keep p (sort_meta meta) = sort_meta (keep p meta).
Proof.
  intros Hn. rewrite !sort_meta_sub.
  rewrite keep_sort_keys by (apply sort_sub_NoDup, sort_sub_NoDup, Hn).
  rewrite keep_sort_sub by exact p_layers. rewrite keep_sort_sub by exact p_info. reflexivity.
Qed.
End Keep.

Lemma keep_ext p q d : (forall k, p k = q k) -> keep p d = keep q d.
Proof. intros H. apply filter_ext. intros kv. apply H. Qed.

Lemma keep_keep p q d : keep p (keep q d) = keep (fun k => q k && p k) d.
Proof.
  induction d as [|kv d IH]; [reflexivity|]. cbn [keep filter]. fold (keep q d).
  destruct (q (fst kv)); cbn [keep filter andb]; fold (keep q d); fold (keep p (keep q d));
    rewrite IH; reflexivity.
Qed.

(* del d[k] *)
Lemma remove_keep k d : remove k d = keep (fun k' => negb (bytes_eqb k' k)) d.
Proof.
  induction d as [|[k0 v0] d IH]; [reflexivity|]. cbn [remove keep filter fst].
  fold (keep (fun k' => negb (bytes_eqb k' k)) d). rewrite IH.
  destruct (bytes_eqb k0 k); reflexivity.
Qed.

(* the top-level keys that MetaFile.__init__ fills from the outer options and the clock *)
Definition outer_keys : list bytes :=
  [k_creation_date; k_created_by; k_announce; k_announce_list; k_url_list; k_httpseeds].
Definition not_outer (k : bytes) : bool := negb (existsb (bytes_eqb k) outer_keys).

(* the metafile without them *)
Definition strip_outer (d : dict) : dict := keep not_outer d.

Lemma strip_outer_remove d : strip_outer d = fold_right remove d outer_keys.
Proof.
  unfold outer_keys. cbn [fold_right]. rewrite !remove_keep, !keep_keep. unfold strip_outer.
  apply keep_ext. intros k. unfold not_outer, outer_keys. cbn [existsb].
  rewrite !negb_orb. cbn [negb]. rewrite andb_true_r.
  repeat (destruct (bytes_eqb k _); cbn [negb andb]; try reflexivity).
Qed.

(* ========================================================================================== *)
(* 2. the options                                                                              *)
(* ========================================================================================== *)

(* the options that go INTO the info dictionary *)
Definition same_info_options (o o' : options) : Prop :=
  o_comment o = o_comment o' /\ o_private o = o_private o' /\ o_source o = o_source o'.

(* the same run at another time *)
Definition with_date (z : Z) (o : options) : options :=
  mk_options (o_created_by o) z (o_announce o) (o_comment o) (o_private o) (o_source o)
             (o_url_list o) (o_httpseeds o).

Lemma with_date_same_info z o : same_info_options (with_date z o) o.
Proof. repeat split. Qed.

Lemma meta_init_info_same o o' name pl :
  same_info_options o o' -> snd (meta_init o name pl) = snd (meta_init o' name pl).
Proof.
  intros (E1 & E2 & E3). unfold meta_init. cbv zeta. cbn [snd]. rewrite E1, E2, E3. reflexivity.
Qed.

Ltac keep_meta_init :=
  unfold meta_init; cbv zeta; cbn [fst];
  repeat match goal with
         | |- context [if ?c then _ else _] => destruct c
         end;
  repeat first [ rewrite keep_update_out by reflexivity | rewrite keep_update_in by reflexivity ];
  reflexivity.

(* without the outer keys, what MetaFile.__init__ leaves at top level is the (empty) info slot *)
Lemma meta_init_strip_outer o name pl :
  strip_outer (fst (meta_init o name pl)) = [(k_info, BDict [])].
Proof. unfold strip_outer. keep_meta_init. Qed.

Definition not_date (k : bytes) : bool := negb (bytes_eqb k k_creation_date).

Lemma meta_init_with_date z o name pl :
  keep not_date (fst (meta_init (with_date z o) name pl)) = keep not_date (fst (meta_init o name pl)).
Proof.
  destruct o as [cb cd an co pr so ul hs]. unfold with_date, meta_init. cbv zeta.
  cbn [fst o_created_by o_creation_date o_announce o_comment o_private o_source o_url_list o_httpseeds].
  repeat match goal with
         | |- context [if ?c then _ else _] => destruct c
         end;
  repeat first [ rewrite keep_update_out by reflexivity | rewrite keep_update_in by reflexivity ];
  reflexivity.
Qed.

(* ========================================================================================== *)
(* 3. shaped creators                                                                          *)
(* ========================================================================================== *)

Definition shaped (name : bytes) (pl : nat) (raw : options -> dict) : Prop :=
  exists (Mf If : dict -> dict),
    (forall o, raw o = close_meta (Mf (fst (meta_init o name pl))) (If (snd (meta_init o name pl)))) /\
    (Mf = (fun m => m) \/ exists L, Mf = update k_piece_layers L).

Lemma lookup_info_written meta info :
  NoDup (map fst meta) ->
  lookup k_info (sort_meta (close_meta meta info)) = Some (BDict (sort_keys info)).
Proof.
  intros Hn. rewrite sort_meta_close.
  rewrite sort_layers_lookup_other; [|apply update_NoDup; exact Hn|apply bytes_eqb_neq; vm_compute; reflexivity].
  unfold close_meta. apply lookup_update_same.
Qed.

Section Shaped.
Variables (name : bytes) (pl : nat) (raw : options -> dict).
Hypothesis Hs : shaped name pl raw.

Lemma shaped_info o :
  exists If, forall o', same_info_options o o' ->
    lookup k_info (sort_meta (raw o')) = Some (BDict (sort_keys (If (snd (meta_init o name pl))))).
Proof.
  destruct Hs as (Mf & If & E & HM). exists If. intros o' Ho. rewrite E.
  rewrite <- (meta_init_info_same o o' name pl Ho). apply lookup_info_written.
  destruct HM as [->|[L ->]]; [|apply update_NoDup]; apply meta_init_meta_NoDup.
Qed.

Theorem shaped_info_irrelevant o o' : same_info_options o o' ->
  lookup k_info (sort_meta (raw o)) = lookup k_info (sort_meta (raw o')).
Proof.
  intros Ho. destruct (shaped_info o) as (If & H).
  rewrite (H o') by exact Ho. apply H. repeat split.
Qed.

Theorem shaped_keep p o o' :
  p k_info = true -> p k_piece_layers = true -> same_info_options o o' ->
  keep p (fst (meta_init o name pl)) = keep p (fst (meta_init o' name pl)) ->
  keep p (sort_meta (raw o)) = keep p (sort_meta (raw o')).
Proof.
  intros Pi Pl Ho Hm. destruct Hs as (Mf & If & E & HM). rewrite !E.
  rewrite (meta_init_info_same o o' name pl Ho).
  assert (NM : forall o, NoDup (map fst (Mf (fst (meta_init o name pl))))).
  { intros o0. destruct HM as [->|[L ->]]; [|apply update_NoDup]; apply meta_init_meta_NoDup. }
  rewrite !keep_sort_meta; try assumption; try (apply update_NoDup, NM).
  unfold close_meta. rewrite !keep_update_in by exact Pi. do 2 f_equal.
  destruct HM as [->|[L ->]]; [exact Hm|]. rewrite !keep_update_in by exact Pl. rewrite Hm. reflexivity.
Qed.

Theorem shaped_outer_irrelevant o o' : same_info_options o o' ->
  strip_outer (sort_meta (raw o)) = strip_outer (sort_meta (raw o')).
Proof.
  intros Ho. apply shaped_keep; try reflexivity; [exact Ho|].
  fold (strip_outer (fst (meta_init o name pl))). fold (strip_outer (fst (meta_init o' name pl))).
  rewrite !meta_init_strip_outer. reflexivity.
Qed.

Theorem shaped_clock_only z o :
  remove k_creation_date (sort_meta (raw (with_date z o))) = remove k_creation_date (sort_meta (raw o)).
Proof.
  rewrite !remove_keep. apply (shaped_keep not_date); try reflexivity.
  - apply with_date_same_info.
  - apply meta_init_with_date.
Qed.
End Shaped.

(* ========================================================================================== *)
(* 4. the four creators are shaped                                                             *)
(* ========================================================================================== *)

Section Creators.
Variable H1 H256 : bytes -> bytes.
Variable B : nat.

Lemma create_v1_shaped align root name pl t :
  shaped name pl (fun o => create_v1_raw H1 align o root name pl t).
Proof.
  exists (fun m => m).
  exists (fun info =>
    let fl := snd (filelist_total root t) in
    update k_pieces
      (BStr (concat (hasher_pieces H1 (if is_file t then false else align) pl (map snd fl))))
      (if is_file t then update k_length (BInt (Z.of_nat (fst (filelist_total root t)))) info
       else update k_files (v1_files_value align pl fl) info)).
  split; [|left; reflexivity]. intros o. rewrite create_v1_raw_eq. reflexivity.
Qed.

Lemma create_v2_class_shaped name pl t :
  shaped name pl (fun o => create_v2_class_raw H256 B o name pl t).
Proof.
  pose (r := traverse dict (v2_leaf H256 B pl) t (root_rel t) []).
  exists (update k_piece_layers (BDict (snd r))).
  exists (fun info =>
    update k_meta_version (BInt 2)
      match t with
      | File d => update k_length (BInt (Z.of_nat (length d)))
                    (update k_file_tree (BDict [(name, BDict (fst r))]) info)
      | Dir _ => update k_file_tree (BDict (fst r)) info
      end).
  split; [|right; eexists; reflexivity]. intros o. unfold create_v2_class_raw.
  destruct (meta_init o name pl) as [meta info]. subst r.
  destruct (traverse dict (v2_leaf H256 B pl) t (root_rel t) []) as [tree layers]. reflexivity.
Qed.

Lemma create_hybrid_class_shaped name pl t :
  shaped name pl (fun o => create_hybrid_class_raw H1 H256 B o name pl t).
Proof.
  pose (r := traverse hy_state (hybrid_leaf H1 H256 B (negb (is_file t)) pl) t (root_rel t) (mk_hy [] [] [])).
  exists (update k_piece_layers (BDict (hy_layers (snd r)))).
  exists (fun info =>
    let info := update k_meta_version (BInt 2) info in
    update k_pieces (BStr (concat (hy_pieces (snd r))))
      match t with
      | File d => update k_length (BInt (Z.of_nat (length d)))
                    (update k_file_tree (BDict [(name, BDict (fst r))]) info)
      | Dir _ => update k_files (BList (hy_files (snd r))) (update k_file_tree (BDict (fst r)) info)
      end).
  split; [|right; eexists; reflexivity]. intros o. unfold create_hybrid_class_raw.
  destruct (meta_init o name pl) as [meta info]. subst r. cbv zeta.
  destruct (traverse hy_state (hybrid_leaf H1 H256 B (negb (is_file t)) pl) t (root_rel t) (mk_hy [] [] []))
    as [tree st]. reflexivity.
Qed.

Lemma create_assembler_shaped hybrid name pl t :
  shaped name pl (fun o => create_assembler_raw H1 H256 B hybrid o name pl t).
Proof.
  pose (r := traverse as_state (asm_leaf H1 H256 B hybrid (negb (is_file t)) pl) t (root_rel t) (mk_as [] [] [])).
  exists (update k_piece_layers (BDict (as_layers (snd r)))).
  exists (fun info =>
    let info := update k_meta_version (BInt 2) info in
    let info :=
      match t with
      | File d => update k_length (BInt (Z.of_nat (length d)))
                    (update k_file_tree (BDict [(name, BDict (fst r))]) info)
      | Dir _ => let info := update k_file_tree (BDict (fst r)) info in
                 if hybrid then update k_files (BList (as_files (snd r))) info else info
      end in
    if hybrid then update k_pieces (BStr (as_pieces (snd r))) info else info).
  split; [|right; eexists; reflexivity]. intros o. unfold create_assembler_raw.
  destruct (meta_init o name pl) as [meta info]. subst r. cbv zeta.
  destruct (traverse as_state (asm_leaf H1 H256 B hybrid (negb (is_file t)) pl) t (root_rel t) (mk_as [] [] []))
    as [tree st]. reflexivity.
Qed.

(* (a) the info dictionary, (b) everything but the outer keys *)
Definition outer_options_irrelevant (create : options -> value) : Prop :=
  forall o o', same_info_options o o' ->
    lookup k_info (dict_of (create o)) = lookup k_info (dict_of (create o')) /\
    strip_outer (dict_of (create o)) = strip_outer (dict_of (create o')).

Theorem creators_outer_options_irrelevant :
  (forall align root name pl t, outer_options_irrelevant (fun o => create_v1 H1 align o root name pl t)) /\
  (forall name pl t, outer_options_irrelevant (fun o => create_v2_class H256 B o name pl t)) /\
  (forall name pl t, outer_options_irrelevant (fun o => create_hybrid_class H1 H256 B o name pl t)) /\
  (forall hybrid name pl t, outer_options_irrelevant (fun o => create_assembler H1 H256 B hybrid o name pl t)).
Proof.
  repeat split; intros; cbn [dict_of].
  - apply (shaped_info_irrelevant _ _ _ (create_v1_shaped align root name pl t)); assumption.
  - apply (shaped_outer_irrelevant _ _ _ (create_v1_shaped align root name pl t)); assumption.
  - apply (shaped_info_irrelevant _ _ _ (create_v2_class_shaped name pl t)); assumption.
  - apply (shaped_outer_irrelevant _ _ _ (create_v2_class_shaped name pl t)); assumption.
  - apply (shaped_info_irrelevant _ _ _ (create_hybrid_class_shaped name pl t)); assumption.
  - apply (shaped_outer_irrelevant _ _ _ (create_hybrid_class_shaped name pl t)); assumption.
  - apply (shaped_info_irrelevant _ _ _ (create_assembler_shaped hybrid name pl t)); assumption.
  - apply (shaped_outer_irrelevant _ _ _ (create_assembler_shaped hybrid name pl t)); assumption.
Qed.

(* two runs on equal input at different times: the files differ in "creation date" only *)
Definition clock_only (create : options -> value) : Prop :=
  forall z o, remove k_creation_date (dict_of (create (with_date z o))) =
              remove k_creation_date (dict_of (create o)).

Theorem creators_clock_only :
  (forall align root name pl t, clock_only (fun o => create_v1 H1 align o root name pl t)) /\
  (forall name pl t, clock_only (fun o => create_v2_class H256 B o name pl t)) /\
  (forall name pl t, clock_only (fun o => create_hybrid_class H1 H256 B o name pl t)) /\
  (forall hybrid name pl t, clock_only (fun o => create_assembler H1 H256 B hybrid o name pl t)).
Proof.
  repeat split; intros; intros z o; cbn [dict_of].
  - apply (shaped_clock_only _ _ _ (create_v1_shaped align root name pl t)).
  - apply (shaped_clock_only _ _ _ (create_v2_class_shaped name pl t)).
  - apply (shaped_clock_only _ _ _ (create_hybrid_class_shaped name pl t)).
  - apply (shaped_clock_only _ _ _ (create_assembler_shaped hybrid name pl t)).
Qed.

(* ========================================================================================== *)
(* 5. the v1 creator and the root string                                                       *)
(* ========================================================================================== *)

Lemma bytes_ltb_app_head p a b : bytes_ltb (p ++ a) (p ++ b) = bytes_ltb a b.
Proof.
  induction p as [|x p IH]; [reflexivity|]. cbn [app bytes_ltb].
  rewrite Nat.ltb_irrefl, Nat.eqb_refl. cbn [orb andb]. exact IH.
Qed.

Definition pre_item (p : bytes) (it : flt_item) : flt_item := (p ++ fst it, snd it).

Lemma insert_name_pre p (e : flt_item) l :
  insert_name (pre_item p e) (map (pre_item p) l) = map (pre_item p) (insert_name e l).
Proof.
  induction l as [|e' l IH]; [reflexivity|]. cbn [map insert_name]. unfold pre_item at 1 2. cbn [fst].
  rewrite bytes_ltb_app_head. destruct (bytes_ltb (fst e') (fst e)); cbn [map]; [|reflexivity].
  rewrite <- IH. reflexivity.
Qed.

Lemma sort_names_pre p (l : list flt_item) :
  sort_names (map (pre_item p) l) = map (pre_item p) (sort_names l).
Proof.
  induction l as [|e l IH]; [reflexivity|]. cbn [map sort_names]. rewrite IH. apply insert_name_pre.
Qed.

(* a longer root only prefixes every path string *)
Lemma flt_prefix t : forall p path rel,
  flt (p ++ path) rel t = (fst (flt path rel t), map (pre_item p) (snd (flt path rel t))).
Proof.
  induction t as [d|es IH] using node_ind'; intros p path rel; [reflexivity|].
  cbn [flt].
  assert (E : map (fun e => flt ((p ++ path) ++ slash :: fst e) (rel ++ [fst e]) (snd e)) es =
              map (fun e => (fst (flt (path ++ slash :: fst e) (rel ++ [fst e]) (snd e)),
                             map (pre_item p) (snd (flt (path ++ slash :: fst e) (rel ++ [fst e]) (snd e))))) es).
  { apply map_ext_in. intros e He. rewrite <- app_assoc. rewrite Forall_forall in IH. apply (IH e He). }
  rewrite E. cbv zeta. cbn [fst snd]. f_equal.
  - rewrite !map_map. reflexivity.
  - rewrite <- sort_names_pre. f_equal. rewrite !map_map. cbn [snd]. rewrite concat_map, map_map.
    reflexivity.
Qed.

Theorem filelist_total_root_irrelevant root root' t :
  filelist_total root t = filelist_total root' t.
Proof.
  assert (E : forall r, filelist_total r t = filelist_total [] t).
  { intros r. unfold filelist_total. rewrite <- (app_nil_r r), flt_prefix. cbn [fst snd].
    f_equal. rewrite map_map. reflexivity. }
  rewrite (E root), (E root'). reflexivity.
Qed.

(* C08 location: the v1 metafile does not depend on the root string under which the tree is listed *)
Theorem create_v1_location_irrelevant align o root root' name pl t :
  create_v1 H1 align o root name pl t = create_v1 H1 align o root' name pl t.
Proof.
  unfold create_v1, create_v1_raw. rewrite (filelist_total_root_irrelevant root root'). reflexivity.
Qed.

End Creators.

(* ========================================================================================== *)
(* Examples                                                                                    *)
(* ========================================================================================== *)
Module C08Examples.
Import CreatorsExamples.
Import String.StringSyntax.
Local Open Scope Z_scope.

Definition ex_opts' : options :=
  mk_options (bs "torrentfile_v9") 1 [] (bs "hi") true [] [] [bs "http://seed/"].

Example ex_same_info : same_info_options ex_opts ex_opts'.
Proof. repeat split. Qed.

Example ex_outer_differ :
  create_v1 T1 true ex_opts (bs "r") (bs "r") 4 ex_tree <> create_v1 T1 true ex_opts' (bs "r") (bs "r") 4 ex_tree.
Proof. vm_compute. discriminate. Qed.

Example ex_info_equal :
  lookup k_info (dict_of (create_assembler T1 T256 2 true ex_opts (bs "r") 4 ex_tree)) =
  lookup k_info (dict_of (create_assembler T1 T256 2 true ex_opts' (bs "r") 4 ex_tree)).
Proof. vm_compute. reflexivity. Qed.

Example ex_strip_keys :
  map fst (strip_outer (dict_of (create_assembler T1 T256 2 true ex_opts (bs "r") 4 ex_tree))) =
  [k_info; k_piece_layers].
Proof. vm_compute. reflexivity. Qed.

Example ex_location :
  create_v1 T1 true ex_opts (bs "/home/u/r") (bs "r") 4 ex_tree = create_v1 T1 true ex_opts (bs ".") (bs "r") 4 ex_tree.
Proof. vm_compute. reflexivity. Qed.
End C08Examples.
