(* C05, generalisation of Proofs/OwnMetafiles.v from "the metafiles this tool writes" to "any well-formed metafile":
   every decoded metafile value that DESCRIBES a payload in the sense of Spec/MetafileWF.v (BEP 3 / BEP 47 / BEP 52,
   stated with `lookup` only: arbitrary other keys, any encoder) verifies at 100 % in the checker model

     recheck_model fs m path = Some (size, size, size)

   for every file system that holds the payload at base ([holds]), through the payload root or a parent that is not
   named like it (find_root ... = Some base, OwnMetafiles.holds_find_root).  Then the reference encoder of
   Spec/MetafileWF.v (harness/ref/oracle.py ref_metafile) is shown to write such values.  Sections:
     1. Checker.__init__ unfolded;   2. v1 (BEP 3, BEP 47 padding entries);   3. v2 and hybrid (BEP 52);
     4. the reference encoder describes its input;   5. C05_reference_metafiles;   6. examples. *)
From TF Require Import Lib.Base Lib.Decimal Lib.Chunks Spec.Bep52 Spec.RecheckSpec Spec.MetafileWF
                       Model.Bencode Model.Hasher Model.HasherV2 Model.Creators Model.CheckPaths
                       Model.Recheck Model.RecheckInit
                       Proofs.BencodeProofs Proofs.HasherV2Correct
                       Proofs.RecheckV1 Proofs.RecheckResult Proofs.RecheckV2 Proofs.RecheckBep52
                       Proofs.CheckPathsProofs Proofs.CreatorsProofs Proofs.CreatorsProofs2 Proofs.OwnMetafiles.
From TF Require Import Lib.Lex.
From Coq Require Import Permutation Sorted.

(* ========================================================================================== *)
(* 1. Checker.__init__ + the dispatch of piece_checker, given what the reads return            *)
(* ========================================================================================== *)

Lemma recheck_model_unfold H1 H256 B fs meta info name path root fis total :
  lookup ck_info meta = Some (BDict info) -> lookup ck_name info = Some (BStr name) ->
  find_root (fs_exists fs) (fs_listdir fs) name path = Some root ->
  check_paths info name root (fs_isfile fs root) = Some (fis, total) ->
  recheck_model H1 H256 B fs (BDict meta) path =
  match (if meta_version_of info =? 1 then recheck_v1_model H1 fs info fis
         else recheck_v2_model H256 B fs meta info fis) with
  | Some (mt, cs) => Some (total, mt, cs)
  | None => None
  end.
Proof.
  intros Ei En Er Ec. unfold recheck_model, checker_init. rewrite Ei, En, Er, Ec. reflexivity.
Qed.

(* ========================================================================================== *)
(* 2. v1                                                                                       *)
(* ========================================================================================== *)

(* the fileinfo entry check_paths makes of a slot *)
Definition slot_fi (root : cpath) (s : slot) : fileinfo :=
  mk_fi (root ++ slot_path s) (Z.of_nat (slot_len s)) None (slot_attr s).

Lemma layout_size_sum lay : layout_size lay = sum_nat (map slot_len lay).
Proof. reflexivity. Qed.

(* the zero-filled stream of the checker's specification IS the stream the digests were taken of *)
Lemma slots_stream lay : spec_stream_v1 (map slot_len lay) (map slot_disk lay) = layout_stream lay.
Proof.
  unfold spec_stream_v1, layout_stream. induction lay as [|s lay IH]; [reflexivity|].
  cbn [map map2 concat]. rewrite IH. f_equal.
  destruct s as [p a d|p a n]; cbn [slot_len slot_disk slot_bytes zero_fill]; [|reflexivity].
  rewrite Nat.sub_diag. cbn [zeros repeat]. apply app_nil_r.
Qed.

Lemma slots_within lay : disk_within (map slot_len lay) (map slot_disk lay).
Proof.
  induction lay as [|s lay IH]; [exact I|]. cbn [map disk_within]. split; [|exact IH].
  destruct s; cbn [slot_len slot_disk file_within]; [apply le_n|exact I].
Qed.

(* FeedChecker.iter_pieces on the entry of a slot: a padding entry is zeros whatever is at its path, a file entry
   (its attr, if any, has no "p") is read *)
Lemma feed_entry_slot fs root s : slot_ok s ->
  (forall d, slot_disk s = Some d -> disk_entry fs (root ++ slot_path s) = Some (Some d)) ->
  feed_entry fs (slot_fi root s) = Some (slot_disk s).
Proof.
  intros Hok Hd. unfold feed_entry, fi_padding, slot_fi. cbn [fi_attr fi_path].
  destruct s as [p [a|] d|p a n]; cbn [slot_attr slot_ok slot_disk slot_path has_p] in *.
  - unfold has_p in Hok. rewrite Hok. apply Hd. reflexivity.
  - apply Hd. reflexivity.
  - unfold has_p in Hok. rewrite Hok. reflexivity.
Qed.

Lemma sum_lengths_slots root lay :
  sum_lengths (map (slot_fi root) lay) = Z.of_nat (layout_size lay).
Proof.
  induction lay as [|x lay IH]; [reflexivity|].
  cbn [map]. change (sum_lengths (?a :: ?l)) with (fi_length a + sum_lengths l)%Z.
  rewrite IH. cbn [fi_length slot_fi]. unfold layout_size. cbn [map fold_right]. lia.
Qed.

(* an element of info["files"] that describes a slot is read by check_paths as that slot *)
Lemma item_describes_ok it s : item_describes it s ->
  item_ok it (slot_path s, Z.of_nat (slot_len s), slot_attr s).
Proof.
  intros (d & -> & El & Ep & Hne & Ea). exists d. cbn [ve_path ve_length ve_attr fst snd].
  repeat split; try assumption. unfold attr_of. rewrite Ea. destruct (slot_attr s); reflexivity.
Qed.

Lemma in_file_slots lay p d : In (p, d) (file_slots lay) -> exists a, In (FileSlot p a d) lay.
Proof.
  induction lay as [|s lay IH]; [intros []|]. destruct s as [p' a' d'|p' a' n']; cbn [file_slots].
  - intros [E|Hin].
    + injection E as -> ->. exists a'. left; reflexivity.
    + destruct (IH Hin) as [a Ha]. exists a. right; exact Ha.
  - intros Hin. destruct (IH Hin) as [a Ha]. exists a. right; exact Ha.
Qed.

Lemma file_slots_in lay p a d : In (FileSlot p a d) lay -> In (p, d) (file_slots lay).
Proof.
  induction lay as [|s lay IH]; [intros []|]. intros [->|Hin].
  - left; reflexivity.
  - destruct s; cbn [file_slots]; [right|]; apply IH; exact Hin.
Qed.

Section V1.
Variable H1 H256 : bytes -> bytes.
Variable B : nat.
Hypothesis H1_len : forall x, length (H1 x) = 20.

(* FeedChecker over the entries of a layout, against a file system that has every FILE of the layout under the
   root (nothing is assumed about the paths of padding entries) *)
Lemma recheck_v1_slots fs info root (lay : layout) pl :
  0 < pl ->
  lookup rk_piece_length info = Some (BInt (Z.of_nat pl)) ->
  lookup ck_pieces info = Some (BStr (concat (map H1 (chunks pl (layout_stream lay))))) ->
  Forall slot_ok lay ->
  Forall (fun s => forall d, slot_disk s = Some d -> disk_entry fs (root ++ slot_path s) = Some (Some d)) lay ->
  recheck_v1_model H1 fs info (map (slot_fi root) lay) = Some (layout_size lay, layout_size lay).
Proof.
  intros Hpl Epl Epc Hok Hd. unfold recheck_v1_model, feed_init, piece_length_of.
  rewrite Epl, nat_of_len_of_nat, Epc. rewrite !map_map. cbn [slot_fi fi_length].
  rewrite (all_some_map_ext _ slot_len) by (apply Forall_forall; intros x _; apply nat_of_len_of_nat).
  rewrite (all_some_map_ext _ slot_disk).
  2:{ rewrite Forall_forall in *. intros s Hs. apply feed_entry_slot; [apply Hok|apply Hd]; exact Hs. }
  unfold SHA1_LEN. rewrite cut_digests by (exact H1_len || lia).
  rewrite <- slots_stream. f_equal. rewrite layout_size_sum.
  apply (feed_matches_own_stream H1 pl (map slot_len lay) (map slot_disk lay) Hpl);
    [rewrite !map_length; reflexivity|apply slots_within].
Qed.

(* BEP 3 (+ BEP 47): a metafile that describes a layout of the payload verifies; the recorded size is the size of the
   layout (the payload plus its padding entries) *)
Theorem wf_v1_verify m name pl lay t fs base path :
  0 < pl -> describes_v1 H1 m name pl lay -> layout_of_payload lay t ->
  find_root (fs_exists fs) (fs_listdir fs) name path = Some base -> holds fs base t ->
  let n := layout_size lay in
  recheck_model H1 H256 B fs m path = Some (Z.of_nat n, n, n).
Proof.
  intros Hpl (meta & info & (-> & Ei & En & Epl) & Ev & Epc & Hok & Hshape) Hpay Hroot Hh n.
  assert (Hmv : meta_version_of info = 1).
  { unfold meta_version_of, has. rewrite Ev. reflexivity. }
  assert (Hdisk : Forall (fun s => forall d, slot_disk s = Some d ->
                                   disk_entry fs (base ++ slot_path s) = Some (Some d)) lay).
  { apply Forall_forall. intros s Hs d Hd. destruct s as [p a d'|p a n']; cbn [slot_disk slot_path] in *; [|discriminate].
    injection Hd as ->. apply (holds_disk_entry fs base t p d Hh).
    apply (Permutation_in _ Hpay). apply (file_slots_in lay p a d Hs). }
  assert (Hcp : check_paths info name base (fs_isfile fs base) =
                Some (map (slot_fi base) lay, Z.of_nat n)).
  { destruct Hshape as [(d & -> & El & _)|(El & items & Ef & Hitems)].
    - rewrite (check_paths_v1_single info name base _ _ El Ev).
      cbn [map]. unfold slot_fi. cbn [slot_path slot_len slot_attr]. rewrite app_nil_r.
      unfold n, layout_size. cbn [map slot_len fold_right]. rewrite Nat.add_0_r. reflexivity.
    - rewrite (check_paths_v1_dir info name base _ items
                 (map (fun s => (slot_path s, Z.of_nat (slot_len s), slot_attr s)) lay) El Ev Ef).
      + rewrite map_map. cbn [ve_path ve_length ve_attr fst snd].
        change (fun x : slot => mk_fi (base ++ slot_path x) (Z.of_nat (slot_len x)) None (slot_attr x))
          with (slot_fi base).
        rewrite sum_lengths_slots. reflexivity.
      + clear -Hitems. induction Hitems as [|it s items lay H _ IH]; [constructor|].
        cbn [map]. constructor; [apply item_describes_ok; exact H|exact IH]. }
  rewrite (recheck_model_unfold H1 H256 B fs meta info name path base _ _ Ei En Hroot Hcp).
  rewrite Hmv. cbn [Nat.eqb].
  rewrite (recheck_v1_slots fs info base lay pl Hpl Epl Epc Hok Hdisk). reflexivity.
Qed.

End V1.

(* the size is positive as soon as one file of the payload is not empty *)
Lemma layout_size_pos lay t : layout_of_payload lay t ->
  (exists p d, In (p, d) (files_of [] t) /\ d <> []) -> 0 < layout_size lay.
Proof.
  intros Hpay (p & d & Hin & Hd). apply (Permutation_in _ (Permutation_sym Hpay)) in Hin.
  apply in_file_slots in Hin. destruct Hin as [a Hin].
  clear Hpay. unfold layout_size. induction lay as [|s lay IH]; [destruct Hin|]. cbn [map fold_right].
  destruct Hin as [->|Hin].
  - cbn [slot_len]. destruct d; [congruence|cbn [length]; lia].
  - specialize (IH Hin). lia.
Qed.

(* a layout without padding entries has the size of the payload *)
Lemma layout_size_no_pads lay t : layout_of_payload lay t ->
  Forall (fun s => slot_disk s <> None) lay -> layout_size lay = tree_size t.
Proof.
  intros Hpay Hnp. unfold tree_size. rewrite <- (sum_nat_perm _ _ (Permutation_map _ Hpay)).
  clear Hpay. unfold layout_size. induction Hnp as [|s lay Hs _ IH]; [reflexivity|].
  destruct s as [p a d|p a n]; cbn [slot_disk] in Hs; [|congruence].
  cbn [map file_slots slot_len fold_right snd sum_nat]. unfold sum_nat in IH. rewrite IH. reflexivity.
Qed.

(* ========================================================================================== *)
(* 3. v2 and hybrid                                                                            *)
(* ========================================================================================== *)

Section V2.
Variable H1 H256 : bytes -> bytes.
Variable B : nat.
Hypothesis HB : 0 < B.
Variable k pl : nat.
Hypothesis Hpl : pl = B * 2 ^ k.
Hypothesis H256_len : forall x, length (H256 x) = 32.

Notation root := (bep52_root H256 B).
Notation layer := (bep52_piece_layer H256 B k).
Notation fi_of := (fi_of H256 B).
Notation root_opt := (root_opt H256 B).
Notation leaf_describes := (leaf_describes H256 B).
Notation file_node := (file_node H256 B).
Notation node_describes := (node_describes H256 B).
Notation entry_describes := (entry_describes H256 B).

(* ---------- walk_file_tree over a tree that describes the payload ---------- *)

Lemma leaf_info_describes full d leaf : leaf_describes d leaf ->
  leaf_info full leaf = Some (mk_fi full (Z.of_nat (length d)) (root_opt d) None).
Proof.
  intros (l & -> & El & Er). unfold leaf_info, OwnMetafiles.root_opt. rewrite El.
  destruct d as [|a d]; [reflexivity|]. cbn [length Nat.eqb] in Er |- *.
  destruct (Z.eqb_spec (Z.of_nat (S (length d))) 0) as [C|_]; [clear -C; lia|]. rewrite Er. reflexivity.
Qed.

Lemma walk_tree_entries base ps (es : list (bytes * node)) (sub : dict) :
  Forall2 (fun e kv => fst kv = fst e /\
             walk_val base ps (fst kv) (snd kv) = Some (map (fi_of base) (files_of (ps ++ [fst e]) (snd e))))
          es sub ->
  walk_tree base ps sub = Some (map (fi_of base) (flat_map (fun e => files_of (ps ++ [fst e]) (snd e)) es)).
Proof.
  induction 1 as [|e [key v] es sub [_ Hw] _ IH]; [reflexivity|].
  cbn [fst snd] in Hw. cbn [walk_tree flat_map]. rewrite Hw, IH, map_app. reflexivity.
Qed.

Lemma walk_val_describes base u : forall v, node_describes u v -> forall partials key,
  walk_val base partials key v = Some (map (fi_of base) (files_of (partials ++ [key]) u)).
Proof.
  induction u as [d|es IH] using node_ind'; intros v Hv partials key.
  - inversion Hv as [d' sub (leaf & Es & Hl)|]; subst. rewrite walk_val_dict, Es.
    rewrite (leaf_info_describes _ d leaf Hl). reflexivity.
  - inversion Hv as [|es' sub Enone Hall]; subst. rewrite walk_val_dict, Enone.
    cbn [files_of]. apply walk_tree_entries.
    clear Hv Enone. induction Hall as [|e kv es sub [Ek Hd] _ IHall]; [constructor|].
    inversion IH as [|x l IHe IHes]; subst. constructor; [|apply IHall; exact IHes].
    split; [exact Ek|]. rewrite Ek. apply IHe. exact Hd.
Qed.

Lemma node_describes_dict u v : node_describes u v -> exists d, v = BDict d.
Proof. intros H. inversion H; subst; eexists; reflexivity. Qed.

Lemma sum_lengths_fi_of base files :
  sum_lengths (map (fi_of base) files) = Z.of_nat (sum_nat (map (fun f => length (snd f)) files)).
Proof.
  induction files as [|f l IH]; [reflexivity|].
  cbn [map]. change (sum_lengths (?a :: ?r)) with (fi_length a + sum_lengths r)%Z.
  rewrite IH. cbn [OwnMetafiles.fi_of fi_length]. unfold sum_nat. cbn [fold_right]. rewrite Nat2Z.inj_add. reflexivity.
Qed.

(* a directory payload: one entry per file, in the order of the tree dictionary *)
Lemma check_paths_describes_dir info name base es tree v :
  lookup ck_length info = None -> lookup ck_meta_version info = Some v ->
  lookup ck_file_tree info = Some (BDict tree) -> Forall2 entry_describes es tree ->
  check_paths info name base false =
  Some (map (fi_of base) (files_of [] (Dir es)), Z.of_nat (tree_size (Dir es))).
Proof.
  intros El Ev Et Hall. unfold check_paths.
  rewrite (single_length_dir B HB k pl Hpl info name tree El Et).
  2:{ clear -Hall. induction Hall as [|e kv es tree [_ Hd] _ IH]; constructor; [|exact IH].
      apply (node_describes_dict _ _ Hd). }
  destruct (mv_not_1 info v Ev) as [E1 _]. rewrite E1, Et.
  cbn [files_of]. rewrite (walk_tree_entries base [] es tree).
  - rewrite sum_lengths_fi_of. reflexivity.
  - clear -Hall. induction Hall as [|e kv es tree [Ek Hd] _ IH]; constructor; [|exact IH].
    split; [exact Ek|]. rewrite Ek. apply walk_val_describes. exact Hd.
Qed.

(* a single-file payload: the root itself -- with info.length (this tool, hybrids) or, specification-conformant,
   without it (pure v2, the root is a regular file) *)
Lemma check_paths_describes_single info name base d sub v :
  lookup ck_meta_version info = Some v ->
  lookup ck_file_tree info = Some (BDict [(name, BDict sub)]) -> file_node d sub ->
  (lookup ck_length info = None /\ lookup ck_pieces info = None) \/
  lookup ck_length info = Some (BInt (Z.of_nat (length d))) ->
  check_paths info name base true =
  Some ([mk_fi base (Z.of_nat (length d)) (root_opt d) None], Z.of_nat (length d)).
Proof.
  intros Ev Et (leaf & Es & (l & -> & El & Er)) Hlen.
  destruct (mv_not_1 info v Ev) as [_ E2].
  assert (Hsl : single_length info name true = Some (Some (BInt (Z.of_nat (length d))))).
  { unfold single_length. destruct Hlen as [[E0 Ep]|E0]; rewrite E0; [|reflexivity].
    assert (Emv : meta_version_of info = 2).
    { unfold meta_version_of, has. rewrite Ev, Ep. reflexivity. }
    rewrite Emv. cbn [Nat.eqb]. rewrite Et, Lex.bytes_eqb_refl, Es, El. reflexivity. }
  unfold check_paths. rewrite Hsl, E2, Et. cbn [lookup]. rewrite Lex.bytes_eqb_refl, Es, Er.
  unfold OwnMetafiles.root_opt. destruct (length d =? 0); reflexivity.
Qed.

(* HashChecker over a metafile whose v2 keys describe the payload; [v]: whatever "meta version" holds (the checker only
   asks whether the key is there); "pieces" may be present (hybrid: meta_version 3, checked by HashChecker all the same) *)
Lemma v2_part_verifies fs meta info name t base path v :
  header (BDict meta) meta info name pl ->
  lookup ck_meta_version info = Some v ->
  v2_part H256 B k meta info name pl t ->
  find_root (fs_exists fs) (fs_listdir fs) name path = Some base -> holds fs base t ->
  recheck_model H1 H256 B fs (BDict meta) path = Some (Z.of_nat (tree_size t), tree_size t, tree_size t).
Proof.
  intros (_ & Ei & En & Ep) Ev (tree & layers & Et & Elay & Hlook & Hshape) Hroot Hh.
  destruct Hh as (Hex & Hisf & Hfiles).
  assert (Hmv : (meta_version_of info =? 1) = false) by (apply (mv_not_1 _ _ Ev)).
  set (files := files_of [] t).
  assert (Hcheck : exists fis,
            check_paths info name base (fs_isfile fs base) = Some (fis, Z.of_nat (tree_size t)) /\
            all_some (map (hash_file H256 B fs layers pl) fis) =
            Some (map (fun d => v2_listed H256 B k pl d (Some d)) (map snd files))).
  { destruct t as [d|es].
    - destruct Hshape as [(sub & -> & Hnode) Hlen].
      exists [mk_fi base (Z.of_nat (length d)) (root_opt d) None]. split.
      + rewrite Hisf. cbn [is_file]. rewrite (check_paths_describes_single info name base d sub v Ev Et Hnode Hlen).
        unfold tree_size. cbn [files_of map snd sum_nat fold_right]. rewrite Nat.add_0_r. reflexivity.
      + unfold files. cbn [map all_some files_of snd].
        rewrite (hash_file_own H256 B HB k pl Hpl H256_len); [reflexivity| |].
        * specialize (Hfiles [] d (or_introl eq_refl)). rewrite app_nil_r in Hfiles.
          destruct Hfiles as [E R]. unfold disk_entry. rewrite E, R. reflexivity.
        * apply (Hlook [] d). left; reflexivity.
    - destruct Hshape as [El Hall]. exists (map (fi_of base) files). split.
      + rewrite Hisf. cbn [is_file]. apply (check_paths_describes_dir info name base es tree v El Ev Et Hall).
      + rewrite !map_map.
        apply (all_some_map_ext _ (fun f => v2_listed H256 B k pl (snd f) (Some (snd f)))).
        apply Forall_forall. intros [p d] Hf. unfold OwnMetafiles.fi_of. cbn [fst snd].
        apply (hash_file_own H256 B HB k pl Hpl H256_len).
        * apply (holds_disk_entry fs base (Dir es) p d); [exact (conj Hex (conj Hisf Hfiles))|exact Hf].
        * apply (Hlook p d). exact Hf. }
  destruct Hcheck as (fis & Hcp & Hall).
  rewrite (recheck_model_unfold H1 H256 B fs meta info name path base fis _ Ei En Hroot Hcp).
  rewrite Hmv. unfold recheck_v2_model, hash_init, piece_length_of.
  rewrite Ep, nat_of_len_of_nat, Elay, Hall.
  destruct (C05_v2_bep52 H256 B HB k pl Hpl (map snd files)) as [Cm Cc]. cbv zeta in Cm, Cc.
  unfold matched, consumed in Cm, Cc.
  destruct (iter_hashes _) as [a b]. cbn [fst snd] in Cm, Cc.
  assert (Es : sum_nat (map (@length _) (map snd files)) = tree_size t).
  { unfold tree_size, files. rewrite map_map. reflexivity. }
  rewrite Es in Cc. subst a b. reflexivity.
Qed.

(* BEP 52: a v2 metafile that describes the payload verifies -- single files without info.length included *)
Theorem wf_v2_verify m name t fs base path :
  describes_v2 H256 B k m name pl t ->
  find_root (fs_exists fs) (fs_listdir fs) name path = Some base -> holds fs base t ->
  recheck_model H1 H256 B fs m path = Some (Z.of_nat (tree_size t), tree_size t, tree_size t).
Proof.
  intros (meta & info & Hh & Ev & _ & Hv2). pose proof Hh as (-> & _).
  apply (v2_part_verifies fs meta info name t base path _ Hh Ev Hv2).
Qed.

(* hybrid: whatever its v1 files list looks like (padding entries anywhere, trailing pad or not) *)
Theorem wf_hybrid_verify m name lay t fs base path :
  describes_hybrid H1 H256 B k m name pl lay t ->
  find_root (fs_exists fs) (fs_listdir fs) name path = Some base -> holds fs base t ->
  recheck_model H1 H256 B fs m path = Some (Z.of_nat (tree_size t), tree_size t, tree_size t).
Proof.
  intros (meta & info & Hh & Ev & _ & _ & Hv2). pose proof Hh as (-> & _).
  apply (v2_part_verifies fs meta info name t base path _ Hh Ev Hv2).
Qed.

End V2.

(* ========================================================================================== *)
(* 4. the reference encoder describes its input                                                *)
(* ========================================================================================== *)

(* ---------- dictionaries assembled key by key, extended by extra keys, sorted ---------- *)

Lemma lookup_update_all_other key extra : forall d,
  ~ In key (map fst extra) -> lookup key (update_all extra d) = lookup key d.
Proof.
  unfold update_all. induction extra as [|[k0 v0] extra IH]; intros d Hn; [reflexivity|].
  cbn [fold_left fst snd]. cbn [map fst In] in Hn. rewrite IH by tauto.
  apply lookup_update_other. intros E. apply Hn. left. exact E.
Qed.

Lemma update_all_NoDup extra : forall d, NoDup (map fst d) -> NoDup (map fst (update_all extra d)).
Proof.
  unfold update_all. induction extra as [|[k0 v0] extra IH]; intros d Hd; [exact Hd|].
  cbn [fold_left fst snd]. apply IH, update_NoDup, Hd.
Qed.

Lemma closed_lookup key extra d : NoDup (map fst d) -> ~ In key (map fst extra) ->
  lookup key (sort_keys (update_all extra d)) = lookup key d.
Proof.
  intros Hd Hn. rewrite lookup_sort_keys by (apply update_all_NoDup; exact Hd).
  apply lookup_update_all_other. exact Hn.
Qed.

Ltac nd := repeat apply update_NoDup; apply (proj1 (nodupb_spec _)); vm_compute; reflexivity.
Ltac inkeys := cbn [used_info_keys used_top_keys In]; repeat first [left; reflexivity | right].

(* ---------- the entries of info["files"] ---------- *)

Lemma slot_item_describes s : slot_path s <> [] -> item_describes (slot_item s) s.
Proof.
  intros Hne. unfold slot_item. eexists. split; [reflexivity|].
  destruct (slot_attr s); repeat split; try reflexivity; exact Hne.
Qed.

Lemma ref_layout_file_slots pads tp pl files : file_slots (ref_layout pads tp pl files) = files.
Proof.
  induction files as [|[p d] files IH]; [reflexivity|]. cbn [ref_layout fst snd]. cbv zeta.
  cbn [file_slots]. f_equal.
  destruct (pads && negb (gap_of pl (length d) =? 0) && _); cbn [app file_slots]; exact IH.
Qed.

Lemma ref_layout_slots pads tp pl files : Forall (fun f => fst f <> []) files ->
  Forall (fun s => slot_ok s /\ slot_path s <> []) (ref_layout pads tp pl files).
Proof.
  induction 1 as [|[p d] files Hf _ IH]; [constructor|]. cbn [ref_layout fst snd] in *. cbv zeta.
  constructor; [split; [exact I|exact Hf]|].
  destruct (pads && negb (gap_of pl (length d) =? 0) && _); cbn [app]; [|exact IH].
  constructor; [|exact IH]. split; [reflexivity|discriminate].
Qed.

(* without padding files the layout is the files *)
Lemma ref_layout_no_pads tp pl files : Forall (fun s => slot_disk s <> None) (ref_layout false tp pl files).
Proof.
  induction files as [|[p d] files IH]; [constructor|]. cbn [ref_layout fst snd andb app]. cbv zeta.
  constructor; [discriminate|exact IH].
Qed.

Lemma ref_v1_layout_payload pads tp pl t : layout_of_payload (ref_v1_layout pads tp pl t) t.
Proof.
  unfold layout_of_payload, ref_v1_layout. destruct t as [d|es]; [apply Permutation_refl|].
  rewrite ref_layout_file_slots. apply Permutation_refl.
Qed.

Lemma files_of_Dir_nonempty es : Forall (fun f => fst f <> []) (files_of [] (Dir es)).
Proof.
  apply Forall_forall. intros [p d] Hin. apply files_of_Dir_in in Hin.
  destruct Hin as (e & p' & _ & -> & _). discriminate.
Qed.

Section RefEncoder.
Variable H1 H256 : bytes -> bytes.
Variable B : nat.

(* the two dictionaries of ref_metafile_gen before the extra keys go in *)
Definition ref_info0 (v1 v2 pads : bool) (name : bytes) (t : node) (pl : nat) (tp : bool) : dict :=
  let info : dict := [(ck_name, BStr name); (rk_piece_length, BInt (Z.of_nat pl))] in
  let info :=
    if v2 then
      update ck_file_tree
        (BDict (match t with File _ => [(name, BDict (ref_tree H256 B t))] | Dir _ => ref_tree H256 B t end))
        (update ck_meta_version (BInt 2) info)
    else info in
  let lay := ref_v1_layout pads tp pl t in
  if v1 then
    update ck_pieces (BStr (concat (map H1 (chunks pl (layout_stream lay)))))
      (match t with
       | File d => update ck_length (BInt (Z.of_nat (length d))) info
       | Dir _ => update ck_files (BList (map slot_item lay)) info
       end)
  else info.

Definition ref_top0 (v2 : bool) (t : node) (pl : nat) : dict :=
  if v2 then update rk_piece_layers (BDict (sort_keys (ref_layers H256 B pl (files_of [] t)))) [] else [].

Lemma ref_metafile_gen_eq v1 v2 pads name t pl et ei tp :
  ref_metafile_gen H1 H256 B v1 v2 pads name t pl et ei tp =
  BDict (sort_keys (update_all et
    (update ck_info (BDict (sort_keys (update_all ei (ref_info0 v1 v2 pads name t pl tp)))) (ref_top0 v2 t pl)))).
Proof. reflexivity. Qed.

Lemma ref_info0_NoDup v1 v2 pads name t pl tp : NoDup (map fst (ref_info0 v1 v2 pads name t pl tp)).
Proof. unfold ref_info0. cbv zeta. destruct v1, v2, t; nd. Qed.

Lemma ref_top0_NoDup v2 t pl : NoDup (map fst (ref_top0 v2 t pl)).
Proof. unfold ref_top0. destruct v2; nd. Qed.

Lemma ref_info0_name v1 v2 pads name t pl tp :
  lookup ck_name (ref_info0 v1 v2 pads name t pl tp) = Some (BStr name).
Proof. unfold ref_info0. cbv zeta. destruct v1, v2, t; lk; reflexivity. Qed.

Lemma ref_info0_piece_length v1 v2 pads name t pl tp :
  lookup rk_piece_length (ref_info0 v1 v2 pads name t pl tp) = Some (BInt (Z.of_nat pl)).
Proof. unfold ref_info0. cbv zeta. destruct v1, v2, t; lk; reflexivity. Qed.

Lemma ref_info0_meta_version v1 v2 pads name t pl tp :
  lookup ck_meta_version (ref_info0 v1 v2 pads name t pl tp) = if v2 then Some (BInt 2) else None.
Proof. unfold ref_info0. cbv zeta. destruct v1, v2, t; lk; reflexivity. Qed.

Lemma ref_info0_file_tree v1 pads name t pl tp :
  lookup ck_file_tree (ref_info0 v1 true pads name t pl tp) =
  Some (BDict (match t with File _ => [(name, BDict (ref_tree H256 B t))] | Dir _ => ref_tree H256 B t end)).
Proof. unfold ref_info0. cbv zeta. destruct v1, t; lk; reflexivity. Qed.

Lemma ref_info0_pieces v1 v2 pads name t pl tp :
  lookup ck_pieces (ref_info0 v1 v2 pads name t pl tp) =
  if v1 then Some (BStr (concat (map H1 (chunks pl (layout_stream (ref_v1_layout pads tp pl t)))))) else None.
Proof. unfold ref_info0. cbv zeta. destruct v1, v2, t; lk; reflexivity. Qed.

Lemma ref_info0_length v1 v2 pads name t pl tp :
  lookup ck_length (ref_info0 v1 v2 pads name t pl tp) =
  match t with File d => if v1 then Some (BInt (Z.of_nat (length d))) else None | Dir _ => None end.
Proof. unfold ref_info0. cbv zeta. destruct v1, v2, t; lk; reflexivity. Qed.

Lemma ref_info0_files v1 v2 pads name t pl tp :
  lookup ck_files (ref_info0 v1 v2 pads name t pl tp) =
  match t with
  | File _ => None
  | Dir _ => if v1 then Some (BList (map slot_item (ref_v1_layout pads tp pl t))) else None
  end.
Proof. unfold ref_info0. cbv zeta. destruct v1, v2, t; lk; reflexivity. Qed.

(* what Checker.__init__ reads of the written value *)
Lemma ref_header v1 v2 pads name t pl et ei tp : extras_ok et ei ->
  let info := sort_keys (update_all ei (ref_info0 v1 v2 pads name t pl tp)) in
  exists meta, ref_metafile_gen H1 H256 B v1 v2 pads name t pl et ei tp = BDict meta /\
    header (BDict meta) meta info name pl /\
    lookup rk_piece_layers meta = lookup rk_piece_layers (ref_top0 v2 t pl).
Proof.
  intros [Het Hei] info. rewrite ref_metafile_gen_eq. eexists. split; [reflexivity|]. split.
  - split; [reflexivity|]. split; [|split].
    + rewrite closed_lookup; [apply lookup_update_same|apply update_NoDup, ref_top0_NoDup|apply Het; inkeys].
    + unfold info. rewrite closed_lookup; [apply ref_info0_name|apply ref_info0_NoDup|apply Hei; inkeys].
    + unfold info. rewrite closed_lookup; [apply ref_info0_piece_length|apply ref_info0_NoDup|apply Hei; inkeys].
  - rewrite closed_lookup; [|apply update_NoDup, ref_top0_NoDup|apply Het; inkeys].
    apply lookup_update_other. neq.
Qed.

(* ---------- v1 ---------- *)

Lemma ref_v1_part v2 pads name t pl ei tp :
  (forall key, In key used_info_keys -> ~ In key (map fst ei)) ->
  v1_part H1 (sort_keys (update_all ei (ref_info0 true v2 pads name t pl tp))) pl (ref_v1_layout pads tp pl t).
Proof.
  intros Hei. unfold v1_part.
  rewrite !closed_lookup by (apply ref_info0_NoDup || (apply Hei; inkeys)).
  rewrite ref_info0_pieces, ref_info0_length, ref_info0_files.
  split; [reflexivity|]. destruct t as [d|es]; cbn [ref_v1_layout].
  - split; [constructor; [exact I|constructor]|]. left. exists d. repeat split; reflexivity.
  - pose proof (ref_layout_slots pads tp pl _ (files_of_Dir_nonempty es)) as Hs.
    split; [eapply Forall_impl; [|exact Hs]; intros s [Hok _]; exact Hok|].
    right. split; [reflexivity|]. eexists. split; [reflexivity|].
    induction Hs as [|s lay [_ Hne] _ IH]; [constructor|]. cbn [map]. constructor; [|exact IH].
    apply slot_item_describes. exact Hne.
Qed.

(* BEP 3 / BEP 47: the v1 reference metafile (with or without padding files) describes the layout it hashed *)
Theorem ref_v1_describes pads name t pl et ei tp : extras_ok et ei ->
  describes_v1 H1 (ref_metafile_gen H1 H256 B true false pads name t pl et ei tp) name pl
               (ref_v1_layout pads tp pl t).
Proof.
  intros Hex. destruct (ref_header true false pads name t pl et ei tp Hex) as (meta & -> & Hh & _).
  cbv zeta in Hh. destruct Hex as [_ Hei].
  exists meta, (sort_keys (update_all ei (ref_info0 true false pads name t pl tp))).
  split; [exact Hh|]. split; [|apply ref_v1_part; exact Hei].
  rewrite closed_lookup; [apply ref_info0_meta_version|apply ref_info0_NoDup|apply Hei; inkeys].
Qed.

(* ---------- v2 ---------- *)

Section RefV2.
Hypothesis HB : 0 < B.
Variable k pl : nat.
Hypothesis Hpl : pl = B * 2 ^ k.

Notation root := (bep52_root H256 B).
Notation layer := (bep52_piece_layer H256 B k).

Lemma ref_k_eq : ref_k B pl = k.
Proof.
  unfold ref_k. rewrite Hpl, Nat.mul_comm, Nat.div_mul by lia. apply Nat.log2_pow2. lia.
Qed.

Lemma ref_leaf_describes d : leaf_describes H256 B d (ref_leaf H256 B d).
Proof.
  unfold ref_leaf. eexists. split; [reflexivity|]. destruct (length d =? 0); split; reflexivity.
Qed.

(* the tree the encoder writes describes the payload, directory by directory in the payload's own order *)
Lemma ref_tree_describes t : wf_node t -> node_describes H256 B t (BDict (ref_tree H256 B t)).
Proof.
  induction t as [d|es IH] using node_ind'; intros Hwf.
  - constructor. exists (ref_leaf H256 B d). split; [reflexivity|apply ref_leaf_describes].
  - apply wf_Dir in Hwf. destruct Hwf as [[_ Hok] Hc]. cbn [ref_tree]. constructor.
    + apply lookup_None. rewrite map_map. cbn [fst]. intros Hin. rewrite Forall_forall in Hok.
      destruct (Hok _ Hin) as [C _]. apply C. reflexivity.
    + clear Hok. induction es as [|e es IHes]; [constructor|].
      inversion IH as [|x l IHe IHl]; subst. inversion Hc as [|x l Hce Hcl]; subst.
      cbn [map]. constructor; [|apply IHes; assumption].
      split; [reflexivity|]. cbn [snd]. apply IHe. exact Hce.
Qed.

Lemma ref_tree_entries es : wf_node (Dir es) ->
  Forall2 (entry_describes H256 B) es (ref_tree H256 B (Dir es)).
Proof.
  intros Hwf. pose proof (ref_tree_describes (Dir es) Hwf) as H. inversion H; subst. assumption.
Qed.

(* "piece layers": the loop `layers[root] = layer` over the files *)
Definition layer_val (d : bytes) : value := BStr (concat (layer d)).

Lemma ref_layer_step_eq L f :
  ref_layer_step H256 B pl L f = if pl <? length (snd f) then update (root (snd f)) (layer_val (snd f)) L else L.
Proof. unfold ref_layer_step. rewrite ref_k_eq. reflexivity. Qed.

Lemma ref_layers_fold_NoDup fs : forall L, NoDup (map fst L) ->
  NoDup (map fst (fold_left (ref_layer_step H256 B pl) fs L)).
Proof.
  induction fs as [|f fs IH]; intros L HL; [exact HL|]. cbn [fold_left]. apply IH.
  rewrite ref_layer_step_eq. destruct (pl <? length (snd f)); [apply update_NoDup|]; exact HL.
Qed.

(* a binding made by a big file stays a binding made by a big file with that root *)
Lemma ref_layers_keeps fs : forall L r d, pl < length d -> root d = r -> lookup r L = Some (layer_val d) ->
  exists d', (d' = d \/ exists p, In (p, d') fs) /\ pl < length d' /\ root d' = r /\
             lookup r (fold_left (ref_layer_step H256 B pl) fs L) = Some (layer_val d').
Proof.
  induction fs as [|[p0 d0] fs IH]; intros L r d Hd Hr HL.
  - exists d. repeat split; try assumption. left; reflexivity.
  - cbn [fold_left]. rewrite ref_layer_step_eq. cbn [snd].
    destruct (pl <? length d0) eqn:Eb.
    + apply Nat.ltb_lt in Eb. destruct (Lex.bytes_eqb_spec (root d0) r) as [E|N].
      * destruct (IH (update (root d0) (layer_val d0) L) r d0 Eb E) as (d' & Hin & Hb & Hr' & K).
        { rewrite <- E. apply lookup_update_same. }
        exists d'. split; [|repeat split; assumption]. right.
        destruct Hin as [->|[p Hp]]; [exists p0; left; reflexivity|exists p; right; exact Hp].
      * destruct (IH (update (root d0) (layer_val d0) L) r d Hd Hr) as (d' & Hin & Hb & Hr' & K).
        { rewrite lookup_update_other by exact N. exact HL. }
        exists d'. split; [|repeat split; assumption].
        destruct Hin as [->|[p Hp]]; [left; reflexivity|right; exists p; right; exact Hp].
    + destruct (IH L r d Hd Hr HL) as (d' & Hin & Hb & Hr' & K).
      exists d'. split; [|repeat split; assumption].
      destruct Hin as [->|[p Hp]]; [left; reflexivity|right; exists p; right; exact Hp].
Qed.

Lemma ref_layers_has fs : forall L p d, In (p, d) fs -> pl < length d ->
  exists p' d', In (p', d') fs /\ pl < length d' /\ root d' = root d /\
                lookup (root d) (fold_left (ref_layer_step H256 B pl) fs L) = Some (layer_val d').
Proof.
  induction fs as [|[p0 d0] fs IH]; intros L p d Hin Hd; [destruct Hin|].
  destruct Hin as [E|Hin].
  - injection E as -> ->. cbn [fold_left]. rewrite ref_layer_step_eq. cbn [snd].
    apply Nat.ltb_lt in Hd. rewrite Hd. apply Nat.ltb_lt in Hd.
    destruct (ref_layers_keeps fs (update (root d) (layer_val d) L) (root d) d Hd eq_refl
                (lookup_update_same _ _ _)) as (d' & Hin & Hb & Hr & K).
    destruct Hin as [->|[p' Hp']].
    + exists p, d. repeat split; try assumption. left; reflexivity.
    + exists p', d'. repeat split; try assumption. right; exact Hp'.
  - cbn [fold_left]. destruct (IH (ref_layer_step H256 B pl L (p0, d0)) p d Hin Hd) as (p' & d' & Hin' & R).
    exists p', d'. split; [right; exact Hin'|exact R].
Qed.

(* when no two files larger than a piece collide on their root (true of SHA-256 as far as anyone knows; "piece layers"
   is keyed by the root alone), every such file finds its own layer *)
Lemma ref_layers_describe t : no_layer_collision H256 B k pl t ->
  layers_describe H256 B k (sort_keys (ref_layers H256 B pl (files_of [] t))) pl t.
Proof.
  intros Hnc p d Hin Hd. unfold ref_layers.
  rewrite lookup_sort_keys by (apply ref_layers_fold_NoDup; constructor).
  destruct (ref_layers_has (files_of [] t) [] p d Hin Hd) as (p' & d' & Hin' & Hd' & Hr & K).
  rewrite K. unfold layer_val. rewrite (Hnc p' d' p d Hin' Hin Hd' Hd Hr). reflexivity.
Qed.

Lemma ref_v2_part v1 pads name t meta ei tp :
  (forall key, In key used_info_keys -> ~ In key (map fst ei)) ->
  wf_node t -> no_layer_collision H256 B k pl t ->
  lookup rk_piece_layers meta = lookup rk_piece_layers (ref_top0 true t pl) ->
  v2_part H256 B k meta (sort_keys (update_all ei (ref_info0 v1 true pads name t pl tp))) name pl t.
Proof.
  intros Hei Hwf Hnc Elay. unfold v2_part.
  exists (match t with File _ => [(name, BDict (ref_tree H256 B t))] | Dir _ => ref_tree H256 B t end),
         (sort_keys (ref_layers H256 B pl (files_of [] t))).
  rewrite !closed_lookup by (apply ref_info0_NoDup || (apply Hei; inkeys)).
  rewrite ref_info0_file_tree, ref_info0_length, ref_info0_pieces.
  split; [reflexivity|]. split; [rewrite Elay; reflexivity|]. split; [apply ref_layers_describe; exact Hnc|].
  destruct t as [d|es].
  - split.
    + eexists. split; [reflexivity|]. exists (ref_leaf H256 B d). split; [reflexivity|apply ref_leaf_describes].
    + destruct v1; [right|left; split]; reflexivity.
  - split; [reflexivity|]. apply ref_tree_entries. exact Hwf.
Qed.

(* BEP 52: the v2 reference metafile describes the payload (a single file WITHOUT info.length) *)
Theorem ref_v2_describes name t et ei tp : extras_ok et ei ->
  wf_node t -> no_layer_collision H256 B k pl t ->
  describes_v2 H256 B k (ref_metafile_gen H1 H256 B false true false name t pl et ei tp) name pl t.
Proof.
  intros Hex Hwf Hnc. destruct (ref_header false true false name t pl et ei tp Hex) as (meta & -> & Hh & Elay).
  cbv zeta in Hh. destruct Hex as [_ Hei].
  exists meta, (sort_keys (update_all ei (ref_info0 false true false name t pl tp))).
  split; [exact Hh|].
  rewrite !closed_lookup by (apply ref_info0_NoDup || (apply Hei; inkeys)).
  rewrite ref_info0_meta_version, ref_info0_pieces.
  split; [reflexivity|]. split; [reflexivity|]. apply ref_v2_part; assumption.
Qed.

(* the hybrid reference metafile (padding entries between the files; a trailing one only on request) describes the
   payload both ways *)
Theorem ref_hybrid_describes pads name t et ei tp : extras_ok et ei ->
  wf_node t -> no_layer_collision H256 B k pl t ->
  describes_hybrid H1 H256 B k (ref_metafile_gen H1 H256 B true true pads name t pl et ei tp) name pl
                   (ref_v1_layout pads tp pl t) t.
Proof.
  intros Hex Hwf Hnc. destruct (ref_header true true pads name t pl et ei tp Hex) as (meta & -> & Hh & Elay).
  cbv zeta in Hh. destruct Hex as [_ Hei].
  exists meta, (sort_keys (update_all ei (ref_info0 true true pads name t pl tp))).
  split; [exact Hh|].
  rewrite !closed_lookup by (apply ref_info0_NoDup || (apply Hei; inkeys)).
  rewrite ref_info0_meta_version.
  split; [reflexivity|]. split; [apply ref_v1_part; exact Hei|].
  split; [apply ref_v1_layout_payload|]. apply ref_v2_part; assumption.
Qed.

End RefV2.
End RefEncoder.

(* the executable form of the side condition on the extra keys *)
Lemma not_in_keys key ks : existsb (Lex.bytes_eqb key) ks = false -> ~ In key ks.
Proof.
  intros E Hin. assert (C : existsb (Lex.bytes_eqb key) ks = true).
  { apply existsb_exists. exists key. split; [exact Hin|apply Lex.bytes_eqb_refl]. }
  congruence.
Qed.

Lemma extras_okb_sound et ei : extras_okb et ei = true -> extras_ok et ei.
Proof.
  unfold extras_okb, extras_ok. intros H. apply andb_true_iff in H. destruct H as [Ht Hi].
  rewrite forallb_forall in Ht, Hi.
  split; intros key Hk; apply not_in_keys; [specialize (Ht key Hk)|specialize (Hi key Hk)];
    apply negb_true_iff; assumption.
Qed.

(* ========================================================================================== *)
(* 5. C05_reference_metafiles: what the reference encoder writes verifies                      *)
(* ========================================================================================== *)

Section ReferenceVerifies.
Variable H1 H256 : bytes -> bytes.
Variable B : nat.
Hypothesis HB : 0 < B.
Variable k pl : nat.
Hypothesis Hpl : pl = B * 2 ^ k.
Hypothesis H1_len : forall x, length (H1 x) = 20.
Hypothesis H256_len : forall x, length (H256 x) = 32.

Let pl_pos : 0 < pl := HasherV2Correct.pl_pos B HB k pl Hpl.

(* v1 with or without BEP 47 padding files: the recorded size is that of the layout (payload + padding files) *)
Theorem ref_v1_gen_verify pads name t et ei tp fs base path :
  extras_ok et ei ->
  find_root (fs_exists fs) (fs_listdir fs) name path = Some base -> holds fs base t ->
  let n := layout_size (ref_v1_layout pads tp pl t) in
  recheck_model H1 H256 B fs (ref_metafile_gen H1 H256 B true false pads name t pl et ei tp) path =
  Some (Z.of_nat n, n, n).
Proof.
  intros Hex Hroot Hh.
  apply (wf_v1_verify H1 H256 B H1_len _ name pl _ t fs base path pl_pos
           (ref_v1_describes H1 H256 B pads name t pl et ei tp Hex) (ref_v1_layout_payload pads tp pl t) Hroot Hh).
Qed.

Lemma ref_v1_layout_plain_size tp t : layout_size (ref_v1_layout false tp pl t) = tree_size t.
Proof.
  apply layout_size_no_pads; [apply ref_v1_layout_payload|].
  destruct t as [d|es]; cbn [ref_v1_layout]; [constructor; [discriminate|constructor]|apply ref_layout_no_pads].
Qed.

Theorem ref_v1_verify name t et ei tp fs base path :
  extras_ok et ei ->
  find_root (fs_exists fs) (fs_listdir fs) name path = Some base -> holds fs base t ->
  recheck_model H1 H256 B fs (ref_metafile_v1 H1 H256 B name t pl et ei tp) path =
  Some (Z.of_nat (tree_size t), tree_size t, tree_size t).
Proof.
  intros Hex Hroot Hh. pose proof (ref_v1_gen_verify false name t et ei tp fs base path Hex Hroot Hh) as R.
  cbv zeta in R. rewrite ref_v1_layout_plain_size in R. exact R.
Qed.

Theorem ref_v2_verify name t et ei tp fs base path :
  extras_ok et ei -> wf_node t -> no_layer_collision H256 B k pl t ->
  find_root (fs_exists fs) (fs_listdir fs) name path = Some base -> holds fs base t ->
  recheck_model H1 H256 B fs (ref_metafile_v2 H1 H256 B name t pl et ei tp) path =
  Some (Z.of_nat (tree_size t), tree_size t, tree_size t).
Proof.
  intros Hex Hwf Hnc. apply (wf_v2_verify H1 H256 B HB k pl Hpl H256_len _ name t fs base path).
  apply (ref_v2_describes H1 H256 B HB k pl Hpl name t et ei tp Hex Hwf Hnc).
Qed.

Theorem ref_hybrid_verify name t et ei tp fs base path :
  extras_ok et ei -> wf_node t -> no_layer_collision H256 B k pl t ->
  find_root (fs_exists fs) (fs_listdir fs) name path = Some base -> holds fs base t ->
  recheck_model H1 H256 B fs (ref_metafile_hybrid H1 H256 B name t pl et ei tp) path =
  Some (Z.of_nat (tree_size t), tree_size t, tree_size t).
Proof.
  intros Hex Hwf Hnc.
  apply (wf_hybrid_verify H1 H256 B HB k pl Hpl H256_len _ name (ref_v1_layout true tp pl t) t fs base path).
  apply (ref_hybrid_describes H1 H256 B HB k pl Hpl true name t et ei tp Hex Hwf Hnc).
Qed.

(* all of ref_metafile(name, files, pl, version, single, extra_top, extra_info, trailing_pad) at once *)
Theorem reference_metafiles_verify version name t et ei tp fs base path :
  extras_ok et ei -> wf_node t -> no_layer_collision H256 B k pl t ->
  find_root (fs_exists fs) (fs_listdir fs) name path = Some base -> holds fs base t ->
  recheck_model H1 H256 B fs (ref_metafile H1 H256 B version name t pl et ei tp) path =
  Some (Z.of_nat (tree_size t), tree_size t, tree_size t).
Proof.
  intros Hex Hwf Hnc Hroot Hh. destruct version as [|[|[|v]]]; cbn [ref_metafile].
  - apply (ref_hybrid_verify name t et ei tp fs base path); assumption.
  - apply (ref_v1_verify name t et ei tp fs base path); assumption.
  - apply (ref_v2_verify name t et ei tp fs base path); assumption.
  - apply (ref_hybrid_verify name t et ei tp fs base path); assumption.
Qed.

End ReferenceVerifies.

(* the payload seen from its parent directory: the file system that has nothing but t at parent/name *)
Lemma disk_of_child_holds parent name t : wf_node t ->
  holds (disk_of parent (Dir [(name, t)])) (parent ++ [name]) t.
Proof.
  intros Hwf. unfold holds, disk_of. cbn [fs_exists fs_isfile fs_read].
  assert (E : forall rel, tree_lookup parent (Dir [(name, t)]) ((parent ++ [name]) ++ rel) = node_at t rel).
  { intros rel. rewrite <- app_assoc, tree_lookup_app. cbn [app node_at find_entry fst snd].
    rewrite Lex.bytes_eqb_refl. reflexivity. }
  pose proof (E []) as E0. rewrite app_nil_r in E0. cbn [node_at] in E0. rewrite E0.
  split; [reflexivity|]. split; [destruct t; reflexivity|].
  intros p d Hin. rewrite E, (node_at_file t Hwf p d Hin). split; reflexivity.
Qed.

Lemma disk_of_child_find_root parent name t : wf_node t -> last parent [] <> name ->
  let fs := disk_of parent (Dir [(name, t)]) in
  find_root (fs_exists fs) (fs_listdir fs) name parent = Some (parent ++ [name]).
Proof.
  intros Hwf Hn fs.
  apply (holds_find_root fs (parent ++ [name]) t name parent (disk_of_child_holds parent name t Hwf)).
  - apply last_last.
  - right. split; [reflexivity|].
    assert (E : tree_lookup parent (Dir [(name, t)]) parent = Some (Dir [(name, t)])).
    { pose proof (tree_lookup_app parent (Dir [(name, t)]) []) as E. rewrite app_nil_r in E. exact E. }
    unfold fs, disk_of. cbn [fs_exists fs_listdir]. rewrite E.
    split; [reflexivity|]. split; [exact Hn|]. exists [name]. split; [reflexivity|left; reflexivity].
Qed.

(* ========================================================================================== *)
(* 5b. the metafiles of the v2-capable creator models are well formed in this sense: the      *)
(*     theorem of Proofs/OwnMetafiles.v (own_v2_verify) is an instance                         *)
(* ========================================================================================== *)

Section OwnAreWellFormed.
Variable H1 H256 : bytes -> bytes.
Variable B : nat.
Hypothesis HB : 0 < B.
Variable k pl : nat.
Hypothesis Hpl : pl = B * 2 ^ k.
Hypothesis H256_len : forall x, length (H256 x) = 32.

Lemma leaf_value_describes d : leaf_describes H256 B d (leaf_value H256 B d).
Proof.
  unfold leaf_value. eexists. split; [reflexivity|]. destruct (length d =? 0); split; reflexivity.
Qed.

(* the tree the creators write (per-directory in the order of u) describes u *)
Lemma tree_ord_describes u : wf_node u ->
  node_describes H256 B u (BDict (tree_ord (leaf_of H256 B pl) u)).
Proof.
  induction u as [d|es IH] using node_ind'; intros Hwf.
  - cbn [tree_ord]. rewrite (leaf_of_spec H256 B HB k pl Hpl). constructor.
    exists (leaf_value H256 B d). split; [reflexivity|apply leaf_value_describes].
  - apply wf_Dir in Hwf. destruct Hwf as [[_ Hok] Hc]. cbn [tree_ord]. constructor.
    + apply lookup_None. rewrite map_fst_on_snd. intros Hin. rewrite Forall_forall in Hok.
      destruct (Hok _ Hin) as [C _]. apply C. reflexivity.
    + clear Hok. induction es as [|e es IHes]; [constructor|].
      inversion IH as [|x l IHe IHl]; subst. inversion Hc as [|x l Hce Hcl]; subst.
      cbn [map]. constructor; [|apply IHes; assumption].
      split; [reflexivity|]. cbn [on_snd snd]. apply IHe. exact Hce.
Qed.

Lemma holds_sort_tree fs base t : holds fs base t -> holds fs base (sort_tree t).
Proof.
  intros (Hex & Hisf & Hfiles). split; [exact Hex|]. split; [destruct t; exact Hisf|].
  intros p d Hin. apply Hfiles. apply (Permutation_in _ (files_of_sort_tree t [])). exact Hin.
Qed.

(* TorrentFileV2, TorrentFileHybrid and TorrentAssembler(2 | 3): the written value has the v2 keys of a metafile that
   describes the payload (enumerated in sorted order, which is the order the creators write the tree in) *)
Theorem own_v2_capable_well_formed o name t m :
  wf_node t -> v2_capable_output H1 H256 B pl o name t m -> no_layer_collision H256 B k pl t ->
  exists meta info, header m meta info name pl /\ lookup ck_meta_version info = Some (BInt 2) /\
                    v2_part H256 B k meta info name pl (sort_tree t).
Proof.
  intros Hwf Hm Hnc.
  destruct (v2_capable_shape H1 H256 B HB k pl Hpl o name t m Hwf Hm)
    as ((meta & Em & Ei) & (meta' & Em' & Hlay) & En & Ep & Ev & Et & El).
  rewrite Em in Em'. injection Em' as <-.
  unfold info_get in En, Ep, Ev, Et, El.
  exists meta, (info_of m). split; [repeat split; assumption|]. split; [exact Ev|].
  assert (Hwfs : wf_node (sort_tree t)) by (apply wf_sort_tree; exact Hwf).
  exists (match t with File _ => [(name, BDict (tree_spec H256 B pl t))] | Dir _ => tree_spec H256 B pl t end),
         (layers_of m).
  split; [etransitivity; [exact Et|destruct t; reflexivity]|]. split; [exact Hlay|]. split.
  - intros p d Hin Hd. apply (own_layer_lookup H1 H256 B HB k pl Hpl o name t m p d Hwf Hm Hnc); [|exact Hd].
    apply (Permutation_in _ (files_of_sort_tree t [])). exact Hin.
  - destruct t as [d|es].
    + cbn [sort_tree]. split; [|right; exact El]. eexists. split; [reflexivity|].
      unfold tree_spec. cbn [sort_tree tree_ord]. rewrite (leaf_of_spec H256 B HB k pl Hpl).
      exists (leaf_value H256 B d). split; [reflexivity|apply leaf_value_describes].
    + split; [exact El|]. pose proof (tree_ord_describes _ Hwfs) as H. cbn [sort_tree] in H |- *.
      inversion H; subst. assumption.
Qed.

(* own_v2_verify, again: as an instance of the theorem about well-formed metafiles *)
Corollary own_v2_verify_from_well_formed o name t m fs base path :
  wf_node t -> v2_capable_output H1 H256 B pl o name t m -> no_layer_collision H256 B k pl t ->
  find_root (fs_exists fs) (fs_listdir fs) name path = Some base -> holds fs base t ->
  recheck_model H1 H256 B fs m path = Some (Z.of_nat (tree_size t), tree_size t, tree_size t).
Proof.
  intros Hwf Hm Hnc Hroot Hh.
  destruct (own_v2_capable_well_formed o name t m Hwf Hm Hnc) as (meta & info & Hhd & Ev & Hv2).
  pose proof Hhd as (-> & _). rewrite <- (tree_size_sort_tree t).
  apply (v2_part_verifies H1 H256 B HB k pl Hpl H256_len fs meta info name (sort_tree t) base path _ Hhd Ev Hv2 Hroot).
  apply holds_sort_tree. exact Hh.
Qed.

End OwnAreWellFormed.

(* ========================================================================================== *)
(* 6. examples: toy hashes of the right digest lengths, B = 2, k = 1, pl = 4                   *)
(* ========================================================================================== *)
Module WellFormedExamples.
Import CreatorsExamples CreatorsProofsExamples CreatorsProofs2Examples OwnMetafilesExamples.
Import String.StringSyntax.

(* extra keys of every shape, at the top level and in info *)
Definition ex_et : dict :=
  [(bs "zzz", BDict [(bs "b", BInt 1); (bs "a", BInt 2)]); (bs "comment", BStr (bs "c")); (bs "announce", BStr (bs "http://t/a"))].
Definition ex_ei : dict := [(bs "x-cross", BStr (bs "q")); (bs "private", BInt 1); (bs "source", BList [])].

Lemma ex_extras_ok : extras_ok ex_et ex_ei.
Proof. apply extras_okb_sound. vm_compute. reflexivity. Qed.

(* ex_tree = {b: 0123456789, a.txt: xyz, a: {z: hello, e: ""}}: enumerated (hence written) in UNSORTED order; sizes 10 3 5 0 *)

(* v1 *)
Example ex_ref_v1 :
  recheck_model X1 X256 2 ex_fs (ref_metafile_v1 X1 X256 2 (bs "r") ex_tree 4 ex_et ex_ei false) ex_base =
  Some (18%Z, 18, 18).
Proof.
  exact (ref_v1_verify X1 X256 2 HB2 1 4 Hpl4 X1_len (bs "r") ex_tree ex_et ex_ei false ex_fs ex_base ex_base
           ex_extras_ok ex_find_root ex_holds).
Qed.
Example ex_ref_v1_computes :
  recheck_model X1 X256 2 ex_fs (ref_metafile_v1 X1 X256 2 (bs "r") ex_tree 4 ex_et ex_ei false) ex_base =
  Some (18%Z, 18, 18).
Proof. vm_compute. reflexivity. Qed.

(* v1 with BEP 47 padding files after b (10 -> 2), a.txt (3 -> 1), a/z (5 -> 3) and not after the last file: 18 + 6 *)
Example ex_ref_v1_padded :
  recheck_model X1 X256 2 ex_fs (ref_metafile_v1_padded X1 X256 2 (bs "r") ex_tree 4 ex_et ex_ei false) ex_base =
  Some (24%Z, 24, 24).
Proof.
  exact (ref_v1_gen_verify X1 X256 2 HB2 1 4 Hpl4 X1_len true (bs "r") ex_tree ex_et ex_ei false ex_fs ex_base ex_base
           ex_extras_ok ex_find_root ex_holds).
Qed.
Example ex_ref_v1_padded_layout :
  map (fun s => (slot_path s, slot_len s, slot_attr s)) (ref_v1_layout true false 4 ex_tree) =
  [ ([bs "b"], 10, None); ([bs ".pad"; bs "2"], 2, Some (bs "p"));
    ([bs "a.txt"], 3, None); ([bs ".pad"; bs "1"], 1, Some (bs "p"));
    ([bs "a"; bs "z"], 5, None); ([bs ".pad"; bs "3"], 3, Some (bs "p"));
    ([bs "a"; bs "e"], 0, None) ].
Proof. vm_compute. reflexivity. Qed.

(* v2, directory *)
Example ex_ref_v2 :
  recheck_model X1 X256 2 ex_fs (ref_metafile_v2 X1 X256 2 (bs "r") ex_tree 4 ex_et ex_ei false) ex_base =
  Some (18%Z, 18, 18).
Proof.
  exact (ref_v2_verify X1 X256 2 HB2 1 4 Hpl4 X256_len (bs "r") ex_tree ex_et ex_ei false ex_fs ex_base ex_base
           ex_extras_ok ex_tree_wf ex_no_collision ex_find_root ex_holds).
Qed.

(* hybrid WITHOUT a trailing padding entry (and with one): checked by HashChecker, 18 either way *)
Example ex_ref_hybrid :
  recheck_model X1 X256 2 ex_fs (ref_metafile_hybrid X1 X256 2 (bs "r") ex_tree 4 ex_et ex_ei false) ex_base =
  Some (18%Z, 18, 18) /\
  recheck_model X1 X256 2 ex_fs (ref_metafile_hybrid X1 X256 2 (bs "r") ex_tree 4 ex_et ex_ei true) ex_base =
  Some (18%Z, 18, 18).
Proof.
  split;
    exact (ref_hybrid_verify X1 X256 2 HB2 1 4 Hpl4 X256_len (bs "r") ex_tree ex_et ex_ei _ ex_fs ex_base ex_base
             ex_extras_ok ex_tree_wf ex_no_collision ex_find_root ex_holds).
Qed.
Example ex_ref_hybrid_computes :
  let m := ref_metafile_hybrid X1 X256 2 (bs "r") ex_tree 4 ex_et ex_ei false in
  recheck_model X1 X256 2 ex_fs m ex_base = Some (18%Z, 18, 18) /\
  (* its v1 files list ends with the last file, not with a padding entry *)
  match m with
  | BDict meta =>
      match lookup ck_info meta with
      | Some (BDict info) =>
          match lookup ck_files info with
          | Some (BList items) => length items = 7 /\ last items (BInt 0) = slot_item (FileSlot [bs "a"; bs "e"] None [])
          | _ => False
          end
      | _ => False
      end
  | _ => False
  end.
Proof. vm_compute. repeat split. Qed.

(* a single file, v2 WITHOUT info.length (D32) -- through the file itself and through its parent directory *)
Definition ex_file : node := File (bs "0123456789").
Definition ex_single : value := ref_metafile_v2 X1 X256 2 (bs "f") ex_file 4 ex_et ex_ei false.

Example ex_single_has_no_length :
  match ex_single with
  | BDict meta => match lookup ck_info meta with
                  | Some (BDict info) => lookup ck_length info = None /\ lookup ck_pieces info = None /\
                                         lookup ck_meta_version info = Some (BInt 2)
                  | _ => False
                  end
  | _ => False
  end.
Proof. vm_compute. repeat split. Qed.

Lemma ex_file_no_collision : no_layer_collision X256 2 1 4 ex_file.
Proof.
  intros p1 d1 p2 d2 I1 I2. destruct I1 as [I1|[]]. destruct I2 as [I2|[]].
  injection I1 as <- <-. injection I2 as <- <-. reflexivity.
Qed.

Example ex_ref_v2_single_without_length :
  recheck_model X1 X256 2 (disk_of [bs "w"; bs "f"] ex_file) ex_single [bs "w"; bs "f"] = Some (10%Z, 10, 10).
Proof.
  apply (ref_v2_verify X1 X256 2 HB2 1 4 Hpl4 X256_len (bs "f") ex_file ex_et ex_ei false _ [bs "w"; bs "f"]);
    [exact ex_extras_ok|exact I|exact ex_file_no_collision| |apply disk_of_holds; exact I].
  apply (holds_find_root _ [bs "w"; bs "f"] ex_file); [apply disk_of_holds; exact I|reflexivity|left; reflexivity].
Qed.

Example ex_ref_v2_single_through_parent :
  recheck_model X1 X256 2 (disk_of [bs "w"] (Dir [(bs "f", ex_file)])) ex_single [bs "w"] = Some (10%Z, 10, 10).
Proof.
  apply (ref_v2_verify X1 X256 2 HB2 1 4 Hpl4 X256_len (bs "f") ex_file ex_et ex_ei false _ ([bs "w"] ++ [bs "f"]));
    [exact ex_extras_ok|exact I|exact ex_file_no_collision| |apply disk_of_child_holds; exact I].
  apply disk_of_child_find_root; [exact I|vm_compute; discriminate].
Qed.

Example ex_single_computes :
  recheck_model X1 X256 2 (disk_of [bs "w"; bs "f"] ex_file) ex_single [bs "w"; bs "f"] = Some (10%Z, 10, 10) /\
  recheck_model X1 X256 2 (disk_of [bs "w"] (Dir [(bs "f", ex_file)])) ex_single [bs "w"] = Some (10%Z, 10, 10) /\
  recheck_model X1 X256 2 (disk_of [bs "w"; bs "f"] ex_file)
    (ref_metafile_hybrid X1 X256 2 (bs "f") ex_file 4 ex_et ex_ei false) [bs "w"; bs "f"] = Some (10%Z, 10, 10) /\
  recheck_model X1 X256 2 (disk_of [bs "w"; bs "f"] ex_file)
    (ref_metafile_v1 X1 X256 2 (bs "f") ex_file 4 ex_et ex_ei false) [bs "w"; bs "f"] = Some (10%Z, 10, 10).
Proof. vm_compute. repeat split. Qed.

(* the directory payload through its parent *)
Example ex_ref_through_parent :
  let fs := disk_of [bs "w"] (Dir [(bs "r", ex_tree)]) in
  recheck_model X1 X256 2 fs (ref_metafile_hybrid X1 X256 2 (bs "r") ex_tree 4 ex_et ex_ei false) [bs "w"] =
  Some (18%Z, 18, 18) /\
  recheck_model X1 X256 2 fs (ref_metafile_v1_padded X1 X256 2 (bs "r") ex_tree 4 ex_et ex_ei true) [bs "w"] =
  Some (24%Z, 24, 24) /\
  (* ex_tree' = the same payload enumerated with a.txt (3 bytes) last: the trailing padding entry on request *)
  recheck_model X1 X256 2 (disk_of [bs "w"] (Dir [(bs "r", ex_tree')]))
    (ref_metafile_v1_padded X1 X256 2 (bs "r") ex_tree' 4 ex_et ex_ei false) [bs "w"] = Some (23%Z, 23, 23) /\
  recheck_model X1 X256 2 (disk_of [bs "w"] (Dir [(bs "r", ex_tree')]))
    (ref_metafile_v1_padded X1 X256 2 (bs "r") ex_tree' 4 ex_et ex_ei true) [bs "w"] = Some (24%Z, 24, 24).
Proof. vm_compute. repeat split. Qed.

(* a hand-written third-party v1 metafile: unsorted keys, unknown keys everywhere, a file entry with attr "x", a padding
   entry with attr "hp" at a path where the payload HAS a file of its own (.pad/1): described, hence verified *)
Definition ex_foreign_tree : node :=
  Dir [ (bs "a", File (bs "AAA")); (bs ".pad", Dir [(bs "1", File (bs "x"))]) ].
Definition ex_foreign_layout : layout :=
  [ FileSlot [bs "a"] (Some (bs "x")) (bs "AAA"); PadSlot [bs ".pad"; bs "1"] (bs "hp") 1;
    FileSlot [bs ".pad"; bs "1"] None (bs "x") ].
Definition ex_foreign : value :=
  BDict [ (bs "url-list", BList []);
          (bs "info", BDict [
             (bs "pieces", BStr (X1 (bs "AAA" ++ zeros 1) ++ X1 (bs "x")));
             (bs "x_unknown", BInt 7);
             (bs "files", BList [
                BDict [(bs "path", BList [BStr (bs "a")]); (bs "md5sum", BStr []); (bs "length", BInt 3); (bs "attr", BStr (bs "x"))];
                BDict [(bs "length", BInt 1); (bs "attr", BStr (bs "hp")); (bs "path", BList [BStr (bs ".pad"); BStr (bs "1")])];
                BDict [(bs "length", BInt 1); (bs "path", BList [BStr (bs ".pad"); BStr (bs "1")])] ]);
             (bs "piece length", BInt 4);
             (bs "name", BStr (bs "r")) ]);
          (bs "announce", BStr (bs "http://t/a")) ].

Lemma ex_foreign_describes : describes_v1 X1 ex_foreign (bs "r") 4 ex_foreign_layout.
Proof.
  eexists. eexists. split; [repeat split; reflexivity|]. split; [reflexivity|]. split; [reflexivity|].
  split; [repeat constructor|]. right. split; [reflexivity|]. eexists. split; [reflexivity|].
  repeat constructor; (eexists; split; [reflexivity|]; repeat split; try reflexivity; discriminate).
Qed.

Example ex_foreign_verifies :
  recheck_model X1 X256 2 (disk_of ex_base ex_foreign_tree) ex_foreign ex_base = Some (5%Z, 5, 5).
Proof.
  assert (Hwf : wf_node ex_foreign_tree) by (apply wf_nodeb_sound; vm_compute; reflexivity).
  apply (wf_v1_verify X1 X256 2 X1_len ex_foreign (bs "r") 4 ex_foreign_layout ex_foreign_tree _ ex_base ex_base
           (Nat.lt_0_succ 3) ex_foreign_describes).
  - apply Permutation_refl.
  - apply (holds_find_root _ ex_base ex_foreign_tree); [apply disk_of_holds; exact Hwf|reflexivity|left; reflexivity].
  - apply disk_of_holds; exact Hwf.
Qed.

End WellFormedExamples.

Print Assumptions wf_v1_verify.
Print Assumptions wf_v2_verify.
Print Assumptions wf_hybrid_verify.
Print Assumptions ref_v1_describes.
Print Assumptions ref_v2_describes.
Print Assumptions ref_hybrid_describes.
Print Assumptions ref_v1_gen_verify.
Print Assumptions ref_v1_verify.
Print Assumptions ref_v2_verify.
Print Assumptions ref_hybrid_verify.
Print Assumptions reference_metafiles_verify.
Print Assumptions own_v2_capable_well_formed.
Print Assumptions own_v2_verify_from_well_formed.
Print Assumptions extras_okb_sound.
Print Assumptions layout_size_pos.
Print Assumptions layout_size_no_pads.
Print Assumptions disk_of_child_holds.
Print Assumptions disk_of_child_find_root.
Print Assumptions WellFormedExamples.ex_ref_v2_single_without_length.
Print Assumptions WellFormedExamples.ex_ref_hybrid.
Print Assumptions WellFormedExamples.ex_foreign_verifies.
