(* C18: instances of the certified checkers on the call graph and operation lists GENERATED from
   /repo on this run (Gen/GenEffects.v). *)
From Coq Require Import List Arith Bool Lia. Import ListNotations.
From TF Require Import Lib.Base Model.Effects Proofs.EffectsProofs Gen.GenEffects.

Lemma gen_recheck_readonly : readonly_cmd call_graph direct_effects cmd_recheck = true.
Proof. vm_compute. reflexivity. Qed.
Lemma gen_info_readonly : readonly_cmd call_graph direct_effects cmd_info = true.
Proof. vm_compute. reflexivity. Qed.
Lemma gen_magnet_readonly : readonly_cmd call_graph direct_effects cmd_magnet = true.
Proof. vm_compute. reflexivity. Qed.

(* create: besides reading, only the probe (append-open + conditional remove) and the metafile write *)
Lemma gen_create_effects : only_effects [ERead; EWrite; ERemove] call_graph direct_effects cmd_create = true.
Proof. vm_compute. reflexivity. Qed.
Lemma gen_rename_effects : only_effects [ERead; ERename] call_graph direct_effects cmd_rename = true.
Proof. vm_compute. reflexivity. Qed.
(* rebuild (C14): besides reading, only mkdir and copy *)
Lemma gen_rebuild_effects : only_effects [ERead; EMkdir; ECopy] call_graph direct_effects cmd_rebuild = true.
Proof. vm_compute. reflexivity. Qed.

Lemma gen_recheck_trace_id : forall tr, within call_graph direct_effects cmd_recheck tr -> forall f, run_events tr f = f.
Proof. exact (readonly_cmd_sound _ _ _ gen_recheck_readonly). Qed.
Lemma gen_info_trace_id : forall tr, within call_graph direct_effects cmd_info tr -> forall f, run_events tr f = f.
Proof. exact (readonly_cmd_sound _ _ _ gen_info_readonly). Qed.
Lemma gen_magnet_trace_id : forall tr, within call_graph direct_effects cmd_magnet tr -> forall f, run_events tr f = f.
Proof. exact (readonly_cmd_sound _ _ _ gen_magnet_readonly). Qed.

Lemma gen_probe_neutral : forall c, probe_final probe_ops c = Some c.
Proof. intros [d|]; reflexivity. Qed.

Lemma gen_create_only_out : forall f P OUT meta f', create_fs probe_ops f P OUT meta = Some f' ->
  f' OUT = Some meta /\ forall p, p <> OUT -> f' p = f p.
Proof. exact (create_only_out probe_ops gen_probe_neutral). Qed.

Lemma gen_rename_spec : forall f T N, T <> N -> rename_spec f T N (rename_run rename_ops f T N).
Proof.
  intros f T N Hne. unfold rename_ops. cbn [rename_run].
  destruct (f T) as [t|] eqn:ET.
  - destruct (f N) as [n|] eqn:EN.
    + cbn. split; [reflexivity|]. right. rewrite EN. discriminate.
    + cbn [rename_spec apply_event]. repeat split.
      * rewrite ET. discriminate.
      * exact EN.
      * rewrite upd_other by (intro E; apply Hne; symmetry; exact E). rewrite upd_same. reflexivity.
      * apply upd_same.
      * intros p HpT HpN. rewrite upd_other by exact HpT. rewrite upd_other by exact HpN. reflexivity.
  - cbn. split; [reflexivity|]. left. exact ET.
Qed.
