(* C17 -- soundness of the checker `safe_ops` of Spec/FsOps.v:
   for EVERY operation list it accepts, all old/new byte strings, every crash point, every
   fault index and every short-write length, the metafile holds the complete old or the
   complete new bytes. *)
From Coq Require Import List Bool Arith Lia.
From TF Require Import Lib.Base Spec.FsOps.
Import ListNotations.

(* ------------------------------------------------------------------------------------ *)
(** * Machine lemmas *)

Lemma flush_noop k p s : wbuf s p = None -> flush k p s = s.
Proof. intros H. unfold flush. rewrite H. destruct (disk s p); reflexivity. Qed.

Lemma flush_disk_other k p q s :
  spath_eqb q p = false -> disk (flush k p s) q = disk s q.
Proof.
  intros H. unfold flush. destruct (disk s p), (wbuf s p); cbn; unfold upd;
  try rewrite H; reflexivity.
Qed.

Lemma flush_wbuf_other k p q s :
  spath_eqb q p = false -> wbuf (flush k p s) q = wbuf s q.
Proof.
  intros H. unfold flush. destruct (disk s p), (wbuf s p); cbn; unfold upd;
  try rewrite H; reflexivity.
Qed.

Lemma unwind_facts s s' : unwind s s' ->
  (forall p, wbuf s' p = None) /\
  (wbuf s PM = None -> disk s' PM = disk s PM) /\
  (wbuf s PT = None -> disk s' PT = disk s PT).
Proof.
  intros U. inversion U; subst; clear U. cbn [drop_all_buffers disk wbuf].
  split; [reflexivity|]. split; intros H.
  - rewrite flush_noop.
    + now rewrite !flush_disk_other.
    + now rewrite !flush_wbuf_other.
  - rewrite flush_disk_other by reflexivity.
    rewrite flush_noop.
    + now rewrite flush_disk_other.
    + now rewrite flush_wbuf_other.
Qed.

Lemma firstn_length_app {A} (pre post : list A) : firstn (length pre) (pre ++ post) = pre.
Proof. induction pre; cbn; [now destruct post | now rewrite IHpre]. Qed.

Lemma run_check_app c pre post c' :
  run_check c (pre ++ post) = Some c' ->
  exists c1, run_check c pre = Some c1 /\ run_check c1 post = Some c'.
Proof.
  revert c. induction pre as [|o pre IH]; intros c H; cbn in *.
  - eauto.
  - destruct (trans c o); [eauto | discriminate].
Qed.

Lemma trans_classified c o c' : trans c o = Some c' -> unclassified o = false.
Proof.
  destruct o as [p| |p|p|p|p|a b|a b|p|p|p| ]; try destruct p; try (destruct a; destruct b);
  cbn; intros H; try discriminate H; reflexivity.
Qed.

Lemma trans_replaced c o c' :
  trans c o = Some c' -> replaced c' = replaced c || is_commit o.
Proof.
  destruct c as [enc rep t].
  destruct o as [p| |p|p|p|p|a b|a b|p|p|p| ]; try destruct p; try (destruct a; destruct b);
  cbn; intros H; try discriminate H;
  destruct t; cbn in H; try discriminate H;
  destruct enc; cbn in H; try discriminate H;
  destruct rep; cbn in H; try discriminate H;
  inversion H; reflexivity.
Qed.

Lemma trans_encoded c o c' :
  trans c o = Some c' -> encoded c' = encoded c || is_encode o.
Proof.
  destruct c as [enc rep t].
  destruct o as [p| |p|p|p|p|a b|a b|p|p|p| ]; try destruct p; try (destruct a; destruct b);
  cbn; intros H; try discriminate H;
  destruct t; cbn in H; try discriminate H;
  destruct enc; cbn in H; try discriminate H;
  destruct rep; cbn in H; try discriminate H;
  inversion H; reflexivity.
Qed.

Lemma run_check_replaced ops : forall c c',
  run_check c ops = Some c' -> replaced c' = replaced c || existsb is_commit ops.
Proof.
  induction ops as [|o ops IH]; intros c c' H; cbn in *.
  - inversion H. now rewrite orb_false_r.
  - destruct (trans c o) as [c1|] eqn:T; [|discriminate].
    rewrite (IH _ _ H), (trans_replaced _ _ _ T). now rewrite orb_assoc.
Qed.

Lemma run_check_encoded ops : forall c c',
  run_check c ops = Some c' -> encoded c' = encoded c || existsb is_encode ops.
Proof.
  induction ops as [|o ops IH]; intros c c' H; cbn in *.
  - inversion H. now rewrite orb_false_r.
  - destruct (trans c o) as [c1|] eqn:T; [|discriminate].
    rewrite (IH _ _ H), (trans_encoded _ _ _ T). now rewrite orb_assoc.
Qed.

Lemma no_encode_no_commit ops : forall c c',
  encoded c = false -> run_check c ops = Some c' ->
  existsb is_encode ops = false -> existsb is_commit ops = false.
Proof.
  induction ops as [|o ops IH]; intros c c' E R N; [reflexivity|].
  cbn in *. apply orb_false_elim in N. destruct N as [N1 N2].
  destruct (trans c o) as [c2|] eqn:T; [|discriminate R].
  pose proof (trans_encoded _ _ _ T) as E2. rewrite E, N1 in E2.
  rewrite (IH _ _ E2 R N2), orb_false_r.
  destruct o as [p| |p|p|p|p|a b|a b|p|p|p| ]; try reflexivity;
  destruct a; destruct b; try reflexivity; cbn in T; rewrite E in T; discriminate T.
Qed.

(* ------------------------------------------------------------------------------------ *)
(** * The invariant (DESIGN.md A.7) *)

Ltac inv_ok H :=
  inversion H; subst; clear H;
  try match goal with U : unclassified _ = true |- _ => cbn in U; discriminate U end.

Section Soundness.

Variables old new : bytes.
Variable fs0 : fs.

(* "M holds old, or the Replace has been executed and M holds new" *)
Definition pm_content (c : cstate) : bytes := if replaced c then new else old.

(* "T holds a prefix of new and is complete iff Close T has been executed"; no file object
   is ever open on M; nothing at all has been touched before the Encode. *)
Definition inv (c : cstate) (s : state) : Prop :=
  disk s PM = Some (pm_content c) /\
  wbuf s PM = None /\
  (encoded c = false -> disk s PT = fs0 PT /\ wbuf s PT = None) /\
  match tst c with
  | TClosed => wbuf s PT = None
  | TOpenU => True
  | TOpen0 => disk s PT = Some [] /\ wbuf s PT = Some []
  | TOpenW => exists d b, disk s PT = Some d /\ wbuf s PT = Some b /\ d ++ b = new
  | TFull => disk s PT = Some new /\ wbuf s PT = None
  end.

Lemma pm_content_with_tst c t : pm_content (with_tst c t) = pm_content c.
Proof. reflexivity. Qed.

Lemma step_inv c o c' s s' :
  trans c o = Some c' -> inv c s -> ok_step new o s s' -> inv c' s'.
Proof.
  intros T I S. destruct I as (IM & IB & IE & IT).
  destruct o as [p| |p|p|p|p|a b|a b|p|p|p| ]; try destruct p; try (destruct a; destruct b);
  cbn in T; try discriminate T.
  - inversion T; subst c'. inv_ok S. exact (conj IM (conj IB (conj IE IT))).
  - (* Load PT *) inversion T; subst c'. inv_ok S. exact (conj IM (conj IB (conj IE IT))).
  - (* Encode *) inversion T; subst c'. inv_ok S.
    split; [exact IM|]. split; [exact IB|]. split; [intros E; discriminate E | exact IT].
  - (* OpenTrunc PT *)
    destruct (encoded c) eqn:E; [|discriminate T].
    destruct (is_closed (tst c)); [|discriminate T]. inversion T; subst c'. inv_ok S.
    split; [exact IM|]. split; [exact IB|].
    split; [cbn; rewrite E; intros X; discriminate X|]. cbn. now split.
  - (* OpenAppend PT *)
    destruct (encoded c) eqn:E; [|discriminate T].
    destruct (is_closed (tst c)); [|discriminate T]. inversion T; subst c'. inv_ok S.
    split; [exact IM|]. split; [exact IB|].
    split; [cbn; rewrite E; intros X; discriminate X|]. exact I.
  - (* WriteAll PT *)
    inv_ok S.
    match goal with H : wbuf s PT = Some _ |- _ => rename H into HB end.
    assert (EN : encoded c = true).
    { destruct (encoded c); [reflexivity|]. destruct (IE eq_refl) as [_ X]. congruence. }
    assert (PMd : disk (flush k PT (set_buffer PT (b ++ new) s)) PM = Some (pm_content c)).
    { rewrite flush_disk_other by reflexivity. exact IM. }
    assert (PMb : wbuf (flush k PT (set_buffer PT (b ++ new) s)) PM = None).
    { rewrite flush_wbuf_other by reflexivity. exact IB. }
    destruct (tst c) eqn:TS; try discriminate T; inversion T; subst c';
    (split; [exact PMd|]; split; [exact PMb|];
     split; [cbn; rewrite EN; intros X; discriminate X|]); cbn [tst with_tst]; try exact I.
    (* TOpen0 -> TOpenW *)
    destruct IT as [ID IW]. rewrite IW in HB. inversion HB; subst b.
    unfold flush. cbn. rewrite ID. cbn.
    exists (firstn k new), (skipn k new). repeat split. apply firstn_skipn.
  - (* Close PT *)
    inv_ok S.
    match goal with H : wbuf s PT = Some _ |- _ => rename H into HB end.
    assert (EN : encoded c = true).
    { destruct (encoded c); [reflexivity|]. destruct (IE eq_refl) as [_ X]. congruence. }
    assert (PMd : disk (drop_buffer PT (flush (length b) PT s)) PM = Some (pm_content c)).
    { cbn. rewrite flush_disk_other by reflexivity. exact IM. }
    assert (PMb : wbuf (drop_buffer PT (flush (length b) PT s)) PM = None).
    { cbn. rewrite flush_wbuf_other by reflexivity. exact IB. }
    destruct (tst c) eqn:TS; try discriminate T; inversion T; subst c';
    (split; [exact PMd|]; split; [exact PMb|];
     split; [cbn; rewrite EN; intros X; discriminate X|]); cbn [tst with_tst];
    try reflexivity.
    (* TOpenW -> TFull *)
    destruct IT as (d & b' & ID & IW & Enew). rewrite IW in HB. inversion HB; subst b'.
    split; [|reflexivity]. unfold flush. rewrite ID, IW. cbn.
    now rewrite firstn_all, Enew.
  - (* Replace PT PM *)
    destruct (encoded c); [|discriminate T]. destruct (replaced c); [discriminate T|].
    destruct (tst c); try discriminate T. inversion T; subst c'. inv_ok S.
    destruct IT as [ID IW]. unfold inv, pm_content, move. cbn.
    split; [exact ID|]. split; [exact IW|]. split; [intros X; discriminate X | reflexivity].
  - (* Rename PT PM *)
    destruct (encoded c); [|discriminate T]. destruct (replaced c); [discriminate T|].
    destruct (tst c); try discriminate T. inversion T; subst c'. inv_ok S.
    destruct IT as [ID IW]. unfold inv, pm_content, move. cbn.
    split; [exact ID|]. split; [exact IW|]. split; [intros X; discriminate X | reflexivity].
  - (* Remove PT *)
    destruct (encoded c) eqn:E; [|discriminate T]. inversion T; subst c'. inv_ok S.
    split; [exact IM|]. split; [exact IB|].
    split; [cbn; rewrite E; intros X; discriminate X|]. reflexivity.
  - (* RemoveIfExists PT *)
    destruct (encoded c) eqn:E; [|discriminate T]. inversion T; subst c'. inv_ok S.
    split; [exact IM|]. split; [exact IB|].
    split; [cbn; rewrite E; intros X; discriminate X|]. reflexivity.
  - (* ExistsTest PM *) inversion T; subst c'. inv_ok S. exact (conj IM (conj IB (conj IE IT))).
  - (* ExistsTest PT *) inversion T; subst c'. inv_ok S. exact (conj IM (conj IB (conj IE IT))).
Qed.

Lemma steps_inv ops : forall c c' s s',
  run_check c ops = Some c' -> inv c s -> steps new ops s s' -> inv c' s'.
Proof.
  induction ops as [|o ops IH]; intros c c' s s' R I S; inversion S; subst; clear S; cbn in R.
  - inversion R; subst. exact I.
  - destruct (trans c o) as [c1|] eqn:T; [|discriminate R].
    eapply IH; [exact R | | eassumption]. eapply step_inv; eassumption.
Qed.

(* after an exception has propagated out of main_ops *)
Definition err_inv (c : cstate) (s : state) : Prop :=
  disk s PM = Some (pm_content c) /\
  (forall p, wbuf s p = None) /\
  (encoded c = false -> disk s PT = fs0 PT).

Lemma raise_inv c o s s' :
  unclassified o = false -> inv c s -> raise_step new o s s' -> err_inv c s'.
Proof.
  intros U (IM & IB & IE & IT) R. inversion R; subst; clear R.
  - match goal with H : unwind _ _ |- _ => destruct (unwind_facts _ _ H) as (A & B & C) end.
    split; [rewrite B by exact IB; exact IM|]. split; [exact A|].
    intros E. destruct (IE E) as [E1 E2]. rewrite C by exact E2. exact E1.
  - match goal with H : unwind _ _ |- _ => destruct (unwind_facts _ _ H) as (A & B & C) end.
    match goal with H : wbuf s _ = Some _ |- _ => rename H into HB end.
    destruct p.
    + congruence.
    + split; [rewrite B by exact IB; exact IM|]. split; [exact A|].
      intros E. destruct (IE E) as [E1 E2]. congruence.
    + cbn in U. discriminate U.
  - congruence.
Qed.

Lemma torn_pm c o c' s s' :
  trans c o = Some c' -> torn_step o s s' -> disk s' PM = disk s PM.
Proof.
  intros T R. inversion R; subst; clear R.
  - destruct p; cbn in T; try discriminate T. now apply flush_disk_other.
  - rewrite (trans_classified _ _ _ T) in *. discriminate.
Qed.

(** ** clean-up operations *)

Lemma cleanup_step o s s' : cleanup_ok o = true -> ok_step new o s s' ->
  (o = ExistsTest PT /\ s' = s) \/ (o = RemoveIfExists PT /\ s' = unlink PT s).
Proof.
  destruct o as [p| |p|p|p|p|a b|a b|p|p|p| ]; try destruct p; cbn; intros C S;
  try discriminate C; inv_ok S; auto.
Qed.

Lemma cleanup_steps ops : forallb cleanup_ok ops = true -> forall s s',
  steps new ops s s' ->
  disk s' PM = disk s PM /\ wbuf s' PM = wbuf s PM /\
  (disk s' PT = disk s PT \/ disk s' PT = None) /\
  (wbuf s PT = None -> wbuf s' PT = None) /\
  (In (RemoveIfExists PT) ops -> disk s' PT = None).
Proof.
  induction ops as [|o ops IH]; intros F s s' S;
  inversion S as [|o' ops' sa s1 sb Ho Hr]; subst; clear S.
  - repeat split; auto. intros [].
  - cbn in F. apply andb_prop in F. destruct F as [Fo F].
    destruct (IH F _ _ Hr) as (A & B & C & D & E).
    destruct (cleanup_step _ _ _ Fo Ho) as [[Eo Es]|[Eo Es]]; subst.
    + repeat split; auto. intros [X|X]; [discriminate X | auto].
    + cbn in A, B, C, D. repeat split; auto.
      * destruct C as [C|C]; auto.
      * intros _. destruct C as [C|C]; [exact C | exact C].
Qed.

Lemma cleanup_raise o s s' : cleanup_ok o = true -> raise_step new o s s' -> unwind s s'.
Proof.
  intros C R.
  destruct o as [p| |p|p|p|p|a b|a b|p|p|p| ]; try destruct p; cbn in C; try discriminate C;
  inversion R; subst; clear R; try assumption;
  match goal with U : unclassified _ = true |- _ => cbn in U; discriminate U end.
Qed.

Lemma cleanup_raises ops j s s' :
  forallb cleanup_ok ops = true -> raises_at new ops j s s' -> wbuf s PM = None ->
  disk s' PM = disk s PM /\ (forall p, wbuf s' p = None) /\
  (wbuf s PT = None -> disk s' PT = disk s PT \/ disk s' PT = None).
Proof.
  intros F (pre & o & post & s1 & E & _ & S & R) WM. subst ops.
  rewrite forallb_app in F. apply andb_prop in F. destruct F as [Fpre F].
  cbn in F. apply andb_prop in F. destruct F as [Fo _].
  destruct (cleanup_steps _ Fpre _ _ S) as (A & B & C & D & _).
  destruct (unwind_facts _ _ (cleanup_raise _ _ _ Fo R)) as (U1 & U2 & U3).
  split; [rewrite U2 by congruence; exact A|]. split; [exact U1|].
  intros WT. rewrite U3 by auto. exact C.
Qed.

Lemma cleanup_killed ops s s' :
  forallb cleanup_ok ops = true -> killed_in new ops s s' -> disk s' PM = disk s PM.
Proof.
  intros F (pre & post & s1 & E & S & K). subst ops.
  rewrite forallb_app in F. apply andb_prop in F. destruct F as [Fpre F].
  destruct (cleanup_steps _ Fpre _ _ S) as (A & _).
  destruct K as [K | (o & post' & Ep & K)]; [now subst|].
  subst post. cbn in F. apply andb_prop in F. destruct F as [Fo _].
  rewrite <- A.
  destruct o as [p| |p|p|p|p|a b|a b|p|p|p| ]; try destruct p; cbn in Fo; try discriminate Fo;
  inversion K; subst;
  match goal with U : unclassified _ = true |- _ => cbn in U; discriminate U end.
Qed.

(** ** main_ops from the initial state *)

Hypothesis Hold : fs0 PM = Some old.

Lemma inv_init : inv cstate0 (init fs0).
Proof. unfold inv, pm_content; cbn. auto. Qed.

Lemma pm_content_cases c : pm_content c = old \/ pm_content c = new.
Proof. unfold pm_content. destruct (replaced c); auto. Qed.

Lemma main_completes ops cf s1 :
  run_check cstate0 ops = Some cf -> steps new ops (init fs0) s1 ->
  inv cf s1 /\ replaced cf = existsb is_commit ops.
Proof.
  intros R S. split.
  - eapply steps_inv; [exact R | exact inv_init | exact S].
  - now rewrite (run_check_replaced _ _ _ R).
Qed.

Lemma main_killed ops cf s :
  run_check cstate0 ops = Some cf -> killed_in new ops (init fs0) s ->
  disk s PM = Some old \/ disk s PM = Some new.
Proof.
  intros R (pre & post & s1 & E & S & K). subst ops.
  destruct (run_check_app _ _ _ _ R) as (c1 & R1 & R2).
  pose proof (steps_inv _ _ _ _ _ R1 inv_init S) as (IM & _).
  assert (X : disk s1 PM = Some old \/ disk s1 PM = Some new).
  { rewrite IM. destruct (pm_content_cases c1) as [->| ->]; auto. }
  destruct K as [K | (o & post' & Ep & K)]; [now subst|].
  subst post. cbn in R2. destruct (trans c1 o) as [c2|] eqn:T; [|discriminate R2].
  now rewrite (torn_pm _ _ _ _ _ T K).
Qed.

Lemma main_raises ops cf i s1 :
  run_check cstate0 ops = Some cf -> raises_at new ops i (init fs0) s1 ->
  exists c1, err_inv c1 s1 /\
             run_check cstate0 (firstn i ops) = Some c1 /\
             replaced c1 = existsb is_commit (firstn i ops) /\
             encoded c1 = existsb is_encode (firstn i ops).
Proof.
  intros R (pre & o & post & s0 & E & L & S & X). subst ops i.
  destruct (run_check_app _ _ _ _ R) as (c1 & R1 & R2).
  pose proof (steps_inv _ _ _ _ _ R1 inv_init S) as I.
  cbn in R2. destruct (trans c1 o) as [c2|] eqn:T; [|discriminate R2].
  exists c1. rewrite firstn_length_app. split; [|split; [exact R1|split]].
  - eapply raise_inv; [exact (trans_classified _ _ _ T) | exact I | exact X].
  - now rewrite (run_check_replaced _ _ _ R1).
  - now rewrite (run_check_encoded _ _ _ R1).
Qed.

Lemma safe_ops_unpack e : safe_ops e = true ->
  exists cf, run_check cstate0 (main_ops e) = Some cf /\
             forallb cleanup_ok (cleanup_ops e) = true.
Proof.
  unfold safe_ops. intros H. apply andb_prop in H. destruct H as [H1 H2].
  destruct (run_check cstate0 (main_ops e)) as [cf|]; [eauto | discriminate H1].
Qed.

(** ** The theorems, inside the section *)

Lemma crash_sound e fs' :
  safe_ops e = true -> crash_reachable new e fs0 fs' ->
  fs' PM = Some old \/ fs' PM = Some new.
Proof.
  intros SAFE C. destruct (safe_ops_unpack _ SAFE) as (cf & R & F).
  destruct C as [s K | s1 s S K | i s1 s X K].
  - eapply main_killed; eassumption.
  - destruct (main_completes _ _ _ R S) as ((IM & _) & _).
    rewrite (cleanup_killed _ _ _ F K), IM.
    destruct (pm_content_cases cf) as [->| ->]; auto.
  - destruct (main_raises _ _ _ _ R X) as (c1 & (IM & _) & _).
    rewrite (cleanup_killed _ _ _ F K), IM.
    destruct (pm_content_cases c1) as [->| ->]; auto.
Qed.

Lemma error_sound_exact e f fs' :
  safe_ops e = true -> error_outcome new e fs0 f fs' ->
  fs' PM = Some (if after_replace e f then new else old).
Proof.
  intros SAFE C. destruct (safe_ops_unpack _ SAFE) as (cf & R & F).
  unfold after_replace.
  destruct C as [i s1 s2 X S | i j s1 s2 X Y | i s1 X | j s1 s2 S Y]; cbn [completed_before].
  - destruct (main_raises _ _ _ _ R X) as (c1 & (IM & IW & _) & _ & RP & _).
    destruct (cleanup_steps _ F _ _ S) as (A & _).
    rewrite A, IM. unfold pm_content. now rewrite RP.
  - destruct (main_raises _ _ _ _ R X) as (c1 & (IM & IW & _) & _ & RP & _).
    destruct (cleanup_raises _ _ _ _ F Y (IW PM)) as (A & _).
    rewrite A, IM. unfold pm_content. now rewrite RP.
  - destruct (main_raises _ _ _ _ R X) as (c1 & (IM & IW & _) & _ & RP & _).
    rewrite IM. unfold pm_content. now rewrite RP.
  - destruct (main_completes _ _ _ R S) as ((IM & IB & _) & RP).
    destruct (cleanup_raises _ _ _ _ F Y IB) as (A & _).
    rewrite A, IM. unfold pm_content. now rewrite RP.
Qed.

Lemma encode_index_firstn ops : forall i, encode_index ops = Some i ->
  existsb is_encode (firstn i ops) = false.
Proof.
  induction ops as [|o ops IH]; intros i H; cbn in H; [discriminate H|].
  destruct (is_encode o) eqn:E.
  - inversion H; subst. reflexivity.
  - destruct (encode_index ops) as [k|]; [|discriminate H]. inversion H; subst.
    cbn. rewrite E. now apply IH.
Qed.

Lemma encode_raises_sound e i fs' :
  safe_ops e = true -> encode_index (main_ops e) = Some i ->
  error_outcome new e fs0 (InMain i) fs' ->
  fs' PM = Some old /\ (fs' PT = fs0 PT \/ fs' PT = None).
Proof.
  intros SAFE EI C. destruct (safe_ops_unpack _ SAFE) as (cf & R & F).
  pose proof (encode_index_firstn _ _ EI) as NE.
  assert (M : forall s1, raises_at new (main_ops e) i (init fs0) s1 ->
              disk s1 PM = Some old /\ (forall p, wbuf s1 p = None) /\ disk s1 PT = fs0 PT).
  { intros s1 H.
    destruct (main_raises _ _ _ _ R H) as (c1 & (IM & IW & IE) & R1 & RP & EN).
    rewrite NE in EN. split; [|split; [exact IW | exact (IE EN)]].
    rewrite IM. unfold pm_content.
    (* no Encode yet, hence no Replace yet *)
    now rewrite RP, (no_encode_no_commit _ cstate0 _ eq_refl R1 NE). }
  remember (InMain i) as f eqn:Ef.
  destruct C as [i' s1 s2 X S | i' j s1 s2 X Y | i' s1 X | j s1 s2 S Y];
  inversion Ef; subst i'; clear Ef.
  - destruct (M _ X) as (A & B & D).
    destruct (cleanup_steps _ F _ _ S) as (A' & _ & C' & _).
    split; [congruence|]. rewrite <- D. exact C'.
  - destruct (M _ X) as (A & B & D).
    destruct (cleanup_raises _ _ _ _ F Y (B PM)) as (A' & _ & C').
    split; [congruence|]. rewrite <- D. exact (C' (B PT)).
  - destruct (M _ X) as (A & B & D). auto.
Qed.

Lemma complete_sound e fs' :
  safe_ops e = true -> completes new e fs0 fs' ->
  fs' PM = Some (if existsb is_commit (main_ops e) then new else old) /\
  (In (RemoveIfExists PT) (cleanup_ops e) -> fs' PT = None).
Proof.
  intros SAFE C. destruct (safe_ops_unpack _ SAFE) as (cf & R & F).
  destruct C as [s1 s2 S1 S2].
  destruct (main_completes _ _ _ R S1) as ((IM & _) & RP).
  destruct (cleanup_steps _ F _ _ S2) as (A & _ & _ & _ & E).
  split; [|exact E]. rewrite A, IM. unfold pm_content. now rewrite RP.
Qed.

End Soundness.

(* ------------------------------------------------------------------------------------ *)
(** * Main theorems (C17) *)

(* (a) CRASH.  Whatever list the checker accepts, whatever the old and new bytes, wherever the
   process is killed -- between operations, inside a buffered write (any short length), during
   clean-up, after an error -- the metafile holds the complete old or the complete new bytes:
   never missing, never empty or truncated (unless old/new themselves are). *)
Theorem safe_ops_crash : forall (e : edit_ops) (old new : bytes),
  safe_ops e = true ->
  forall fs0, fs0 PM = Some old ->
  forall fs', crash_reachable new e fs0 fs' ->
  fs' PM = Some old \/ fs' PM = Some new.
Proof. intros e old new SAFE fs0 Hold fs' C. eapply crash_sound; eassumption. Qed.

(* (b) ERROR, exact form: after a raised error the metafile holds new if the Replace is among
   the operations completed before the fault, and old otherwise. *)
Theorem safe_ops_error_exact : forall (e : edit_ops) (old new : bytes),
  safe_ops e = true ->
  forall fs0, fs0 PM = Some old ->
  forall f fs', error_outcome new e fs0 f fs' ->
  fs' PM = Some (if after_replace e f then new else old).
Proof. intros e old new SAFE fs0 Hold f fs' C. eapply error_sound_exact; eassumption. Qed.

Theorem safe_ops_error : forall (e : edit_ops) (old new : bytes),
  safe_ops e = true ->
  forall fs0, fs0 PM = Some old ->
  forall f fs', error_outcome new e fs0 f fs' ->
  fs' PM = Some old \/ (fs' PM = Some new /\ after_replace e f = true).
Proof.
  intros e old new SAFE fs0 Hold f fs' C.
  rewrite (safe_ops_error_exact e old new SAFE fs0 Hold f fs' C).
  destruct (after_replace e f); auto.
Qed.

(* the unencodable value (D15): when the Encode raises the metafile is untouched, and the
   temporary path is untouched or removed by the clean-up *)
Theorem safe_ops_encode_raises : forall (e : edit_ops) (old new : bytes),
  safe_ops e = true ->
  forall fs0, fs0 PM = Some old ->
  forall i, encode_index (main_ops e) = Some i ->
  forall fs', error_outcome new e fs0 (InMain i) fs' ->
  fs' PM = Some old /\ (fs' PT = fs0 PT \/ fs' PT = None).
Proof. intros e old new SAFE fs0 Hold i EI fs' C. eapply encode_raises_sound; eassumption. Qed.

(* (c) NORMAL COMPLETION: an accepted list containing the Replace really installs the new
   bytes (one without it leaves the old ones), and the temporary file is gone if the
   clean-up removes it. *)
Theorem safe_ops_complete : forall (e : edit_ops) (old new : bytes),
  safe_ops e = true ->
  forall fs0, fs0 PM = Some old ->
  forall fs', completes new e fs0 fs' ->
  (existsb is_commit (main_ops e) = true -> fs' PM = Some new) /\
  (existsb is_commit (main_ops e) = false -> fs' PM = Some old) /\
  (In (RemoveIfExists PT) (cleanup_ops e) -> fs' PT = None).
Proof.
  intros e old new SAFE fs0 Hold fs' C.
  destruct (complete_sound old new fs0 Hold e fs' SAFE C) as [A B].
  split; [|split; [|exact B]]; intros E; now rewrite E in A.
Qed.

(** ** The Encode step precedes every mutating operation *)

Lemma is_encode_true o : is_encode o = true -> o = Encode.
Proof. destruct o; cbn; intros H; try discriminate H; reflexivity. Qed.

Lemma trans_before_encode c o c' :
  trans c o = Some c' -> encoded c = false -> tst c = TClosed -> is_encode o = false ->
  tst c' = TClosed /\ mutating o = false.
Proof.
  intros T E C N. destruct c as [enc rep t]. cbn in E, C. subst enc t.
  destruct o as [p| |p|p|p|p|a b|a b|p|p|p| ]; try destruct p; try (destruct a; destruct b);
  cbn in T, N; try discriminate T; try discriminate N; inversion T; subst; auto.
Qed.

Lemma encode_before_mutation ops : forall c c',
  run_check c ops = Some c' -> encoded c = false -> tst c = TClosed ->
  forall j o, nth_error ops j = Some o -> mutating o = true ->
  exists i, i < j /\ nth_error ops i = Some Encode.
Proof.
  induction ops as [|o0 ops IH]; intros c c' R E C j o N M.
  - destruct j; discriminate N.
  - cbn in R. destruct (trans c o0) as [c1|] eqn:T; [|discriminate R].
    destruct (is_encode o0) eqn:IE.
    + apply is_encode_true in IE. subst o0. destruct j as [|j].
      * cbn in N. inversion N; subst o. discriminate M.
      * exists 0. split; [lia | reflexivity].
    + destruct (trans_before_encode _ _ _ T E C IE) as [C1 M0].
      pose proof (trans_encoded _ _ _ T) as E1. rewrite E, IE in E1. cbn in E1.
      destruct j as [|j].
      * cbn in N. inversion N; subst o. congruence.
      * cbn in N. destruct (IH _ _ R E1 C1 _ _ N M) as (i & Li & Ni).
        exists (S i). split; [lia | exact Ni].
Qed.

Theorem encode_before_effects : forall e, safe_ops e = true ->
  forall j o, nth_error (main_ops e) j = Some o -> mutating o = true ->
  exists i, i < j /\ nth_error (main_ops e) i = Some Encode.
Proof.
  intros e SAFE j o N M. destruct (safe_ops_unpack e SAFE) as (cf & R & _).
  eapply encode_before_mutation; [exact R | reflexivity | reflexivity | exact N | exact M].
Qed.

(* ------------------------------------------------------------------------------------ *)
(** * The two instances *)

(* the repaired edit_torrent is accepted ... *)
Example edit_ops_fixed_accepted : safe_ops edit_ops_fixed = true.
Proof. vm_compute. reflexivity. Qed.

(* ... the semantics is not vacuous on it: it can run to completion, and then the metafile
   holds the new bytes and the temporary file is gone ... *)
Example edit_ops_fixed_completes : forall (old new : bytes) fs0, fs0 PM = Some old ->
  exists fs', completes new edit_ops_fixed fs0 fs' /\ fs' PM = Some new /\ fs' PT = None.
Proof.
  intros old new fs0 Hold. eexists. split; [|split].
  - eapply completes_intro; cbn [edit_ops_fixed main_ops cleanup_ops].
    + eapply steps_cons; [eapply ok_load; exact Hold|].
      eapply steps_cons; [apply ok_encode|].
      eapply steps_cons; [apply ok_open_trunc|].
      eapply steps_cons; [eapply ok_write with (k := 0) (b := []); reflexivity|].
      eapply steps_cons; [eapply ok_close with (b := new); reflexivity|].
      eapply steps_cons; [eapply ok_replace with (d := [] ++ firstn (length new) new); reflexivity|].
      apply steps_nil.
    + eapply steps_cons; [apply ok_exists|].
      eapply steps_cons; [apply ok_remove_if_exists|].
      apply steps_nil.
  - cbn. now rewrite firstn_all.
  - reflexivity.
Qed.

(* ... and a kill inside the buffered write is one of the behaviours covered: the temporary
   file holds an arbitrary prefix, the metafile is still the old one. *)
Example edit_ops_fixed_torn_write : forall (old new : bytes) fs0 k, fs0 PM = Some old ->
  exists fs', crash_reachable new edit_ops_fixed fs0 fs' /\
              fs' PM = Some old /\ fs' PT = Some (firstn k new).
Proof.
  intros old new fs0 k Hold. eexists. split; [|split].
  - eapply crash_in_main.
    exists [Load PM; Encode; OpenTrunc PT; WriteAll PT], [Close PT; Replace PT PM].
    eexists. split; [reflexivity|]. split; [|left; reflexivity].
    eapply steps_cons; [eapply ok_load; exact Hold|].
    eapply steps_cons; [apply ok_encode|].
    eapply steps_cons; [apply ok_open_trunc|].
    eapply steps_cons; [eapply ok_write with (k := k) (b := []); reflexivity|].
    apply steps_nil.
  - cbn. exact Hold.
  - reflexivity.
Qed.

(* The original edit_torrent (D15) is rejected, and rightly so: a kill after the Remove
   leaves NO metafile; a kill during the write leaves any truncation of the new bytes
   (k = 0: an empty file); an error raised by the open (or by an Encode placed there, as
   in the original code) leaves no metafile either. *)
Theorem unsafe_example_refuted : forall (old new : bytes) fs0, fs0 PM = Some old ->
  safe_ops edit_ops_original = false /\
  (exists fs', crash_reachable new edit_ops_original fs0 fs' /\ fs' PM = None) /\
  (forall k, exists fs', crash_reachable new edit_ops_original fs0 fs' /\
                         fs' PM = Some (firstn k new)) /\
  (exists fs', error_outcome new edit_ops_original fs0 (InMain 2) fs' /\ fs' PM = None).
Proof.
  intros old new fs0 Hold. split; [vm_compute; reflexivity|]. split; [|split].
  - eexists. split.
    + eapply crash_in_main.
      exists [Load PM; Remove PM], [OpenTrunc PM; WriteAll PM; Close PM].
      eexists. split; [reflexivity|]. split; [|left; reflexivity].
      eapply steps_cons; [eapply ok_load; exact Hold|].
      eapply steps_cons; [eapply ok_remove; exact Hold|].
      apply steps_nil.
    + reflexivity.
  - intros k. eexists. split.
    + eapply crash_in_main.
      exists [Load PM; Remove PM; OpenTrunc PM; WriteAll PM], [Close PM].
      eexists. split; [reflexivity|]. split; [|left; reflexivity].
      eapply steps_cons; [eapply ok_load; exact Hold|].
      eapply steps_cons; [eapply ok_remove; exact Hold|].
      eapply steps_cons; [apply ok_open_trunc|].
      eapply steps_cons; [eapply ok_write with (k := k) (b := []); reflexivity|].
      apply steps_nil.
    + reflexivity.
  - eexists. split.
    + eapply err_main_outside_try.
      exists [Load PM; Remove PM], (OpenTrunc PM), [WriteAll PM; Close PM].
      eexists. split; [reflexivity|]. split; [reflexivity|]. split.
      * eapply steps_cons; [eapply ok_load; exact Hold|].
        eapply steps_cons; [eapply ok_remove; exact Hold|].
        apply steps_nil.
      * apply raise_plain. apply unwind_intro with (kM := 0) (kT := 0) (kO := 0).
    + cbn [drop_all_buffers disk].
      rewrite (flush_noop 0 POther) by reflexivity.
      rewrite (flush_noop 0 PT) by reflexivity.
      rewrite (flush_noop 0 PM) by reflexivity. reflexivity.
Qed.

(* the checker on near misses of the accepted list *)
Example rejects_replace_before_close :
  safe_ops {| main_ops := [Load PM; Encode; OpenTrunc PT; WriteAll PT; Replace PT PM; Close PT];
              cleanup_ops := [] |} = false.
Proof. vm_compute. reflexivity. Qed.
Example rejects_missing_write :
  safe_ops {| main_ops := [Load PM; Encode; OpenTrunc PT; Close PT; Replace PT PM];
              cleanup_ops := [] |} = false.
Proof. vm_compute. reflexivity. Qed.
Example rejects_double_write :
  safe_ops {| main_ops := [Load PM; Encode; OpenTrunc PT; WriteAll PT; WriteAll PT; Close PT;
                           Replace PT PM]; cleanup_ops := [] |} = false.
Proof. vm_compute. reflexivity. Qed.
Example rejects_append_instead_of_trunc :
  safe_ops {| main_ops := [Load PM; Encode; OpenAppend PT; WriteAll PT; Close PT; Replace PT PM];
              cleanup_ops := [] |} = false.
Proof. vm_compute. reflexivity. Qed.
Example rejects_effect_before_encode :
  safe_ops {| main_ops := [Load PM; OpenTrunc PT; Encode; WriteAll PT; Close PT; Replace PT PM];
              cleanup_ops := [] |} = false.
Proof. vm_compute. reflexivity. Qed.
Example rejects_cleanup_touching_metafile :
  safe_ops {| main_ops := main_ops edit_ops_fixed; cleanup_ops := [RemoveIfExists PM] |} = false.
Proof. vm_compute. reflexivity. Qed.
Example rejects_unclassified :
  safe_ops {| main_ops := [Load PM; Encode; OpenTrunc POther; WriteAll POther; Close POther;
                           Replace POther PM]; cleanup_ops := [] |} = false /\
  safe_ops {| main_ops := main_ops edit_ops_fixed ++ [Unknown]; cleanup_ops := [] |} = false.
Proof. vm_compute. split; reflexivity. Qed.
Example rejects_second_replace :
  safe_ops {| main_ops := main_ops edit_ops_fixed ++ [OpenTrunc PT; WriteAll PT; Close PT;
                                                      Replace PT PM]; cleanup_ops := [] |} = false.
Proof. vm_compute. reflexivity. Qed.

Print Assumptions safe_ops_crash.
Print Assumptions safe_ops_error_exact.
Print Assumptions safe_ops_error.
Print Assumptions safe_ops_encode_raises.
Print Assumptions safe_ops_complete.
Print Assumptions encode_before_effects.
Print Assumptions edit_ops_fixed_accepted.
Print Assumptions edit_ops_fixed_completes.
Print Assumptions edit_ops_fixed_torn_write.
Print Assumptions unsafe_example_refuted.
