(* C09: the instance on the summaries GENERATED from /repo on this run (Gen/GenState.v). *)
From Coq Require Import List Arith Bool String. Import ListNotations.
From TF Require Import Model.State Proofs.NonInterference Gen.GenState.

Lemma gen_check_flows : check_flows op_summaries = true.
Proof. vm_compute. reflexivity. Qed.

Lemma gen_noninterference : forall (V X R : Type) (sem : nat -> X -> (nat -> V) -> R * (nat -> V)),
  respects V X R sem op_summaries ->
  forall h st0, Forall (fun p => fst p < List.length op_summaries) h ->
  run_history V X R sem h st0 = run_fresh V X R sem h st0.
Proof. intros V X R sem Hr. exact (noninterference V X R sem op_summaries gen_check_flows Hr). Qed.
