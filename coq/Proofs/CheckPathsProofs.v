(* Lemmas about Model/CheckPaths.v (Checker.find_root / check_paths / walk_file_tree). *)
From TF Require Import Lib.Base Lib.Lex Model.Bencode Proofs.BencodeProofs Model.CheckPaths.
From Coq Require Import String.
Local Open Scope list_scope.

Lemma bytes_eqb_refl' (a : bytes) : bytes_eqb a a = true.
Proof. induction a as [|c a IH]; cbn; [reflexivity|]. now rewrite Ascii.eqb_refl. Qed.

Lemma bytes_eqb_true (a b : bytes) : bytes_eqb a b = true -> a = b.
Proof.
  revert b; induction a as [|c a IH]; intros [|d b] E; cbn in E; try discriminate; [reflexivity|].
  apply andb_prop in E as [E1 E2]. apply Ascii.eqb_eq in E1. subst d. f_equal. now apply IH.
Qed.

Lemma bytes_eqb_false (a b : bytes) : a <> b -> bytes_eqb a b = false.
Proof.
  intros N. destruct (bytes_eqb a b) eqn:E; [|reflexivity]. now apply bytes_eqb_true in E.
Qed.

Lemma existsb_name (name : bytes) es : In name es -> existsb (bytes_eqb name) es = true.
Proof. intros I. apply existsb_exists. exists name. split; [exact I | apply bytes_eqb_refl']. Qed.

Lemma existsb_name_inv (name : bytes) es : existsb (bytes_eqb name) es = true -> In name es.
Proof. intros E. apply existsb_exists in E as (x & I & E). apply bytes_eqb_true in E. now subst x. Qed.

Section FindRoot.
  Variable exists_ : cpath -> bool.
  Variable listdir : cpath -> option (list bytes).

  (* the payload root is itself -- whatever it contains, in particular an entry named like itself *)
  Theorem find_root_payload_root : forall name path,
    exists_ path = true -> last path [] = name -> find_root exists_ listdir name path = Some path.
  Proof.
    intros name path E L. unfold find_root. rewrite E. cbn [negb]. rewrite L, bytes_eqb_refl'. reflexivity.
  Qed.

  (* a directory that is not named like the payload and lists it: the payload is the entry below it *)
  Theorem find_root_parent : forall name path es,
    exists_ path = true -> last path [] <> name -> listdir path = Some es -> In name es ->
    find_root exists_ listdir name path = Some (path ++ [name]).
  Proof.
    intros name path es E L LD I. unfold find_root. rewrite E. cbn [negb].
    rewrite (bytes_eqb_false _ _ L), LD, (existsb_name _ _ I). reflexivity.
  Qed.

  Theorem find_root_missing : forall name path, exists_ path = false -> find_root exists_ listdir name path = None.
  Proof. intros name path E. unfold find_root. now rewrite E. Qed.

  (* whenever it answers, the answer is the given path or its child called like the payload, and is named like it *)
  Theorem find_root_sound : forall name path root,
    find_root exists_ listdir name path = Some root ->
    last root [] = name /\
    ((root = path) \/ (root = path ++ [name] /\ last path [] <> name /\ exists es, listdir path = Some es /\ In name es)).
  Proof.
    intros name path root. unfold find_root.
    destruct (exists_ path); cbn [negb]; [|discriminate].
    destruct (bytes_eqb (last path []) name) eqn:E.
    - intros [= <-]. apply bytes_eqb_true in E. split; [exact E | now left].
    - destruct (listdir path) as [es|]; [|discriminate].
      destruct (existsb (bytes_eqb name) es) eqn:X; [|discriminate].
      intros [= <-]. split; [apply last_last|]. right. split; [reflexivity|]. split.
      + intros C. rewrite C, bytes_eqb_refl' in E. discriminate.
      + exists es. split; [reflexivity | now apply existsb_name_inv].
  Qed.

  (* C05: the same root through the payload root and through its parent directory -- with the guard that the
     parent is not itself named like the payload (without it: known finding D33, below) *)
  Theorem find_root_root_or_parent : forall name parent es,
    exists_ parent = true -> exists_ (parent ++ [name]) = true ->
    last parent [] <> name -> listdir parent = Some es -> In name es ->
    find_root exists_ listdir name (parent ++ [name]) = find_root exists_ listdir name parent.
  Proof.
    intros name parent es E1 E2 L LD I.
    rewrite (find_root_parent name parent es E1 L LD I).
    apply find_root_payload_root; [exact E2 | apply last_last].
  Qed.
End FindRoot.

(* D33 (known finding): a parent directory named like the payload is taken for the payload *)
Theorem find_root_named_like_payload_refuted :
  exists (exists_ : cpath -> bool) (listdir : cpath -> option (list bytes)) (name : bytes) (parent : cpath),
    exists_ parent = true /\ exists_ (parent ++ [name]) = true /\ listdir parent = Some [name] /\
    find_root exists_ listdir name (parent ++ [name]) <> find_root exists_ listdir name parent.
Proof.
  exists (fun _ => true), (fun _ => Some [["x"%char]]), ["x"%char], [["x"%char]].
  repeat split. vm_compute. discriminate.
Qed.

(* ---------------------------------------------------------------------------------------------- *)
(* check_paths                                                                                    *)
(* ---------------------------------------------------------------------------------------------- *)

Lemma sum_lengths_app a b : sum_lengths (a ++ b) = (sum_lengths a + sum_lengths b)%Z.
Proof.
  induction a as [|x a IH]; [reflexivity|].
  change (sum_lengths ((x :: a) ++ b)) with (fi_length x + sum_lengths (a ++ b))%Z.
  change (sum_lengths (x :: a)) with (fi_length x + sum_lengths a)%Z. rewrite IH. lia.
Qed.

(* the total is the sum of the recorded lengths of the listed entries, for every metafile shape *)
Theorem check_paths_total : forall info name root f fis total,
  check_paths info name root f = Some (fis, total) -> total = sum_lengths fis.
Proof.
  intros info name root f fis total. unfold check_paths.
  destruct (single_length info name f) as [[[n|s|l|d]|]|]; try discriminate.
  - destruct (Nat.ltb 1 (meta_version_of info)).
    + destruct (lookup ck_file_tree info) as [[| | |tree]|]; try discriminate.
      destruct (lookup name tree) as [[| | |sub]|]; try discriminate.
      destruct (lookup ck_empty sub) as [[| | |leaf]|]; try discriminate.
      destruct (lookup ck_pieces_root leaf) as [[|r| |]|]; try discriminate;
        intros [= <- <-]; cbn; lia.
    + intros [= <- <-]; cbn; lia.
  - destruct (Nat.eqb (meta_version_of info) 1).
    + destruct (lookup ck_files info) as [[| |items|]|]; try discriminate.
      destruct (v1_files root items); [|discriminate]. now intros [= <- <-].
    + destruct (lookup ck_file_tree info) as [[| | |tree]|]; try discriminate.
      destruct (walk_tree root [] tree); [|discriminate]. now intros [= <- <-].
Qed.

(* v1, several files: exactly one entry per listed file, in list order, at root/<path elements>, with the recorded
   length and the recorded "attr" (if any) -- nothing else is consulted.  An entry is (path elements, length, attr). *)
Definition v1_entry := (list bytes * Z * option bytes)%type.
Definition ve_path (e : v1_entry) : list bytes := fst (fst e).
Definition ve_length (e : v1_entry) : Z := snd (fst e).
Definition ve_attr (e : v1_entry) : option bytes := snd e.
Definition v1_item (e : v1_entry) : value :=
  BDict ((match ve_attr e with Some a => [(ck_attr, BStr a)] | None => [] end) ++
         [(ck_length, BInt (ve_length e)); (ck_path, BList (map BStr (ve_path e)))]).

Lemma comps_of_strs cs : comps_of (map BStr cs) = Some cs.
Proof. induction cs as [|c cs IH]; cbn; [reflexivity|]. now rewrite IH. Qed.

Theorem v1_files_exact : forall root (entries : list v1_entry),
  Forall (fun e => ve_path e <> []) entries ->
  v1_files root (map v1_item entries) =
  Some (map (fun e => mk_fi (root ++ ve_path e) (ve_length e) None (ve_attr e)) entries).
Proof.
  intros root entries F. induction F as [|[[cs n] a] entries NE F IH]; [reflexivity|].
  cbn [map v1_files]. unfold v1_item at 1, attr_of. cbn [ve_path ve_length ve_attr fst snd] in *.
  destruct a as [a|]; cbn [app lookup];
    change (bytes_eqb ck_attr ck_length) with false; change (bytes_eqb ck_attr ck_path) with false;
    change (bytes_eqb ck_attr ck_attr) with true; change (bytes_eqb ck_length ck_attr) with false;
    change (bytes_eqb ck_path ck_attr) with false;
    change (bytes_eqb ck_length ck_length) with true; change (bytes_eqb ck_length ck_path) with false;
    change (bytes_eqb ck_path ck_path) with true; cbv iota;
    rewrite comps_of_strs; (destruct cs as [|c cs]; [contradiction|]); rewrite IH; reflexivity.
Qed.

(* a padding entry is recognised by its attr alone *)
Lemma fi_padding_p path n r : fi_padding (mk_fi path n r (Some ["p"%char])) = true.
Proof. reflexivity. Qed.
Lemma fi_padding_none path n r : fi_padding (mk_fi path n r None) = false.
Proof. reflexivity. Qed.

(* D32: a specification-conformant single-file v2 metafile (no info.length; the tree is the one leaf named like
   the torrent) checked against a FILE: one entry, the root itself, with the recorded length and root hash *)
Theorem check_paths_v2_single_file_without_length : forall info name root n r,
  lookup ck_length info = None ->
  meta_version_of info = 2 ->
  lookup ck_file_tree info =
    Some (BDict [(name, BDict [(ck_empty, BDict [(ck_length, BInt n); (ck_pieces_root, BStr r)])])]) ->
  check_paths info name root true = Some ([mk_fi root n (Some r) None], n).
Proof.
  intros info name root n r L MV T. unfold check_paths, single_length. rewrite L, MV, T.
  cbn. rewrite !bytes_eqb_refl'. cbn. rewrite ?bytes_eqb_refl'. reflexivity.
Qed.

(* ... and the same metafile WITH the non-standard info.length gives the same answer *)
Theorem check_paths_v2_single_file_with_length : forall info name root n r f,
  lookup ck_length info = Some (BInt n) ->
  meta_version_of info = 2 ->
  lookup ck_file_tree info =
    Some (BDict [(name, BDict [(ck_empty, BDict [(ck_length, BInt n); (ck_pieces_root, BStr r)])])]) ->
  check_paths info name root f = Some ([mk_fi root n (Some r) None], n).
Proof.
  intros info name root n r f L MV T. unfold check_paths, single_length. rewrite L, MV, T.
  cbn. rewrite !bytes_eqb_refl'. cbn. reflexivity.
Qed.

(* every listed path lies under the root *)
Definition under (root : cpath) (fi : fileinfo) : Prop := exists rest, fi_path fi = root ++ rest.

Lemma v1_files_under root items : forall fis, v1_files root items = Some fis -> Forall (under root) fis.
Proof.
  induction items as [|it items IH]; intros fis; cbn [v1_files].
  - intros [= <-]. constructor.
  - destruct it as [| | |item]; try discriminate.
    destruct (lookup ck_length item) as [[n| | |]|]; try discriminate.
    destruct (lookup ck_path item) as [[| |p|]|]; try discriminate.
    destruct (comps_of p) as [[|c cs]|]; try discriminate.
    destruct (attr_of item) as [a|]; [|discriminate].
    destruct (v1_files root items) as [r|]; [|discriminate].
    intros [= <-]. constructor; [now exists (c :: cs) | now apply IH].
Qed.

Lemma leaf_info_path full leaf fi : leaf_info full leaf = Some fi -> fi_path fi = full.
Proof.
  unfold leaf_info. destruct leaf as [| | |l]; try discriminate.
  destruct (lookup ck_length l) as [[n| | |]|]; try discriminate.
  destruct (Z.eqb n 0); [now intros [= <-]|].
  destruct (lookup ck_pieces_root l) as [[|r| |]|]; try discriminate. now intros [= <-].
Qed.

(* the loop inside walk_val is walk_tree *)
Lemma walk_val_dict root partials key d :
  walk_val root partials key (BDict d) =
  match lookup ck_empty d with
  | Some leaf => match leaf_info (root ++ partials ++ [key]) leaf with Some fi => Some [fi] | None => None end
  | None => walk_tree root (partials ++ [key]) d
  end.
Proof.
  cbn [walk_val]. destruct (lookup ck_empty d); [reflexivity|].
  induction d as [|[k v] r IH]; [reflexivity|]. cbn [walk_tree]. rewrite <- IH. reflexivity.
Qed.

Lemma walk_val_under root : forall val partials key fis,
  walk_val root partials key val = Some fis -> Forall (under root) fis.
Proof.
  induction val as [z|s|l _|d IH] using value_ind'; intros partials key fis; try discriminate.
  rewrite walk_val_dict. destruct (lookup ck_empty d) as [leaf|].
  - destruct (leaf_info (root ++ partials ++ [key]) leaf) as [fi|] eqn:LI; [|discriminate].
    intros [= <-]. constructor; [|constructor]. exists (partials ++ [key]). now apply leaf_info_path in LI.
  - generalize (partials ++ [key]) as ps. intros ps. revert fis.
    induction IH as [|[k v] r Hv Hr IHr]; intros fis; cbn [walk_tree].
    + intros [= <-]. constructor.
    + destruct (walk_val root ps k v) as [a|] eqn:A; [|discriminate].
      destruct (walk_tree root ps r) as [b|]; [|discriminate].
      intros [= <-]. apply Forall_app. split; [exact (Hv _ _ _ A) | now apply IHr].
Qed.

Lemma walk_tree_under root partials tree : forall fis,
  walk_tree root partials tree = Some fis -> Forall (under root) fis.
Proof.
  induction tree as [|[k v] r IH]; intros fis; cbn [walk_tree].
  - intros [= <-]. constructor.
  - destruct (walk_val root partials k v) as [a|] eqn:A; [|discriminate].
    destruct (walk_tree root partials r) as [b|]; [|discriminate].
    intros [= <-]. apply Forall_app. split; [exact (walk_val_under root v _ _ _ A) | now apply IH].
Qed.

Theorem check_paths_under_root : forall info name root f fis total,
  check_paths info name root f = Some (fis, total) -> Forall (under root) fis.
Proof.
  intros info name root f fis total. unfold check_paths.
  assert (U : forall n r, Forall (under root) [mk_fi root n r None]).
  { intros n r. constructor; [|constructor]. exists []. cbn. now rewrite app_nil_r. }
  destruct (single_length info name f) as [[[n|s|l|d]|]|]; try discriminate.
  - destruct (Nat.ltb 1 (meta_version_of info)).
    + destruct (lookup ck_file_tree info) as [[| | |tree]|]; try discriminate.
      destruct (lookup name tree) as [[| | |sub]|]; try discriminate.
      destruct (lookup ck_empty sub) as [[| | |leaf]|]; try discriminate.
      destruct (lookup ck_pieces_root leaf) as [[|r| |]|]; try discriminate; intros [= <- <-]; apply U.
    + intros [= <- <-]; apply U.
  - destruct (Nat.eqb (meta_version_of info) 1).
    + destruct (lookup ck_files info) as [[| |items|]|]; try discriminate.
      destruct (v1_files root items) eqn:V; [|discriminate]. intros [= <- <-]. now apply (v1_files_under root items).
    + destruct (lookup ck_file_tree info) as [[| | |tree]|]; try discriminate.
      destruct (walk_tree root [] tree) eqn:W; [|discriminate]. intros [= <- <-].
      now apply (walk_tree_under root [] tree).
Qed.

(* ---------------------------------------------------------------------------------------------- *)
(* Examples                                                                                       *)
(* ---------------------------------------------------------------------------------------------- *)
Module CheckPathsExamples.
  Import String.
  Local Open Scope string_scope.
  Definition s (x : string) : bytes := list_ascii_of_string x.
  (* /w/p is the payload p = { a (3 bytes), d/b (empty) } ; p also contains an entry called p *)
  Definition ex_fs : fs_table :=
    [([s "w"], false, [s "p"; s "other"]); ([s "w"; s "p"], false, [s "a"; s "d"; s "p"]);
     ([s "w"; s "p"; s "p"], true, [])].
  Definition ex_exists := tbl_exists ex_fs.
  Definition ex_listdir := tbl_listdir ex_fs.
  Definition ex_info : dict :=
    [(s "file tree", BDict [(s "a", BDict [([], BDict [(s "length", BInt 3); (s "pieces root", BStr (s "R"))])]);
                            (s "d", BDict [(s "b", BDict [([], BDict [(s "length", BInt 0)])])])]);
     (s "meta version", BInt 2); (s "name", BStr (s "p")); (s "piece length", BInt 16384)].
  Example ex_root_and_parent_agree :
    find_root ex_exists ex_listdir (s "p") [s "w"; s "p"] = Some [s "w"; s "p"] /\
    find_root ex_exists ex_listdir (s "p") [s "w"] = Some [s "w"; s "p"].
  Proof. split; vm_compute; reflexivity. Qed.
  Example ex_check_paths :
    check_paths ex_info (s "p") [s "w"; s "p"] false =
      Some ([mk_fi [s "w"; s "p"; s "a"] 3 (Some (s "R")) None; mk_fi [s "w"; s "p"; s "d"; s "b"] 0 None None], 3%Z).
  Proof. vm_compute. reflexivity. Qed.
  (* v1 with a pad entry: its attr is recorded, and only it is a padding entry *)
  Definition ex_info_v1 : dict :=
    [(s "files", BList [BDict [(s "length", BInt 3); (s "path", BList [BStr (s "a")])];
                        BDict [(s "attr", BStr (s "p")); (s "length", BInt 1); (s "path", BList [BStr (s ".pad"); BStr (s "1")])]]);
     (s "name", BStr (s "p")); (s "piece length", BInt 4); (s "pieces", BStr [])].
  Example ex_check_paths_v1 :
    check_paths ex_info_v1 (s "p") [s "w"; s "p"] false =
      Some ([mk_fi [s "w"; s "p"; s "a"] 3 None None; mk_fi [s "w"; s "p"; s ".pad"; s "1"] 1 None (Some (s "p"))], 4%Z) /\
    option_map (fun r => map fi_padding (fst r)) (check_paths ex_info_v1 (s "p") [s "w"; s "p"] false) = Some [false; true].
  Proof. split; vm_compute; reflexivity. Qed.
End CheckPathsExamples.
