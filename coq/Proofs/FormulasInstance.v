(* C15: the padding length REGENERATED from TorrentFile.assemble on this run (Gen/GenFormulas.gen_align_pad) is the gap from the
   end of the file to the next piece boundary -- for every file size and every piece length. *)
From Coq Require Import ZArith Lia.
From TF Require Import Gen.GenFormulas.
Open Scope Z_scope.

(* the stable statement; the generated term is tied to it below *)
Definition gap (size pl : Z) : Z := (- size) mod pl.

Lemma gap_spec size pl : 0 <= size -> 0 < pl ->
  0 <= gap size pl < pl /\ (size + gap size pl) mod pl = 0 /\ (gap size pl = 0 <-> size mod pl = 0).
Proof.
  intros Hs Hp. unfold gap. split; [apply Z.mod_pos_bound; exact Hp|]. split.
  - rewrite Z.add_mod_idemp_r by lia. replace (size + - size) with 0 by lia. apply Z.mod_0_l. lia.
  - split; intro H.
    + rewrite <- (Z.opp_involutive size). apply Z.mod_opp_l_z; [lia | exact H].
    + apply Z.mod_opp_l_z; [lia | exact H].
Qed.

(* least such length: any p >= 0 with (size + p) mod pl = 0 is at least the gap *)
Lemma gap_least size pl p : 0 <= size -> 0 < pl -> 0 <= p -> (size + p) mod pl = 0 -> gap size pl <= p.
Proof.
  intros Hs Hp Hp0 H. destruct (gap_spec size pl Hs Hp) as [Hr [Hz _]].
  destruct (Z_le_gt_dec (gap size pl) p) as [|Hgt]; [assumption|exfalso].
  (* 0 <= p < gap < pl and both size + p and size + gap are multiples of pl: their difference, in (0, pl), would be one too *)
  assert (Hd : (gap size pl - p) mod pl = 0).
  { replace (gap size pl - p) with ((size + gap size pl) - (size + p)) by lia.
    rewrite Zminus_mod, Hz, H. reflexivity. }
  rewrite Z.mod_small in Hd by lia. lia.
Qed.

(* the gap is the ONLY length in [0, pl) that completes the file to a piece boundary *)
Lemma gap_unique size pl r : 0 <= size -> 0 < pl -> 0 <= r < pl -> (size + r) mod pl = 0 -> r = gap size pl.
Proof.
  intros Hs Hp Hr Hm. destruct (gap_spec size pl Hs Hp) as [Hg [Hz _]].
  assert (Hd : (r - gap size pl) mod pl = 0).
  { replace (r - gap size pl) with ((size + r) - (size + gap size pl)) by lia.
    rewrite Zminus_mod, Hz, Hm. reflexivity. }
  apply Z.mod_divide in Hd; [|lia]. destruct Hd as [k Hk].
  assert (k = 0) by nia. subst k. lia.
Qed.

Ltac Zify.zify_post_hook ::= Z.to_euclidean_division_equations.

(* shape-independent tie: by computation, by arithmetic, or through uniqueness of the gap *)
Lemma gen_align_pad_is_gap size pl : 0 <= size -> 0 < pl -> gen_align_pad size pl = gap size pl.
Proof.
  intros Hs Hp. unfold gen_align_pad. cbv zeta.
  first [ reflexivity
        | unfold gap; lia
        | apply gap_unique; [exact Hs | exact Hp | first [lia | nia] | first [lia | nia] ] ].
Qed.

Lemma gen_align_pad_spec size pl : 0 <= size -> 0 < pl ->
  0 <= gen_align_pad size pl < pl /\ (size + gen_align_pad size pl) mod pl = 0 /\
  (gen_align_pad size pl = 0 <-> size mod pl = 0) /\
  (forall p, 0 <= p -> (size + p) mod pl = 0 -> gen_align_pad size pl <= p).
Proof.
  intros Hs Hp. rewrite (gen_align_pad_is_gap size pl Hs Hp).
  destruct (gap_spec size pl Hs Hp) as [H1 [H2 H3]].
  split; [exact H1|]. split; [exact H2|]. split; [exact H3|].
  intros p Hp0 Hm. apply gap_least; assumption.
Qed.

Lemma gen_align_entry_shape_ok : gen_align_entry_shape = true.
Proof. reflexivity. Qed.

Example gap_ex : gap 100000 16384 = 14688 /\ gap 32768 16384 = 0 /\ gap 0 16384 = 0 /\ gap 1 16384 = 16383.
Proof. repeat split; reflexivity. Qed.
